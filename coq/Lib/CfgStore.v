(* Lib/CfgStore.v (owner: cfg) - a minimal region store: storage is a map from region ids to contents; a log of
   writes (region, new contents) is committed in order.  Writes to regions outside a set leave that set's reads
   unchanged.  Used by C20 ("the dump does not alter the live configuration") with regions = backing arrays,
   maps and pointees of the configuration. *)
From Coq Require Import List NArith Lia.
Import ListNotations.

Section Store.
  Variable A : Type.
  Definition store := N -> A.
  Definition write (st : store) (w : N * A) : store :=
    fun r => if N.eqb r (fst w) then snd w else st r.
  Definition commit (st : store) (ws : list (N * A)) : store := fold_left write ws st.

  Lemma commit_untouched : forall ws st r, ~ In r (map fst ws) -> commit st ws r = st r.
  Proof.
    induction ws as [|w ws IH]; intros st r H; cbn; [reflexivity|].
    unfold commit in IH. rewrite IH.
    - unfold write. destruct (N.eqb r (fst w)) eqn:E; [|reflexivity].
      apply N.eqb_eq in E. exfalso. apply H. left. symmetry. exact E.
    - intros Hin. apply H. right. exact Hin.
  Qed.

  (* every write at or above n0: everything below n0 reads as before, and so does any function of it *)
  Lemma commit_below : forall (n0 : N) ws st,
    Forall (fun w => (n0 <= fst w)%N) ws -> forall r, (r < n0)%N -> commit st ws r = st r.
  Proof.
    intros n0 ws st H r Hr. apply commit_untouched. intros Hin.
    apply in_map_iff in Hin. destruct Hin as [w [Hw Hin]]. rewrite Forall_forall in H. specialize (H w Hin). lia.
  Qed.

  Lemma read_below : forall (X : Type) (read : store -> X) (n0 : N),
    (forall st st', (forall r, (r < n0)%N -> st r = st' r) -> read st = read st') ->
    forall ws st, Forall (fun w => (n0 <= fst w)%N) ws -> read (commit st ws) = read st.
  Proof. intros X read n0 Hread ws st H. apply Hread. intros r Hr. apply (commit_below n0); assumption. Qed.
End Store.
