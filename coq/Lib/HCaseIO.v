(* Lib/HCaseIO.v (group h2): helpers of the correspondence shards only (never used by theorems):
   compact byte-string literals (7 bytes per primitive 63-bit integer - a 1 kB string is 147 nodes
   instead of ~12000), list comparison, mismatch collection. *)
From Coq Require Import List NArith ZArith Uint63 Bool.
Import ListNotations.
Open Scope N_scope.

Definition bytew (w : int) (k : int) : N := Z.to_N (Uint63.to_Z (Uint63.land (Uint63.lsr w k) 255%uint63)).
Definition unpack7 (w : int) : list N :=
  [bytew w 48; bytew w 40; bytew w 32; bytew w 24; bytew w 16; bytew w 8; bytew w 0]%uint63.
(* ub n ws: the first n bytes of the big-endian expansion of the words ws *)
Definition ub (n : N) (ws : list int) : list N := firstn (N.to_nat n) (flat_map unpack7 ws).

(* indices of the cases on which `check` fails *)
Fixpoint mism_from {A} (check : A -> bool) (cases : list A) (i : nat) : list nat :=
  match cases with
  | [] => []
  | c :: r => if check c then mism_from check r (S i) else i :: mism_from check r (S i)
  end.
Definition mismatches {A} (check : A -> bool) (cases : list A) : list nat := mism_from check cases O.

Fixpoint list_eqb {A} (eqb : A -> A -> bool) (a b : list A) : bool :=
  match a, b with
  | [], [] => true
  | x :: a', y :: b' => eqb x y && list_eqb eqb a' b'
  | _, _ => false
  end.
