(* Lib/HCaseIO.v (group h2): helpers of the correspondence shards only (never used by theorems):
   list comparison, mismatch collection.  The compact byte-string literals (`ub`: 7 bytes per primitive
   63-bit integer - a 1 kB string is 147 nodes instead of ~12000) are defined in the header of each shard
   (harness/cmd/h2/coqio.go ubDefs) so that no compiled library of the development depends on Uint63. *)
From Coq Require Import List NArith Bool.
Import ListNotations.
Open Scope N_scope.

(* indices of the cases on which `check` fails *)
Fixpoint mism_from {A} (check : A -> bool) (cases : list A) (i : nat) : list nat :=
  match cases with
  | [] => []
  | c :: r => if check c then mism_from check r (S i) else i :: mism_from check r (S i)
  end.
Definition mismatches {A} (check : A -> bool) (cases : list A) : list nat := mism_from check cases O.

Fixpoint list_eqb {A} (eqb : A -> A -> bool) (a b : list A) : bool :=
  match a, b with
  | [], [] => true
  | x :: a', y :: b' => eqb x y && list_eqb eqb a' b'
  | _, _ => false
  end.
