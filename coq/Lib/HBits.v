(* Lib/HBits.v (group h2): bytes as N, bit strings, Go fixed-width arithmetic, decoder outcomes.
   Only definitions and small lemmas used by the HPACK / HTTP/2 frame / flow models. *)
From Coq Require Import List NArith ZArith Lia Bool.
From Coq Require Import ZifyBool ZifyNat ZifyN.
Import ListNotations.
Open Scope N_scope.

(* ---------------------------------------------------------------- bytes *)
Definition bytes := list N.
Definition byte_ok (b : N) : Prop := b < 256.
Definition bytes_ok (l : bytes) : Prop := Forall byte_ok l.
Definition bytes_okb (l : bytes) : bool := forallb (fun b => b <? 256) l.

Definition len (l : bytes) : N := N.of_nat (length l).

Fixpoint bytes_eqb (a b : bytes) : bool :=
  match a, b with
  | [], [] => true
  | x :: a', y :: b' => (x =? y) && bytes_eqb a' b'
  | _, _ => false
  end.

(* Go unsigned fixed-width arithmetic *)
Definition u32 (x : N) : N := x mod 4294967296.
Definition u64 (x : N) : N := x mod 18446744073709551616.
Definition u32sub (a b : N) : N := u32 (a + 4294967296 - u32 b).

(* ---------------------------------------------------------------- decoder outcomes *)
(* error classes (canonicalised observables of the Go errors) *)
Inductive herr :=
| EVarint        (* hpack: varint integer overflow *)
| EIndex         (* hpack: InvalidIndexError *)
| EHuffman       (* hpack: ErrInvalidHuffman *)
| EStrLen        (* hpack: ErrStringLength *)
| ESizeUpdate    (* hpack: dynamic table size update too large / not at the start of a block *)
| EEncoding      (* hpack: invalid encoding (unreachable first-byte class) *)
| ETruncated     (* hpack: Close with buffered data *)
| EFrameSize     (* h2: FRAME_SIZE_ERROR *)
| ETooLarge      (* h2: ErrFrameTooLarge *)
| EProtocol      (* h2: connection error PROTOCOL_ERROR *)
| EStream        (* h2: stream error *)
| EFlow          (* h2: FLOW_CONTROL_ERROR *)
| ECompression   (* h2: COMPRESSION_ERROR *)
| EOther.

Definition herr_eqb (a b : herr) : bool :=
  match a, b with
  | EVarint, EVarint | EIndex, EIndex | EHuffman, EHuffman | EStrLen, EStrLen
  | ESizeUpdate, ESizeUpdate | EEncoding, EEncoding | ETruncated, ETruncated
  | EFrameSize, EFrameSize | ETooLarge, ETooLarge | EProtocol, EProtocol | EStream, EStream | EFlow, EFlow
  | ECompression, ECompression | EOther, EOther => true
  | _, _ => false
  end.

(* Ok | NeedMore | Err | Panic (a Go run-time panic: index/slice out of range) | Fuel (the model's
   recursion budget ran out - a distinct outcome that theorems exclude and prove unreachable). *)
Inductive hout (A : Type) :=
| HOk (a : A)
| HNeedMore
| HErr (e : herr)
| HPanic
| HFuel.
Arguments HOk {A} a.
Arguments HNeedMore {A}.
Arguments HErr {A} e.
Arguments HPanic {A}.
Arguments HFuel {A}.

Definition hbind {A B} (x : hout A) (f : A -> hout B) : hout B :=
  match x with
  | HOk a => f a
  | HNeedMore => HNeedMore
  | HErr e => HErr e
  | HPanic => HPanic
  | HFuel => HFuel
  end.

(* checked Go slice operations: p[:n] and p[n:] panic when n > len(p) *)
Definition slice_to (p : bytes) (n : N) : hout bytes :=
  if n <=? len p then HOk (firstn (N.to_nat n) p) else HPanic.
Definition slice_from (p : bytes) (n : N) : hout bytes :=
  if n <=? len p then HOk (skipn (N.to_nat n) p) else HPanic.
(* Go l[i] *)
Definition index_at {A} (l : list A) (i : N) : hout A :=
  match nth_error l (N.to_nat i) with Some x => HOk x | None => HPanic end.

(* ---------------------------------------------------------------- bit strings (msb first) *)
Fixpoint bits_of (nbits : nat) (v : N) : list bool :=
  match nbits with
  | O => []
  | S k => N.testbit v (N.of_nat k) :: bits_of k v
  end.

Fixpoint N_of_bits_acc (acc : N) (bs : list bool) : N :=
  match bs with
  | [] => acc
  | b :: bs' => N_of_bits_acc (2 * acc + (if b then 1 else 0)) bs'
  end.
Definition N_of_bits (bs : list bool) : N := N_of_bits_acc 0 bs.

(* pack bits into bytes, 8 per byte; a short tail is dropped (callers pad first) *)
Fixpoint pack_bits_fuel (fuel : nat) (bs : list bool) : bytes :=
  match fuel with
  | O => []
  | S f =>
    match bs with
    | b7 :: b6 :: b5 :: b4 :: b3 :: b2 :: b1 :: b0 :: rest =>
        N_of_bits [b7; b6; b5; b4; b3; b2; b1; b0] :: pack_bits_fuel f rest
    | _ => []
    end
  end.
Definition pack_bits (bs : list bool) : bytes := pack_bits_fuel (length bs) bs.

Definition byte_bits (b : N) : list bool := bits_of 8 b.
Definition unpack_bytes (l : bytes) : list bool := flat_map byte_bits l.

Fixpoint bits_eqb (a b : list bool) : bool :=
  match a, b with
  | [], [] => true
  | x :: a', y :: b' => Bool.eqb x y && bits_eqb a' b'
  | _, _ => false
  end.

Fixpoint is_prefix_b (a b : list bool) : bool :=
  match a, b with
  | [], _ => true
  | x :: a', y :: b' => Bool.eqb x y && is_prefix_b a' b'
  | _ :: _, [] => false
  end.

(* ---------------------------------------------------------------- small lemmas *)
Lemma len_app : forall a b, len (a ++ b) = len a + len b.
Proof. intros; unfold len; rewrite app_length; lia. Qed.

Lemma len_nil : len [] = 0.
Proof. reflexivity. Qed.

Lemma len_cons : forall x l, len (x :: l) = 1 + len l.
Proof. intros; unfold len; cbn [length]; lia. Qed.

Lemma bytes_eqb_eq : forall a b, bytes_eqb a b = true <-> a = b.
Proof.
  induction a as [|x a IH]; destruct b as [|y b]; cbn; split; intro H; try congruence; try discriminate.
  - apply andb_true_iff in H as [H1 H2]. apply N.eqb_eq in H1. apply IH in H2. congruence.
  - inversion H; subst. apply andb_true_iff; split; [apply N.eqb_refl | apply IH; reflexivity].
Qed.

Lemma bytes_eqb_refl : forall a, bytes_eqb a a = true.
Proof. intros; apply bytes_eqb_eq; reflexivity. Qed.

Lemma bytes_okb_ok : forall l, bytes_okb l = true <-> bytes_ok l.
Proof.
  unfold bytes_okb, bytes_ok, byte_ok; intro l; rewrite forallb_forall, Forall_forall.
  split; intros H x Hx; specialize (H x Hx); lia.
Qed.

Lemma bytes_ok_app : forall a b, bytes_ok (a ++ b) <-> bytes_ok a /\ bytes_ok b.
Proof. intros; unfold bytes_ok; apply Forall_app. Qed.

Lemma bits_eqb_eq : forall a b, bits_eqb a b = true <-> a = b.
Proof.
  induction a as [|x a IH]; destruct b as [|y b]; cbn; split; intro H; try congruence; try discriminate.
  - apply andb_true_iff in H as [H1 H2]. apply Bool.eqb_prop in H1. apply IH in H2. congruence.
  - inversion H; subst. apply andb_true_iff; split; [apply Bool.eqb_reflx | apply IH; reflexivity].
Qed.

Lemma is_prefix_b_spec : forall a b, is_prefix_b a b = true <-> exists c, b = a ++ c.
Proof.
  induction a as [|x a IH]; intros b; cbn.
  - split; [intros _; exists b; reflexivity | reflexivity].
  - destruct b as [|y b]; [split; [discriminate | intros [c Hc]; discriminate]|].
    rewrite andb_true_iff, IH. split.
    + intros [H1 [c Hc]]. apply Bool.eqb_prop in H1. subst. exists c; reflexivity.
    + intros [c Hc]. inversion Hc; subst. split; [apply Bool.eqb_reflx | exists c; reflexivity].
Qed.

Lemma length_bits_of : forall n v, length (bits_of n v) = n.
Proof. induction n; intros; cbn; [reflexivity | rewrite IHn; reflexivity]. Qed.

(* unpack (pack bs) = bs when the length is a multiple of 8 *)
Lemma byte_bits_of_bits : forall b7 b6 b5 b4 b3 b2 b1 b0,
  byte_bits (N_of_bits [b7; b6; b5; b4; b3; b2; b1; b0]) = [b7; b6; b5; b4; b3; b2; b1; b0].
Proof. destruct b7, b6, b5, b4, b3, b2, b1, b0; reflexivity. Qed.

Lemma unpack_pack_fuel : forall k fuel bs, length bs = (8 * k)%nat -> (k <= fuel)%nat ->
  unpack_bytes (pack_bits_fuel fuel bs) = bs.
Proof.
  induction k as [|k IH]; intros fuel bs Hl Hf.
  - destruct bs; [|discriminate]. destruct fuel; reflexivity.
  - destruct fuel as [|fuel]; [lia|].
    do 8 (destruct bs as [|? bs]; [cbn in Hl; lia|]).
    cbn [pack_bits_fuel]. unfold unpack_bytes. cbn [flat_map].
    rewrite byte_bits_of_bits. cbn [app]. do 8 f_equal.
    apply IH; [cbn [length] in Hl; lia | lia].
Qed.

Lemma unpack_pack : forall bs k, length bs = (8 * k)%nat -> unpack_bytes (pack_bits bs) = bs.
Proof. intros bs k H. unfold pack_bits. apply (unpack_pack_fuel k); lia. Qed.

Lemma N_of_bits8_lt : forall b7 b6 b5 b4 b3 b2 b1 b0, N_of_bits [b7; b6; b5; b4; b3; b2; b1; b0] < 256.
Proof. destruct b7, b6, b5, b4, b3, b2, b1, b0; reflexivity. Qed.

Lemma pack_bits_fuel_ok : forall fuel bs, bytes_ok (pack_bits_fuel fuel bs).
Proof.
  induction fuel as [|f IH]; intros bs; cbn; [constructor|].
  do 8 (destruct bs as [|? bs]; [constructor|]).
  constructor; [apply N_of_bits8_lt | apply IH].
Qed.

Lemma pack_bits_ok : forall bs, bytes_ok (pack_bits bs).
Proof. intros; apply pack_bits_fuel_ok. Qed.

Lemma length_pack_bits_fuel : forall k fuel bs, length bs = (8 * k)%nat -> (k <= fuel)%nat ->
  length (pack_bits_fuel fuel bs) = k.
Proof.
  induction k as [|k IH]; intros fuel bs Hl Hf.
  - destruct bs; [|discriminate]. destruct fuel; reflexivity.
  - destruct fuel as [|fuel]; [lia|].
    do 8 (destruct bs as [|? bs]; [cbn in Hl; lia|]).
    cbn [pack_bits_fuel length]. f_equal. apply IH; [cbn [length] in Hl; lia | lia].
Qed.

Lemma length_pack_bits : forall bs k, length bs = (8 * k)%nat -> length (pack_bits bs) = k.
Proof. intros bs k H. unfold pack_bits. apply length_pack_bits_fuel; lia. Qed.
