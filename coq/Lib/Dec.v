(* Lib/Dec.v (owner: codec) - decoder outcomes and checked Go operations (DESIGN Appendix A.2).

   Go behaviours that are not values are made values:
     outcome  : Ok | NeedMore | Err | Panic | OutOfFuel   (OutOfFuel = a loop that did not end within its bound;
                                                           theorems exclude it and prove it unreachable)
     trace    : the allocation requests made and the highest input offset read (exclusive upper bound)
   A decoder is a value of the writer monad  M A = outcome A * trace.

   The input of a decoder is a `view` of the connection's read buffer: the received bytes `vb`
   (Go: data.Bytes(), len = data.Len()) and the contents `vspare` of the slice's spare capacity
   (stale bytes of earlier reads).  Go checks a slice expression b[i:j] against the CAPACITY, an index
   expression b[i] against the LENGTH; the operations below panic exactly where Go does, so a decoder that
   reslices beyond the received bytes is visible as maxrd > vlen (and its result depends on vspare). *)
From Coq Require Import List NArith Lia ZifyBool ZifyNat ZifyN Bool.
From MV Require Import Lib.Bytes.
Import ListNotations.
Open Scope N_scope.

Inductive outcome (A : Type) := Ok (a : A) | NeedMore | Err (e : N) | Panic | OutOfFuel.
Arguments Ok {A} a. Arguments NeedMore {A}. Arguments Err {A} e. Arguments Panic {A}. Arguments OutOfFuel {A}.

Record trace := { allocs : list N; maxrd : N }.
Definition tr0 : trace := {| allocs := []; maxrd := 0 |}.
Definition tr_app (a b : trace) : trace :=
  {| allocs := allocs a ++ allocs b; maxrd := N.max (maxrd a) (maxrd b) |}.

Definition M (A : Type) : Type := (outcome A * trace)%type.
Definition ret {A} (a : A) : M A := (Ok a, tr0).
Definition need_more {A} : M A := (NeedMore, tr0).
Definition fail {A} (e : N) : M A := (Err e, tr0).
Definition panic {A} : M A := (Panic, tr0).
Definition out_of_fuel {A} : M A := (OutOfFuel, tr0).
Definition alloc (n : N) : M unit := (Ok tt, {| allocs := [n]; maxrd := 0 |}).
Definition bind {A B} (m : M A) (f : A -> M B) : M B :=
  match m with
  | (Ok a, t) => let '(r, t') := f a in (r, tr_app t t')
  | (NeedMore, t) => (NeedMore, t)
  | (Err e, t) => (Err e, t)
  | (Panic, t) => (Panic, t)
  | (OutOfFuel, t) => (OutOfFuel, t)
  end.
Notation "x <- m ;; k" := (bind m (fun x => k)) (at level 61, m at next level, right associativity).
Notation "m ;;; k" := (bind m (fun _ => k)) (at level 61, right associativity).

Definition res {A} (m : M A) : outcome A := fst m.
Definition tr {A} (m : M A) : trace := snd m.

(* ---- the read buffer as the decoder sees it ---------------------------------------------- *)
Record view := { vb : bytes; vspare : bytes }.
Definition vlen (v : view) : N := blen (vb v).
Definition vcap (v : view) : N := blen (vb v) + blen (vspare v).
Definition vall (v : view) : bytes := vb v ++ vspare v.
Definition view_of (b : bytes) : view := {| vb := b; vspare := [] |}.

(* Go  b[i:j]  on the input slice, and the bytes it denotes *)
Definition rd_sub (v : view) (i j : N) : M bytes :=
  if (j <? i) || (vcap v <? j) then panic
  else (Ok (sub (vall v) i j), {| allocs := []; maxrd := if i <? j then j else 0 |}).
(* Go  b[i] *)
Definition rd_idx (v : view) (i : N) : M N :=
  if vlen v <=? i then panic
  else (Ok (nth (N.to_nat i) (vb v) 0), {| allocs := []; maxrd := i + 1 |}).
(* Go  binary.BigEndian.UintK(b[i:i+k]) *)
Definition rd_be (v : view) (i k : N) : M N := s <- rd_sub v i (i + k) ;; ret (be_decw s).

(* the same on a private copy (a plain Go slice whose reads do not touch the input): len-checked *)
Definition l_sub (b : bytes) (i j : N) : option bytes :=
  if (j <? i) || (blen b <? j) then None else Some (sub b i j).

(* ---- where a decoded frame keeps its bytes ------------------------------------------------ *)
(* Private b: a fresh copy.  Alias i j: the Go slice buf[i:j] of the connection's read buffer itself. *)
Inductive fref := Private (b : bytes) | Alias (i j : N).
Definition deref (mem : bytes) (r : fref) : bytes :=
  match r with Private b => b | Alias i j => sub mem i j end.
Definition is_private (r : fref) : bool := match r with Private _ => true | Alias _ _ => false end.

(* ---- basic facts ---------------------------------------------------------------------------- *)
Lemma bind_ok {A B} (m : M A) (f : A -> M B) a t :
  m = (Ok a, t) -> bind m f = (fst (f a), tr_app t (snd (f a))).
Proof. intros ->. unfold bind. destruct (f a). reflexivity. Qed.

Lemma tr_app_0_l t : tr_app tr0 t = t.
Proof. destruct t. unfold tr_app, tr0. cbn. f_equal. lia. Qed.
Lemma tr_app_0_r t : tr_app t tr0 = t.
Proof. destruct t. unfold tr_app, tr0. cbn. rewrite app_nil_r. f_equal. lia. Qed.

Lemma bind_ret_l {A B} (a : A) (f : A -> M B) : bind (ret a) f = f a.
Proof. unfold bind, ret. destruct (f a) as [r t]. now rewrite tr_app_0_l. Qed.

Lemma rd_sub_ok v i j : i <= j -> j <= vlen v ->
  rd_sub v i j = (Ok (sub (vb v) i j), {| allocs := []; maxrd := if i <? j then j else 0 |}).
Proof.
  intros H1 H2. unfold rd_sub, vcap, vlen, vall in *.
  replace ((j <? i) || (blen (vb v) + blen (vspare v) <? j)) with false by lia.
  now rewrite sub_app by lia.
Qed.

Lemma rd_be_ok v i k : i + k <= vlen v ->
  rd_be v i k = (Ok (be_decw (sub (vb v) i (i + k))), {| allocs := []; maxrd := if i <? i + k then i + k else 0 |}).
Proof.
  intros H. unfold rd_be. rewrite rd_sub_ok by lia. unfold bind, ret. cbn. unfold tr_app. cbn. f_equal. f_equal. lia.
Qed.

Lemma rd_idx_ok v i : i < vlen v ->
  rd_idx v i = (Ok (nth (N.to_nat i) (vb v) 0), {| allocs := []; maxrd := i + 1 |}).
Proof. intros H. unfold rd_idx. now replace (vlen v <=? i) with false by lia. Qed.

(* ---- reasoning about binds ---------------------------------------------------------------------- *)
Lemma res_bind {A B} (m : M A) (f : A -> M B) :
  res (bind m f) = match res m with
                   | Ok a => res (f a) | NeedMore => NeedMore | Err e => Err e | Panic => Panic | OutOfFuel => OutOfFuel
                   end.
Proof. destruct m as [[a| | | |] t]; cbn; try reflexivity. destruct (f a). reflexivity. Qed.

(* every read stays below n and every allocation request is at most n *)
Definition bounded {A} (n : N) (m : M A) : Prop :=
  maxrd (tr m) <= n /\ Forall (fun a => a <= n) (allocs (tr m)).

Lemma bounded_ret {A} n (a : A) : bounded n (ret a).
Proof. split; cbn; [lia|constructor]. Qed.
Lemma bounded_need_more {A} n : bounded n (@need_more A).
Proof. split; cbn; [lia|constructor]. Qed.
Lemma bounded_fail {A} n e : bounded n (@fail A e).
Proof. split; cbn; [lia|constructor]. Qed.
Lemma bounded_panic {A} n : bounded n (@panic A).
Proof. split; cbn; [lia|constructor]. Qed.
Lemma bounded_oof {A} n : bounded n (@out_of_fuel A).
Proof. split; cbn; [lia|constructor]. Qed.
Lemma bounded_alloc n a : a <= n -> bounded n (alloc a).
Proof. intros H. split; cbn; [lia|]. constructor; [exact H|constructor]. Qed.

Lemma bounded_bind {A B} n (m : M A) (f : A -> M B) :
  bounded n m -> (forall a, res m = Ok a -> bounded n (f a)) -> bounded n (bind m f).
Proof.
  intros [H1 H2] Hf. destruct m as [[a| | | |] t]; cbn in *; try (split; assumption).
  specialize (Hf a eq_refl). destruct (f a) as [r t'] eqn:E. destruct Hf as [H3 H4]. cbn in *.
  split; cbn; [lia|]. apply Forall_app. split; assumption.
Qed.

Lemma rd_sub_bounded v i j n : j <= n -> bounded n (rd_sub v i j).
Proof.
  intros H. unfold rd_sub. destruct ((j <? i) || (vcap v <? j)); [apply bounded_panic|].
  split; cbn; [destruct (i <? j); lia|constructor].
Qed.
Lemma rd_be_bounded v i k n : i + k <= n -> bounded n (rd_be v i k).
Proof. intros H. unfold rd_be. apply bounded_bind; [now apply rd_sub_bounded|]. intros. apply bounded_ret. Qed.
Lemma rd_idx_bounded v i n : vlen v <= n -> bounded n (rd_idx v i).
Proof.
  intros H. unfold rd_idx. destruct (vlen v <=? i) eqn:E; [apply bounded_panic|].
  split; cbn; [lia|constructor].
Qed.

Lemma rd_be_res v i k : i + k <= vlen v -> res (rd_be v i k) = Ok (be_decw (sub (vb v) i (i + k))).
Proof. intros H. now rewrite rd_be_ok. Qed.
Lemma rd_sub_res v i j : i <= j -> j <= vlen v -> res (rd_sub v i j) = Ok (sub (vb v) i j).
Proof. intros H1 H2. now rewrite rd_sub_ok. Qed.
Lemma rd_idx_res v i : i < vlen v -> res (rd_idx v i) = Ok (nth (N.to_nat i) (vb v) 0).
Proof. intros H. now rewrite rd_idx_ok. Qed.
