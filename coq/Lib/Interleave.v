(* Lib/Interleave.v (owner: group lb) - plain executable interleaving semantics.

   A configuration is a list of thread-local states plus one shared state.  `step` performs
   ONE atomic micro-step of a thread against the shared state (sequentially consistent at the
   granularity of the micro-steps, which is what Go guarantees for sync/atomic calls).
   A schedule is a list of thread ids; entry k lets thread k perform its next micro-step
   (an id that names no thread is a stutter, and `step` itself stutters for a finished thread).
   "For every schedule" is then an induction over the schedule: `run_invariant`. *)
From Coq Require Import List Arith Lia.
Import ListNotations.

Section Interleave.
  Context {L Sh : Type}.
  Variable step : L -> Sh -> L * Sh.

  Fixpoint upd_nth (k : nat) (x : L) (l : list L) : list L :=
    match l, k with
    | [], _ => []
    | _ :: l', O => x :: l'
    | y :: l', S k' => y :: upd_nth k' x l'
    end.

  Definition sched_step (c : list L * Sh) (k : nat) : list L * Sh :=
    match nth_error (fst c) k with
    | None => c
    | Some t => let r := step t (snd c) in (upd_nth k (fst r) (fst c), snd r)
    end.

  Definition run (sched : list nat) (c : list L * Sh) : list L * Sh :=
    fold_left sched_step sched c.

  Lemma run_app : forall s1 s2 c, run (s1 ++ s2) c = run s2 (run s1 c).
  Proof. intros; unfold run; apply fold_left_app. Qed.

  (* the "every schedule" induction principle *)
  Lemma run_invariant (I : list L * Sh -> Prop) :
    (forall c k, I c -> I (sched_step c k)) ->
    forall sched c, I c -> I (run sched c).
  Proof.
    intros Hstep sched; induction sched as [|k sched IH]; intros c Hc; cbn; auto.
  Qed.

  Lemma upd_nth_length : forall k x l, length (upd_nth k x l) = length l.
  Proof. induction k; destruct l; cbn; auto. Qed.

  Lemma nth_error_upd_nth_eq : forall k x l, k < length l -> nth_error (upd_nth k x l) k = Some x.
  Proof. induction k; destruct l; cbn; intros; try lia; auto. apply IHk; lia. Qed.

  Lemma nth_error_upd_nth_neq : forall k j x l, k <> j -> nth_error (upd_nth k x l) j = nth_error l j.
  Proof.
    induction k; destruct l; destruct j; cbn; intros; try congruence; auto.
  Qed.

  (* splitting a thread list around thread k *)
  Lemma nth_error_split_upd : forall k (l : list L) t, nth_error l k = Some t ->
    exists l1 l2, l = l1 ++ t :: l2 /\ length l1 = k /\ forall x, upd_nth k x l = l1 ++ x :: l2.
  Proof.
    induction k; intros [|y l]; cbn; intros t Ht; try discriminate.
    - inversion Ht; subst. exists [], l; auto.
    - destruct (IHk _ _ Ht) as (l1 & l2 & E & Hl & Hu).
      exists (y :: l1), l2; cbn; subst; repeat split; auto.
      intros x; rewrite Hu; auto.
  Qed.

  Lemma Forall_upd_nth (P : L -> Prop) : forall k x l, Forall P l -> P x -> Forall P (upd_nth k x l).
  Proof.
    induction k; intros x [|y l] Hl Hx; cbn; auto; inversion Hl; subst; constructor; auto.
  Qed.
End Interleave.
