(* Lib/HSeg.v (group h2): segmentation independence for a STATEFUL framer (the HTTP/2 reader carries the
   HPACK table and the CONTINUATION expectation from frame to frame, so the stateless Lib/Seg.v does not apply).
   A framer is  parse : St -> list B -> Ok event n St' | Again | Dead event.
   If Ok and Dead results are stable under extension of the buffer and Ok consumes 1..length bytes, then
   feeding a byte stream in ANY chunking produces the same events, the same parser state and the same residue. *)
From Coq Require Import List Arith Lia.
Import ListNotations.

Section Seg.
  Variables (B St F : Type).

  Inductive sres :=
  | SOk (f : F) (n : nat) (s : St)
  | SAgain
  | SDead (f : F).

  Variable parse : St -> list B -> sres.

  Hypothesis ok_stable : forall s b f n s', parse s b = SOk f n s' ->
    0 < n <= length b /\ forall e, parse s (b ++ e) = SOk f n s'.
  Hypothesis dead_stable : forall s b f, parse s b = SDead f -> forall e, parse s (b ++ e) = SDead f.

  (* a consequence, not an assumption: if the longer buffer is incomplete so is the shorter one *)
  Lemma again_antimonotone : forall s b e, parse s (b ++ e) = SAgain -> parse s b = SAgain.
  Proof.
    intros s b e H. destruct (parse s b) as [f n s'| |f] eqn:E; [|reflexivity|].
    - apply ok_stable in E as [_ E]. rewrite E in H. discriminate.
    - eapply dead_stable in E. rewrite E in H. discriminate.
  Qed.

  Record cst := mkCst { cbuf : list B; cps : St; cout : list F; cdead : bool }.

  (* the read loop: parse, hand over, drain, until incomplete or dead *)
  Fixpoint drain (fuel : nat) (c : cst) : cst :=
    match fuel with
    | O => c
    | S k =>
      if cdead c then c
      else match parse (cps c) (cbuf c) with
           | SOk f n s' => drain k (mkCst (skipn n (cbuf c)) s' (cout c ++ [f]) false)
           | SAgain => c
           | SDead f => mkCst (cbuf c) (cps c) (cout c ++ [f]) true
           end
    end.

  (* one read event *)
  Definition feed (c : cst) (chunk : list B) : cst :=
    if cdead c then c
    else drain (S (length (cbuf c ++ chunk))) (mkCst (cbuf c ++ chunk) (cps c) (cout c) false).

  (* what is observable: events, liveness, and - while alive - parser state and unconsumed bytes *)
  Definition obs (c : cst) : list F * bool * option (St * list B) :=
    (cout c, cdead c, if cdead c then None else Some (cps c, cbuf c)).

  (* enough fuel: any budget above the buffer length gives the same result *)
  Lemma drain_enough : forall k1 k2 c, length (cbuf c) < k1 -> length (cbuf c) < k2 -> drain k1 c = drain k2 c.
  Proof.
    induction k1 as [|k1 IH]; intros k2 c H1 H2; [lia|].
    destruct k2 as [|k2]; [lia|]. cbn [drain].
    destruct (cdead c); [reflexivity|].
    destruct (parse (cps c) (cbuf c)) as [f n s'| |f] eqn:E; try reflexivity.
    apply ok_stable in E as [[Hn0 Hn] _].
    apply IH; cbn [cbuf]; rewrite skipn_length; lia.
  Qed.

  (* the loop ends in a quiescent state: dead, or the parser asks for more *)
  Definition quiescent (c : cst) : Prop := cdead c = true \/ parse (cps c) (cbuf c) = SAgain.

  Lemma drain_quiescent : forall k c, length (cbuf c) < k -> quiescent (drain k c).
  Proof.
    induction k as [|k IH]; intros c H; [lia|]. cbn [drain].
    destruct (cdead c) eqn:Ed; [left; exact Ed|].
    destruct (parse (cps c) (cbuf c)) as [f n s'| |f] eqn:E.
    - apply ok_stable in E as [[Hn0 Hn] _]. apply IH. cbn [cbuf]. rewrite skipn_length. lia.
    - right. exact E.
    - left. reflexivity.
  Qed.

  (* the key lemma: draining b ++ e  =  draining b first, then appending e and draining again *)
  Lemma drain_app : forall k b e ps out, length b < k ->
    let c1 := drain k (mkCst b ps out false) in
    obs (drain (S (length (b ++ e))) (mkCst (b ++ e) ps out false)) =
    obs (if cdead c1 then c1 else drain (S (length (cbuf c1 ++ e))) (mkCst (cbuf c1 ++ e) (cps c1) (cout c1) false)).
  Proof.
    induction k as [|k IH]; intros b e ps out Hk; [lia|]. cbv zeta.
    cbn [drain cdead cps cbuf cout].
    destruct (parse ps b) as [f n s'| |f] eqn:E.
    - pose proof (ok_stable _ _ _ _ _ E) as [[Hn0 Hn] Hst].
      rewrite (Hst e).
      assert (Hsk : skipn n (b ++ e) = skipn n b ++ e).
      { rewrite skipn_app. replace (n - length b) with 0 by lia. reflexivity. }
      rewrite Hsk.
      transitivity (obs (drain (S (length (skipn n b ++ e))) (mkCst (skipn n b ++ e) s' (out ++ [f]) false))).
      + f_equal. apply drain_enough; cbn [cbuf]; rewrite !app_length, skipn_length; lia.
      + apply (IH (skipn n b) e s' (out ++ [f])). rewrite skipn_length. lia.
    - cbn [cdead cbuf cps cout]. reflexivity.
    - rewrite (dead_stable _ _ _ E e). reflexivity.
  Qed.

  Lemma obs_feed_dead : forall c chunk, cdead c = true -> feed c chunk = c.
  Proof. intros c chunk H. unfold feed. rewrite H. reflexivity. Qed.

  (* feeding a then b = feeding a ++ b, from any alive state *)
  Lemma feed_app : forall c a b, cdead c = false ->
    obs (feed (feed c a) b) = obs (feed c (a ++ b)).
  Proof.
    intros c a b Hd. unfold feed at 2 3. rewrite Hd.
    rewrite app_assoc.
    pose proof (drain_app (S (length (cbuf c ++ a))) (cbuf c ++ a) b (cps c) (cout c) ltac:(lia)) as H.
    cbv zeta in H. rewrite H. clear H.
    set (c1 := drain (S (length (cbuf c ++ a))) (mkCst (cbuf c ++ a) (cps c) (cout c) false)).
    unfold feed. destruct (cdead c1); reflexivity.
  Qed.

  Lemma fold_feed_dead : forall chunks c, cdead c = true -> fold_left feed chunks c = c.
  Proof.
    induction chunks as [|a chunks IH]; intros c H; [reflexivity|].
    cbn [fold_left]. rewrite (obs_feed_dead c a H). apply IH. exact H.
  Qed.

  Lemma feed_quiescent : forall c chunk, quiescent c -> quiescent (feed c chunk).
  Proof.
    intros c chunk Hq. unfold feed. destruct (cdead c) eqn:Ed; [exact Hq|].
    apply drain_quiescent. cbn [cbuf]. lia.
  Qed.

  (* from a quiescent state (e.g. a fresh connection): any chunking of the same bytes gives the same
     events, the same liveness, the same parser state and the same unconsumed residue *)
  Theorem seg_independent : forall chunks c, quiescent c ->
    obs (fold_left feed chunks c) = obs (feed c (concat chunks)).
  Proof.
    induction chunks as [|a chunks IH]; intros c Hq.
    - cbn [fold_left concat]. unfold feed. destruct (cdead c) eqn:Ed; [reflexivity|].
      rewrite app_nil_r. destruct Hq as [Hq | Hq]; [congruence|].
      cbn [drain cdead cps cbuf]. rewrite Hq.
      unfold obs. cbn. rewrite Ed. reflexivity.
    - cbn [fold_left concat].
      rewrite (IH (feed c a) (feed_quiescent c a Hq)).
      destruct (cdead c) eqn:Ed.
      + rewrite (obs_feed_dead c a Ed). rewrite !(obs_feed_dead c _ Ed). reflexivity.
      + apply feed_app. exact Ed.
  Qed.
End Seg.

Arguments SOk {St F} f n s.
Arguments SAgain {St F}.
Arguments SDead {St F} f.
