(* Lib/GoJsonFacts.v (owner: cfg) - facts about Lib/GoJson.v: induction principles for the nested types, and
   "encoding introduces no secret": every secret leaf of encode T fuel t v is a secret leaf of v, for every table,
   type, value and amount of fuel (hooks only move / copy / drop sub-values). *)
From Coq Require Import List String Bool ZArith Lia.
From MV Require Import Lib.GoJson.
Import ListNotations.
Open Scope string_scope.

(* ------------------------------------------------------------------------------- induction principles *)
Section ValInd.
  Variable P : val -> Prop.
  Hypothesis Hleaf : forall v, match v with VStruct _ | VRef _ _ => False | _ => True end -> P v.
  Hypothesis Hstruct : forall fs, Forall P fs -> P (VStruct fs).
  Hypothesis Href : forall r es, Forall (fun kv => P (snd kv)) es -> P (VRef r es).
  Fixpoint val_ind' (v : val) : P v :=
    match v with
    | VStruct fs =>
      Hstruct fs ((fix go (l : list val) : Forall P l :=
                     match l with [] => Forall_nil _ | x :: l' => Forall_cons x (val_ind' x) (go l') end) fs)
    | VRef r es =>
      Href r es ((fix go (l : list (string * val)) : Forall (fun kv => P (snd kv)) l :=
                    match l with [] => Forall_nil _ | kv :: l' => Forall_cons kv (val_ind' (snd kv)) (go l') end) es)
    | VBool b => Hleaf (VBool b) I
    | VInt z => Hleaf (VInt z) I
    | VFloat s => Hleaf (VFloat s) I
    | VStr s => Hleaf (VStr s) I
    | VSecret s => Hleaf (VSecret s) I
    | VNil => Hleaf VNil I
    | VJson j => Hleaf (VJson j) I
    | VOpaque a b => Hleaf (VOpaque a b) I
    end.
End ValInd.

Section JsonInd.
  Variable P : json -> Prop.
  Hypothesis Hleaf : forall j, match j with JArr _ | JObj _ => False | _ => True end -> P j.
  Hypothesis Harr : forall l, Forall P l -> P (JArr l).
  Hypothesis Hobj : forall kvs, Forall (fun kv => P (snd kv)) kvs -> P (JObj kvs).
  Fixpoint json_ind' (j : json) : P j :=
    match j with
    | JArr l =>
      Harr l ((fix go (l : list json) : Forall P l :=
                 match l with [] => Forall_nil _ | x :: l' => Forall_cons x (json_ind' x) (go l') end) l)
    | JObj kvs =>
      Hobj kvs ((fix go (l : list (string * json)) : Forall (fun kv => P (snd kv)) l :=
                   match l with [] => Forall_nil _ | kv :: l' => Forall_cons kv (json_ind' (snd kv)) (go l') end) kvs)
    | JNull => Hleaf JNull I
    | JBool b => Hleaf (JBool b) I
    | JNum s => Hleaf (JNum s) I
    | JStr s => Hleaf (JStr s) I
    | JSecret s => Hleaf (JSecret s) I
    | JOpaque a b => Hleaf (JOpaque a b) I
    | JFuel l => Hleaf (JFuel l) I
    end.
End JsonInd.

(* ----------------------------------------------------------------------------------------- list facts *)
Lemma incl_flat_map_nth {A B} (f : A -> list B) (l : list A) (i : nat) (x : A) :
  nth_error l i = Some x -> incl (f x) (flat_map f l).
Proof.
  revert i; induction l as [|y l IH]; intros [|i] H; cbn in *; try discriminate.
  - inversion H; subst. apply incl_appl, incl_refl.
  - apply incl_appr. eapply IH; eauto.
Qed.

Lemma flat_map_set_nth {A B} (f : A -> list B) (l : list A) (i : nat) (x : A) :
  incl (flat_map f (set_nth i x l)) (flat_map f l ++ f x).
Proof.
  revert i; induction l as [|y l IH]; intros i.
  - destruct i; cbn; apply incl_nil_l.
  - destruct i as [|i]; cbn.
    + intros b Hb. apply in_app_or in Hb. apply in_or_app. destruct Hb as [Hb|Hb].
      * right; exact Hb.
      * left. apply in_or_app. right; exact Hb.
    + intros b Hb. apply in_app_or in Hb. destruct Hb as [Hb|Hb].
      * apply in_or_app. left. apply in_or_app. left; exact Hb.
      * apply IH in Hb. apply in_app_or in Hb. apply in_or_app. destruct Hb as [Hb|Hb].
        -- left. apply in_or_app. right; exact Hb.
        -- right; exact Hb.
Qed.

(* --------------------------------------------------------------------------------------- vget / vset *)
Lemma vget_secrets T p : forall t v t2 v2,
  vget T t v p = Some (t2, v2) -> incl (vsecrets v2) (vsecrets v).
Proof.
  induction p as [|f p IH]; intros t v t2 v2 H; cbn in H.
  - inversion H; subst. apply incl_refl.
  - destruct t; try discriminate.
    + destruct v; try discriminate.
      destruct (find_struct T n) as [sd|]; try discriminate.
      destruct (field_index (s_fields sd) f 0) as [[i fd]|]; try discriminate.
      destruct (nth_error fs i) as [v'|] eqn:En; try discriminate.
      apply IH in H. eapply incl_tran; [exact H|].
      cbn. eapply incl_flat_map_nth; eauto.
    + inversion H; subst. apply incl_refl.
Qed.

Lemma to_opaque_secrets n x : incl (vsecrets (to_opaque n x)) (vsecrets x).
Proof. destruct x; cbn; try apply incl_refl. Qed.

Lemma vset_secrets T p : forall t v x,
  incl (vsecrets (vset T t v p x)) (vsecrets v ++ vsecrets x).
Proof.
  induction p as [|f p IH]; intros t v x; cbn.
  - apply incl_appr, incl_refl.
  - destruct t; try (apply incl_appl, incl_refl).
    + destruct v; try (apply incl_appl, incl_refl).
      destruct (find_struct T n) as [sd|]; try (apply incl_appl, incl_refl).
      destruct (field_index (s_fields sd) f 0) as [[i fd]|]; try (apply incl_appl, incl_refl).
      destruct (nth_error fs i) as [v'|] eqn:En; try (apply incl_appl, incl_refl).
      cbn. eapply incl_tran; [apply flat_map_set_nth|].
      apply incl_app; [apply incl_appl, incl_refl|].
      eapply incl_tran; [apply IH|].
      apply incl_app; [|apply incl_appr, incl_refl].
      apply incl_appl. eapply (incl_flat_map_nth vsecrets); eauto.
    + apply incl_appr. apply to_opaque_secrets.
Qed.

Lemma any_of_str_secrets es :
  flat_map (fun kv : string * val => vsecrets (snd kv)) (map any_of_str es)
  = flat_map (fun kv : string * val => vsecrets (snd kv)) es.
Proof.
  induction es as [|[k x] es IH]; cbn; [reflexivity|].
  rewrite IH. destruct x; reflexivity.
Qed.

Lemma call_marshal_fn_secrets f x : incl (vsecrets (call_marshal_fn f x)) (vsecrets x).
Proof.
  unfold call_marshal_fn.
  destruct (String.eqb f "metadataToConfig").
  - destruct x; cbn; try apply incl_nil_l.
    destruct es as [|e es]; cbn; [apply incl_nil_l|].
    rewrite !app_nil_r. destruct e as [k y]; cbn.
    rewrite any_of_str_secrets. destruct y; cbn; apply incl_refl.
  - destruct (String.eqb f ".String").
    + destruct x; cbn; apply incl_nil_l.
    + destruct (String.eqb f "time.Duration"); [apply incl_refl|cbn; apply incl_nil_l].
Qed.

(* ---------------------------------------------------------------------------- compiled hooks: secrets *)
Lemma iget_secrets p : forall v x, iget p v = Some x -> incl (vsecrets x) (vsecrets v).
Proof.
  induction p as [|i p IH]; intros v x H; cbn in H.
  - inversion H; subst. apply incl_refl.
  - destruct v; try discriminate. destruct (nth_error fs i) as [y|] eqn:En; [|discriminate].
    eapply incl_tran; [eapply IH; exact H|]. cbn. eapply incl_flat_map_nth; eauto.
Qed.

Lemma iset_secrets p : forall x v, incl (vsecrets (iset p x v)) (vsecrets v ++ vsecrets x).
Proof.
  induction p as [|i p IH]; intros x v; cbn.
  - apply incl_appr, incl_refl.
  - destruct v; try (apply incl_appl, incl_refl).
    destruct (nth_error fs i) as [y|] eqn:En; [|apply incl_appl, incl_refl].
    cbn. eapply incl_tran; [apply flat_map_set_nth|].
    apply incl_app; [apply incl_appl, incl_refl|].
    eapply incl_tran; [apply IH|].
    apply incl_app; [|apply incl_appr, incl_refl].
    apply incl_appl. eapply (incl_flat_map_nth vsecrets); eauto.
Qed.

Lemma iset_secrets_from p x v w : incl (vsecrets x) (vsecrets w) -> incl (vsecrets v) (vsecrets w) ->
  incl (vsecrets (iset p x v)) (vsecrets w).
Proof. intros Hx Hv. eapply incl_tran; [apply iset_secrets|]. apply incl_app; assumption. Qed.

Lemma c_out_secrets c h : incl (vsecrets (c_out c h)) (vsecrets h).
Proof. destruct c as [[n|]|]; [apply to_opaque_secrets|apply incl_refl|apply (call_marshal_fn_secrets "metadataToConfig")]. Qed.

Lemma iget_d_secrets p v : incl (vsecrets (iget_d p v)) (vsecrets v).
Proof. unfold iget_d. destruct (iget p v) eqn:E; [eapply iget_secrets; eauto|apply incl_nil_l]. Qed.

Lemma sh_out_secrets sh v w : sh_out sh v = Some w -> incl (vsecrets w) (vsecrets v).
Proof.
  unfold sh_out. intros H. eapply incl_tran; [eapply iget_secrets; exact H|].
  generalize (sh_pairs sh). intros l.
  assert (G : forall acc, incl (vsecrets acc) (vsecrets v) ->
     incl (vsecrets (fold_left (fun acc p => let '(i, H, c) := p in
                                 match iget [H] v with Some h => iset [sh_tgt sh; i] (c_out c h) acc | None => acc end) l acc)) (vsecrets v)).
  { induction l as [|[[i Hh] c] l IH]; intros acc Ha; cbn [fold_left]; [exact Ha|].
    apply IH. destruct (iget [Hh] v) as [h|] eqn:E; [|exact Ha].
    apply iset_secrets_from; [|exact Ha].
    eapply incl_tran; [apply c_out_secrets|eapply iget_secrets; eauto]. }
  apply G. apply incl_refl.
Qed.

Lemma hook_out_secrets T sd h v t2 v2 : hook_out T sd h v = Some (t2, v2) -> incl (vsecrets v2) (vsecrets v).
Proof.
  destruct h; cbn [hook_out]; intros H; try discriminate H.
  - destruct (sh_out sh v) as [w|] eqn:E; cbn in H; [|discriminate H]. inversion H; subst. eapply sh_out_secrets; eauto.
  - unfold chain_out in H.
    assert (G : exists w, option_map (pair (field_ty sd tgt)) w = Some (t2, v2) /\
                          (forall x, w = Some x -> incl (vsecrets x) (vsecrets v))).
    { destruct (iget [ctxs] v) as [c|] eqn:Ec.
      - destruct c; try (eexists; split; [exact H|intros x Hx; exact (iget_secrets _ _ _ Hx)]).
        destruct es as [|e es]; [eexists; split; [exact H|intros x Hx; exact (iget_secrets _ _ _ Hx)]|].
        eexists; split; [exact H|]. intros x Hx. eapply incl_tran; [exact (iget_secrets _ _ _ Hx)|].
        apply iset_secrets_from; [exact (iget_secrets _ _ _ Ec)|].
        apply iset_secrets_from; [apply incl_nil_l|apply incl_refl].
      - eexists; split; [exact H|intros x Hx; exact (iget_secrets _ _ _ Hx)]. }
    destruct G as [w [Hw Hs]]. destruct w as [x|]; cbn in Hw; [|discriminate]. inversion Hw; subst. apply Hs. reflexivity.
  - unfold inline_out in H.
    assert (G : forall w, option_map (pair (field_ty sd tgt)) w = Some (t2, v2) ->
                          (forall x, w = Some x -> incl (vsecrets x) (vsecrets v)) -> incl (vsecrets v2) (vsecrets v)).
    { intros w Hw Hs. destruct w as [x|]; cbn in Hw; [|discriminate]. inversion Hw; subst. apply Hs. reflexivity. }
    destruct (iget [tgt; pathf] v) as [pv|].
    + destruct pv; try (eapply G; [exact H|intros x Hx; exact (iget_secrets _ _ _ Hx)]).
      destruct s; try (eapply G; [exact H|intros x Hx; exact (iget_secrets _ _ _ Hx)]).
      eapply G; [exact H|]. intros x Hx. eapply incl_tran; [exact (iget_secrets _ _ _ Hx)|].
      apply iset_secrets_from; [apply iget_d_secrets|apply incl_refl].
    + eapply G; [exact H|intros x Hx; exact (iget_secrets _ _ _ Hx)].
  - unfold listener_out in H.
    assert (G : forall w, option_map (pair (field_ty sd tgt)) w = Some (t2, v2) ->
                          (forall x, w = Some x -> incl (vsecrets x) (vsecrets v)) -> incl (vsecrets v2) (vsecrets v)).
    { intros w Hw Hs. destruct w as [x|]; cbn in Hw; [|discriminate]. inversion Hw; subst. apply Hs. reflexivity. }
    destruct (iget [addr] v) as [a|].
    + destruct a; try (eapply G; [exact H|intros x Hx; exact (iget_secrets _ _ _ Hx)]).
      eapply G; [exact H|]. intros x Hx. eapply incl_tran; [exact (iget_secrets _ _ _ Hx)|].
      apply iset_secrets_from; [apply incl_nil_l|apply incl_refl].
    + eapply G; [exact H|intros x Hx; exact (iget_secrets _ _ _ Hx)].
Qed.

(* ---------------------------------------------------------------------------------------------- encode *)
Lemma splice_secrets name emb j :
  flat_map (fun kv : string * json => jsecrets (snd kv)) (splice name emb j) = jsecrets j.
Proof.
  unfold splice. destruct emb; [destruct j|]; cbn; rewrite ?app_nil_r; reflexivity.
Qed.

Lemma enc_fields_secrets (enc : ty -> val -> json) :
  (forall t x, incl (jsecrets (enc t x)) (vsecrets x)) ->
  forall vs fds,
    incl (flat_map (fun kv : string * json => jsecrets (snd kv)) (enc_fields enc fds vs)) (flat_map vsecrets vs).
Proof.
  intros Henc. induction vs as [|x vs IH]; intros fds; cbn; [apply incl_nil_l|].
  destruct fds as [|fd fds]; [apply incl_nil_l|].
  destruct (f_skip fd || f_omit fd && is_empty x)%bool.
  - apply incl_appr. apply IH.
  - rewrite flat_map_app, splice_secrets.
    apply incl_app; [apply incl_appl, Henc|apply incl_appr, IH].
Qed.

Lemma flat_map_map {A B C} (f : A -> B) (g : B -> list C) l : flat_map g (map f l) = flat_map (fun x => g (f x)) l.
Proof. induction l; cbn; [reflexivity|]. now rewrite IHl. Qed.

Lemma flat_map_incl_pointwise {A C} (f g : A -> list C) l :
  (forall x, incl (f x) (g x)) -> incl (flat_map f l) (flat_map g l).
Proof.
  intros H. induction l; cbn; [apply incl_refl|].
  apply incl_app; [apply incl_appl, H|apply incl_appr, IHl].
Qed.

Lemma opaque_json_secrets n p : jsecrets (opaque_json n p) = [].
Proof. unfold opaque_json. destruct (String.eqb n "api.DurationConfig"); [destruct (string_to_Z p)|]; reflexivity. Qed.

Theorem encode_secrets T fuel : forall t v, incl (jsecrets (encode T fuel t v)) (vsecrets v).
Proof.
  induction fuel as [|fuel IH]; intros t v; [cbn; apply incl_refl|].
  assert (Hsub : forall t0 v0 t2 v2 p, vget T t0 v0 p = Some (t2, v2) ->
                 incl (vsecrets v0) (vsecrets v) -> incl (jsecrets (encode T fuel t2 v2)) (vsecrets v)).
  { intros t0 v0 t2 v2 p Hg Hi. eapply incl_tran; [apply IH|]. eapply incl_tran; [eapply vget_secrets; eauto|exact Hi]. }
  destruct t; destruct v; cbn [encode]; try apply incl_refl; try (cbn; apply incl_nil_l);
    try (rewrite opaque_json_secrets; apply incl_nil_l);
    try (destruct (String.eqb coder "text"); [cbn|rewrite opaque_json_secrets]; apply incl_nil_l).
  - (* TNamed, VStruct *)
    destruct (find_struct T n) as [sd|]; [|apply incl_refl].
    destruct (hook_compiled T sd) eqn:Eh;
      try (cbn [jsecrets]; apply enc_fields_secrets; exact IH);
      (destruct (hook_out T sd _ (VStruct fs)) as [[t2 v2]|] eqn:Eo; [|apply incl_refl];
       eapply incl_tran; [apply IH|eapply hook_out_secrets; exact Eo]).
  - (* TNamed, VJson: custom marshaler carried as JSON *)
    destruct (find_struct T n) as [sd|]; [destruct (hook_compiled T sd)|]; apply incl_refl.
  - (* TPtr, VRef *)
    destruct es as [|[k x] es]; [apply incl_refl|]. destruct es; [|apply incl_refl].
    cbn. rewrite app_nil_r. apply IH.
  - (* TSlice, VRef *)
    cbn. rewrite flat_map_map. apply flat_map_incl_pointwise. intros x. apply IH.
  - (* TMap, VRef *)
    cbn. rewrite flat_map_map. cbn. apply flat_map_incl_pointwise. intros x. apply IH.
Qed.
