(* Lib/GoJson.v (owner: cfg) - JSON AST, configuration TYPE DESCRIPTIONS, configuration VALUES and a type-directed
   model of encoding/json's Marshal for the fragment MOSN's config uses: structs with tags / omitempty /
   embedding / json:"-", pointers, slices, string-keyed maps, interface{} and RawMessage positions (carried as
   JSON), opaque leaf coders (api.DurationConfig, datasize.ByteSize, net.Addr ...) and the custom MarshalJSON hooks
   of the "shadow field" shape, which Gen/CfgTypes.v extracts from the source with go/ast.
   ONLY definitions here; facts are in Lib/GoJsonFacts.v. *)
From Coq Require Import List String Bool ZArith Ascii DecimalString.
Import ListNotations.
Open Scope string_scope.

(* ------------------------------------------------------------------------------------------------ JSON *)
(* JSecret: a string leaf that is the inline private key of a TLS context (marked by [taint], C20).
   JFuel l: the encoder ran out of fuel / met a value it has no rule for; l = every secret of the part that was
   not encoded (worst case: treated as if all of it were printed). *)
Inductive json :=
| JNull
| JBool (b : bool)
| JNum (lit : string)
| JStr (s : string)
| JSecret (s : string)
| JArr (l : list json)
| JObj (kvs : list (string * json))
| JOpaque (coder : string) (payload : string)
| JFuel (leaked : list string).

(* ----------------------------------------------------------------------------------- type descriptions *)
Inductive ty :=
| TBool | TInt | TFloat | TStr
| TNamed (n : string)            (* a struct of the table *)
| TPtr (t : ty) | TSlice (t : ty) | TMap (t : ty)   (* string-keyed maps only *)
| TAny                           (* interface{} *)
| TRaw                           (* json.RawMessage *)
| TOpaque (n : string).          (* leaf with its own coder, or a type encoding/json never sees (json:"-") *)

Record field := mkF { f_go : string; f_json : string; f_omit : bool; f_skip : bool; f_embed : bool; f_ty : ty }.

(* right-hand sides / statements of the custom marshalers (receiver-rooted selector paths, fully qualified) *)
Inductive hexpr := HPath (p : list string) | HNilE | HCall (f : string) (e : hexpr).
Definition hassign := (list string * hexpr)%type.
Inductive hstmt :=
| HAssign (l : list string) (r : hexpr)
| HIfLenPos (p : list string) (body : list hassign)
| HIfNotNil (p : list string) (body : list hassign).

Inductive mhook :=
| HkNone
| HkShadow (pre : list hstmt) (tgt : list string)                         (* pre; return json.Marshal(recv.tgt) *)
| HkDirMode (pathf : list string) (pre : list hstmt) (tgt : list string)  (* if recv.pathf == "" { pre; marshal tgt } else { write files; marshal tgt } *)
| HkPromoted (f : string)
| HkCustom.

Inductive uhook :=
| UkNone
| UkShadow (tgt : list string) (derive : list hassign) (other : nat)  (* json.Unmarshal(b, &recv.tgt); derive...; `other` statements not of assignment shape *)
| UkPromoted (f : string)
| UkCustom.

(* operations of the path-mode file naming, in evaluation order (read from the source by the translator) *)
Inductive fop := FTrunc | FReplaceSep | FAppendJson.

Record sdesc := mkS { s_name : string; s_fields : list field; s_hook : mhook; s_unhook : uhook; s_mptr : bool }.
Definition table := list sdesc.

(* ------------------------------------------------------------------------------------------------ values *)
(* VRef r es: a non-nil pointer (one element, key ""), slice (keys "") or map (keys = map keys, sorted by the
   producer); r identifies the storage (backing array / map / pointee) so that aliasing is visible. *)
Inductive val :=
| VBool (b : bool)
| VInt (z : Z)
| VFloat (lit : string)
| VStr (s : string)
| VSecret (s : string)
| VStruct (fs : list val)
| VNil
| VRef (r : N) (es : list (string * val))
| VJson (j : json)
| VOpaque (coder : string) (payload : string).

(* ---------------------------------------------------------------------------------------------- helpers *)
Fixpoint find_struct (T : table) (n : string) : option sdesc :=
  match T with
  | [] => None
  | sd :: T' => if String.eqb (s_name sd) n then Some sd else find_struct T' n
  end.

Fixpoint field_index (fs : list field) (name : string) (i : nat) : option (nat * field) :=
  match fs with
  | [] => None
  | fd :: fs' => if String.eqb (f_go fd) name then Some (i, fd) else field_index fs' name (S i)
  end.

Fixpoint set_nth {A} (i : nat) (x : A) (l : list A) : list A :=
  match l, i with
  | [], _ => []
  | _ :: l', O => x :: l'
  | y :: l', S i' => y :: set_nth i' x l'
  end.

Definition Z_to_string (z : Z) : string := NilZero.string_of_int (Z.to_int z).

Definition lower_ascii (c : ascii) : ascii :=
  let n := nat_of_ascii c in
  if (Nat.leb 65 n && Nat.leb n 90)%bool then ascii_of_nat (n + 32) else c.
Fixpoint lower (s : string) : string :=
  match s with EmptyString => EmptyString | String c s' => String (lower_ascii c) (lower s') end.
(* encoding/json matches object keys to fields case-insensitively when decoding *)
Definition key_eq (a b : string) : bool := String.eqb (lower a) (lower b).

(* every secret leaf *)
Fixpoint jsecrets (j : json) : list string :=
  match j with
  | JSecret s => [s]
  | JFuel l => l
  | JArr l => flat_map jsecrets l
  | JObj kvs => flat_map (fun kv => jsecrets (snd kv)) kvs
  | _ => []
  end.

Fixpoint vsecrets (v : val) : list string :=
  match v with
  | VSecret s => [s]
  | VStruct fs => flat_map vsecrets fs
  | VRef _ es => flat_map (fun kv => vsecrets (snd kv)) es
  | VJson j => jsecrets j
  | _ => []
  end.

(* ------------------------------------------------------------------------------- selector paths on values *)
(* A path crosses struct fields only (that is all the hooks do); a path that runs into an opaque leaf (e.g.
   x.TimeoutConfig.Duration where TimeoutConfig is an api.DurationConfig) denotes the leaf's payload. *)
Fixpoint vget (T : table) (t : ty) (v : val) (p : list string) : option (ty * val) :=
  match p with
  | [] => Some (t, v)
  | f :: p' =>
    match t, v with
    | TNamed n, VStruct vs =>
      match find_struct T n with
      | Some sd =>
        match field_index (s_fields sd) f 0 with
        | Some (i, fd) => match nth_error vs i with Some v' => vget T (f_ty fd) v' p' | None => None end
        | None => None
        end
      | None => None
      end
    | TOpaque _, _ => Some (t, v)
    | _, _ => None
    end
  end.

Definition to_opaque (n : string) (x : val) : val :=
  match x with VInt z => VOpaque n (Z_to_string z) | _ => x end.

(* vset returns the value unchanged where the path does not apply *)
Fixpoint vset (T : table) (t : ty) (v : val) (p : list string) (x : val) : val :=
  match p with
  | [] => x
  | f :: p' =>
    match t, v with
    | TNamed n, VStruct vs =>
      match find_struct T n with
      | Some sd =>
        match field_index (s_fields sd) f 0 with
        | Some (i, fd) => match nth_error vs i with
                          | Some v' => VStruct (set_nth i (vset T (f_ty fd) v' p' x) vs)
                          | None => v
                          end
        | None => v
        end
      | None => v
      end
    | TOpaque n, _ => to_opaque n x
    | _, _ => v
    end
  end.

(* functions called on the marshal side of the hooks *)
Definition any_of_str (kv : string * val) : string * val :=
  (fst kv, match snd kv with VStr s => VJson (JStr s) | VSecret s => VJson (JSecret s) | x => x end).
Definition call_marshal_fn (f : string) (x : val) : val :=
  if String.eqb f "metadataToConfig" then
    (* api.Metadata (map[string]string) -> *MetadataConfig{MetaKey: LbMeta{LbMetaKey: map[string]interface{}}}; nil when empty *)
    match x with
    | VRef r (e :: es) => VRef 0 [("", VStruct [VStruct [VRef 0 (map any_of_str (e :: es))]])]
    | _ => VNil
    end
  else if String.eqb f ".String" then
    match x with VOpaque _ s => VStr s | _ => VStr "" end
  else if String.eqb f "time.Duration" then x
  else VOpaque "call" f.

(* ---------------------------------------------------------------------------------------- omitempty *)
Definition is_empty (v : val) : bool :=
  match v with
  | VBool b => negb b
  | VInt z => Z.eqb z 0
  | VFloat s => String.eqb s "0"
  | VStr s => String.eqb s ""
  | VSecret s => String.eqb s ""
  | VNil => true
  | VRef _ [] => true          (* empty slice / map; a non-nil pointer always has one element *)
  | _ => false
  end.

(* ------------------------------------------------------------------------------------------ zero values *)
(* printed payload of the zero value of a leaf coder: api.DurationConfig is carried as nanoseconds, datasize.ByteSize as its text *)
Definition opaque_zero (n : string) : string := if String.eqb n "datasize.ByteSize" then "0B" else "0".
Definition known_coders : list string := ["api.DurationConfig"; "datasize.ByteSize"].

Fixpoint zero_val (T : table) (fuel : nat) (t : ty) : val :=
  match fuel with
  | O => VNil
  | S f =>
    match t with
    | TBool => VBool false
    | TInt => VInt 0
    | TFloat => VFloat "0"
    | TStr => VStr ""
    | TNamed n => match find_struct T n with
                  | Some sd => VStruct (map (fun fd => zero_val T f (f_ty fd)) (s_fields sd))
                  | None => VNil
                  end
    | TOpaque n => if String.prefix "iface:" n then VNil else VOpaque n (opaque_zero n)   (* a nil interface / the zero of a leaf coder *)
    | _ => VNil
    end
  end.

(* ------------------------------------------------------------------------ time.Duration.String (Go 1.18) *)
(* digits of a non-negative number, no leading zeros, "0" for zero *)
Definition N_to_string (n : N) : string := NilZero.string_of_uint (N.to_uint n).
(* fractional part: w = value, prec digits; trailing zeros (and an all-zero fraction) are dropped *)
Fixpoint frac_digits (prec : nat) (w : N) (started : bool) (acc : string) : string * N :=
  match prec with
  | O => (acc, w)
  | S p =>
    let d := N.modulo w 10 in
    let started' := (started || negb (N.eqb d 0))%bool in
    let acc' := if started' then String (ascii_of_N (48 + d)) acc else acc in
    frac_digits p (N.div w 10) started' acc'
  end.
Definition fmt_frac (w : N) (prec : nat) : string * N :=
  let '(digits, rest) := frac_digits prec w false "" in
  ((match digits with EmptyString => "" | _ => String "." digits end), rest).
Definition fmt_duration (d : Z) : string :=
  if Z.eqb d 0 then "0s" else
  let neg := Z.ltb d 0 in
  let u := Z.to_N (Z.abs d) in
  let body :=
    if N.ltb u 1000000000 then
      (* less than a second: ns, us (micro sign U+00B5 = C2 B5), ms *)
      if N.ltb u 1000 then N_to_string u ++ "ns"
      else if N.ltb u 1000000 then
        let '(f, r) := fmt_frac u 3 in N_to_string r ++ f ++ String (ascii_of_N 194) (String (ascii_of_N 181) "s")
      else let '(f, r) := fmt_frac u 6 in N_to_string r ++ f ++ "ms"
    else
      let '(f, secs) := fmt_frac u 9 in
      let s := N.modulo secs 60 in
      let mins := N.div secs 60 in
      let spart := N_to_string s ++ f ++ "s" in
      if N.eqb mins 0 then spart
      else
        let m := N.modulo mins 60 in
        let h := N.div mins 60 in
        let mpart := N_to_string m ++ "m" ++ spart in
        if N.eqb h 0 then mpart else N_to_string h ++ "h" ++ mpart in
  if neg then "-" ++ body else body.

(* ------------------------------------------------------------------------ time.ParseDuration (Go 1.18) *)
(* "[-+]?([0-9]*(\.[0-9]*)?[a-z]+)+", or "0".  Modelled over unbounded numbers: the overflow exits of ParseDuration are
   not part of the model (they cannot be taken on the output of Duration.String for an int64, whose components sum to at
   most 2^63), and the fraction `float64(f) * (float64(unit) / scale)` is modelled as the exact quotient f * unit / scale
   (on the outputs of String the scale divides the unit - at most 9, 6, 3 fraction digits for s, ms, us - so the float
   computation is exact). *)
Local Open Scope N_scope.
Definition is_digit (c : ascii) : bool := let n := N_of_ascii c in (N.leb 48 n && N.leb n 57)%bool.
Definition digit_val (c : ascii) : N := N_of_ascii c - 48.
Fixpoint pow10 (n : nat) : N := match n with O => 1 | S n' => 10 * pow10 n' end.
(* leadingInt / leadingFraction: value of the leading digits, their number, the rest *)
Fixpoint scan_digits (s : string) (acc : N) (cnt : nat) : N * nat * string :=
  match s with
  | String c s' => if is_digit c then scan_digits s' (acc * 10 + digit_val c) (S cnt) else (acc, cnt, s)
  | EmptyString => (acc, cnt, s)
  end.
(* the unit: everything up to the next '.' or digit *)
Fixpoint scan_unit (s : string) : string * string :=
  match s with
  | String c s' => if (is_digit c || Ascii.eqb c ".")%bool then (EmptyString, s)
                   else let '(u, r) := scan_unit s' in (String c u, r)
  | EmptyString => (EmptyString, EmptyString)
  end.
Definition micro_s : string := String (ascii_of_N 194) (String (ascii_of_N 181) "s").   (* U+00B5 micro sign *)
Definition mu_s : string := String (ascii_of_N 206) (String (ascii_of_N 188) "s").      (* U+03BC greek mu *)
Definition unit_ns (u : string) : option N :=
  if String.eqb u "ns" then Some 1
  else if String.eqb u "us" then Some 1000
  else if String.eqb u micro_s then Some 1000
  else if String.eqb u mu_s then Some 1000
  else if String.eqb u "ms" then Some 1000000
  else if String.eqb u "s" then Some 1000000000
  else if String.eqb u "m" then Some 60000000000
  else if String.eqb u "h" then Some 3600000000000
  else None.
Fixpoint parse_comps (fuel : nat) (s : string) (acc : N) : option N :=
  match s with
  | EmptyString => Some acc
  | _ =>
    match fuel with
    | O => None
    | S fuel' =>
      let '(v, pre, s1) := scan_digits s 0 0 in
      let '(f, post, s2) := match s1 with
                            | String c s1' => if Ascii.eqb c "." then scan_digits s1' 0 0 else (0%N, O, s1)
                            | EmptyString => (0%N, O, s1)
                            end in
      if (Nat.eqb pre O && Nat.eqb post O)%bool then None
      else
        let '(u, s3) := scan_unit s2 in
        match u with
        | EmptyString => None
        | _ => match unit_ns u with
               | None => None
               | Some m => parse_comps fuel' s3 (acc + v * m + f * m / pow10 post)
               end
        end
    end
  end.
Definition strip_sign (s : string) : bool * string :=
  match s with
  | String c r => if Ascii.eqb c "-" then (true, r) else if Ascii.eqb c "+" then (false, r) else (false, s)
  | EmptyString => (false, s)
  end.
Definition parse_duration (s : string) : option Z :=
  let '(neg, body) := strip_sign s in
  if String.eqb body "0" then Some 0%Z
  else match body with
       | EmptyString => None
       | _ => match parse_comps (String.length body) body 0 with
              | Some n => Some (if neg then (- Z.of_N n)%Z else Z.of_N n)
              | None => None
              end
       end.
Local Close Scope N_scope.

(* ------------------------------------------------------------------------ JSON string literals (the text level) *)
Local Open Scope N_scope.
Definition hex_val (c : ascii) : option N :=
  let n := N_of_ascii c in
  if (N.leb 48 n && N.leb n 57)%bool then Some (n - 48)
  else if (N.leb 65 n && N.leb n 70)%bool then Some (n - 55)
  else if (N.leb 97 n && N.leb n 102)%bool then Some (n - 87)
  else None.
(* UTF-8 of a code point of the basic plane that is not a surrogate (those come in pairs: outside this model) *)
Definition utf8 (cp : N) : option string :=
  if N.ltb cp 128 then Some (String (ascii_of_N cp) "")
  else if N.ltb cp 2048 then Some (String (ascii_of_N (192 + cp / 64)) (String (ascii_of_N (128 + cp mod 64)) ""))
  else if (N.leb 55296 cp && N.leb cp 57343)%bool then None
  else Some (String (ascii_of_N (224 + cp / 4096)) (String (ascii_of_N (128 + (cp / 64) mod 64)) (String (ascii_of_N (128 + cp mod 64)) ""))).
(* the string a JSON string literal body denotes; None: not a valid body (raw control character, raw quote, bad escape) *)
Fixpoint unescape (s : string) : option string :=
  match s with
  | EmptyString => Some EmptyString
  | String c r =>
    if Ascii.eqb c "\"%char then
      match r with
      | String e r1 =>
        let simple (x : ascii) := option_map (String x) (unescape r1) in
        if Ascii.eqb e """"%char then simple """"%char
        else if Ascii.eqb e "\"%char then simple "\"%char
        else if Ascii.eqb e "/"%char then simple "/"%char
        else if Ascii.eqb e "b"%char then simple (ascii_of_N 8)
        else if Ascii.eqb e "f"%char then simple (ascii_of_N 12)
        else if Ascii.eqb e "n"%char then simple (ascii_of_N 10)
        else if Ascii.eqb e "r"%char then simple (ascii_of_N 13)
        else if Ascii.eqb e "t"%char then simple (ascii_of_N 9)
        else if Ascii.eqb e "u"%char then
          match r1 with
          | String h1 (String h2 (String h3 (String h4 r2))) =>
            match hex_val h1, hex_val h2, hex_val h3, hex_val h4 with
            | Some a, Some b, Some c', Some d =>
              match utf8 (((a * 16 + b) * 16 + c') * 16 + d), unescape r2 with
              | Some u, Some t => Some (u ++ t)
              | _, _ => None
              end
            | _, _, _, _ => None
            end
          | _ => None
          end
        else None
      | EmptyString => None
      end
    else if (Ascii.eqb c """"%char || N.ltb (N_of_ascii c) 32)%bool then None
    else option_map (String c) (unescape r)
  end.


(* the literal body encoding/json WRITES for a string (valid UTF-8 assumed: invalid bytes would be replaced by U+FFFD):
   quote and backslash escaped, \n \r \t, the other control characters and < > & as \u00XX, U+2028 / U+2029 as \u2028 / \u2029 *)
Definition hex_char (d : N) : ascii := if N.ltb d 10 then ascii_of_N (48 + d) else ascii_of_N (87 + d).
Definition bs : ascii := ascii_of_N 92.
Definition u00 (n : N) (r : string) : string :=
  String bs (String "u" (String "0" (String "0" (String (hex_char (n / 16)) (String (hex_char (n mod 16)) r))))).
Definition esc_byte (c : ascii) (r : string) : string :=
  let n := N_of_ascii c in
  if N.eqb n 34 then String bs (String """" r)
  else if N.eqb n 92 then String bs (String bs r)
  else if N.eqb n 10 then String bs (String "n" r)
  else if N.eqb n 13 then String bs (String "r" r)
  else if N.eqb n 9 then String bs (String "t" r)
  else if (N.ltb n 32 || N.eqb n 60 || N.eqb n 62 || N.eqb n 38)%bool then u00 n r
  else String c r.
Fixpoint escape (s : string) : string :=
  match s with
  | EmptyString => EmptyString
  | String c r =>
    match r with
    | String c2 (String c3 r3) =>
      if (N.eqb (N_of_ascii c) 226 && N.eqb (N_of_ascii c2) 128 && (N.eqb (N_of_ascii c3) 168 || N.eqb (N_of_ascii c3) 169))%bool
      then String bs (String "u" (String "2" (String "0" (String "2" (String (hex_char (N_of_ascii c3 - 160)) (escape r3))))))
      else esc_byte c (escape r)
    | _ => esc_byte c (escape r)
    end
  end.
(* a textual post-processing of the encoded text: every occurrence of the six characters `pat` replaced by one character *)
Fixpoint replace_seq (fuel : nat) (pat : string) (by_ : ascii) (s : string) : string :=
  match fuel with
  | O => s
  | S f =>
    match s with
    | EmptyString => EmptyString
    | String c r => if String.prefix pat s then String by_ (replace_seq f pat by_ (substring (String.length pat) (String.length s) s))
                    else String c (replace_seq f pat by_ r)
    end
  end.
Definition readable_json (s : string) : string :=
  let rep p b t := replace_seq (String.length t) (String bs p) b t in
  rep "u0026" "&"%char (rep "u003e" ">"%char (rep "u003c" "<"%char s)).
Local Close Scope N_scope.

Definition string_to_Z (s : string) : option Z :=
  match NilZero.int_of_string s with Some i => Some (Z.of_int i) | None => None end.

(* the JSON image of an opaque leaf *)
Definition opaque_json (n : string) (payload : string) : json :=
  if String.eqb n "api.DurationConfig"
  then match string_to_Z payload with Some z => JStr (fmt_duration z) | None => JOpaque n payload end
  else JOpaque n payload.

(* functions called on the unmarshal side of the hooks *)
Definition call_unmarshal_fn (f : string) (x : val) : val :=
  if String.eqb f "configToMetadata" then
    (* *MetadataConfig -> api.Metadata: the string-valued entries of filter_metadata["mosn.lb"]; never nil *)
    match x with
    | VRef _ [(_, VStruct [VStruct [VRef _ es]])] =>
      VRef 0 (flat_map (fun kv : string * val => match snd kv with VJson (JStr s) => [(fst kv, VStr s)] | _ => [] end) es)
    | _ => VRef 0 []
    end
  else if String.eqb f "time.Duration" then x
  else if String.eqb f "uint64" then x
  else VOpaque "call" f.

(* ------------------------------------------------------------------- hooks, compiled to field indices *)
(* The (Un)MarshalJSON pairs extracted by the translator (s_hook / s_unhook, selector paths by name) are given their
   meaning through a compiled form over field INDICES:
     CShadow   marshal: for each (slot i of the embedded target, hidden field H, coder c): target.i := out_c(H);
               marshal the target.   unmarshal: parse the target; H := in_c(target.i)
     CChain    FilterChain: single tls_context <-> tls_context_set
     CInline   RouterConfiguration / ClusterManagerConfig: inline list <-> hidden list when the path field is ""
     CListener Listener: address <-> resolved address, network default
     CJson     a marshaler the model has no rule for: the value is carried as the JSON it prints *)
Fixpoint iget (p : list nat) (v : val) : option val :=
  match p with
  | [] => Some v
  | i :: p' => match v with
               | VStruct vs => match nth_error vs i with Some x => iget p' x | None => None end
               | _ => None
               end
  end.
Fixpoint iset (p : list nat) (x : val) (v : val) : val :=
  match p with
  | [] => x
  | i :: p' => match v with
               | VStruct vs => match nth_error vs i with
                               | Some y => VStruct (set_nth i (iset p' x y) vs)
                               | None => v
                               end
               | _ => v
               end
  end.
Definition iget_d (p : list nat) (v : val) : val := match iget p v with Some x => x | None => VNil end.

Inductive coder := CId (opaque : option string) | CMeta.
Definition c_out (c : coder) (h : val) : val :=
  match c with
  | CId (Some n) => to_opaque n h
  | CId None => h
  | CMeta => call_marshal_fn "metadataToConfig" h
  end.
Definition c_in (c : coder) (x : val) : val :=
  match c with
  | CId _ => x
  | CMeta => call_unmarshal_fn "configToMetadata" x
  end.

Record shadow := mkSh { sh_tgt : nat; sh_pairs : list (nat * nat * coder) }.   (* (slot in target, hidden field, coder) *)

Inductive chook :=
| CNone
| CShadow (sh : shadow)
| CChain (tgt ctxs single set : nat)
| CInline (tgt hidden pathf inlf : nat)
| CListener (tgt addr addrcfg network perconn : nat)
| CJson
| CBad.

Definition sh_out (sh : shadow) (v : val) : option val :=
  iget [sh_tgt sh]
       (fold_left (fun acc p => let '(i, H, c) := p in
                                match iget [H] v with Some h => iset [sh_tgt sh; i] (c_out c h) acc | None => acc end)
                  (sh_pairs sh) v).
Definition sh_in (sh : shadow) (z sub : val) : val :=
  let v0 := iset [sh_tgt sh] sub z in
  fold_left (fun acc p => let '(i, H, c) := p in
                          match iget [i] sub with Some x => iset [H] (c_in c x) acc | None => acc end)
            (sh_pairs sh) v0.

Definition chain_out (tgt ctxs single set : nat) (v : val) : option val :=
  match iget [ctxs] v with
  | Some (VRef r (e :: es)) => iget [tgt] (iset [tgt; set] (VRef r (e :: es)) (iset [tgt; single] VNil v))
  | _ => iget [tgt] v
  end.
Definition chain_in (tgt ctxs single set : nat) (zctx : val) (z sub : val) : option val :=
  let v0 := iset [tgt] sub z in
  match iget [set] sub with
  | Some (VRef _ (e :: es)) =>
    match iget [single] sub with
    | Some (VRef _ _) => None                                      (* ErrDuplicateTLSConfig *)
    | _ => Some (iset [ctxs] (VRef 0 (e :: es)) v0)
    end
  | _ =>
    match iget [single] sub with
    | Some (VRef _ [(_, p)]) => Some (iset [ctxs] (VRef 0 [("", p)]) v0)
    | _ => Some (iset [ctxs] (VRef 0 [("", zctx)]) v0)
    end
  end.

Definition inline_out (tgt hidden pathf inlf : nat) (v : val) : option val :=
  match iget [tgt; pathf] v with
  | Some (VStr "") => iget [tgt] (iset [tgt; inlf] (iget_d [hidden] v) v)
  | _ => iget [tgt] v                                              (* path mode: items go to files *)
  end.
Definition inline_in (tgt hidden pathf inlf : nat) (z sub : val) : option val :=
  match iget [pathf] sub with
  | Some (VStr "") =>
    match iget [inlf] sub with
    | Some (VRef r (e :: es)) => Some (iset [hidden] (VRef r (e :: es)) (iset [tgt] sub z))
    | _ => Some (iset [tgt] sub z)
    end
  | _ => None                                                      (* path mode (reads the directory): not modelled here *)
  end.

Definition listener_out (tgt addr addrcfg : nat) (v : val) : option val :=
  match iget [addr] v with
  | Some (VOpaque _ s) => iget [tgt] (iset [tgt; addrcfg] (VStr s) v)
  | _ => iget [tgt] v
  end.
Definition listener_in (tgt addr addrcfg network perconn : nat) (z sub : val) : option val :=
  match iget [addrcfg] sub, iget [network] sub with
  | Some (VStr a), Some (VStr nw) =>
    if String.eqb a "" then None                                   (* ErrNoAddrListener *)
    else
      let nw' := lower (if String.eqb nw "" then "tcp" else nw) in
      if (String.eqb nw' "tcp" || String.eqb nw' "udp" || String.eqb nw' "unix")%bool then
        (* the address is assumed to be in resolved form: Resolve*Addr(a).String() = a *)
        Some (iset [perconn] (VInt 32768) (iset [addr] (VOpaque "net.Addr" a) (iset [tgt] (iset [network] (VStr nw') sub) z)))
      else None                                                    (* ErrUnsupportNetwork *)
  | _, _ => None
  end.

(* e = HPath p  or  HCall f (HPath p) *)
Definition simple_rhs (e : hexpr) : option (option string * list string) :=
  match e with
  | HPath p => Some (None, p)
  | HCall f (HPath p) => Some (Some f, p)
  | _ => None
  end.

Definition fidx (fs : list field) (name : string) : option nat :=
  match field_index fs name 0 with Some (i, _) => Some i | None => None end.
Definition struct_of_ty (T : table) (t : ty) : option sdesc :=
  match t with TNamed n => find_struct T n | _ => None end.
Definition field_ty (sd : sdesc) (i : nat) : ty :=
  match nth_error (s_fields sd) i with Some fd => f_ty fd | None => TOpaque "missing" end.

Definition compile_pair (T : table) (sd : sdesc) (xname : string) (tfields : list field) (s : hstmt) : option (nat * nat * coder) :=
  match s with
  | HAssign (x :: slot :: rest) rhs =>
    match simple_rhs rhs with
    | Some (f, [h]) =>
      match fidx tfields slot, fidx (s_fields sd) h, field_index tfields slot 0 with
      | Some i, Some H, Some (_, sfd) =>
        if String.eqb x xname then
          match f_ty sfd, rest, f with
          | TOpaque n, _ :: _, None => Some (i, H, CId (Some n))
          | TOpaque n, _ :: _, Some g => if String.eqb g "time.Duration" then Some (i, H, CId (Some n)) else None
          | _, [], None => Some (i, H, CId None)
          | _, [], Some g => if String.eqb g "metadataToConfig" then Some (i, H, CMeta) else None
          | _, _, _ => None
          end
        else None
      | _, _, _ => None
      end
    | _ => None
    end
  | _ => None
  end.

Fixpoint sequence_opt {A} (l : list (option A)) : option (list A) :=
  match l with
  | [] => Some []
  | Some x :: l' => match sequence_opt l' with Some r => Some (x :: r) | None => None end
  | None :: _ => None
  end.

Definition hook_compiled (T : table) (sd : sdesc) : chook :=
  match s_hook sd, s_unhook sd with
  | HkNone, UkNone => CNone
  | HkCustom, UkCustom => CJson
  (* FilterChain *)
  | HkShadow [HIfLenPos [c] [([t1; p], HNilE); ([t2; s], HPath [c'])]] [t3], UkShadow [t4] [] (S _) =>
    if (String.eqb c c' && String.eqb t1 t2 && String.eqb t2 t3 && String.eqb t3 t4)%bool then
      match fidx (s_fields sd) t3, fidx (s_fields sd) c with
      | Some X, Some C =>
        match struct_of_ty T (field_ty sd X) with
        | Some tsd => match fidx (s_fields tsd) p, fidx (s_fields tsd) s with
                      | Some P, Some S' => CChain X C P S'
                      | _, _ => CBad
                      end
        | None => CBad
        end
      | _, _ => CBad
      end
    else CBad
  (* Listener *)
  | HkShadow [HIfNotNil [a] [([t1; ac], HCall call (HPath [a']))]] [t2], UkShadow [t3] _ (S _) =>
    if (String.eqb a a' && String.eqb t1 t2 && String.eqb t2 t3 && String.eqb call ".String")%bool then
      match fidx (s_fields sd) t2, fidx (s_fields sd) a, fidx (s_fields sd) "PerConnBufferLimitBytes" with
      | Some X, Some A, Some PC =>
        match struct_of_ty T (field_ty sd X) with
        | Some tsd => match fidx (s_fields tsd) ac, fidx (s_fields tsd) "Network" with
                      | Some AC, Some NW => CListener X A AC NW PC
                      | _, _ => CBad
                      end
        | None => CBad
        end
      | _, _, _ => CBad
      end
    else CBad
  (* RouterConfiguration / ClusterManagerConfig *)
  | HkDirMode [t1; pf] [HAssign [t2; inlf] (HPath [hid])] [t3], UkShadow [t4] _ _ =>
    if (String.eqb t1 t2 && String.eqb t2 t3 && String.eqb t3 t4)%bool then
      match fidx (s_fields sd) t3, fidx (s_fields sd) hid with
      | Some X, Some Hd =>
        match struct_of_ty T (field_ty sd X) with
        | Some tsd => match fidx (s_fields tsd) pf, fidx (s_fields tsd) inlf with
                      | Some PF, Some IN => CInline X Hd PF IN
                      | _, _ => CBad
                      end
        | None => CBad
        end
      | _, _ => CBad
      end
    else CBad
  (* shadow-field pairs *)
  | HkShadow pre [t1], UkShadow [t2] _ O =>
    if String.eqb t1 t2 then
      match fidx (s_fields sd) t1 with
      | Some X =>
        let tfields := match struct_of_ty T (field_ty sd X) with Some tsd => s_fields tsd | None => [] end in
        match sequence_opt (map (compile_pair T sd t1 tfields) pre) with
        | Some pairs => CShadow (mkSh X pairs)
        | None => CBad
        end
      | None => CBad
      end
    else CBad
  | _, _ => CBad
  end.

(* what a hooked struct value hands to the encoder: (type, value) of the embedded target *)
Definition hook_out (T : table) (sd : sdesc) (h : chook) (v : val) : option (ty * val) :=
  match h with
  | CShadow sh => option_map (pair (field_ty sd (sh_tgt sh))) (sh_out sh v)
  | CChain tgt ctxs single set => option_map (pair (field_ty sd tgt)) (chain_out tgt ctxs single set v)
  | CInline tgt hidden pathf inlf => option_map (pair (field_ty sd tgt)) (inline_out tgt hidden pathf inlf v)
  | CListener tgt addr addrcfg _ _ => option_map (pair (field_ty sd tgt)) (listener_out tgt addr addrcfg v)
  | _ => None
  end.
Definition hook_tgt (h : chook) : option nat :=
  match h with
  | CShadow sh => Some (sh_tgt sh)
  | CChain tgt _ _ _ | CInline tgt _ _ _ | CListener tgt _ _ _ _ => Some tgt
  | _ => None
  end.

(* --------------------------------------------------------------------------------------------- encode *)
Definition splice (name : string) (embed : bool) (j : json) : list (string * json) :=
  match embed, j with
  | true, JObj kvs => kvs        (* untagged embedded struct: members promoted *)
  | _, _ => [(name, j)]
  end.

Fixpoint enc_fields (enc : ty -> val -> json) (fds : list field) (vs : list val) {struct vs} : list (string * json) :=
  match vs, fds with
  | x :: vs', fd :: fds' =>
    if (f_skip fd || (f_omit fd && is_empty x))%bool then enc_fields enc fds' vs'
    else (splice (f_json fd) (f_embed fd) (enc (f_ty fd) x) ++ enc_fields enc fds' vs')%list
  | _, _ => []
  end.

Fixpoint encode (T : table) (fuel : nat) (t : ty) (v : val) {struct fuel} : json :=
  match fuel with
  | O => JFuel (vsecrets v)
  | S fuel' =>
    match t, v with
    | _, VSecret s => JSecret s
    | TBool, VBool b => JBool b
    | TInt, VInt z => JNum (Z_to_string z)
    | TFloat, VFloat s => JNum s
    | TStr, VStr s => JStr s
    | TPtr t', VNil => JNull
    | TPtr t', VRef _ [(_, v')] => encode T fuel' t' v'
    | TSlice t', VNil => JNull
    | TSlice t', VRef _ es => JArr (map (fun kv => encode T fuel' t' (snd kv)) es)
    | TMap t', VNil => JNull
    | TMap t', VRef _ es => JObj (map (fun kv => (fst kv, encode T fuel' t' (snd kv))) es)
    | TAny, VNil => JNull
    | TAny, VJson j => j
    | TRaw, VNil => JNull
    | TRaw, VJson j => j
    | TOpaque n, VOpaque c p => if String.eqb c "text" then JStr p else opaque_json n p   (* "text": payload is the printed form (as reloaded) *)
    | TOpaque n, VInt z => opaque_json n (Z_to_string z)
    | TOpaque n, VNil => JNull
    | TNamed n, VJson j =>
      (* a struct with a marshaler the model has no rule for, carried as the JSON the real marshaler printed *)
      match find_struct T n with
      | Some sd => match hook_compiled T sd with CJson => j | _ => JFuel (vsecrets v) end
      | None => JFuel (vsecrets v)
      end
    | TNamed n, VStruct vs =>
      match find_struct T n with
      | None => JFuel (vsecrets v)
      | Some sd =>
        match hook_compiled T sd with
        | CNone => JObj (enc_fields (encode T fuel') (s_fields sd) vs)
        | h => match hook_out T sd h v with
               | Some (t2, v2) => encode T fuel' t2 v2
               | None => JFuel (vsecrets v)
               end
        end
      end
    | _, _ => JFuel (vsecrets v)
    end
  end.

(* the directory-mode branch of a HkDirMode hook writes files: does encoding v take it anywhere? *)
Fixpoint writes_files (T : table) (fuel : nat) (t : ty) (v : val) {struct fuel} : bool :=
  match fuel with
  | O => true
  | S fuel' =>
    match t, v with
    | TPtr t', VRef _ es | TSlice t', VRef _ es | TMap t', VRef _ es => existsb (fun kv => writes_files T fuel' t' (snd kv)) es
    | TNamed n, VStruct vs =>
      match find_struct T n with
      | None => false
      | Some sd =>
        let here := match s_hook sd with
                    | HkDirMode pathf _ _ => match vget T t v pathf with Some (_, VStr "") => false | _ => true end
                    | _ => false
                    end in
        (here || (fix go (fds : list field) (vs : list val) : bool :=
                    match fds, vs with
                    | fd :: fds', x :: vs' => (writes_files T fuel' (f_ty fd) x || go fds' vs')%bool
                    | _, _ => false
                    end) (s_fields sd) vs)%bool
      end
    | _, _ => false
    end
  end.

(* ------------------------------------------------------------------------ canonical form for comparisons *)
(* name-keyed lists are compared up to order by the harness; here: plain structural equality of json *)
Fixpoint json_eqb (a b : json) {struct a} : bool :=
  match a, b with
  | JNull, JNull => true
  | JBool x, JBool y => Bool.eqb x y
  | JNum x, JNum y => String.eqb x y
  | JStr x, JStr y => String.eqb x y
  | JSecret x, JSecret y => String.eqb x y
  | JSecret x, JStr y => String.eqb x y
  | JStr x, JSecret y => String.eqb x y
  | JOpaque _ x, JOpaque _ y => String.eqb x y
  | JOpaque _ x, JStr y => String.eqb x y
  | JStr x, JOpaque _ y => String.eqb x y
  | JOpaque _ x, JNum y => String.eqb x y
  | JNum x, JOpaque _ y => String.eqb x y
  | JArr l, JArr m =>
    (fix go (l m : list json) : bool :=
       match l, m with
       | [], [] => true
       | x :: l', y :: m' => (json_eqb x y && go l' m')%bool
       | _, _ => false
       end) l m
  | JObj l, JObj m =>
    (fix go (l : list (string * json)) (m : list (string * json)) : bool :=
       match l, m with
       | [], [] => true
       | (k, x) :: l', (k', y) :: m' => (String.eqb k k' && json_eqb x y && go l' m')%bool
       | _, _ => false
       end) l m
  | _, _ => false
  end.


(* --------------------------------------------------------------------------------------------- decode *)
(* Type-directed model of encoding/json Unmarshal for the hook-free fragment (plain structs, pointers, slices,
   string-keyed maps, primitives, RawMessage / interface{} carried as JSON, opaque leaves carried as text) and for
   the shadow-field hooks whose unmarshal side is a list of plain derivations (UkShadow _ _ 0).
   - object members are matched to fields case-insensitively; the LAST matching member wins (as in Go);
   - null leaves a non-nilable target at its zero value;
   - members that match no field are ignored;
   - maps keep the member order of the document (Go sorts keys when it marshals: documents produced by Marshal are
     already sorted and duplicate-free, which is what the round-trip theorem assumes);
   - interface{} positions keep the JSON as is (assumes canonical float64 literals and sorted keys). *)
Fixpoint lookup_member (kvs : list (string * json)) (name : string) (acc : option json) : option json :=
  match kvs with
  | [] => acc
  | (k, x) :: kvs' => lookup_member kvs' name (if key_eq k name then Some x else acc)
  end.

Definition option_bind {A B} (o : option A) (f : A -> option B) : option B :=
  match o with Some x => f x | None => None end.

Fixpoint sequence {A} (l : list (option A)) : option (list A) :=
  match l with
  | [] => Some []
  | o :: l' => option_bind o (fun x => option_bind (sequence l') (fun r => Some (x :: r)))
  end.

Fixpoint decode (T : table) (fuel : nat) (t : ty) (j : json) {struct fuel} : option val :=
  match fuel with
  | O => None
  | S fuel' =>
    match t, j with
    | TBool, JBool b => Some (VBool b)
    | TBool, JNull => Some (VBool false)
    | TInt, JNum s => option_bind (string_to_Z s) (fun z => Some (VInt z))
    | TInt, JNull => Some (VInt 0)
    | TFloat, JNum s => Some (VFloat s)
    | TFloat, JNull => Some (VFloat "0")
    | TStr, JStr s => Some (VStr s)
    | TStr, JSecret s => Some (VSecret s)
    | TStr, JNull => Some (VStr "")
    | TPtr _, JNull => Some VNil
    | TPtr t', _ => option_bind (decode T fuel' t' j) (fun x => Some (VRef 0 [("", x)]))
    | TSlice _, JNull => Some VNil
    | TSlice t', JArr l => option_bind (sequence (map (decode T fuel' t') l)) (fun xs => Some (VRef 0 (map (fun x => ("", x)) xs)))
    | TMap _, JNull => Some VNil
    | TMap t', JObj kvs =>
      option_bind (sequence (map (fun kv => option_bind (decode T fuel' t' (snd kv)) (fun x => Some (fst kv, x))) kvs))
                  (fun es => Some (VRef 0 es))
    | TAny, JNull => Some VNil
    | TAny, _ => Some (VJson j)
    | TRaw, _ => Some (VJson j)
    | TOpaque n, JNull => Some (VOpaque "opaque" "0")
    | TOpaque n, JStr s => Some (VOpaque "text" s)
    | TOpaque n, JOpaque _ s => Some (VOpaque "opaque" s)
    | TNamed n, _ =>
      match find_struct T n with
      | None => None
      | Some sd =>
        let z := zero_val T fuel t in
        let sub_of (tgt : nat) := decode T fuel' (field_ty sd tgt) j in
        match hook_compiled T sd with
        | CNone =>
          match j with
          | JNull => Some (zero_val T fuel t)
          | JObj kvs =>
            option_bind
              (sequence (map (fun fd =>
                                if f_skip fd then Some (zero_val T fuel' (f_ty fd))
                                else match lookup_member kvs (f_json fd) None with
                                     | Some x => decode T fuel' (f_ty fd) x
                                     | None => Some (zero_val T fuel' (f_ty fd))
                                     end) (s_fields sd)))
              (fun vs => Some (VStruct vs))
          | _ => None
          end
        | CJson => Some (VJson j)
        | CShadow sh => option_bind (sub_of (sh_tgt sh)) (fun sub => Some (sh_in sh z sub))
        | CChain tgt ctxs single set =>
          let zctx := match field_ty sd ctxs with TSlice te => zero_val T fuel' te | _ => VNil end in
          option_bind (sub_of tgt) (chain_in tgt ctxs single set zctx z)
        | CInline tgt hidden pathf inlf => option_bind (sub_of tgt) (inline_in tgt hidden pathf inlf z)
        | CListener tgt addr addrcfg network perconn => option_bind (sub_of tgt) (listener_in tgt addr addrcfg network perconn z)
        | CBad => None
        end
      end
    | _, _ => None
    end
  end.
