(* Lib/GoJson.v (owner: cfg) - JSON AST, configuration TYPE DESCRIPTIONS, configuration VALUES and a type-directed
   model of encoding/json's Marshal for the fragment MOSN's config uses: structs with tags / omitempty /
   embedding / json:"-", pointers, slices, string-keyed maps, interface{} and RawMessage positions (carried as
   JSON), opaque leaf coders (api.DurationConfig, datasize.ByteSize, net.Addr ...) and the custom MarshalJSON hooks
   of the "shadow field" shape, which Gen/CfgTypes.v extracts from the source with go/ast.
   ONLY definitions here; facts are in Lib/GoJsonFacts.v. *)
From Coq Require Import List String Bool ZArith Ascii DecimalString.
Import ListNotations.
Open Scope string_scope.

(* ------------------------------------------------------------------------------------------------ JSON *)
(* JSecret: a string leaf that is the inline private key of a TLS context (marked by [taint], C20).
   JFuel l: the encoder ran out of fuel / met a value it has no rule for; l = every secret of the part that was
   not encoded (worst case: treated as if all of it were printed). *)
Inductive json :=
| JNull
| JBool (b : bool)
| JNum (lit : string)
| JStr (s : string)
| JSecret (s : string)
| JArr (l : list json)
| JObj (kvs : list (string * json))
| JOpaque (coder : string) (payload : string)
| JFuel (leaked : list string).

(* ----------------------------------------------------------------------------------- type descriptions *)
Inductive ty :=
| TBool | TInt | TFloat | TStr
| TNamed (n : string)            (* a struct of the table *)
| TPtr (t : ty) | TSlice (t : ty) | TMap (t : ty)   (* string-keyed maps only *)
| TAny                           (* interface{} *)
| TRaw                           (* json.RawMessage *)
| TOpaque (n : string).          (* leaf with its own coder, or a type encoding/json never sees (json:"-") *)

Record field := mkF { f_go : string; f_json : string; f_omit : bool; f_skip : bool; f_embed : bool; f_ty : ty }.

(* right-hand sides / statements of the custom marshalers (receiver-rooted selector paths, fully qualified) *)
Inductive hexpr := HPath (p : list string) | HNilE | HCall (f : string) (e : hexpr).
Definition hassign := (list string * hexpr)%type.
Inductive hstmt :=
| HAssign (l : list string) (r : hexpr)
| HIfLenPos (p : list string) (body : list hassign)
| HIfNotNil (p : list string) (body : list hassign).

Inductive mhook :=
| HkNone
| HkShadow (pre : list hstmt) (tgt : list string)                         (* pre; return json.Marshal(recv.tgt) *)
| HkDirMode (pathf : list string) (pre : list hstmt) (tgt : list string)  (* if recv.pathf == "" { pre; marshal tgt } else { write files; marshal tgt } *)
| HkPromoted (f : string)
| HkCustom.

Inductive uhook :=
| UkNone
| UkShadow (tgt : list string) (derive : list hassign) (other : nat)  (* json.Unmarshal(b, &recv.tgt); derive...; `other` statements not of assignment shape *)
| UkPromoted (f : string)
| UkCustom.

Record sdesc := mkS { s_name : string; s_fields : list field; s_hook : mhook; s_unhook : uhook; s_mptr : bool }.
Definition table := list sdesc.

(* ------------------------------------------------------------------------------------------------ values *)
(* VRef r es: a non-nil pointer (one element, key ""), slice (keys "") or map (keys = map keys, sorted by the
   producer); r identifies the storage (backing array / map / pointee) so that aliasing is visible. *)
Inductive val :=
| VBool (b : bool)
| VInt (z : Z)
| VFloat (lit : string)
| VStr (s : string)
| VSecret (s : string)
| VStruct (fs : list val)
| VNil
| VRef (r : N) (es : list (string * val))
| VJson (j : json)
| VOpaque (coder : string) (payload : string).

(* ---------------------------------------------------------------------------------------------- helpers *)
Fixpoint find_struct (T : table) (n : string) : option sdesc :=
  match T with
  | [] => None
  | sd :: T' => if String.eqb (s_name sd) n then Some sd else find_struct T' n
  end.

Fixpoint field_index (fs : list field) (name : string) (i : nat) : option (nat * field) :=
  match fs with
  | [] => None
  | fd :: fs' => if String.eqb (f_go fd) name then Some (i, fd) else field_index fs' name (S i)
  end.

Fixpoint set_nth {A} (i : nat) (x : A) (l : list A) : list A :=
  match l, i with
  | [], _ => []
  | _ :: l', O => x :: l'
  | y :: l', S i' => y :: set_nth i' x l'
  end.

Definition Z_to_string (z : Z) : string := NilZero.string_of_int (Z.to_int z).

Definition lower_ascii (c : ascii) : ascii :=
  let n := nat_of_ascii c in
  if (Nat.leb 65 n && Nat.leb n 90)%bool then ascii_of_nat (n + 32) else c.
Fixpoint lower (s : string) : string :=
  match s with EmptyString => EmptyString | String c s' => String (lower_ascii c) (lower s') end.
(* encoding/json matches object keys to fields case-insensitively when decoding *)
Definition key_eq (a b : string) : bool := String.eqb (lower a) (lower b).

(* every secret leaf *)
Fixpoint jsecrets (j : json) : list string :=
  match j with
  | JSecret s => [s]
  | JFuel l => l
  | JArr l => flat_map jsecrets l
  | JObj kvs => flat_map (fun kv => jsecrets (snd kv)) kvs
  | _ => []
  end.

Fixpoint vsecrets (v : val) : list string :=
  match v with
  | VSecret s => [s]
  | VStruct fs => flat_map vsecrets fs
  | VRef _ es => flat_map (fun kv => vsecrets (snd kv)) es
  | VJson j => jsecrets j
  | _ => []
  end.

(* ------------------------------------------------------------------------------- selector paths on values *)
(* A path crosses struct fields only (that is all the hooks do); a path that runs into an opaque leaf (e.g.
   x.TimeoutConfig.Duration where TimeoutConfig is an api.DurationConfig) denotes the leaf's payload. *)
Fixpoint vget (T : table) (t : ty) (v : val) (p : list string) : option (ty * val) :=
  match p with
  | [] => Some (t, v)
  | f :: p' =>
    match t, v with
    | TNamed n, VStruct vs =>
      match find_struct T n with
      | Some sd =>
        match field_index (s_fields sd) f 0 with
        | Some (i, fd) => match nth_error vs i with Some v' => vget T (f_ty fd) v' p' | None => None end
        | None => None
        end
      | None => None
      end
    | TOpaque _, _ => Some (t, v)
    | _, _ => None
    end
  end.

Definition to_opaque (n : string) (x : val) : val :=
  match x with VInt z => VOpaque n (Z_to_string z) | _ => x end.

(* vset returns the value unchanged where the path does not apply *)
Fixpoint vset (T : table) (t : ty) (v : val) (p : list string) (x : val) : val :=
  match p with
  | [] => x
  | f :: p' =>
    match t, v with
    | TNamed n, VStruct vs =>
      match find_struct T n with
      | Some sd =>
        match field_index (s_fields sd) f 0 with
        | Some (i, fd) => match nth_error vs i with
                          | Some v' => VStruct (set_nth i (vset T (f_ty fd) v' p' x) vs)
                          | None => v
                          end
        | None => v
        end
      | None => v
      end
    | TOpaque n, _ => to_opaque n x
    | _, _ => v
    end
  end.

(* functions called on the marshal side of the hooks *)
Definition any_of_str (kv : string * val) : string * val :=
  (fst kv, match snd kv with VStr s => VJson (JStr s) | VSecret s => VJson (JSecret s) | x => x end).
Definition call_marshal_fn (f : string) (x : val) : val :=
  if String.eqb f "metadataToConfig" then
    (* api.Metadata (map[string]string) -> *MetadataConfig{MetaKey: LbMeta{LbMetaKey: map[string]interface{}}}; nil when empty *)
    match x with
    | VRef r (e :: es) => VRef 0 [("", VStruct [VStruct [VRef 0 (map any_of_str (e :: es))]])]
    | _ => VNil
    end
  else if String.eqb f ".String" then
    match x with VOpaque _ s => VStr s | _ => VStr "" end
  else if String.eqb f "time.Duration" then x
  else VOpaque "call" f.

Fixpoint heval (T : table) (t : ty) (v : val) (e : hexpr) : val :=
  match e with
  | HPath p => match vget T t v p with Some (_, x) => x | None => VNil end
  | HNilE => VNil
  | HCall f e' => call_marshal_fn f (heval T t v e')
  end.

Definition run_assigns (T : table) (t : ty) (v : val) (l : list hassign) : val :=
  fold_left (fun acc a => vset T t acc (fst a) (heval T t acc (snd a))) l v.

Definition run_stmt (T : table) (t : ty) (v : val) (s : hstmt) : val :=
  match s with
  | HAssign l r => vset T t v l (heval T t v r)
  | HIfLenPos p body =>
    match vget T t v p with Some (_, VRef _ (_ :: _)) => run_assigns T t v body | _ => v end
  | HIfNotNil p body =>
    match vget T t v p with Some (_, VNil) => v | Some _ => run_assigns T t v body | None => v end
  end.
Definition run_stmts (T : table) (t : ty) (v : val) (l : list hstmt) : val :=
  fold_left (run_stmt T t) l v.

(* ---------------------------------------------------------------------------------------- omitempty *)
Definition is_empty (v : val) : bool :=
  match v with
  | VBool b => negb b
  | VInt z => Z.eqb z 0
  | VFloat s => String.eqb s "0"
  | VStr s => String.eqb s ""
  | VSecret s => String.eqb s ""
  | VNil => true
  | VRef _ [] => true          (* empty slice / map; a non-nil pointer always has one element *)
  | _ => false
  end.

(* --------------------------------------------------------------------------------------------- encode *)
Definition splice (name : string) (embed : bool) (j : json) : list (string * json) :=
  match embed, j with
  | true, JObj kvs => kvs        (* untagged embedded struct: members promoted *)
  | _, _ => [(name, j)]
  end.

Fixpoint enc_fields (enc : ty -> val -> json) (fds : list field) (vs : list val) {struct vs} : list (string * json) :=
  match vs, fds with
  | x :: vs', fd :: fds' =>
    if (f_skip fd || (f_omit fd && is_empty x))%bool then enc_fields enc fds' vs'
    else (splice (f_json fd) (f_embed fd) (enc (f_ty fd) x) ++ enc_fields enc fds' vs')%list
  | _, _ => []
  end.

Fixpoint encode (T : table) (fuel : nat) (t : ty) (v : val) {struct fuel} : json :=
  match fuel with
  | O => JFuel (vsecrets v)
  | S fuel' =>
    match t, v with
    | _, VSecret s => JSecret s
    | TBool, VBool b => JBool b
    | TInt, VInt z => JNum (Z_to_string z)
    | TFloat, VFloat s => JNum s
    | TStr, VStr s => JStr s
    | TPtr t', VNil => JNull
    | TPtr t', VRef _ [(_, v')] => encode T fuel' t' v'
    | TSlice t', VNil => JNull
    | TSlice t', VRef _ es => JArr (map (fun kv => encode T fuel' t' (snd kv)) es)
    | TMap t', VNil => JNull
    | TMap t', VRef _ es => JObj (map (fun kv => (fst kv, encode T fuel' t' (snd kv))) es)
    | TAny, VNil => JNull
    | TAny, VJson j => j
    | TRaw, VNil => JNull
    | TRaw, VJson j => j
    | TOpaque n, VOpaque _ p => JOpaque n p
    | TOpaque n, VInt z => JOpaque n (Z_to_string z)
    | TOpaque n, VNil => JNull
    | TNamed n, VStruct vs =>
      match find_struct T n with
      | None => JFuel (vsecrets v)
      | Some sd =>
        match s_hook sd with
        | HkNone => JObj (enc_fields (encode T fuel') (s_fields sd) vs)
        | HkShadow pre tgt =>
          match vget T t (run_stmts T t v pre) tgt with
          | Some (t2, v2) => encode T fuel' t2 v2
          | None => JFuel (vsecrets v)
          end
        | HkDirMode pathf pre tgt =>
          let v1 := match vget T t v pathf with Some (_, VStr "") => run_stmts T t v pre | _ => v end in
          match vget T t v1 tgt with
          | Some (t2, v2) => encode T fuel' t2 v2
          | None => JFuel (vsecrets v)
          end
        | HkPromoted f =>
          match vget T t v [f] with
          | Some (t2, v2) => encode T fuel' t2 v2
          | None => JFuel (vsecrets v)
          end
        | HkCustom => JFuel (vsecrets v)
        end
      end
    | _, _ => JFuel (vsecrets v)
    end
  end.

(* the directory-mode branch of a HkDirMode hook writes files: does encoding v take it anywhere? *)
Fixpoint writes_files (T : table) (fuel : nat) (t : ty) (v : val) {struct fuel} : bool :=
  match fuel with
  | O => true
  | S fuel' =>
    match t, v with
    | TPtr t', VRef _ es | TSlice t', VRef _ es | TMap t', VRef _ es => existsb (fun kv => writes_files T fuel' t' (snd kv)) es
    | TNamed n, VStruct vs =>
      match find_struct T n with
      | None => false
      | Some sd =>
        let here := match s_hook sd with
                    | HkDirMode pathf _ _ => match vget T t v pathf with Some (_, VStr "") => false | _ => true end
                    | _ => false
                    end in
        (here || (fix go (fds : list field) (vs : list val) : bool :=
                    match fds, vs with
                    | fd :: fds', x :: vs' => (writes_files T fuel' (f_ty fd) x || go fds' vs')%bool
                    | _, _ => false
                    end) (s_fields sd) vs)%bool
      end
    | _, _ => false
    end
  end.

(* ------------------------------------------------------------------------ canonical form for comparisons *)
(* name-keyed lists are compared up to order by the harness; here: plain structural equality of json *)
Fixpoint json_eqb (a b : json) {struct a} : bool :=
  match a, b with
  | JNull, JNull => true
  | JBool x, JBool y => Bool.eqb x y
  | JNum x, JNum y => String.eqb x y
  | JStr x, JStr y => String.eqb x y
  | JSecret x, JSecret y => String.eqb x y
  | JSecret x, JStr y => String.eqb x y
  | JStr x, JSecret y => String.eqb x y
  | JOpaque _ x, JOpaque _ y => String.eqb x y
  | JArr l, JArr m =>
    (fix go (l m : list json) : bool :=
       match l, m with
       | [], [] => true
       | x :: l', y :: m' => (json_eqb x y && go l' m')%bool
       | _, _ => false
       end) l m
  | JObj l, JObj m =>
    (fix go (l : list (string * json)) (m : list (string * json)) : bool :=
       match l, m with
       | [], [] => true
       | (k, x) :: l', (k', y) :: m' => (String.eqb k k' && json_eqb x y && go l' m')%bool
       | _, _ => false
       end) l m
  | _, _ => false
  end.
