(* Lib/Bytes.v (owner: codec) - byte strings as `list N`, big-endian integers, slicing algebra.
   A byte is an N; wire bytes satisfy `wf_bytes` (every element < 256).  Offsets and lengths are N
   (never converted to nat unless known to be bounded by the length of an actual list). *)
From Coq Require Import List NArith Lia ZifyBool ZifyNat ZifyN Bool.
Import ListNotations.
Open Scope N_scope.

Notation byte := N (only parsing).
Notation bytes := (list N) (only parsing).

Definition blen (b : bytes) : N := N.of_nat (length b).
Definition wf_bytes (b : bytes) : Prop := Forall (fun x => x < 256) b.

(* Go b[i:j] for i <= j <= len b *)
Definition sub (b : bytes) (i j : N) : bytes := firstn (N.to_nat (j - i)) (skipn (N.to_nat i) b).
Definition takeN (n : N) (b : bytes) : bytes := firstn (N.to_nat n) b.
Definition dropN (n : N) (b : bytes) : bytes := skipn (N.to_nat n) b.

(* big-endian decode of a byte list / encode of a value on k bytes (value taken mod 256^k) *)
Definition be_dec (b : bytes) : N := fold_left (fun acc x => acc * 256 + x) b 0.
Fixpoint be_enc (k : nat) (v : N) : bytes :=
  match k with
  | O => []
  | S k' => be_enc k' (v / 256) ++ [v mod 256]
  end.

(* decoding takes every element mod 256: only the low 8 bits of a "byte" are its value, so that a k-byte
   field is always below 256^k whatever N the list holds (no well-formedness side conditions on inputs) *)
Definition be_decw (b : bytes) : N := be_dec (map (fun x => x mod 256) b).

(* ---------------------------------------------------------------- lengths *)
Lemma blen_app a b : blen (a ++ b) = blen a + blen b.
Proof. unfold blen. rewrite app_length. lia. Qed.
Lemma blen_nil : blen [] = 0. Proof. reflexivity. Qed.
Lemma blen_cons x b : blen (x :: b) = 1 + blen b.
Proof. unfold blen. cbn [length]. lia. Qed.

Lemma takeN_length n b : n <= blen b -> blen (takeN n b) = n.
Proof. unfold blen, takeN. intros H. rewrite firstn_length. lia. Qed.
Lemma dropN_length n b : blen (dropN n b) = blen b - n.
Proof. unfold blen, dropN. rewrite skipn_length. lia. Qed.
Lemma sub_length b i j : i <= j -> j <= blen b -> blen (sub b i j) = j - i.
Proof. unfold blen, sub. intros H1 H2. rewrite firstn_length, skipn_length. lia. Qed.

Lemma takeN_app n a e : n <= blen a -> takeN n (a ++ e) = takeN n a.
Proof.
  unfold takeN, blen. intros H. rewrite firstn_app.
  replace (N.to_nat n - length a)%nat with 0%nat by lia. cbn [firstn]. apply app_nil_r.
Qed.
Lemma dropN_app n a e : n <= blen a -> dropN n (a ++ e) = dropN n a ++ e.
Proof.
  unfold dropN, blen. intros H. rewrite skipn_app.
  replace (N.to_nat n - length a)%nat with 0%nat by lia. reflexivity.
Qed.
Lemma sub_app b e i j : i <= j -> j <= blen b -> sub (b ++ e) i j = sub b i j.
Proof.
  unfold sub, blen. intros H1 H2. rewrite skipn_app.
  replace (N.to_nat i - length b)%nat with 0%nat by lia. cbn [skipn].
  rewrite firstn_app. rewrite skipn_length.
  replace (N.to_nat (j - i) - (length b - N.to_nat i))%nat with 0%nat by lia.
  cbn [firstn]. apply app_nil_r.
Qed.
Lemma takeN_all b : takeN (blen b) b = b.
Proof. unfold takeN, blen. rewrite Nnat.Nat2N.id. apply firstn_all. Qed.
Lemma dropN_all b : dropN (blen b) b = [].
Proof. unfold dropN, blen. rewrite Nnat.Nat2N.id. apply skipn_all. Qed.
Lemma takeN_dropN n b : takeN n b ++ dropN n b = b.
Proof. apply firstn_skipn. Qed.
Lemma takeN_app_exact a e : takeN (blen a) (a ++ e) = a.
Proof. rewrite takeN_app by lia. apply takeN_all. Qed.
Lemma dropN_app_exact a e : dropN (blen a) (a ++ e) = e.
Proof. rewrite dropN_app by lia. rewrite dropN_all. reflexivity. Qed.
Lemma sub_0 b j : sub b 0 j = takeN j b.
Proof. unfold sub, takeN. cbn [N.to_nat skipn]. now rewrite N.sub_0_r. Qed.
Lemma sub_as_take_drop b i j : sub b i j = takeN (j - i) (dropN i b).
Proof. reflexivity. Qed.

(* sub of a concatenation picks the middle part *)
Lemma sub_mid a m e : sub (a ++ m ++ e) (blen a) (blen a + blen m) = m.
Proof.
  rewrite sub_as_take_drop. rewrite dropN_app_exact.
  replace (blen a + blen m - blen a) with (blen m) by lia. apply takeN_app_exact.
Qed.

Lemma skipn_skipn' {A} (x y : nat) (l : list A) : skipn x (skipn y l) = skipn (y + x) l.
Proof.
  revert l; induction y; intros l; [reflexivity|]. destruct l; [now rewrite !skipn_nil|]. cbn. apply IHy.
Qed.
Lemma sub_sub b i j i' j' : i <= j -> j <= blen b -> i' <= j' -> j' <= j - i ->
  sub (sub b i j) i' j' = sub b (i + i') (i + j').
Proof.
  unfold sub, blen. intros H1 H2 H3 H4.
  rewrite skipn_firstn_comm. rewrite firstn_firstn. rewrite skipn_skipn'.
  f_equal; [lia|]. f_equal. lia.
Qed.

(* ---------------------------------------------------------------- well-formed bytes *)
Lemma wf_app a b : wf_bytes (a ++ b) <-> wf_bytes a /\ wf_bytes b.
Proof. apply Forall_app. Qed.
Lemma In_firstn {A} n (l : list A) x : In x (firstn n l) -> In x l.
Proof.
  revert l; induction n; intros [|y l]; cbn; try tauto. intros [H|H]; auto.
Qed.
Lemma In_skipn {A} n (l : list A) x : In x (skipn n l) -> In x l.
Proof.
  revert l; induction n; intros [|y l]; cbn; try tauto. intros H. right. auto.
Qed.
Lemma wf_firstn n b : wf_bytes b -> wf_bytes (firstn n b).
Proof. unfold wf_bytes. rewrite !Forall_forall. intros H x Hx. apply H. eapply In_firstn; eauto. Qed.
Lemma wf_skipn n b : wf_bytes b -> wf_bytes (skipn n b).
Proof. unfold wf_bytes. rewrite !Forall_forall. intros H x Hx. apply H. eapply In_skipn; eauto. Qed.
Lemma wf_sub b i j : wf_bytes b -> wf_bytes (sub b i j).
Proof. intros H. unfold sub. apply wf_firstn, wf_skipn, H. Qed.
Lemma wf_takeN n b : wf_bytes b -> wf_bytes (takeN n b).
Proof. apply wf_firstn. Qed.
Lemma wf_dropN n b : wf_bytes b -> wf_bytes (dropN n b).
Proof. apply wf_skipn. Qed.

(* ---------------------------------------------------------------- big endian *)
Lemma be_enc_length k v : length (be_enc k v) = k.
Proof. revert v; induction k; intros v; cbn [be_enc length]; [reflexivity|]. rewrite app_length, IHk. cbn. lia. Qed.
Lemma be_enc_blen k v : blen (be_enc k v) = N.of_nat k.
Proof. unfold blen. now rewrite be_enc_length. Qed.

Lemma be_enc_wf k v : wf_bytes (be_enc k v).
Proof.
  revert v; induction k; intros v; cbn [be_enc]; [constructor|].
  apply wf_app. split; [apply IHk|]. repeat constructor. apply N.mod_lt. lia.
Qed.

Lemma be_dec_app a b : be_dec (a ++ b) = be_dec a * 256 ^ blen b + be_dec b.
Proof.
  unfold be_dec. rewrite fold_left_app. generalize (fold_left (fun acc x : N => acc * 256 + x) a 0) as v.
  induction b as [|x b IH] using rev_ind; intros v.
  - cbn. lia.
  - rewrite !fold_left_app. cbn [fold_left]. rewrite IH. rewrite blen_app.
    replace (blen [x]) with 1 by reflexivity. rewrite N.pow_add_r. change (256 ^ 1) with 256.
    set (f := fold_left _ b 0). lia.
Qed.
Lemma be_dec_single x : be_dec [x] = x.
Proof. reflexivity. Qed.

Lemma be_dec_enc k v : be_dec (be_enc k v) = v mod 256 ^ N.of_nat k.
Proof.
  revert v; induction k; intros v.
  - cbn. now rewrite N.mod_1_r.
  - cbn [be_enc]. rewrite be_dec_app, IHk. rewrite be_dec_single.
    replace (blen [v mod 256]) with 1 by reflexivity. change (256 ^ 1) with 256.
    replace (N.of_nat (S k)) with (N.of_nat k + 1) by lia. rewrite N.pow_add_r. change (256 ^ 1) with 256.
    assert (Hp : 256 ^ N.of_nat k <> 0) by (apply N.pow_nonzero; lia).
    rewrite (N.mul_comm (256 ^ N.of_nat k) 256).
    rewrite N.mod_mul_r by lia. lia.
Qed.

Lemma be_dec_bound b : wf_bytes b -> be_dec b < 256 ^ blen b.
Proof.
  induction b as [|x b IH] using rev_ind; intros H.
  - cbn. lia.
  - apply wf_app in H. destruct H as [Hb Hx]. inversion Hx; subst.
    rewrite be_dec_app, be_dec_single, blen_app. replace (blen [x]) with 1 by reflexivity.
    rewrite N.pow_add_r. change (256 ^ 1) with 256. specialize (IH Hb). nia.
Qed.

(* encode-after-decode on exactly k well-formed bytes *)
Lemma be_enc_dec b : wf_bytes b -> be_enc (length b) (be_dec b) = b.
Proof.
  induction b as [|x b IH] using rev_ind; intros H; [reflexivity|].
  apply wf_app in H. destruct H as [Hb Hx]. inversion Hx; subst.
  rewrite app_length. cbn [length]. replace (length b + 1)%nat with (S (length b)) by lia.
  cbn [be_enc]. rewrite be_dec_app, be_dec_single. replace (blen [x]) with 1 by reflexivity.
  change (256 ^ 1) with 256.
  replace ((be_dec b * 256 + x) / 256) with (be_dec b).
  2:{ rewrite N.div_add_l by lia. rewrite N.div_small by assumption. lia. }
  replace ((be_dec b * 256 + x) mod 256) with x.
  2:{ rewrite N.add_comm, N.mod_add by lia. now rewrite N.mod_small. }
  now rewrite IH.
Qed.

Lemma be_enc_small k v : v < 256 ^ N.of_nat k -> be_dec (be_enc k v) = v.
Proof. intros H. rewrite be_dec_enc. now apply N.mod_small. Qed.

Lemma map_mod_wf b : wf_bytes b -> map (fun x => x mod 256) b = b.
Proof.
  induction 1 as [|x b Hx Hb IH]; [reflexivity|]. cbn [map]. rewrite IH. f_equal. now apply N.mod_small.
Qed.
Lemma be_decw_wf b : wf_bytes b -> be_decw b = be_dec b.
Proof. intros H. unfold be_decw. now rewrite map_mod_wf. Qed.
Lemma wf_map_mod b : wf_bytes (map (fun x => x mod 256) b).
Proof. induction b; constructor; [apply N.mod_lt; lia|assumption]. Qed.
Lemma be_decw_bound b : be_decw b < 256 ^ blen b.
Proof.
  unfold be_decw. pose proof (be_dec_bound _ (wf_map_mod b)) as H. unfold blen in *. now rewrite map_length in H.
Qed.
Lemma be_decw_enc k v : be_decw (be_enc k v) = v mod 256 ^ N.of_nat k.
Proof. rewrite be_decw_wf by apply be_enc_wf. apply be_dec_enc. Qed.

(* replace bytes [i, i + len p) of b by p  (Go: copy(b[i:], p) / PutUint32(b[i:], v)) *)
Definition patch (b : bytes) (i : N) (p : bytes) : bytes := takeN i b ++ p ++ dropN (i + blen p) b.
Lemma patch_length b i p : i + blen p <= blen b -> blen (patch b i p) = blen b.
Proof. intros H. unfold patch. rewrite !blen_app, takeN_length, dropN_length by lia. lia. Qed.

(* equality of byte lists as a bool, for correspondence checks *)
Fixpoint beq (a b : bytes) : bool :=
  match a, b with
  | [], [] => true
  | x :: a', y :: b' => (x =? y) && beq a' b'
  | _, _ => false
  end.
Lemma beq_eq a b : beq a b = true <-> a = b.
Proof.
  revert b; induction a as [|x a IH]; intros [|y b]; cbn; split; try congruence; try discriminate.
  - intros H. apply andb_true_iff in H. destruct H as [H1 H2]. apply N.eqb_eq in H1. apply IH in H2. congruence.
  - intros H. inversion H; subst. rewrite N.eqb_refl. cbn. now apply IH.
Qed.
