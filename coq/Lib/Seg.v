(* Lib/Seg.v (owner: codec) - the generic segmentation theorem.

   A framer is  parse : bytes -> presult F.  `drain` is the loop of stream/xprotocol/conn.go
   streamConn.Dispatch:   for { if buf.Len()==0 {return}; frame, err := Decode(buf);
                                (nil,nil) -> return; err -> handleError; return; frame -> handleFrame }
   `feed` is one read of network/connection.go: the bytes read are appended to the connection's
   read buffer and Dispatch runs on the whole buffer.

   presult:  POk f n        Decode returned a frame and drained n bytes
             PNeedMore      Decode returned (nil, nil), nothing drained
             PErr           Decode returned an error the dispatcher answers by closing the connection
             PErrReply f n  Decode drained n bytes and returned (frame, err) for a two-way request on a server
                            connection: handleError answers with an exception response, the connection stays
                            open and Dispatch goes on with the following frames (the shape after the repair of
                            conn.go, read from the source as Gen/CodecSrc.v dispatch_continues_after_reply;
                            before it Dispatch RETURNED here and left the buffer until the next read).
   Fuel exhaustion is the distinct flag `stuck` (an endless Dispatch loop); it is proved unreachable
   for prefix-stable framers. *)
From Coq Require Import List NArith Lia ZifyBool ZifyNat ZifyN Bool PeanoNat.
From MV Require Import Lib.Bytes.
Import ListNotations.

Section Seg.
Context {F : Type}.

Inductive presult := POk (f : F) (n : nat) | PNeedMore | PErr | PErrReply (f : F) (n : nat).
Inductive event := EFrame (f : F) | EReply (f : F) | EClose.
Record cstate := { buf : bytes; out : list event; dead : bool; stuck : bool }.

Definition init : cstate := {| buf := []; out := []; dead := false; stuck := false |}.
Definition with_buf (s : cstate) (b : bytes) : cstate :=
  {| buf := b; out := out s; dead := dead s; stuck := stuck s |}.

Variable parse : bytes -> presult.

Fixpoint drain (fuel : nat) (s : cstate) : cstate :=
  match buf s with
  | [] => s
  | _ :: _ =>
    match fuel with
    | O => {| buf := buf s; out := out s; dead := dead s; stuck := true |}
    | S k =>
      match parse (buf s) with
      | POk f n => drain k {| buf := skipn n (buf s); out := out s ++ [EFrame f]; dead := dead s; stuck := stuck s |}
      | PNeedMore => s
      | PErr => {| buf := []; out := out s ++ [EClose]; dead := true; stuck := stuck s |}
      | PErrReply f n => drain k {| buf := skipn n (buf s); out := out s ++ [EReply f]; dead := dead s; stuck := stuck s |}
      end
    end
  end.

Definition feed (s : cstate) (chunk : bytes) : cstate :=
  if dead s then s else drain (S (length (buf s ++ chunk))) (with_buf s (buf s ++ chunk)).

(* prefix stability: a decision once taken on a prefix is never revised by later bytes *)
Record stable : Prop := {
  st_ok  : forall b f n, parse b = POk f n ->
             (0 < n <= length b)%nat /\ forall e, parse (b ++ e) = POk f n;
  st_err : forall b, parse b = PErr -> forall e, parse (b ++ e) = PErr;
  st_rep : forall b f n, parse b = PErrReply f n ->
             (0 < n <= length b)%nat /\ forall e, parse (b ++ e) = PErrReply f n }.

(* NeedMore-monotonicity is a consequence, not an assumption *)
Lemma stable_needmore : stable -> forall b e, parse (b ++ e) = PNeedMore -> parse b = PNeedMore.
Proof.
  intros St b e H. destruct (parse b) as [f n| | |f n] eqn:E; auto.
  - apply (st_ok St) in E. destruct E as [_ E]. rewrite E in H. discriminate.
  - eapply (st_err St) in E. rewrite E in H. discriminate.
  - apply (st_rep St) in E. destruct E as [_ E]. rewrite E in H. discriminate.
Qed.

Lemma drain_out_mono fuel : forall s e, In e (out s) -> In e (out (drain fuel s)).
Proof.
  induction fuel as [|k IH]; intros s e H; cbn [drain]; destruct (buf s) as [|x r] eqn:Eb; auto.
  destruct (parse (x :: r)); cbn [out]; auto.
  - apply IH. cbn [out]. apply in_or_app. now left.
  - apply in_or_app. now left.
  - apply IH. cbn [out]. apply in_or_app. now left.
Qed.

Lemma feed_out_mono s c e : In e (out s) -> In e (out (feed s c)).
Proof. intros H. unfold feed. destruct (dead s); auto. apply drain_out_mono. exact H. Qed.

(* any fuel above the buffer length gives the same result: the loop ends by itself *)
Lemma drain_fuel (St : stable) : forall fuel s, (length (buf s) < fuel)%nat ->
  forall fuel', (fuel <= fuel')%nat -> drain fuel' s = drain fuel s.
Proof.
  induction fuel as [|k IH]; intros s Hl fuel' Hf; [lia|].
  destruct fuel' as [|k']; [lia|]. cbn [drain].
  destruct (buf s) as [|x r] eqn:Eb; [reflexivity|].
  destruct (parse (x :: r)) as [f n| | |f n] eqn:Ep; try reflexivity.
  - apply (st_ok St) in Ep. destruct Ep as [Hn _].
    apply IH; [|lia]. cbn [buf]. rewrite skipn_length. cbn [length] in *. lia.
  - apply (st_rep St) in Ep. destruct Ep as [Hn _].
    apply IH; [|lia]. cbn [buf]. rewrite skipn_length. cbn [length] in *. lia.
Qed.

Lemma drain_not_stuck (St : stable) : forall fuel s, (length (buf s) < fuel)%nat ->
  stuck (drain fuel s) = stuck s.
Proof.
  induction fuel as [|k IH]; intros s Hl; [lia|]. cbn [drain].
  destruct (buf s) as [|x r] eqn:Eb; [reflexivity|].
  destruct (parse (x :: r)) as [f n| | |f n] eqn:Ep; try reflexivity.
  - apply (st_ok St) in Ep. destruct Ep as [Hn _].
    rewrite IH; [reflexivity|]. cbn [buf]. rewrite skipn_length. cbn [length] in *. lia.
  - apply (st_rep St) in Ep. destruct Ep as [Hn _].
    rewrite IH; [reflexivity|]. cbn [buf]. rewrite skipn_length. cbn [length] in *. lia.
Qed.

Lemma skipn_app_le {A} n (a e : list A) : (n <= length a)%nat -> skipn n (a ++ e) = skipn n a ++ e.
Proof. intros H. rewrite skipn_app. replace (n - length a)%nat with 0%nat by lia. reflexivity. Qed.

(* one-step unfoldings of the loop *)
Lemma drain_nil fuel s : buf s = [] -> drain fuel s = s.
Proof. intros H. destruct fuel; cbn [drain]; now rewrite H. Qed.
Lemma drain_ok k s f n : buf s <> [] -> parse (buf s) = POk f n ->
  drain (S k) s = drain k {| buf := skipn n (buf s); out := out s ++ [EFrame f]; dead := dead s; stuck := stuck s |}.
Proof. intros H E. cbn [drain]. destruct (buf s) eqn:Eb; [congruence|]. now rewrite E. Qed.
Lemma drain_needmore k s : parse (buf s) = PNeedMore -> drain (S k) s = s.
Proof. intros E. cbn [drain]. destruct (buf s) eqn:Eb; [reflexivity|]. now rewrite E. Qed.
Lemma drain_err k s : buf s <> [] -> parse (buf s) = PErr ->
  drain (S k) s = {| buf := []; out := out s ++ [EClose]; dead := true; stuck := stuck s |}.
Proof. intros H E. cbn [drain]. destruct (buf s) eqn:Eb; [congruence|]. now rewrite E. Qed.
Lemma drain_rep k s f n : buf s <> [] -> parse (buf s) = PErrReply f n ->
  drain (S k) s = drain k {| buf := skipn n (buf s); out := out s ++ [EReply f]; dead := dead s; stuck := stuck s |}.
Proof. intros H E. cbn [drain]. destruct (buf s) eqn:Eb; [congruence|]. now rewrite E. Qed.

Lemma app_not_nil {A} (a e : list A) : a <> [] -> a ++ e <> [].
Proof. destruct a; [congruence|discriminate]. Qed.

(* two consecutive reads = one read of the concatenation *)
Lemma drain_then_feed (St : stable) : forall fuel s c, (length (buf s) < fuel)%nat -> dead s = false ->
  feed (drain fuel s) c = drain (S (length (buf s ++ c))) (with_buf s (buf s ++ c)).
Proof.
  induction fuel as [|k IH]; intros s c Hl Hd; [lia|].
  destruct (buf s) as [|x r] eqn:Eb.
  - rewrite drain_nil by exact Eb. unfold feed. rewrite Hd, Eb. reflexivity.
  - assert (Hne : buf s <> []) by (rewrite Eb; discriminate).
    assert (Hne2 : buf (with_buf s ((x :: r) ++ c)) <> []) by (cbn [with_buf buf app]; discriminate).
    rewrite <- Eb in *.
    assert (Step : forall ev n, (0 < n <= length (buf s))%nat ->
      let s1 := {| buf := skipn n (buf s); out := out s ++ [ev]; dead := dead s; stuck := stuck s |} in
      feed (drain k s1) c =
      drain (length (buf s ++ c)) {| buf := skipn n (buf s) ++ c; out := out s ++ [ev]; dead := dead s; stuck := stuck s |}).
    { intros ev n Hn s1.
      assert (Hl1 : (length (buf s1) < k)%nat) by (unfold s1; cbn [buf]; rewrite skipn_length; lia).
      rewrite (IH s1 c Hl1 Hd). unfold with_buf, s1. cbn [out dead stuck buf].
      symmetry. apply (drain_fuel St).
      * cbn [buf]. lia.
      * rewrite !app_length, skipn_length. lia. }
    destruct (parse (buf s)) as [f n| | |f n] eqn:Ep.
    + pose proof (st_ok St _ _ _ Ep) as [Hn Hext].
      rewrite (drain_ok k s f n Hne Ep).
      rewrite (drain_ok _ (with_buf s (buf s ++ c)) f n Hne2 (Hext c)).
      cbn [with_buf buf out dead stuck]. rewrite skipn_app_le by lia. apply (Step (EFrame f) n Hn).
    + rewrite (drain_needmore k s Ep). unfold feed. rewrite Hd. reflexivity.
    + rewrite (drain_err k s Hne Ep). unfold feed at 1. cbn [dead].
      rewrite (drain_err _ (with_buf s (buf s ++ c)) Hne2 (st_err St _ Ep c)). reflexivity.
    + pose proof (st_rep St _ _ _ Ep) as [Hn Hext].
      rewrite (drain_rep k s f n Hne Ep).
      rewrite (drain_rep _ (with_buf s (buf s ++ c)) f n Hne2 (Hext c)).
      cbn [with_buf buf out dead stuck]. rewrite skipn_app_le by lia. apply (Step (EReply f) n Hn).
Qed.

Lemma feed_alive s c : dead s = false -> feed s c = drain (S (length (buf s ++ c))) (with_buf s (buf s ++ c)).
Proof. intros H. unfold feed. now rewrite H. Qed.
Lemma feed_dead s c : dead s = true -> feed s c = s.
Proof. intros H. unfold feed. now rewrite H. Qed.

Lemma feed_feed (St : stable) s a b : feed (feed s a) b = feed s (a ++ b).
Proof.
  destruct (dead s) eqn:Hd.
  - rewrite !(feed_dead s) by exact Hd. reflexivity.
  - rewrite (feed_alive s a Hd), (feed_alive s (a ++ b) Hd).
    pose proof (drain_then_feed St (S (length (buf s ++ a))) (with_buf s (buf s ++ a)) b) as H.
    cbn [with_buf buf dead] in H. specialize (H ltac:(lia) Hd).
    rewrite <- app_assoc in H. unfold with_buf in *. cbn [out dead stuck] in *. exact H.
Qed.

Lemma seg_independent_from (St : stable) : forall chunks s c0,
  fold_left feed chunks (feed s c0) = feed s (c0 ++ concat chunks).
Proof.
  induction chunks as [|c cs IH]; intros s c0; cbn [fold_left concat].
  - now rewrite app_nil_r.
  - rewrite (feed_feed St). rewrite IH. now rewrite <- app_assoc.
Qed.

(* THE segmentation theorem: for a prefix-stable framer, every way of cutting a byte stream into
   reads yields exactly the state of delivering it in one read: same frames and error replies in the same
   order each once, same residue in the buffer (an incomplete frame consumes nothing), connection closed in
   one iff in the other and after the same frames; the Dispatch loop never spins. *)
Theorem seg_independent (St : stable) : forall chunks,
  fold_left feed chunks init = feed init (concat chunks).
Proof.
  intros chunks. pose proof (seg_independent_from St chunks init []) as E.
  cbn [app] in E. rewrite <- E. f_equal.
Qed.

Theorem seg_never_stuck (St : stable) : forall s c, stuck (feed s c) = stuck s.
Proof.
  intros s c. unfold feed. destruct (dead s); [reflexivity|].
  rewrite (drain_not_stuck St); [reflexivity|]. cbn [with_buf buf]. lia.
Qed.

(* ---- the progress check of Dispatch ---------------------------------------------------------------------------
   conn.go:  before := buf.Len(); frame, err := Decode(...); ... after an answered error: if buf.Len() >= before { return }.
   drain_g is drain with exactly this check (a reply that consumed nothing ends the call); for framers whose error replies
   consume input - all prefix-stable ones - it is drain, and whatever the framer does with error replies it cannot make
   the loop spin: only a codec that returns a FRAME without consuming input could (the codec contract). *)
Fixpoint drain_g (fuel : nat) (s : cstate) : cstate :=
  match buf s with
  | [] => s
  | _ :: _ =>
    match fuel with
    | O => {| buf := buf s; out := out s; dead := dead s; stuck := true |}
    | S k =>
      match parse (buf s) with
      | POk f n => drain_g k {| buf := skipn n (buf s); out := out s ++ [EFrame f]; dead := dead s; stuck := stuck s |}
      | PNeedMore => s
      | PErr => {| buf := []; out := out s ++ [EClose]; dead := true; stuck := stuck s |}
      | PErrReply f n =>
          let s' := {| buf := skipn n (buf s); out := out s ++ [EReply f]; dead := dead s; stuck := stuck s |} in
          match n with O => s' | S _ => drain_g k s' end
      end
    end
  end.
Definition feed_g (s : cstate) (chunk : bytes) : cstate :=
  if dead s then s else drain_g (S (length (buf s ++ chunk))) (with_buf s (buf s ++ chunk)).

Lemma drain_g_eq (St : stable) : forall fuel s, drain_g fuel s = drain fuel s.
Proof.
  induction fuel as [|k IH]; intros s; cbn [drain_g drain]; destruct (buf s) as [|x r] eqn:Eb; try reflexivity.
  destruct (parse (x :: r)) as [f n| | |f n] eqn:Ep; try reflexivity; try apply IH.
  apply (st_rep St) in Ep. destruct Ep as [Hn _]. destruct n; [lia|apply IH].
Qed.
Lemma feed_g_eq (St : stable) s c : feed_g s c = feed s c.
Proof. unfold feed_g, feed. destruct (dead s); [reflexivity|apply (drain_g_eq St)]. Qed.

(* no stability needed: if the framer never returns a frame without consuming input, the guarded loop ends within
   its bound whatever else the framer does (in particular whatever it does with error replies) *)
Lemma drain_g_not_stuck : (forall b f, parse b <> POk f 0) -> forall fuel s, (length (buf s) < fuel)%nat ->
  stuck (drain_g fuel s) = stuck s.
Proof.
  intros Hp. induction fuel as [|k IH]; intros s Hl; [lia|]. cbn [drain_g].
  destruct (buf s) as [|x r] eqn:Eb; [reflexivity|].
  destruct (parse (x :: r)) as [f n| | |f n] eqn:Ep; try reflexivity.
  - destruct n as [|n']; [exfalso; eapply Hp; eauto|].
    rewrite IH; [reflexivity|]. cbn [buf]. rewrite skipn_length. cbn [length] in *. lia.
  - destruct n as [|n']; [reflexivity|].
    rewrite IH; [reflexivity|]. cbn [buf]. rewrite skipn_length. cbn [length] in *. lia.
Qed.
Theorem feed_g_never_spins : (forall b f, parse b <> POk f 0) -> forall s c, stuck (feed_g s c) = stuck s.
Proof.
  intros Hp s c. unfold feed_g. destruct (dead s); [reflexivity|].
  rewrite (drain_g_not_stuck Hp); [reflexivity|]. cbn [with_buf buf]. lia.
Qed.

(* ---- connection-level outcome of an error, and several connections ---------------------------------------
   handleError: a decode error either closes THIS connection (EClose, dead, buffer dropped) or answers THIS
   request (EReply) and the connection goes on.  Nothing else is emitted for an error. *)
Lemma drain_outcome : forall fuel s, exists evs,
  out (drain fuel s) = out s ++ evs /\
  (dead (drain fuel s) = false -> dead s = false /\ ~ In EClose evs) /\
  (dead s = false -> dead (drain fuel s) = true -> buf (drain fuel s) = [] /\ exists pre, evs = pre ++ [EClose] /\ ~ In EClose pre).
Proof.
  induction fuel as [|k IH]; intros s; cbn [drain]; destruct (buf s) as [|x r] eqn:Eb.
  - exists []. rewrite app_nil_r. repeat split; auto; congruence.
  - exists []. cbn [out dead]. rewrite app_nil_r. repeat split; auto; congruence.
  - exists []. rewrite app_nil_r. repeat split; auto; congruence.
  - destruct (parse (x :: r)) as [f n| | |f n] eqn:Ep.
    + destruct (IH {| buf := skipn n (x :: r); out := out s ++ [EFrame f]; dead := dead s; stuck := stuck s |}) as [evs [H1 [H2 H3]]].
      cbn [out dead] in *. exists (EFrame f :: evs). rewrite H1, <- app_assoc. split; [reflexivity|]. split.
      * intros Hd. destruct (H2 Hd) as [A B]. split; [exact A|]. intros [C|C]; [discriminate|auto].
      * intros Hs Hd. destruct (H3 Hs Hd) as [A [pre [B C]]]. split; [exact A|]. exists (EFrame f :: pre). split; [now rewrite B|].
        intros [D|D]; [discriminate|auto].
    + exists []. rewrite app_nil_r. repeat split; auto; congruence.
    + exists [EClose]. cbn [out dead buf]. split; [reflexivity|]. split; [discriminate|]. intros _ _. split; [reflexivity|].
      exists []. split; [reflexivity|]. intros [].
    + destruct (IH {| buf := skipn n (x :: r); out := out s ++ [EReply f]; dead := dead s; stuck := stuck s |}) as [evs [H1 [H2 H3]]].
      cbn [out dead] in *. exists (EReply f :: evs). rewrite H1, <- app_assoc. split; [reflexivity|]. split.
      * intros Hd. destruct (H2 Hd) as [A B]. split; [exact A|]. intros [C|C]; [discriminate|auto].
      * intros Hs Hd. destruct (H3 Hs Hd) as [A [pre [B C]]]. split; [exact A|]. exists (EReply f :: pre). split; [now rewrite B|].
        intros [D|D]; [discriminate|auto].
Qed.

(* one read on a live connection: it ends closed exactly when the last thing that happened is EClose *)
Theorem feed_outcome : forall s c, dead s = false -> exists evs,
  out (feed s c) = out s ++ evs /\
  (dead (feed s c) = false -> ~ In EClose evs) /\
  (dead (feed s c) = true -> buf (feed s c) = [] /\ exists pre, evs = pre ++ [EClose] /\ ~ In EClose pre).
Proof.
  intros s c Hd. rewrite (feed_alive s c Hd).
  destruct (drain_outcome (S (length (buf s ++ c))) (with_buf s (buf s ++ c))) as [evs [H1 [H2 H3]]].
  cbn [with_buf out dead] in *. exists evs. split; [exact H1|]. split.
  - intros H. now apply H2.
  - intros H. now apply H3.
Qed.

(* several connections: a state per connection id, a history of (connection, bytes read) *)
Definition mstate := nat -> cstate.
Definition mfeed (ms : mstate) (i : nat) (c : bytes) : mstate :=
  fun j => if Nat.eqb j i then feed (ms i) c else ms j.
Definition mrun (ms : mstate) (hist : list (nat * bytes)) : mstate :=
  fold_left (fun m ic => mfeed m (fst ic) (snd ic)) hist ms.

(* whatever connection i receives - malformed or not - no other connection's state changes *)
Theorem mfeed_local : forall ms i c j, j <> i -> mfeed ms i c j = ms j.
Proof. intros ms i c j H. unfold mfeed. destruct (Nat.eqb j i) eqn:E; [apply Nat.eqb_eq in E; contradiction|reflexivity]. Qed.

(* after any interleaved history, the state of connection j is the one it reaches on its own reads alone *)
Theorem mrun_projection : forall hist ms j,
  mrun ms hist j = fold_left feed (map snd (filter (fun ic => Nat.eqb (fst ic) j) hist)) (ms j).
Proof.
  induction hist as [|[i c] r IH]; intros ms j; [reflexivity|].
  change (mrun ms ((i, c) :: r) j) with (mrun (mfeed ms i c) r j). rewrite IH.
  cbn [filter fst]. unfold mfeed. rewrite (Nat.eqb_sym i j). destruct (Nat.eqb j i) eqn:E.
  - apply Nat.eqb_eq in E. subst j. cbn [map fold_left snd]. reflexivity.
  - reflexivity.
Qed.

(* ---- streams of complete frames followed by an incomplete tail ------------------------- *)
Definition frame_bytes_ok (fb : F * bytes) : Prop := parse (snd fb) = POk (fst fb) (length (snd fb)).
Definition tail_ok (t : bytes) : Prop := t = [] \/ parse t = PNeedMore.

Lemma feed_valid_from (St : stable) : forall fs s t, dead s = false -> buf s = [] ->
  Forall frame_bytes_ok fs -> tail_ok t ->
  feed s (concat (map snd fs) ++ t) =
  {| buf := t; out := out s ++ map (fun fb => EFrame (fst fb)) fs; dead := false; stuck := stuck s |}.
Proof.
  induction fs as [|[f bs] fs IH]; intros s t Hd Hb Hfs Ht.
  - cbn [map concat app]. rewrite (feed_alive _ _ Hd). rewrite Hb. cbn [app]. rewrite app_nil_r.
    unfold with_buf. rewrite Hd. destruct Ht as [Ht|Ht].
    + subst t. apply drain_nil. reflexivity.
    + apply drain_needmore. exact Ht.
  - inversion Hfs as [|? ? Hf Hfs']; subst. unfold frame_bytes_ok in Hf. cbn [fst snd] in Hf.
    pose proof (st_ok St _ _ _ Hf) as [Hn Hext].
    cbn [map concat snd]. rewrite <- app_assoc.
    set (rest := concat (map snd fs) ++ t).
    rewrite (feed_alive _ _ Hd). rewrite Hb. cbn [app].
    assert (Hne : buf (with_buf s (bs ++ rest)) <> []).
    { cbn [with_buf buf]. apply app_not_nil. destruct bs; [cbn [length] in Hn; lia|discriminate]. }
    rewrite (drain_ok _ _ f (length bs) Hne (Hext rest)).
    cbn [with_buf buf out dead stuck]. rewrite skipn_app_le by lia. rewrite skipn_all. cbn [app].
    set (s1 := {| buf := []; out := out s ++ [EFrame f]; dead := dead s; stuck := stuck s |}).
    specialize (IH s1 t Hd eq_refl Hfs' Ht). fold rest in IH.
    rewrite (feed_alive s1 rest Hd) in IH. unfold with_buf, s1 in IH. cbn [buf out dead stuck app] in IH.
    rewrite <- app_assoc in IH. cbn [app] in IH. cbn [map fst]. rewrite <- IH.
    apply (drain_fuel St).
    + cbn [buf]. lia.
    + rewrite app_length. lia.
Qed.

(* For every concatenation of valid frames followed by an incomplete tail, and EVERY segmentation of
   it: exactly these frames, in order, each once; the tail stays in the buffer; nothing else. *)
Theorem seg_valid_stream (St : stable) : forall fs t chunks,
  Forall frame_bytes_ok fs -> tail_ok t ->
  concat chunks = concat (map snd fs) ++ t ->
  fold_left feed chunks init =
  {| buf := t; out := map (fun fb => EFrame (fst fb)) fs; dead := false; stuck := false |}.
Proof.
  intros fs t chunks Hfs Ht Hc.
  pose proof (feed_valid_from St fs init t eq_refl eq_refl Hfs Ht) as E. cbn [init out stuck app] in E.
  rewrite (seg_independent St chunks). rewrite Hc. exact E.
Qed.

End Seg.

Arguments presult F : clear implicits.
Arguments event F : clear implicits.
Arguments cstate F : clear implicits.
