(* Model of pkg/upstream/cluster/health.go SetHealthFlag / ClearHealthFlag on the per-address
   shared flag word, as threads of atomic micro-steps (Lib/Interleave.v).
   ONLY executable definitions (plus the Prop-level hypotheses of the theorems); proofs are in Proofs/Health.v.

   The control SHAPE of the two functions is read from the source by the translator
   (Gen/HealthOps.v: health_set_shape, health_clear_shape):
     ShLoadStore  f := atomic.Load(p); f OP= flag; atomic.Store(p, f)             two micro-steps: load | store
     ShCasLoop    for { f := atomic.Load(p); if atomic.CompareAndSwap(p, f, f OP flag) { return } }
                                                                                   load | cas (failure: back to load)
     ShRmw        atomic.Or(p, flag) / atomic.And(p, ^flag)                        one micro-step
   Set:   word | flag      Clear: word & ^flag  (= N.ldiff word flag on 64-bit words). *)
From Coq Require Import List NArith Bool.
From MV Require Import Lib.Interleave.
Import ListNotations.
Open Scope N_scope.

Inductive shape := ShLoadStore | ShCasLoop | ShRmw.
Definition atomic_shape (s : shape) : bool := match s with ShLoadStore => false | _ => true end.

Inductive hop := HSet (m : N) | HClear (m : N).
Definition hmask (o : hop) : N := match o with HSet m => m | HClear m => m end.
Definition apply_op (o : hop) (w : N) : N :=
  match o with HSet m => N.lor w m | HClear m => N.ldiff w m end.
Definition apply_all (ops : list hop) (w : N) : N := fold_left (fun w o => apply_op o w) ops w.

(* a thread executes its list of operations one after the other *)
Inductive phase := PStart | PLoaded.
Record tstate := mkT { todo : list hop; ph : phase; reg : N }.

Definition shape_of (ss sc : shape) (o : hop) : shape := match o with HSet _ => ss | HClear _ => sc end.

(* ONE atomic micro-step of a thread against the shared word *)
Definition tstep (ss sc : shape) (t : tstate) (w : N) : tstate * N :=
  match todo t with
  | [] => (t, w)
  | o :: rest =>
      match shape_of ss sc o, ph t with
      | ShRmw, _ => (mkT rest PStart 0, apply_op o w)
      | _, PStart => (mkT (o :: rest) PLoaded w, w)
      | ShLoadStore, PLoaded => (mkT rest PStart 0, apply_op o (reg t))
      | ShCasLoop, PLoaded =>
          if N.eqb w (reg t) then (mkT rest PStart 0, apply_op o (reg t))
          else (mkT (o :: rest) PStart 0, w)
      end
  end.

Definition init_threads (progs : list (list hop)) : list tstate := map (fun p => mkT p PStart 0) progs.

Definition hrun (ss sc : shape) (sched : list nat) (progs : list (list hop)) (w0 : N) : list tstate * N :=
  run (tstep ss sc) sched (init_threads progs, w0).

Definition tdone (t : tstate) : bool := match todo t with [] => true | _ => false end.
Definition all_done (ts : list tstate) : bool := forallb tdone ts.

(* host.go: Health() = (word == 0); ContainHealthFlag(f) = (word & f > 0) *)
Definition health (w : N) : bool := N.eqb w 0.
Definition contain_flag (w m : N) : bool := negb (N.eqb (N.land w m) 0).

(* hypotheses of the theorem: threads own pairwise different conditions (bits) *)
Definition ops_disjoint (p q : list hop) : Prop :=
  forall a b, In a p -> In b q -> N.land (hmask a) (hmask b) = 0.
Definition cross_disjoint (progs : list (list hop)) : Prop := ForallOrdPairs ops_disjoint progs.

(* the full statement, for given shapes of Set and Clear: every complete schedule yields the word in which
   exactly the requested conditions were set / cleared (per thread in program order; different threads commute) *)
Definition no_lost_update_statement (ss sc : shape) : Prop :=
  forall progs, cross_disjoint progs -> forall sched w0,
    all_done (fst (hrun ss sc sched progs w0)) = true ->
    snd (hrun ss sc sched progs w0) = apply_all (concat progs) w0.

(* --- correspondence: one explored interleaving of the REAL functions ------------------
   (initial word, per-thread operation lists, schedule in model micro-steps, final word, Host.Health()) *)
Definition h_case := (N * list (list hop) * list nat * N * bool)%type.
Definition h_case_ok (ss sc : shape) (k : h_case) : bool :=
  match k with
  | (w0, progs, sched, wfinal, hl) =>
      let r := hrun ss sc sched progs w0 in
      all_done (fst r) && N.eqb (snd r) wfinal && Bool.eqb (health (snd r)) hl
  end.
Fixpoint mismatches_from {A} (ok : A -> bool) (i : nat) (l : list A) : list nat :=
  match l with
  | [] => []
  | x :: l' => if ok x then mismatches_from ok (S i) l' else i :: mismatches_from ok (S i) l'
  end.
Definition h_mismatches (ss sc : shape) (l : list h_case) : list nat := mismatches_from (h_case_ok ss sc) 0 l.
