(* Model of pkg/upstream/cluster/edf.go (edfScheduler) in exact arithmetic.

   Go keeps deadlines as float64:  Add: deadline = currentTime + 1/weight;
   NextAndPush: e := heap minimum under (deadline, queuedTime); currentTime = e.deadline;
   e.deadline += 1/weight(e); e.queuedTime = tick().

   Here time is scaled by a common multiple D of all weights, so that 1/w_e becomes the
   integer period  per_e = D / w_e  and every deadline is an integer (no rationals needed).
   Entries are identified by their position in the list (= order of Add).
   ONLY executable definitions here. *)
From Coq Require Import List ZArith Bool.
Import ListNotations.
Open Scope Z_scope.

Record entry := { per : Z; dl : Z; qt : Z }.
Record edf := { now : Z; clock : Z; es : list entry }.

Definition edf_init : edf := {| now := 0; clock := 0; es := [] |}.

Definition edf_add (s : edf) (p : Z) : edf :=
  {| now := now s; clock := clock s + 1;
     es := es s ++ [ {| per := p; dl := now s + p; qt := clock s + 1 |} ] |}.

Fixpoint upd {A} (l : list A) (i : nat) (x : A) : list A :=
  match l, i with
  | [], _ => []
  | _ :: l', O => x :: l'
  | y :: l', S i' => y :: upd l' i' x
  end.

(* is entry e minimal among l by deadline (ties allowed)? *)
Definition dl_minimal (e : entry) (l : list entry) : bool := forallb (fun e' => dl e <=? dl e') l.

(* the relation `next`, as a checker: picking position i is allowed iff it is deadline-minimal *)
Definition edf_pick (s : edf) (i : nat) : option edf :=
  match nth_error (es s) i with
  | None => None
  | Some e =>
      if dl_minimal e (es s)
      then Some {| now := dl e; clock := clock s + 1;
                   es := upd (es s) i {| per := per e; dl := dl e + per e; qt := clock s + 1 |} |}
      else None
  end.

Fixpoint edf_run (s : edf) (picks : list nat) : option edf :=
  match picks with
  | [] => Some s
  | i :: ps => match edf_pick s i with None => None | Some s' => edf_run s' ps end
  end.

(* the deterministic instance: the Go tie-break (smallest deadline, then smallest queuedTime) *)
Definition entry_less (a b : entry) : bool :=
  if dl a =? dl b then qt a <? qt b else dl a <? dl b.
Fixpoint argmin_from (l : list entry) (i : nat) (best : nat) (be : entry) : nat :=
  match l with
  | [] => best
  | e :: l' => if entry_less e be then argmin_from l' (S i) i e else argmin_from l' (S i) best be
  end.
Definition edf_next_det (s : edf) : option nat :=
  match es s with
  | [] => None
  | e :: l => Some (argmin_from l 1 0 e)
  end.

Definition count_pick (i : nat) (picks : list nat) : Z :=
  Z.of_nat (length (filter (Nat.eqb i) picks)).

(* --- correspondence ------------------------------------------------------------- *)
Definition prod_weights (ws : list Z) : Z := fold_right Z.mul 1 ws.
Definition edf_of_weights (ws : list Z) : edf :=
  let D := prod_weights ws in fold_left (fun s w => edf_add s (D / w)) ws edf_init.

(* a case: weights (each 1..128 after fixHostWeight), the pick sequence the Go scheduler produced *)
Definition edf_case := (list Z * list nat)%type.
Definition edf_case_ok (k : edf_case) : bool :=
  match k with (ws, picks) =>
    match edf_run (edf_of_weights ws) picks with Some _ => true | None => false end end.
(* stricter: the Go sequence equals the deterministic instance pick for pick *)
Fixpoint edf_run_det (s : edf) (picks : list nat) : bool :=
  match picks with
  | [] => true
  | i :: ps => match edf_next_det s with
               | Some j => if Nat.eqb i j then
                             match edf_pick s i with Some s' => edf_run_det s' ps | None => false end
                           else false
               | None => false
               end
  end.
Definition edf_case_det_ok (k : edf_case) : bool :=
  match k with (ws, picks) => edf_run_det (edf_of_weights ws) picks end.

Fixpoint mism {A} (ok : A -> bool) (i : nat) (l : list A) : list nat :=
  match l with
  | [] => []
  | x :: l' => if ok x then mism ok (S i) l' else i :: mism ok (S i) l'
  end.
Definition edf_mismatches (l : list edf_case) : list nat := mism edf_case_ok 0 l.
Definition edf_det_mismatches (l : list edf_case) : list nat := mism edf_case_det_ok 0 l.

(* --- the weighted round robin balancer on top of the scheduler -----------------------------
   EdfLoadBalancer.refresh Adds every host and then performs rand.Intn(n) pre-picks (not observable
   from outside), so the first pick a client sees starts from a state reached by r < n picks.
   all successor states under ANY tie-break: *)
Definition edf_succs (s : edf) : list edf :=
  flat_map (fun i => match edf_pick s i with Some s' => [s'] | None => [] end) (seq 0 (length (es s))).
Fixpoint edf_reach (s : edf) (r : nat) : list edf :=
  match r with O => [s] | S r' => flat_map (fun s' => edf_reach s' r') (edf_succs s) end.
Definition wrr_case_ok (k : edf_case) : bool :=
  match k with (ws, picks) =>
    existsb (fun r => existsb (fun s0 => match edf_run s0 picks with Some _ => true | None => false end)
                              (edf_reach (edf_of_weights ws) r))
            (seq 0 (length ws)) end.
Definition wrr_mismatches (l : list edf_case) : list nat := mism wrr_case_ok 0 l.

(* --- Adds interleaved with picks (a host joins a running scheduler) -------------------------
   ops: None = Add the next weight of ws, Some i = the scheduler picked position i. *)
Fixpoint edf_ops (D : Z) (s : edf) (ws : list Z) (ops : list (option nat)) : bool :=
  match ops with
  | [] => true
  | None :: ops' => match ws with
                    | w :: ws' => edf_ops D (edf_add s (D / w)) ws' ops'
                    | [] => false
                    end
  | Some i :: ops' => match edf_pick s i with
                      | Some s' => edf_ops D s' ws ops'
                      | None => false
                      end
  end.
Definition edf_ops_case := (list Z * list (option nat))%type.
Definition edf_ops_case_ok (k : edf_ops_case) : bool :=
  match k with (ws, ops) => edf_ops (prod_weights ws) edf_init ws ops end.
Definition edf_ops_mismatches (l : list edf_ops_case) : list nat := mism edf_ops_case_ok 0 l.
