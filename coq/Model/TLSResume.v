(* Model of RESUMED TLS handshakes on a MOSN listener (property C13, group tls).  ONLY executable definitions.

   pkg/mtls/tls_context_manager.go   serverContextManager.GetConfigForClient hands crypto/tls a Clone of the tls.Config of the
                                     selected context; Clone initialises the session ticket keys of THAT config, so the
                                     ticket keys belong to the tls.Config of one context: a ticket decrypts only for the
                                     context object that issued it.  An in-place change of a context (sdsProvider.update
                                     builds a new tls.Config) and a listener update (new manager) both bring new keys.
   pkg/mtls/crypto/tls/handshake_server.go        checkForResumption / doResumeHandshake (TLS 1.2 session tickets)
   pkg/mtls/crypto/tls/handshake_server_tls13.go  checkForResumption (TLS 1.3 PSK)
       the ticket is usable when it decrypts and [requiresClientCert(mode) -> ticket has a client chain] and
       [ticket has a client chain -> mode <> NoClientCert]; otherwise the server goes on with a full handshake;
       a usable ticket's chain goes through processCertsFromClient (x509 verification against the ClientCAs of the config
       selected for THIS connection at the CURRENT time when the mode verifies); an error there ends the handshake.
   Time is in ticks; a certificate is valid at the ticks rc_from .. rc_to.  The TLS 1.3 ticket life time (7 days) is outside
   the model: histories stay far below it.
   Switch read from the source (Gen/TLSTokens.v): tls_resume_verifies - processCertsFromClient verifies whatever the origin
   of the chain is (no extra argument / condition that skips the verification for a chain out of a ticket). *)
From Coq Require Import List Arith Bool.
From MV Require Import Model.TLSSelect.
Import ListNotations.

Record rcert := mkRC { rc_ca : nat; rc_from : nat; rc_to : nat }.
(* the policy of one context: require_client_cert, verify_client, the CA it trusts *)
Record rpolicy := mkRP { rp_require : bool; rp_verify : bool; rp_ca : nat }.

Definition r_mode (p : rpolicy) : auth_mode := client_auth (rp_require p) (rp_verify p).

Definition r_rel (p : rpolicy) (now : nat) (c : option rcert) : peer_rel :=
  match c with
  | None => PeerNone
  | Some c => if Nat.eqb (rc_ca c) (rp_ca p)
              then (if andb (Nat.leb (rc_from c) now) (Nat.leb now (rc_to c)) then PeerRightCA else PeerExpired)
              else PeerOtherCA
  end.

(* would a FULL handshake presenting c be accepted under policy p at time now? (Model.TLSSelect.accepts) *)
Definition accept_full (p : rpolicy) (now : nat) (c : option rcert) : bool := accepts (r_mode p) (r_rel p now c).

(* the ticket: the ticket key (= context object) that sealed it, the client chain stored in it *)
Record rticket := mkT { t_key : nat; t_cert : option rcert }.

Inductive rout := Refused | AcceptedFull | AcceptedResumed.

Inductive rop :=
  | RFull (ctx : nat) (c : option rcert)               (* no ticket offered; the client presents c when asked *)
  | RResume (ctx : nat) (tk : nat) (c : option rcert)  (* ticket number tk (of the tickets obtained so far) offered; c presented if the server falls back to a full handshake *)
  | RTick (d : nat)                                    (* the clock advances *)
  | RPolicy (ctx : nat) (p : rpolicy)                  (* the policy of one context is replaced in place (SDS push): new context object *)
  | RRebuild (ps : list rpolicy).                      (* listener update: new manager, new context objects *)

(* r_gen: the next unused ticket key; r_ctxs: the policy and the ticket key of every context *)
Record rstate := mkR { r_now : nat; r_gen : nat; r_ctxs : list (rpolicy * nat); r_tickets : list rticket; r_outs : list rout }.

Definition no_policy : rpolicy := mkRP false false 0.
Definition pol (s : rstate) (ctx : nat) : rpolicy := fst (nth ctx (r_ctxs s) (no_policy, 0)).
Definition key (s : rstate) (ctx : nat) : nat := snd (nth ctx (r_ctxs s) (no_policy, 0)).
Fixpoint with_keys (ps : list rpolicy) (k : nat) : list (rpolicy * nat) :=
  match ps with [] => [] | p :: ps' => (p, k) :: with_keys ps' (S k) end.

(* the chain a full handshake leaves in the session: none when the server does not ask for one *)
Definition stored_cert (p : rpolicy) (c : option rcert) : option rcert :=
  match r_mode p with NoClientCert => None | _ => c end.

Definition requires_cert (m : auth_mode) : bool := match m with RequireAndVerifyClientCert => true | _ => false end.

(* checkForResumption: is the ticket used at all? *)
Definition ticket_usable (k : nat) (p : rpolicy) (t : rticket) : bool :=
  andb (Nat.eqb (t_key t) k)
       (andb (implb (requires_cert (r_mode p)) (match t_cert t with Some _ => true | None => false end))
             (negb (andb (match t_cert t with Some _ => true | None => false end)
                         (match r_mode p with NoClientCert => true | _ => false end)))).

Definition full_out (s : rstate) (p : rpolicy) (c : option rcert) : rout :=
  if accept_full p (r_now s) (stored_cert p c) then AcceptedFull else Refused.

(* the outcome of a handshake operation (None: not a handshake); verifies = tls_resume_verifies *)
Definition hs_out (verifies : bool) (s : rstate) (o : rop) : option rout :=
  match o with
  | RFull ctx c => Some (full_out s (pol s ctx) c)
  | RResume ctx tk c =>
      let p := pol s ctx in
      match nth_error (r_tickets s) tk with
      | None => Some (full_out s p c)
      | Some t =>
          if ticket_usable (key s ctx) p t
          then Some (if orb (negb verifies) (accept_full p (r_now s) (t_cert t)) then AcceptedResumed else Refused)
          else Some (full_out s p c)
      end
  | _ => None
  end.

Fixpoint set_nth {A} (l : list A) (n : nat) (v : A) : list A :=
  match l, n with
  | [], _ => []
  | _ :: l', O => v :: l'
  | x :: l', S n' => x :: set_nth l' n' v
  end.

Definition op_ctx (o : rop) : nat := match o with RFull ctx _ => ctx | RResume ctx _ _ => ctx | _ => 0 end.
Definition op_cert (o : rop) : option rcert := match o with RFull _ c => c | RResume _ _ c => c | _ => None end.

Definition r_step (verifies : bool) (s : rstate) (o : rop) : rstate :=
  match o with
  | RTick d => mkR (r_now s + d) (r_gen s) (r_ctxs s) (r_tickets s) (r_outs s)
  | RPolicy ctx p => mkR (r_now s) (S (r_gen s)) (set_nth (r_ctxs s) ctx (p, r_gen s)) (r_tickets s) (r_outs s)
  | RRebuild ps => mkR (r_now s) (r_gen s + length ps) (with_keys ps (r_gen s)) (r_tickets s) (r_outs s)
  | _ =>
      match hs_out verifies s o with
      | Some AcceptedFull =>
          (* a completed full handshake hands the client a ticket carrying the chain of this session *)
          mkR (r_now s) (r_gen s) (r_ctxs s) (r_tickets s ++ [mkT (key s (op_ctx o)) (stored_cert (pol s (op_ctx o)) (op_cert o))]) (r_outs s ++ [AcceptedFull])
      | Some x => mkR (r_now s) (r_gen s) (r_ctxs s) (r_tickets s) (r_outs s ++ [x])
      | None => s
      end
  end.

Definition r_init (now : nat) (ps : list rpolicy) : rstate := mkR now (length ps) (with_keys ps 0) [] [].
Definition r_run (verifies : bool) (now : nat) (ps : list rpolicy) (ops : list rop) : rstate :=
  fold_left (r_step verifies) ops (r_init now ps).

(* THE PROPERTY, as a check on one step: a session accepted by resumption is one a full handshake with the same peer
   certificate would accept under the policy of the selected context and the time in force NOW *)
Definition step_sound (verifies : bool) (s : rstate) (o : rop) : bool :=
  match o with
  | RResume ctx tk c =>
      match nth_error (r_tickets s) tk, hs_out verifies s o with
      | Some t, Some AcceptedResumed => accept_full (pol s ctx) (r_now s) (t_cert t)
      | _, _ => true
      end
  | _ => true
  end.

Fixpoint run_sound (verifies : bool) (s : rstate) (ops : list rop) : bool :=
  match ops with
  | [] => true
  | o :: ops' => andb (step_sound verifies s o) (run_sound verifies (r_step verifies s o) ops')
  end.

Definition rout_code (o : rout) : nat := match o with Refused => 0 | AcceptedFull => 1 | AcceptedResumed => 2 end.

(* correspondence case: start time, policies of the contexts, history, the outcome of every handshake of the history *)
Definition res_case := (nat * list rpolicy * list rop * list nat)%type.
Definition res_case_ok (verifies : bool) (k : res_case) : bool :=
  match k with (now, ps, ops, got) =>
    let outs := map rout_code (r_outs (r_run verifies now ps ops)) in
    andb (Nat.eqb (length outs) (length got)) (forallb (fun ab => Nat.eqb (fst ab) (snd ab)) (combine outs got)) end.
Definition res_mismatches (verifies : bool) (l : list res_case) : list nat := mismatches_from (res_case_ok verifies) 0 l.
