(* Model/H2FwdCases.v (group h2): comparison functions of the C01 (HTTP/2) correspondence shards. *)
From Coq Require Import List NArith Bool.
From MV Require Import Lib.HBits Lib.HCaseIO Model.H2Frame Model.H2Demux Model.H2Fwd.
Import ListNotations.
Open Scope N_scope.

Definition lbytes_eqb (a b : list bytes) : bool := list_eqb bytes_eqb a b.

(* ---------------------------------------------------------------- header layer *)
(* (response?, HEADERS carried END_STREAM, fields received in wire order, fields the REAL stack forwarded as a reference
   decoder read them) *)
Definition hdr_case := (bool * bool * list hf2 * list hf2)%type.

Definition model_forward (response es : bool) (fs : list hf2) : option (list hf2) :=
  if response then match cli_response fs with
                   | Some p => Some (srv_response_fields (rsp_hdr p) p None None None)
                   | None => None
                   end
  else match srv_request fs es with
       | Some r => Some (cli_request_fields (r_hdr r) r None None false [])
       | None => None
       end.

Definition hdr_check (c : hdr_case) : bool :=
  let '(response, es, fs, seen) := c in
  match model_forward response es fs with
  | None => false
  | Some mf =>
    let managed := if response then rsp_managed else req_managed in
    let names := map fst (regular fs) ++ map fst (regular seen) in
    forallb (fun n => memb n managed || negb (bytes_eqb (lower n) n) || lbytes_eqb (values n mf) (values n seen)) names
    && (if response then bytes_eqb (pseudo_value p_status mf) (pseudo_value p_status seen)
        else lbytes_eqb (values n_cookie mf) (values n_cookie seen)
             && forallb (fun p => lbytes_eqb (values (58 :: p) mf) (values (58 :: p) seen)) [p_method; p_path; p_scheme; p_authority])
  end.
Definition hdr_mismatches := mismatches hdr_check.

(* ---------------------------------------------------------------- stream layer *)
(* (body = n bytes, body buffer nil?, trailers?, the frames the REAL sender put on the wire for the stream:
   (kind 0 HEADERS / 1 DATA / 2 trailers, payload length (0 for HEADERS), END_STREAM)) *)
Definition shape_case := (N * bool * bool * list (N * N * bool))%type.

Definition shape_of (f : dframe) : N * N * bool :=
  match f with
  | FHead _ _ es => (0, 0, es)
  | FData _ p es => (1, len p, es)
  | FTrail _ _ => (2, 0, true)
  end.

Definition shape_eqb (a b : N * N * bool) : bool :=
  (fst (fst a) =? fst (fst b)) && (snd (fst a) =? snd (fst b)) && Bool.eqb (snd a) (snd b).

Definition shape_check (c : shape_case) : bool :=
  let '(n, bnil, tr, seen) := c in
  let body := repeat 7 (N.to_nat n) in
  (* the grants: the sizes of the DATA frames the sender cut *)
  let takes := map (fun s => snd (fst s)) (filter (fun s => (fst (fst s) =? 1) && negb (snd s)) seen) in
  list_eqb shape_eqb
    (map shape_of (send_stream 1 [] (if bnil then None else Some body) (if tr then Some [1] else None) takes)) seen.
Definition shape_mismatches := mismatches shape_check.
