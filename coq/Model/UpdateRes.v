(* Model of the circuit-breaker resource manager of a cluster across runtime updates:
     pkg/upstream/cluster/resource_manager.go   resource (Increase / Decrease / CanCreate), NewResourceManager
     pkg/upstream/cluster/cluster_manager.go    UpdateClusterResourceManagerHandler (run by AddOrUpdatePrimaryCluster and
                                                AddOrUpdateClusterAndHost), RemovePrimaryCluster
   ONLY executable definitions; proofs are in Proofs/UpdateRes.v.
   One cluster name, one resource (the four resources of a manager behave alike).  Every manager object ever created is
   kept; a request in flight HOLDS the snapshot it started with and gives its count back through that snapshot, i.e. to
   the manager object that snapshot's cluster info points to. *)
From Coq Require Import List ZArith Bool Arith.
Import ListNotations.
Local Open Scope Z_scope.

Record resource := { r_max : nat; r_cur : Z }.

(* resource.CanCreate *)
Definition can_create (r : resource) : bool :=
  if Nat.eqb (r_max r) 0 then true else if Z.ltb (r_cur r) 0 then true else Z.ltb (r_cur r) (Z.of_nat (r_max r)).

Record rstate := {
  rs_mgrs : list resource;          (* manager objects, index = identity *)
  rs_live : option nat;             (* the manager the live cluster's info points to; None: no such cluster *)
  rs_dump : option nat;             (* the threshold in the stored configuration *)
  rs_held : list nat }.             (* requests in flight: the manager each one counted itself in *)

Definition rinit : rstate := {| rs_mgrs := []; rs_live := None; rs_dump := None; rs_held := [] |}.

Inductive rop :=
| RUpdate (max : nat)        (* AddOrUpdatePrimaryCluster / AddOrUpdateClusterAndHost with this threshold (identical or changed) *)
| RHosts                     (* a hosts update: the cluster object, hence its manager, stays *)
| RRemove                    (* RemovePrimaryCluster *)
| RAcquire                   (* a request takes the live snapshot and Increase()s *)
| RRelease (k : nat).        (* the k-th request in flight ends: Decrease() through the snapshot it holds *)

Fixpoint upd {A} (n : nat) (f : A -> A) (l : list A) : list A :=
  match l, n with
  | [], _ => []
  | x :: l', O => f x :: l'
  | x :: l', S n' => x :: upd n' f l'
  end.

Fixpoint remove_nth {A} (n : nat) (l : list A) : list A :=
  match l, n with
  | [], _ => []
  | _ :: l', O => l'
  | x :: l', S n' => x :: remove_nth n' l'
  end.

(* adopt (read from the source: Gen/ClusterSrc.v) = the updated cluster takes over the OLD manager object, whose threshold
   is rewritten in place (updateResourceValue).  Otherwise it keeps its own new manager and the old one's current count
   is copied into it. *)
Definition rstep (adopt : bool) (s : rstate) (o : rop) : rstate :=
  match o with
  | RUpdate max =>
      match rs_live s with
      | Some m =>
          if adopt then
            {| rs_mgrs := upd m (fun r => {| r_max := max; r_cur := r_cur r |}) (rs_mgrs s);
               rs_live := Some m; rs_dump := Some max; rs_held := rs_held s |}
          else
            let cur := match nth_error (rs_mgrs s) m with Some r => r_cur r | None => 0 end in
            {| rs_mgrs := (rs_mgrs s ++ [{| r_max := max; r_cur := cur |}])%list;
               rs_live := Some (List.length (rs_mgrs s)); rs_dump := Some max; rs_held := rs_held s |}
      | None =>
          {| rs_mgrs := (rs_mgrs s ++ [{| r_max := max; r_cur := 0 |}])%list;
             rs_live := Some (List.length (rs_mgrs s)); rs_dump := Some max; rs_held := rs_held s |}
      end
  | RHosts => s
  | RRemove => {| rs_mgrs := rs_mgrs s; rs_live := None; rs_dump := None; rs_held := rs_held s |}
  | RAcquire =>
      match rs_live s with
      | Some m => {| rs_mgrs := upd m (fun r => {| r_max := r_max r; r_cur := r_cur r + 1 |}) (rs_mgrs s);
                     rs_live := rs_live s; rs_dump := rs_dump s; rs_held := (rs_held s ++ [m])%list |}
      | None => s
      end
  | RRelease k =>
      match nth_error (rs_held s) k with
      | Some m => {| rs_mgrs := upd m (fun r => {| r_max := r_max r; r_cur := r_cur r - 1 |}) (rs_mgrs s);
                     rs_live := rs_live s; rs_dump := rs_dump s; rs_held := remove_nth k (rs_held s) |}
      | None => s
      end
  end.

Definition rrun (adopt : bool) (ops : list rop) : rstate := fold_left (rstep adopt) ops rinit.

Definition live_resource (s : rstate) : option resource :=
  match rs_live s with Some m => nth_error (rs_mgrs s) m | None => None end.
(* the manager of a cluster freshly built from the stored configuration *)
Definition fresh_resource (s : rstate) : option resource :=
  match rs_dump s with Some max => Some {| r_max := max; r_cur := 0 |} | None => None end.

(* ---- correspondence: after every operation (live present, max, cur, can_create; dump present, max) *)
Definition rfp (s : rstate) : list Z :=
  (match live_resource s with
   | Some r => [1; Z.of_nat (r_max r); r_cur r; if can_create r then 1 else 0]
   | None => [0; 0; 0; 0]
   end ++
   match rs_dump s with Some m => [1; Z.of_nat m] | None => [0; 0] end)%list.
Fixpoint rrun_fp (adopt : bool) (s : rstate) (ops : list rop) : list (list Z) :=
  match ops with
  | [] => []
  | o :: ops' => let s1 := rstep adopt s o in rfp s1 :: rrun_fp adopt s1 ops'
  end.
Fixpoint zs_eqb (a b : list Z) : bool :=
  match a, b with [], [] => true | x :: a', y :: b' => andb (Z.eqb x y) (zs_eqb a' b') | _, _ => false end.
Fixpoint zss_eqb (a b : list (list Z)) : bool :=
  match a, b with [], [] => true | x :: a', y :: b' => andb (zs_eqb x y) (zss_eqb a' b') | _, _ => false end.
Definition res_case := (list rop * list (list Z))%type.
Definition res_case_ok (adopt : bool) (k : res_case) : bool := let (ops, fps) := k in zss_eqb (rrun_fp adopt rinit ops) fps.
Fixpoint res_mismatches_from (adopt : bool) (i : nat) (l : list res_case) : list nat :=
  match l with
  | [] => []
  | k :: l' => if res_case_ok adopt k then res_mismatches_from adopt (S i) l' else i :: res_mismatches_from adopt (S i) l'
  end.
Definition res_mismatches (adopt : bool) (l : list res_case) : list nat := res_mismatches_from adopt 0 l.
