(* Model/HeaderKV.v (codec) - the key/value header block of bolt/boltv2 (and the wasm codec):
   pkg/protocol/xprotocol/header.go DecodeHeader/decodeStr (after the S1 repair; before it the same loop lived in
   mosn.io/pkg/header without the guard), mosn.io/pkg/header EncodeHeader/GetHeaderEncodeLength and
   BytesHeader.Set/Del/Get.  ONLY executable definitions.

   Go:  for index < totalLen {
          kv.Key, index, err = decodeStr(bytes, totalLen, index);  errInvalidLength -> continue; err -> return
          kv.Value, index, err = decodeStr(...)                    (same)
          h.Kvs = append(h.Kvs, kv) }
        decodeStr: [guard: if totalLen-index < 4 { return error }]      <- `chk` (Gen/CodecSrc.v xp_hdr_checked)
                   length := Uint32(bytes[index:])                      <- panics when fewer than 4 bytes remain
                   length == 0xFFFFFFFF -> (index+4, errInvalidLength)
                   end := index+4+length; end > totalLen -> error
                   return bytes[index+4:end:end], end
   The model walks `rest` = bytes[index:] instead of carrying the index. *)
From Coq Require Import List NArith Bool.
From MV Require Import Lib.Bytes Lib.Dec Model.CodecParams.
Import ListNotations.
Open Scope N_scope.

Definition kv := (bytes * bytes)%type.

Inductive sres := SOk (s : bytes) (rest : bytes) | SInvalid (rest : bytes) | SErr | SPanic.

(* `rest` = bytes[index:], `idx` = index.  The test "the string ends inside the block":
     w32 = false   end := index + 4 + int(length); if end > totalLen      (int: 64 bits here; no wrap for a 32-bit length)
     w32 = true    end := uint32(index) + 4 + length; if end > uint32(totalLen)   (the sum WRAPS for length >= 2^32-4-index;
                   the wrapped end passes the test and bytes[index+4:end:end] panics)
   which of the two the code has is read from the source (Gen/CodecSrc.v hdr_end_u32). *)
Definition decode_str (chk w32 : bool) (idx : N) (rest : bytes) : sres :=
  match rest with
  | a :: b :: c :: d :: r =>
      let l := be_decw [a; b; c; d] in
      if l =? 4294967295 then SInvalid r
      else if w32 then
        let total := idx + blen rest in
        let e := (idx + 4 + l) mod 4294967296 in
        if total mod 4294967296 <? e then SErr
        else if e <? idx + 4 then SPanic
        else SOk (takeN (e - (idx + 4)) r) (dropN (e - (idx + 4)) r)
      else if blen r <? l then SErr
      else SOk (takeN l r) (dropN l r)
  | _ => if chk then SErr else SPanic
  end.

Inductive hres := HOk | HErr | HPanic | HFuel.

(* the index is only needed (and only computed) for the uint32 form *)
Definition next_idx (w32 : bool) (idx : N) (rest r : bytes) : N := if w32 then idx + (blen rest - blen r) else 0.

Fixpoint hdr_loop (chk w32 : bool) (fuel : nat) (idx : N) (rest : bytes) (acc : list kv) : hres * list kv :=
  match rest with
  | [] => (HOk, acc)
  | _ :: _ =>
    match fuel with
    | O => (HFuel, acc)
    | S k =>
      match decode_str chk w32 idx rest with
      | SPanic => (HPanic, acc)
      | SErr => (HErr, acc)
      | SInvalid r => hdr_loop chk w32 k (next_idx w32 idx rest r) r acc
      | SOk key r =>
        let i1 := next_idx w32 idx rest r in
        match decode_str chk w32 i1 r with
        | SPanic => (HPanic, acc)
        | SErr => (HErr, acc)
        | SInvalid r' => hdr_loop chk w32 k (next_idx w32 i1 r r') r' acc
        | SOk val r' => hdr_loop chk w32 k (next_idx w32 i1 r r') r' (acc ++ [(key, val)])
        end
      end
    end
  end.

Definition hdr_decode_sw (chk w32 : bool) (h : bytes) : hres * list kv := hdr_loop chk w32 (S (length h)) 0 h [].
(* with the end test of the code in the tree (expected: int arithmetic) *)
Definition hdr_decode (chk : bool) (h : bytes) : hres * list kv := hdr_decode_sw chk hdr_end_u32 h.

(* EncodeHeader: uint32(len) big endian, then the bytes, for key and value of every pair *)
Definition enc_str (s : bytes) : bytes := be_enc 4 (blen s) ++ s.
Fixpoint hdr_encode (kvs : list kv) : bytes :=
  match kvs with
  | [] => []
  | (k, v) :: r => enc_str k ++ enc_str v ++ hdr_encode r
  end.
(* GetHeaderEncodeLength *)
Fixpoint hdr_enc_len (kvs : list kv) : N :=
  match kvs with
  | [] => 0
  | (k, v) :: r => 8 + blen k + blen v + hdr_enc_len r
  end.

(* BytesHeader.Get / Set / Del (first match on the key) *)
Fixpoint kv_get (k : bytes) (kvs : list kv) : option bytes :=
  match kvs with
  | [] => None
  | (k', v') :: r => if beq k' k then Some v' else kv_get k r
  end.
Fixpoint kv_set (k v : bytes) (kvs : list kv) : list kv :=
  match kvs with
  | [] => [(k, v)]
  | (k', v') :: r => if beq k' k then (k', v) :: r else (k', v') :: kv_set k v r
  end.
Fixpoint kv_del (k : bytes) (kvs : list kv) : option (list kv) :=
  match kvs with
  | [] => None
  | (k', v') :: r => if beq k' k then Some r else
                       match kv_del k r with Some r' => Some ((k', v') :: r') | None => None end
  end.

Fixpoint kvs_eqb (a b : list kv) : bool :=
  match a, b with
  | [], [] => true
  | (k, v) :: a', (k', v') :: b' => beq k k' && beq v v' && kvs_eqb a' b'
  | _, _ => false
  end.
