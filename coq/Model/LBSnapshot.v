(* Model of cluster.go: simpleCluster.UpdateHosts publishes (info, hostSet, lb) with ONE atomic.Value.Store;
   lookups read the triple with one atomic Load (Snapshot()) and then choose with the balancer of that triple.
   Threads of atomic micro-steps over Lib/Interleave.v.  ONLY executable definitions; proofs in Proofs/LBSnapshot.v.

   UpdateHosts(hs'):  lb := NewLoadBalancer(info, hs')      (local; the balancer captures hs')
                      sc.lbInstance = lb ; sc.hostSet = hs' ; sc.snapshot.Store(&clusterSnapshot{lb, hs', info})
   (the mutex around the three writes is left out: more interleavings, so the theorem is stronger)
   lookup:            snap := sc.snapshot.Load() ; host := snap.lb.ChooseHost(ctx) *)
From Coq Require Import List ZArith NArith Bool.
From MV Require Import Lib.Interleave Model.LB.
Import ListNotations.

(* a published triple: the host set and the hosts captured by its balancer *)
Definition triple := (list host * list host)%type.

Record sshared := mkSh { s_snap : triple; s_lbinst : list host; s_hostset : list host }.

Inductive sthread :=
| TUpd (hs' : list host) (pc : nat)
| TLook (p : policy) (rr : N) (x : inputs) (loaded : option triple) (result : option (option host)).

Definition sstep (la lc : bool) (t : sthread) (s : sshared) : sthread * sshared :=
  match t with
  | TUpd hs' 0 => (TUpd hs' 1, s)                                             (* build the balancer *)
  | TUpd hs' 1 => (TUpd hs' 2, mkSh (s_snap s) hs' (s_hostset s))             (* sc.lbInstance = lb *)
  | TUpd hs' 2 => (TUpd hs' 3, mkSh (s_snap s) (s_lbinst s) hs')              (* sc.hostSet = hostSet *)
  | TUpd hs' 3 => (TUpd hs' 4, mkSh (hs', hs') (s_lbinst s) (s_hostset s))    (* snapshot.Store *)
  | TUpd hs' pc => (TUpd hs' pc, s)
  | TLook p rr x None res => (TLook p rr x (Some (s_snap s)) res, s)          (* snapshot.Load *)
  | TLook p rr x (Some tr) None =>
      (TLook p rr x (Some tr) (Some (o_res (choose la lc p (snd tr) rr x))), s)  (* tr.lb.ChooseHost *)
  | TLook p rr x (Some tr) (Some r) => (t, s)
  end.

Definition upd_sets (ts : list sthread) : list (list host) :=
  flat_map (fun t => match t with TUpd h _ => [h] | _ => [] end) ts.

Definition fresh (t : sthread) : bool :=
  match t with TUpd _ 0 => true | TLook _ _ _ None None => true | _ => false end.

Definition srun (la lc : bool) (sched : list nat) (ts : list sthread) (hs0 : list host) : list sthread * sshared :=
  run (sstep la lc) sched (ts, mkSh (hs0, hs0) hs0 hs0).
