(* Ping-pong pool: the RETURN of a leased client (activeClientPingPong.Close(nil) -> putClientToPoolLocked) against the
   CLOSE EVENT of the same client (removeFromPool), as micro-steps under every schedule (Lib/Interleave.v).

     closed flag tested inside the critical section of the append (the source)     [ULock; UTestAppend; UUnlock]
     closed flag read before the lock is taken, append unconditional               [UReadClosed; ULock; UAppend; UUnlock]
     removeFromPool                                                                [ULock; URemove; UUnlock]
   ONLY executable definitions; proofs in Proofs/PoolPut.v. *)
From Coq Require Import List Bool Arith.
From MV Require Import Lib.Interleave.
Import ListNotations.

Inductive uinstr :=
| ULock | UUnlock
| UReadClosed        (* if ac.closed { return } before the lock *)
| UAppend            (* idleClients = append(idleClients, ac) *)
| UTestAppend        (* if !ac.closed { append } in one critical section *)
| URemove.           (* remove ac from idleClients; ac.closed = true *)

Record ushared := mkUSh { u_mu : bool; u_closed : bool; u_idle : bool }.

Definition ustep (t : list uinstr) (s : ushared) : list uinstr * ushared :=
  match t with
  | [] => (t, s)
  | ULock :: r => if u_mu s then (t, s) else (r, mkUSh true (u_closed s) (u_idle s))
  | UUnlock :: r => (r, mkUSh false (u_closed s) (u_idle s))
  | UReadClosed :: r => if u_closed s then ([], s) else (r, s)
  | UAppend :: r => (r, mkUSh (u_mu s) (u_closed s) true)
  | UTestAppend :: r => if u_closed s then (r, s) else (r, mkUSh (u_mu s) (u_closed s) true)
  | URemove :: r => (r, mkUSh (u_mu s) true false)
  end.

Definition ucfg := (list (list uinstr) * ushared)%type.
Definition put_prog (tested_locked : bool) : list uinstr :=
  if tested_locked then [ULock; UTestAppend; UUnlock] else [UReadClosed; ULock; UAppend; UUnlock].
Definition remove_prog : list uinstr := [ULock; URemove; UUnlock].
Definition put_cfg (tested_locked : bool) : ucfg := ([put_prog tested_locked; remove_prog], mkUSh false false false).
Definition urun (sched : list nat) (c : ucfg) : ucfg := Interleave.run ustep sched c.

(* a closed client is never idle in the pool *)
Definition put_good (c : ucfg) : bool := negb (u_closed (snd c) && u_idle (snd c)).
Definition put_statement (c0 : ucfg) : Prop := forall sched, put_good (urun sched c0) = true.

(* the reachable set, computed (a plain worklist; nothing is proved ABOUT this function: Proofs/PoolPut.v checks the
   resulting list closed under every step by case analysis) *)
Definition uinstr_eqb (a b : uinstr) : bool :=
  match a, b with
  | ULock, ULock | UUnlock, UUnlock | UReadClosed, UReadClosed | UAppend, UAppend | UTestAppend, UTestAppend | URemove, URemove => true
  | _, _ => false
  end.
Fixpoint ulist_eqb {A} (e : A -> A -> bool) (a b : list A) : bool :=
  match a, b with [], [] => true | x :: a', y :: b' => e x y && ulist_eqb e a' b' | _, _ => false end.
Definition ucfg_eqb (a b : ucfg) : bool :=
  ulist_eqb (ulist_eqb uinstr_eqb) (fst a) (fst b) && Bool.eqb (u_mu (snd a)) (u_mu (snd b)) &&
  Bool.eqb (u_closed (snd a)) (u_closed (snd b)) && Bool.eqb (u_idle (snd a)) (u_idle (snd b)).
Fixpoint ureach (fuel : nat) (frontier visited : list ucfg) : list ucfg :=
  match fuel with
  | O => visited
  | S f =>
    match frontier with
    | [] => visited
    | c :: rest => if existsb (ucfg_eqb c) visited then ureach f rest visited
                   else ureach f (sched_step ustep c 0 :: sched_step ustep c 1 :: rest) (c :: visited)
    end
  end.
Definition ureachable (c0 : ucfg) : list ucfg := ureach 500 [c0] [].
