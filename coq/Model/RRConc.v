(* Round robin ChooseHost (pkg/upstream/cluster/loadbalancer.go roundRobinLoadBalancer) at the granularity of its
   atomic.AddUint32 calls and Health() reads, for CONCURRENT lookups sharing the cursor (Lib/Interleave.v).
   ONLY executable definitions; proofs in Proofs/RRConc.v.

     for i := 0; i < total; i++ { index := atomic.AddUint32(&rrIndex, 1) % uint32(total)        (micro-step: add)
                                  if hosts.Get(index).Health() { return host } }                 (micro-step: probe)
     second pass (issue 1663):   secondStartIndex := ... atomic.AddUint32(&rrIndex, 1) ...        (micro-step: add)
     for i := 0; i < total; i++ { index := <second-pass index expression>; probe }               (micro-step: probe)

   The second-pass index expression is READ FROM THE SOURCE (Gen/RRTokens.v rr_second_pass):
     SPReduced : start := int(cursor % uint32(total));  index := (i + start) % total
     SPRaw     : start := cursor (raw uint32);          index := (start + uint32(i)) % uint32(total)   (wraps at 2^32)
   Shared state: the uint32 cursor and the health of every host (hosts = positions 0..total-1).
   Threads: lookups; health flips of one host (a flip between any two micro-steps); cursor bumps (a fragment of n
   AddUint32 calls of some other lookup).  Ghost: every lookup records the positions it probed and found unhealthy. *)
From Coq Require Import List NArith Arith Bool.
From MV Require Import Lib.Interleave.
Import ListNotations.

Inductive sp_variant := SPReduced | SPRaw.

Definition u32 (n : N) : N := (n mod 4294967296)%N.

Inductive rphase :=
| R1add (i : nat)                       (* about to AddUint32 for probe i of the first pass *)
| R1probe (i : nat) (idx : nat)         (* about to read Health() of position idx *)
| R2add                                 (* about to AddUint32 for the second pass *)
| R2probe (start : N) (i : nat)         (* about to read Health() of the i-th position of the second pass *)
| RDone (res : option nat).

Inductive rthread :=
| RLook (ph : rphase) (obs : list nat)
| RFlip (k : nat) (done : bool)
| RBump (n : nat).

Definition rshared := (N * list bool)%type.   (* cursor, health per position *)

Definition sp_start (v : sp_variant) (total : nat) (cur : N) : N :=
  match v with SPReduced => (cur mod N.of_nat total)%N | SPRaw => cur end.
Definition sp_index (v : sp_variant) (total : nat) (start : N) (i : nat) : nat :=
  match v with
  | SPReduced => (i + N.to_nat start) mod total
  | SPRaw => N.to_nat (u32 (start + N.of_nat i) mod N.of_nat total)%N
  end.

Fixpoint flip_at (k : nat) (hl : list bool) : list bool :=
  match hl, k with
  | [], _ => []
  | b :: hl', O => negb b :: hl'
  | b :: hl', S k' => b :: flip_at k' hl'
  end.

Definition rstep (v : sp_variant) (t : rthread) (s : rshared) : rthread * rshared :=
  let '(cur, hl) := s in
  let total := length hl in
  match t with
  | RLook ph obs =>
      match ph with
      | R1add i =>
          match total with
          | O => (RLook (RDone None) obs, s)
          | _ => let cur' := u32 (cur + 1) in
                 (RLook (R1probe i (N.to_nat (cur' mod N.of_nat total)%N)) obs, (cur', hl))
          end
      | R1probe i idx =>
          if nth idx hl false then (RLook (RDone (Some idx)) obs, s)
          else if Nat.ltb (S i) total then (RLook (R1add (S i)) (idx :: obs), s)
               else (RLook R2add (idx :: obs), s)
      | R2add =>
          let cur' := u32 (cur + 1) in (RLook (R2probe (sp_start v total cur') 0) obs, (cur', hl))
      | R2probe start i =>
          let idx := sp_index v total start i in
          if nth idx hl false then (RLook (RDone (Some idx)) obs, s)
          else if Nat.ltb (S i) total then (RLook (R2probe start (S i)) (idx :: obs), s)
               else (RLook (RDone None) (idx :: obs), s)
      | RDone _ => (t, s)
      end
  | RFlip k false => (RFlip k true, (cur, flip_at k hl))
  | RFlip k true => (t, s)
  | RBump O => (t, s)
  | RBump (S n) => (RBump n, (u32 (cur + 1), hl))
  end.

Definition new_lookup : rthread := RLook (R1add 0) [].
Definition rrun (v : sp_variant) (sched : list nat) (ts : list rthread) (cur : N) (hl : list bool)
  : list rthread * rshared := run (rstep v) sched (ts, (cur, hl)).

Definition flip_targets (ts : list rthread) : list nat :=
  flat_map (fun t => match t with RFlip k _ => [k] | _ => [] end) ts.
(* a host that is healthy and that no flip thread touches: healthy throughout every lookup of the run *)
Definition stable_healthy (ts : list rthread) (hl : list bool) (k : nat) : Prop :=
  nth k hl false = true /\ ~ In k (flip_targets ts).

(* --- correspondence: lookups on the real balancer with scripted interference at a probe of the outer lookup ---- *)
(* (variant is taken from Gen) size/health, cursor, threads, schedule, (results of the lookup threads in thread
   order: None = not finished is never produced by the harness), final cursor *)
Inductive rres := RNil | RIdx (i : nat) | RPending.
Definition rr_case := (list bool * N * list rthread * list nat * list rres * N)%type.
Definition res_of (t : rthread) : list rres :=
  match t with
  | RLook (RDone None) _ => [RNil]
  | RLook (RDone (Some i)) _ => [RIdx i]
  | RLook _ _ => [RPending]    (* unfinished: never equal to an observation *)
  | _ => []
  end.
Definition rres_eqb (a b : rres) : bool :=
  match a, b with RNil, RNil => true | RIdx i, RIdx j => Nat.eqb i j | _, _ => false end.
Fixpoint rres_list_eqb (a b : list rres) : bool :=
  match a, b with [], [] => true | x :: a', y :: b' => rres_eqb x y && rres_list_eqb a' b' | _, _ => false end.
Definition rr_case_ok (v : sp_variant) (k : rr_case) : bool :=
  match k with
  | (hl, cur, ts, sched, results, cur') =>
      let r := rrun v sched ts cur hl in
      rres_list_eqb (flat_map res_of (fst r)) results && N.eqb (fst (snd r)) cur'
  end.
Fixpoint rr_mismatches_from (v : sp_variant) (i : nat) (l : list rr_case) : list nat :=
  match l with
  | [] => []
  | x :: l' => if rr_case_ok v x then rr_mismatches_from v (S i) l' else i :: rr_mismatches_from v (S i) l'
  end.
Definition rr_mismatches (v : sp_variant) (l : list rr_case) : list nat := rr_mismatches_from v 0 l.
