(* Correspondence machinery for Model/Proxy.v (executable only): observables of a run and the exploration of the schedules
   that a recorded history allows.  The harness runs the REAL downStream with an event script, records what the proxy did, and
   reports the timeline as ROUNDS: events whose (observed / computed) times are closer than the clustering threshold share a
   round and are racy with one another and with the worker; between rounds the worker runs until it parks / sleeps / is done.
   [case_ok] = the recorded observables are among those of the model's schedules for that timeline (trace inclusion). *)
From Coq Require Import List ZArith Bool Arith.
From MV Require Import Model.Proxy.
Import ListNotations.
Open Scope Z_scope.

Record obs := {
  o_down : list out;        (* downstream sender calls, in order *)
  o_up : list out;          (* pool / upstream sender calls, in order *)
  o_filters : list out;     (* filter calls, in order *)
  o_done : bool;            (* the worker goroutine returned *)
  o_gauge : Z;              (* DownstreamRequestActive at quiescence, relative to before the request (+1 at creation) *)
  o_res : Z;                (* Retries().Cur() at quiescence relative to before *)
  o_destroyed : bool        (* filters' OnDestroy ran *)
}.

Definition is_down (o : out) : bool := match o with ODownHdr _ _ _ | ODownData _ _ | ODownTrl | ODownReset => true | _ => false end.
Definition is_up (o : out) : bool := match o with OUpNew _ _ | OUpHdr _ _ _ | OLeak _ | OUpData _ _ | OUpTrl _ | OUpReset _ => true | _ => false end.
Definition is_filter (o : out) : bool := match o with OFilterRecv _ _ _ | OFilterSend _ _ => true | _ => false end.
Definition res_delta (o : out) : Z := match o with ORes d => d | _ => 0 end.
Definition gauge_delta (o : out) : Z := match o with OGauge d => d | _ => 0 end.
Definition sumZ (f : out -> Z) (l : list out) : Z := fold_left (fun a o => a + f o) l 0.

Definition verdict_eqb (a b : verdict) : bool :=
  match a, b with
  | VContinue, VContinue | VStop, VStop | VTerm, VTerm | VHijack, VHijack | VHijackCont, VHijackCont | VDirect, VDirect
  | VReMatch, VReMatch | VReChoose, VReChoose => true
  | _, _ => false
  end.
Definition out_eqb (a b : out) : bool :=
  match a, b with
  | ODownHdr e k c, ODownHdr e' k' c' => Bool.eqb e e' && rkind_eqb k k' && (c =? c')
  | ODownData e w, ODownData e' w' => Bool.eqb e e' && rkind_eqb w w'
  | ODownTrl, ODownTrl | ODownReset, ODownReset | OChoose, OChoose | ODestroy, ODestroy | OLog, OLog | OPanic, OPanic => true
  | OUpNew k r, OUpNew k' r' => (k =? k')%nat && poolres_eqb r r'
  | OUpHdr k e n, OUpHdr k' e' n' => (k =? k')%nat && Bool.eqb e e' && (n =? n')%nat
  | OUpData k e, OUpData k' e' => (k =? k')%nat && Bool.eqb e e'
  | OUpTrl k, OUpTrl k' | OUpReset k, OUpReset k' | OLeak k, OLeak k' => (k =? k')%nat
  | ORes d, ORes d' | OGauge d, OGauge d' => d =? d'
  | OFilterRecv i p v, OFilterRecv i' p' v' => (i =? i')%nat && (p =? p')%nat && verdict_eqb v v'
  | OFilterSend i v, OFilterSend i' v' => (i =? i')%nat && verdict_eqb v v'
  | _, _ => false
  end.
Fixpoint outs_eqb (a b : list out) : bool :=
  match a, b with
  | [], [] => true
  | x :: a', y :: b' => out_eqb x y && outs_eqb a' b'
  | _, _ => false
  end.

Definition observe (c : cfg) (s : st) (o : list out) : obs :=
  {| o_down := filter is_down o; o_up := filter is_up o; o_filters := filter is_filter o;
     o_done := wdone s; o_gauge := 1 + sumZ gauge_delta o; o_res := sumZ res_delta o;
     o_destroyed := existsb (fun x => match x with ODestroy => true | _ => false end) o &&
                    negb (match c_recv c, c_send c with [], [] => true | _, _ => false end) |}.

Definition obs_eqb (a b : obs) : bool :=
  outs_eqb (o_down a) (o_down b) && outs_eqb (o_up a) (o_up b) && outs_eqb (o_filters a) (o_filters b) &&
  Bool.eqb (o_done a) (o_done b) && (o_gauge a =? o_gauge b) && (o_res a =? o_res b) && Bool.eqb (o_destroyed a) (o_destroyed b).

(* timeline items *)
Inductive item := TEv (e : ev) | TUntil (p : phase).   (* TUntil p: the worker was observed to be stopped just before phase p *)

Section Explore.
Variable src : srcp.
Variable c : cfg.

(* run the worker while enabled (deterministic); None = out of fuel *)
Fixpoint run_worker (fuel : nat) (s : st) (acc : list out) : option (st * list out) :=
  match fuel with
  | O => None
  | S f => if worker_enabled s then let '(s1, o1) := worker src c s in run_worker f s1 (acc ++ o1) else Some (s, acc)
  end.
(* run the worker until it is about to execute phase p, or is not enabled *)
Fixpoint run_worker_until (p : phase) (fuel : nat) (s : st) (acc : list out) : option (st * list out) :=
  match fuel with
  | O => None
  | S f =>
    if worker_enabled s && negb (phase_eqb (ph s) p)
    then let '(s1, o1) := worker src c s in run_worker_until p f s1 (acc ++ o1) else Some (s, acc)
  end.

Fixpoint remove_nth {X} (n : nat) (l : list X) : list X :=
  match n, l with
  | _, [] => []
  | O, _ :: l' => l'
  | S n', x :: l' => x :: remove_nth n' l'
  end.

(* all interleavings of the round's events (any order) with worker steps; a TUntil item is a scheduling hint *)
Fixpoint explore_round (fuel : nat) (s : st) (acc : list out) (items : list item) : list (option (st * list out)) :=
  match fuel with
  | O => [None]
  | S f =>
    match items with
    | [] => [Some (s, acc)]
    | _ =>
      let deliver :=
        flat_map (fun i =>
          match nth_error items i with
          | Some (TEv e) => let '(s1, o1) := env_step src c e s in explore_round f s1 (acc ++ o1) (remove_nth i items)
          | Some (TUntil p) => explore_round f s acc (remove_nth i items)   (* hints are only honoured as singleton rounds *)
          | None => []
          end) (List.seq 0 (length items)) in
      let step_worker :=
        if worker_enabled s then let '(s1, o1) := worker src c s in explore_round f s1 (acc ++ o1) items else [] in
      deliver ++ step_worker
    end
  end.

(* a sleep of the worker ends by itself: besides the wake-ups the harness observed (EvWake items, from the pool's CheckAndInit
   record that follows the sleep of doRetry), the worker may have woken at any round boundary *)
Definition wake_variants (x : option (st * list out)) : list (option (st * list out)) :=
  match x with
  | Some (s, acc) => if sleeping s then [x; Some (fst (env_step src c EvWake s), acc)] else [x]
  | None => [None]
  end.

Fixpoint explore (rounds : list (list item)) (cur : list (option (st * list out))) : list (option (st * list out)) :=
  match rounds with
  | [] => flat_map (fun x => match x with
                             | Some (s, acc) =>
                               match run_worker 400 s acc with
                               | Some (s1, acc1) =>
                                 if sleeping s1 then [Some (s1, acc1); run_worker 400 (fst (env_step src c EvWake s1)) acc1] else [Some (s1, acc1)]
                               | None => [None]
                               end
                             | None => [None] end) (flat_map wake_variants cur)
  | r :: rest =>
    let next := flat_map (fun x =>
      match x with
      | Some (s, acc) =>
        match r with
        | [TUntil p] => [run_worker_until p 400 s acc]          (* explicit hint: do not run to quiescence first *)
        | _ => match run_worker 400 s acc with
               | Some (s1, acc1) => explore_round 200 s1 acc1 r
               | None => [None]
               end
        end
      | None => [None]
      end) (flat_map wake_variants cur) in
    explore rest next
  end.

Definition allowed_from (s0 : st) (rounds : list (list item)) : list (option (st * obs)) :=
  map (fun x => match x with Some (s, o) => Some (s, observe c s o) | None => None end)
      (explore rounds [Some (s0, [])]).
Definition allowed (rounds : list (list item)) : list (option obs) :=
  map (fun x => match x with Some (_, o) => Some o | None => None end) (allowed_from (init_st 0) rounds).

End Explore.

Record pcase := { pc_cfg : cfg; pc_rounds : list (list item); pc_obs : obs }.

Definition case_ok (src : srcp) (k : pcase) : bool :=
  let al := allowed src (pc_cfg k) (pc_rounds k) in
  forallb (fun x => match x with Some _ => true | None => false end) al &&
  existsb (fun x => match x with Some o => obs_eqb o (pc_obs k) | None => false end) al.

Fixpoint mismatches_from {X} (ok : X -> bool) (i : nat) (l : list X) : list nat :=
  match l with
  | [] => []
  | x :: l' => if ok x then mismatches_from ok (S i) l' else i :: mismatches_from ok (S i) l'
  end.
Definition proxy_mismatches (src : srcp) (l : list pcase) : list nat := mismatches_from (case_ok src) 0 l.

(* two requests served one after the other by the same pooled filter-chain object: the second starts from [next_request] of a
   final state of the first that matches the first's observation (or, the pool being free to hand out another object, from a
   fresh state) *)
Record paircase := { pp_first : pcase; pp_second : pcase }.
Definition pair_ok (src : srcp) (k : paircase) : bool :=
  let a := pp_first k in let b := pp_second k in
  let al := allowed_from src (pc_cfg a) (init_st 0) (pc_rounds a) in
  forallb (fun x => match x with Some _ => true | None => false end) al &&
  existsb (fun x => match x with
                    | Some (sa, oa) =>
                      obs_eqb oa (pc_obs a) &&
                      (let starts := [next_request src sa 0; init_st 0] in
                       existsb (fun s0 => existsb (fun y => match y with Some (_, ob) => obs_eqb ob (pc_obs b) | None => false end)
                                                  (allowed_from src (pc_cfg b) s0 (pc_rounds b))) starts)
                    | None => false
                    end) al.
Definition pair_mismatches (src : srcp) (l : list paircase) : list nat := mismatches_from (pair_ok src) 0 l.

(* C02: two requests back to back; when the second was observed to run on the first's recycled objects, the model's giveStream
   must have given them back in a final state of the first that matches its observation *)
Record c02case := { c2_first : pcase; c2_recycled : bool; c2_second : pcase }.
Definition c02_ok (src : srcp) (k : c02case) : bool :=
  let a := c2_first k in
  let al := allowed_from src (pc_cfg a) (init_st 0) (pc_rounds a) in
  forallb (fun x => match x with Some _ => true | None => false end) al &&
  existsb (fun x => match x with
                    | Some (sa, oa) => obs_eqb oa (pc_obs a) && (negb (c2_recycled k) || gave sa)
                    | None => false
                    end) al &&
  case_ok src (c2_second k).
Definition c02_mismatches (src : srcp) (l : list c02case) : list nat := mismatches_from (c02_ok src) 0 l.

(* for debugging a mismatch: what the model allows *)
Definition show_allowed (src : srcp) (k : pcase) := allowed src (pc_cfg k) (pc_rounds k).
