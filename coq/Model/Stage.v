(* Model of the stage manager's stop / upgrade logic under INTERLEAVED signals (property C11).  ONLY executable definitions.

   pkg/stagemanager/stage_manager.go
     NoticeStop(action)   records the stop action (one field, the latest notice wins) and
                            GracefulStop / Stop : releases the main goroutine (wg.Done)
                            Reload (SIGHUP)     : runReload - only from Running: fork-exec a new server, state StartingNewServer
                            Upgrade             : runUpgrade - state Upgrading, then runs the upgrade handler IN THIS goroutine
     upgrade handler      server.ReconfigureHandler: send the listener fds, wait for the new server's ack, sleep, then
                          shutdownServers() (stop accepting + drain) and WaitConnectionsDone; nil -> wg.Done; error -> resume()
     main goroutine       WaitFinish(); Stop(): if the stop action is GracefulStop or Upgrade: runGracefulStopStage =
                          Application.Shutdown() (the drain); then Application.Close().
   Switches read from the source (Gen/StageTokens.v stage_flags): `always` = runGracefulStopStage calls Application.Shutdown
   unconditionally (otherwise the model skips it when the state at Stop() was Upgrading); `hupsafe` = NoticeStop ignores a
   reload once a stop has been noticed (otherwise the reload overwrites the stop action even when it cannot take place). *)
From Coq Require Import List Bool Arith.
Import ListNotations.

Inductive saction := ActNone | ActGraceful | ActUpgrade | ActImmediate.
Inductive sstate := StRunning | StStartingNew | StUpgrading | StStopped.
Inductive scall := CDrainByStop | CDrainByHandler | CClose.

(* g_hpc: 0 no upgrade handler running; 1 started (sending fds); 2 fds sent, waiting for the ack; 3 ack received, sleeping;
          4 servers shut down and drained, waiting for the connections; 5 returned *)
Record stg := mkG { g_state : sstate; g_action : saction; g_released : bool; g_hpc : nat; g_stopped : bool; g_trace : list scall;
                    g_noticed : bool (* a stop (SIGTERM / SIGINT) has been noticed *) }.
Definition g_init : stg := mkG StRunning ActNone false 0 false [] false.
(* the two switches read from the source *)
Record sflags := mkSF { always : bool    (* runGracefulStopStage calls Application.Shutdown unconditionally *);
                        hupsafe : bool   (* NoticeStop ignores a reload once a stop has been noticed *) }.

Inductive sevent :=
  | EvTerm          (* SIGTERM: NoticeStop(GracefulStop) *)
  | EvInt           (* SIGINT / SIGQUIT: NoticeStop(Stop) - stop immediately, no drain by design *)
  | EvHup           (* SIGHUP: NoticeStop(Reload) *)
  | EvNewDial       (* the new server dialled reconfigure.sock: NoticeStop(Upgrade) *)
  | EvHandlerStep   (* the upgrade handler gets one phase further *)
  | EvHandlerFail   (* the upgrade handler fails before it has shut the servers down: resume() *)
  | EvMainStop.     (* the main goroutine, once released, runs Stop() *)

Definition graceful (a : saction) : bool := match a with ActGraceful | ActUpgrade => true | _ => false end.
Definition is_upgrading (s : sstate) : bool := match s with StUpgrading => true | _ => false end.

Definition g_step (f : sflags) (g : stg) (e : sevent) : stg :=
  if g_stopped g then g else
  match e with
  | EvTerm => mkG (g_state g) ActGraceful true (g_hpc g) false (g_trace g) true
  | EvInt => mkG (g_state g) ActImmediate true (g_hpc g) false (g_trace g) true
  | EvHup => (* NoticeStop overwrites the stop action FIRST; runReload then acts only from Running *)
             if andb (hupsafe f) (g_noticed g) then g else
             mkG (match g_state g with StRunning => StStartingNew | s => s end) ActNone (g_released g) (g_hpc g) false (g_trace g) (g_noticed g)
  | EvNewDial => if Nat.eqb (g_hpc g) 0 then mkG StUpgrading ActUpgrade (g_released g) 1 false (g_trace g) (g_noticed g) else g
  | EvHandlerStep =>
      match g_hpc g with
      | 1 => mkG (g_state g) (g_action g) (g_released g) 2 false (g_trace g) (g_noticed g)
      | 2 => mkG (g_state g) (g_action g) (g_released g) 3 false (g_trace g) (g_noticed g)
      | 3 => mkG (g_state g) (g_action g) (g_released g) 4 false (g_trace g ++ [CDrainByHandler]) (g_noticed g)
      | 4 => mkG (g_state g) (g_action g) true 5 false (g_trace g) (g_noticed g)
      | _ => g
      end
  | EvHandlerFail =>
      match g_hpc g with
      | 1 | 2 | 3 => mkG StRunning (g_action g) (g_released g) 0 false (g_trace g) (g_noticed g)
      | _ => g
      end
  | EvMainStop =>
      if g_released g then
        let drain := if andb (graceful (g_action g)) (orb (always f) (negb (is_upgrading (g_state g)))) then [CDrainByStop] else [] in
        mkG StStopped (g_action g) true (g_hpc g) true (g_trace g ++ drain ++ [CClose]) (g_noticed g)
      else g
  end.
Definition g_run (f : sflags) (evs : list sevent) : stg := fold_left (g_step f) evs g_init.

(* the trace property: no Close before a drain has been performed by someone *)
Fixpoint drained_before_close_from (seen : bool) (tr : list scall) : bool :=
  match tr with
  | [] => true
  | CClose :: tr' => andb seen (drained_before_close_from seen tr')
  | _ :: tr' => drained_before_close_from true tr'
  end.
Definition drained_before_close (tr : list scall) : bool := drained_before_close_from false tr.
(* the side condition of the theorem: no immediate stop (SIGINT / SIGQUIT ask for a stop WITHOUT drain, by design) *)
Definition admissible (evs : list sevent) : bool := forallb (fun e => match e with EvInt => false | _ => true end) evs.

(* ---- correspondence: an interleaving and the calls the real stage manager made on the recording Application ---- *)
Definition scall_eqb (a b : scall) : bool :=
  match a, b with CDrainByStop, CDrainByStop | CDrainByHandler, CDrainByHandler | CClose, CClose => true | _, _ => false end.
Fixpoint trace_eqb (a b : list scall) : bool :=
  match a, b with
  | [], [] => true
  | x :: a', y :: b' => andb (scall_eqb x y) (trace_eqb a' b')
  | _, _ => false
  end.
Fixpoint mismatches_from {A} (ok : A -> bool) (i : nat) (l : list A) : list nat :=
  match l with
  | [] => []
  | x :: l' => if ok x then mismatches_from ok (S i) l' else i :: mismatches_from ok (S i) l'
  end.
Definition stage_case := (list sevent * list scall)%type.
Definition stage_case_ok (f : sflags) (k : stage_case) : bool :=
  match k with (evs, got) => trace_eqb (g_trace (g_run f evs)) got end.
Definition stage_mismatches (f : sflags) (l : list stage_case) : list nat := mismatches_from (stage_case_ok f) 0 l.
