(* Model/Bolt.v (codec) - bolt and boltv2: Decode (protocol.go + decoder.go), Encode (encoder.go), the frame setters.
   ONLY executable definitions.  Field offsets are the constants of Model/CodecParams.v (compared with Gen/ProtoConsts.v, read from the Go source on every run, in Props),
   the repaired spots likewise (xp_hdr_checked, bolt_enc_checked; Gen/CodecSrc.v).

   decodeRequest (decodeResponse alike):
     bytesLen < RequestHeaderLen                 -> (nil, nil)
     classLen, headerLen, contentLen := Uint16(bytes[a:b]) ...
     frameLen := RequestHeaderLen + classLen + headerLen + contentLen;  bytesLen < frameLen -> (nil, nil)
     data.Drain(frameLen); fields := ...bytes[..]...; Data := GetIoBuffer(frameLen); Data.Write(bytes[:frameLen])
     rawClass/rawHeader/rawContent := sub-slices of the copy; err = DecodeHeader(rawHeader, &BytesHeader)
     return request, err
   Protocol and CmdType of the command are the constants of the decode path, not the wire bytes. *)
From Coq Require Import List NArith Bool.
From MV Require Import Lib.Bytes Lib.Dec Lib.Seg Model.CodecParams Model.HeaderKV.
Import ListNotations.
Open Scope N_scope.

Record layout := {
  l_v2 : bool; l_resp : bool;
  l_proto : N;              (* ProtocolCode constant stored in the command *)
  l_hlen : N;               (* Request/ResponseHeaderLen *)
  l_class : N * N; l_header : N * N; l_content : N * N;     (* [lo,hi) of the three length fields *)
  l_cmdcode : N * N; l_ver : N * N; l_reqid : N * N; l_codec : N * N;
  l_tail : N * N;           (* Timeout (request) or ResponseStatus (response) *)
  l_ver1 : option (N * N); l_switch : option (N * N);       (* boltv2 only *)
  l_reqid_put : N           (* RequestIdIndex: where the encoder patches the request id *)
}.

Definition bolt_req : layout := {|
  l_v2 := false; l_resp := false; l_proto := bolt_ProtocolCode; l_hlen := bolt_RequestHeaderLen;
  l_class := (bolt_req_classLen_lo, bolt_req_classLen_hi); l_header := (bolt_req_headerLen_lo, bolt_req_headerLen_hi);
  l_content := (bolt_req_contentLen_lo, bolt_req_contentLen_hi);
  l_cmdcode := (bolt_req_CmdCode_lo, bolt_req_CmdCode_hi); l_ver := (bolt_req_Version_lo, bolt_req_Version_hi);
  l_reqid := (bolt_req_RequestId_lo, bolt_req_RequestId_hi); l_codec := (bolt_req_Codec_lo, bolt_req_Codec_hi);
  l_tail := (bolt_req_Timeout_lo, bolt_req_Timeout_hi); l_ver1 := None; l_switch := None;
  l_reqid_put := bolt_RequestIdIndex |}.
Definition bolt_resp : layout := {|
  l_v2 := false; l_resp := true; l_proto := bolt_ProtocolCode; l_hlen := bolt_ResponseHeaderLen;
  l_class := (bolt_resp_classLen_lo, bolt_resp_classLen_hi); l_header := (bolt_resp_headerLen_lo, bolt_resp_headerLen_hi);
  l_content := (bolt_resp_contentLen_lo, bolt_resp_contentLen_hi);
  l_cmdcode := (bolt_resp_CmdCode_lo, bolt_resp_CmdCode_hi); l_ver := (bolt_resp_Version_lo, bolt_resp_Version_hi);
  l_reqid := (bolt_resp_RequestId_lo, bolt_resp_RequestId_hi); l_codec := (bolt_resp_Codec_lo, bolt_resp_Codec_hi);
  l_tail := (bolt_resp_ResponseStatus_lo, bolt_resp_ResponseStatus_hi); l_ver1 := None; l_switch := None;
  l_reqid_put := bolt_RequestIdIndex |}.
Definition boltv2_req : layout := {|
  l_v2 := true; l_resp := false; l_proto := boltv2_ProtocolCode; l_hlen := boltv2_RequestHeaderLen;
  l_class := (boltv2_req_classLen_lo, boltv2_req_classLen_hi); l_header := (boltv2_req_headerLen_lo, boltv2_req_headerLen_hi);
  l_content := (boltv2_req_contentLen_lo, boltv2_req_contentLen_hi);
  l_cmdcode := (boltv2_req_CmdCode_lo, boltv2_req_CmdCode_hi); l_ver := (boltv2_req_Version_lo, boltv2_req_Version_hi);
  l_reqid := (boltv2_req_RequestId_lo, boltv2_req_RequestId_hi); l_codec := (boltv2_req_Codec_lo, boltv2_req_Codec_hi);
  l_tail := (boltv2_req_Timeout_lo, boltv2_req_Timeout_hi);
  l_ver1 := Some (boltv2_req_Version1_lo, boltv2_req_Version1_hi);
  l_switch := Some (boltv2_req_SwitchCode_lo, boltv2_req_SwitchCode_hi);
  l_reqid_put := boltv2_RequestIdIndex |}.
Definition boltv2_resp : layout := {|
  l_v2 := true; l_resp := true; l_proto := boltv2_ProtocolCode; l_hlen := boltv2_ResponseHeaderLen;
  l_class := (boltv2_resp_classLen_lo, boltv2_resp_classLen_hi); l_header := (boltv2_resp_headerLen_lo, boltv2_resp_headerLen_hi);
  l_content := (boltv2_resp_contentLen_lo, boltv2_resp_contentLen_hi);
  l_cmdcode := (boltv2_resp_CmdCode_lo, boltv2_resp_CmdCode_hi); l_ver := (boltv2_resp_Version_lo, boltv2_resp_Version_hi);
  l_reqid := (boltv2_resp_RequestId_lo, boltv2_resp_RequestId_hi); l_codec := (boltv2_resp_Codec_lo, boltv2_resp_Codec_hi);
  l_tail := (boltv2_resp_ResponseStatus_lo, boltv2_resp_ResponseStatus_hi);
  l_ver1 := Some (boltv2_resp_Version1_lo, boltv2_resp_Version1_hi);
  l_switch := Some (boltv2_resp_SwitchCode_lo, boltv2_resp_SwitchCode_hi);
  l_reqid_put := boltv2_RequestIdIndex |}.

(* the decoded command (bolt.Request / bolt.Response / boltv2.Request / boltv2.Response) *)
Record bolt_cmd := {
  b_v2 : bool; b_resp : bool;
  b_proto : N; b_cmdtype : N; b_cmdcode : N; b_ver : N; b_reqid : N; b_codec : N;
  b_tail : N;                        (* Timeout as the raw 32 bits / ResponseStatus *)
  b_ver1 : N; b_switch : N;          (* boltv2 *)
  b_classlen : N; b_headerlen : N; b_contentlen : N;   (* ClassLen / HeaderLen / ContentLen fields of the struct *)
  b_class : bytes; b_kvs : list kv; b_content : bytes;
  b_raw : option fref;               (* rawData: where the received frame is kept; None for a command built from scratch *)
  b_hchanged : bool; b_cchanged : bool;   (* BytesHeader.Changed / ContentChanged *)
  b_herr : bool                      (* DecodeHeader returned an error: the command is returned together with err *)
}.

Definition layout_of (v2 resp : bool) : layout :=
  if v2 then (if resp then boltv2_resp else boltv2_req) else (if resp then bolt_resp else bolt_req).

Definition rdf (v : view) (p : N * N) : M N := rd_be v (fst p) (snd p - fst p).
Definition rdf_opt (v : view) (o : option (N * N)) : M N :=
  match o with Some p => rdf v p | None => ret 0 end.

Definition ERR_CMDTYPE : N := 1.

Definition bolt_decode_frame (chk : bool) (L : layout) (oneway : bool) (v : view) : M (bolt_cmd * N) :=
  if vlen v <? l_hlen L then need_more else
  classLen <- rdf v (l_class L) ;;
  headerLen <- rdf v (l_header L) ;;
  contentLen <- rdf v (l_content L) ;;
  let frameLen := l_hlen L + classLen + headerLen + contentLen in
  if vlen v <? frameLen then need_more else
  cmdcode <- rdf v (l_cmdcode L) ;;
  ver <- rdf v (l_ver L) ;;
  reqid <- rdf v (l_reqid L) ;;
  codec <- rdf v (l_codec L) ;;
  tail <- rdf v (l_tail L) ;;
  ver1 <- rdf_opt v (l_ver1 L) ;;
  switch <- rdf_opt v (l_switch L) ;;
  alloc frameLen ;;;
  raw <- rd_sub v 0 frameLen ;;
  let headerIndex := l_hlen L + classLen in
  let contentIndex := headerIndex + headerLen in
  let class := if 0 <? classLen then sub raw (l_hlen L) headerIndex else [] in
  let hd := if 0 <? headerLen then hdr_decode chk (sub raw headerIndex contentIndex) else (HOk, []) in
  let content := if 0 <? contentLen then sub raw contentIndex frameLen else [] in
  let cmd herr := {|
    b_v2 := l_v2 L; b_resp := l_resp L; b_proto := l_proto L;
    b_cmdtype := if l_resp L then bolt_CmdTypeResponse else if oneway then bolt_CmdTypeRequestOneway else bolt_CmdTypeRequest;
    b_cmdcode := cmdcode; b_ver := ver; b_reqid := reqid; b_codec := codec; b_tail := tail;
    b_ver1 := ver1; b_switch := switch;
    b_classlen := classLen; b_headerlen := headerLen; b_contentlen := contentLen;
    b_class := class; b_kvs := snd hd; b_content := content;
    b_raw := Some (Private raw); b_hchanged := false; b_cchanged := false; b_herr := herr |} in
  match fst hd with
  | HOk => ret (cmd false, frameLen)
  | HErr => ret (cmd true, frameLen)
  | HPanic => panic
  | HFuel => out_of_fuel
  end.

(* <proto>Protocol.Decode without the cross dispatch on the first byte *)
Definition bolt_own_decode (chk : bool) (v2 : bool) (v : view) : M (bolt_cmd * N) :=
  if (if v2 then boltv2_LessLen else bolt_LessLen) <=? vlen v then
    ct <- rd_idx v (if v2 then boltv2_cmdtype_idx else bolt_cmdtype_idx) ;;
    if ct =? bolt_CmdTypeRequest then bolt_decode_frame chk (layout_of v2 false) false v
    else if ct =? bolt_CmdTypeRequestOneway then bolt_decode_frame chk (layout_of v2 false) true v
    else if ct =? bolt_CmdTypeResponse then bolt_decode_frame chk (layout_of v2 true) false v
    else fail ERR_CMDTYPE
  else need_more.

(* boltProtocol.Decode: first byte 0x02 -> the boltv2 engine; boltv2Protocol.Decode: first byte bolt.ProtocolCode -> the bolt engine.
   gate_first (Gen/CodecSrc.v bolt_gate_first, read from the source): false = the code in the tree, the version switch on the
   first byte comes first and each engine applies its own LessLen afterwards; true = `if data.Len() < LessLen { return nil, nil }`
   in FRONT of the switch - then the boltv2 entry holds back a complete 20- or 21-byte v1 response (boltv2 LessLen is 22). *)
Definition bolt_decode_sw (chk gate_first : bool) (v : view) : M (bolt_cmd * N) :=
  if gate_first && (vlen v <? bolt_LessLen) then need_more else
  match vb v with
  | c :: _ => if c =? 2 then bolt_own_decode chk true v else bolt_own_decode chk false v
  | [] => bolt_own_decode chk false v
  end.
Definition boltv2_decode_sw (chk gate_first : bool) (v : view) : M (bolt_cmd * N) :=
  if gate_first && (vlen v <? boltv2_LessLen) then need_more else
  match vb v with
  | c :: _ => if c =? bolt_ProtocolCode then bolt_decode_sw chk gate_first v else bolt_own_decode chk true v
  | [] => bolt_own_decode chk true v
  end.

(* the code in the tree *)
Definition bolt_decode : view -> M (bolt_cmd * N) := bolt_decode_sw xp_hdr_checked bolt_gate_first.
Definition boltv2_decode : view -> M (bolt_cmd * N) := boltv2_decode_sw xp_hdr_checked bolt_gate_first.

(* ---- framer for the dispatch loop (Lib/Seg.v) ------------------------------------------------
   (frame, nil) -> handleFrame;  (nil, nil) -> wait;  (nil, err) -> close;
   (frame, err): handleError replies when GetStreamType() == Request (two-way request), else closes;
   a run-time panic is recovered by the read loop, which closes the connection. *)
Definition to_presult (m : M (bolt_cmd * N)) : presult bolt_cmd :=
  match res m with
  | Ok (c, n) =>
      if b_herr c then
        (if b_cmdtype c =? bolt_CmdTypeRequest then PErrReply c (N.to_nat n) else PErr)
      else POk c (N.to_nat n)
  | NeedMore => PNeedMore
  | Err _ => PErr
  | Panic => PErr
  | OutOfFuel => PErr
  end.
Definition bolt_parse (b : bytes) : presult bolt_cmd := to_presult (bolt_decode (view_of b)).
Definition boltv2_parse (b : bytes) : presult bolt_cmd := to_presult (boltv2_decode (view_of b)).

(* ---- setters ------------------------------------------------------------------------------------ *)
Definition upd (c : bolt_cmd) reqid kvs content hch cch raw classlen headerlen contentlen : bolt_cmd := {|
  b_v2 := b_v2 c; b_resp := b_resp c; b_proto := b_proto c; b_cmdtype := b_cmdtype c; b_cmdcode := b_cmdcode c;
  b_ver := b_ver c; b_reqid := reqid; b_codec := b_codec c; b_tail := b_tail c; b_ver1 := b_ver1 c; b_switch := b_switch c;
  b_classlen := classlen; b_headerlen := headerlen; b_contentlen := contentlen;
  b_class := b_class c; b_kvs := kvs; b_content := content; b_raw := raw;
  b_hchanged := hch; b_cchanged := cch; b_herr := b_herr c |}.

(* SetRequestId(id uint64): RequestId = uint32(id) *)
Definition set_request_id (id : N) (c : bolt_cmd) : bolt_cmd :=
  upd c (id mod 4294967296) (b_kvs c) (b_content c) (b_hchanged c) (b_cchanged c) (b_raw c) (b_classlen c) (b_headerlen c) (b_contentlen c).
(* BytesHeader.Set: Changed = true always *)
Definition set_header (k v : bytes) (c : bolt_cmd) : bolt_cmd :=
  upd c (b_reqid c) (kv_set k v (b_kvs c)) (b_content c) true (b_cchanged c) (b_raw c) (b_classlen c) (b_headerlen c) (b_contentlen c).
(* BytesHeader.Del: Changed = true only when the key was present *)
Definition del_header (k : bytes) (c : bolt_cmd) : bolt_cmd :=
  match kv_del k (b_kvs c) with
  | Some kvs' => upd c (b_reqid c) kvs' (b_content c) true (b_cchanged c) (b_raw c) (b_classlen c) (b_headerlen c) (b_contentlen c)
  | None => c
  end.
(* SetData with a buffer other than the one returned by GetData *)
Definition set_data (d : bytes) (c : bolt_cmd) : bolt_cmd :=
  upd c (b_reqid c) (b_kvs c) d (b_hchanged c) true (b_raw c) (b_classlen c) (b_headerlen c) (b_contentlen c).

(* The body buffer returned by GetData is rewritten IN PLACE (proxy SetRequestData / SetResponseData: Reset + ReadFrom on the
   same buffer object) and SetData is called with that same buffer.  SetData (repaired, Gen/CodecSrc.v
   setdata_sees_inplace_rewrite): changed iff the buffer no longer is the untouched view of rawContent, i.e. another length or
   another backing array.  While the content still is the raw view (ContentChanged = false) a rewrite of the same length
   overwrites the content bytes of rawData in place and nothing is flagged; any other rewrite flags the content changed.
   (class / header length fields of the struct are the decoded ones until an Encode rewrites them.) *)
Definition content_index (c : bolt_cmd) : N := l_hlen (layout_of (b_v2 c) (b_resp c)) + b_classlen c + b_headerlen c.
Definition rewrite_in_place (d : bytes) (c : bolt_cmd) : bolt_cmd :=
  match b_raw c with
  | Some (Private raw) =>
      if negb (b_cchanged c) && (blen d =? blen (b_content c)) then
        upd c (b_reqid c) (b_kvs c) d (b_hchanged c) (b_cchanged c) (Some (Private (patch raw (content_index c) d)))
            (b_classlen c) (b_headerlen c) (b_contentlen c)
      else set_data d c
  | _ => upd c (b_reqid c) (b_kvs c) d (b_hchanged c) (b_cchanged c) (b_raw c) (b_classlen c) (b_headerlen c) (b_contentlen c)
  end.

Inductive bolt_op := OpSetId (id : N) | OpSetHeader (k v : bytes) | OpDelHeader (k : bytes) | OpSetData (d : bytes)
                   | OpRewriteInPlace (d : bytes).
Definition apply_op (c : bolt_cmd) (o : bolt_op) : bolt_cmd :=
  match o with
  | OpSetId id => set_request_id id c
  | OpSetHeader k v => set_header k v c
  | OpDelHeader k => del_header k c
  | OpSetData d => set_data d c
  | OpRewriteInPlace d => rewrite_in_place d c
  end.

(* ---- Encode --------------------------------------------------------------------------------------
   1. rawData != nil: PutUint32(rawMeta[RequestIdIndex:], RequestId); unchanged -> return Data
   2. slow path: [CheckEncodeLength -> error]  ClassLen = uint16(len(Class)) ... write meta, class, header, content *)
Definition enc_meta (L : layout) (c : bolt_cmd) (cl hl ctl : N) : bytes :=
  [b_proto c] ++ (if l_v2 L then [b_ver1 c] else []) ++ [b_cmdtype c] ++ be_enc 2 (b_cmdcode c) ++ [b_ver c]
  ++ be_enc 4 (b_reqid c) ++ [b_codec c] ++ (if l_v2 L then [b_switch c] else [])
  ++ (if l_resp L then be_enc 2 (b_tail c) else be_enc 4 (b_tail c))
  ++ be_enc 2 cl ++ be_enc 2 hl ++ be_enc 4 ctl.

Inductive enc_res := EncOk (out : bytes) (c' : bolt_cmd) | EncErr.

Definition with_raw (c : bolt_cmd) (raw : option fref) : bolt_cmd :=
  upd c (b_reqid c) (b_kvs c) (b_content c) (b_hchanged c) (b_cchanged c) raw (b_classlen c) (b_headerlen c) (b_contentlen c).

Definition bolt_slow (echk : bool) (L : layout) (c : bolt_cmd) : enc_res :=
  let clen := blen (b_class c) in let hlen := hdr_enc_len (b_kvs c) in let ctlen := blen (b_content c) in
  if echk && ((65535 <? clen) || (65535 <? hlen) || (4294967295 <? ctlen)) then EncErr else
  let cl := clen mod 65536 in let hl := hlen mod 65536 in let ctl := ctlen mod 4294967296 in
  EncOk (enc_meta L c cl hl ctl ++ (if 0 <? cl then b_class c else []) ++ (if 0 <? hl then hdr_encode (b_kvs c) else [])
         ++ (if 0 <? ctl then b_content c else []))
        (upd c (b_reqid c) (b_kvs c) (b_content c) (b_hchanged c) (b_cchanged c) (b_raw c) cl hl ctl).

Definition bolt_encode_sw (echk : bool) (mem : bytes) (c : bolt_cmd) : enc_res :=
  let L := layout_of (b_v2 c) (b_resp c) in
  match b_raw c with
  | Some r =>
      let r' := patch (deref mem r) (l_reqid_put L) (be_enc 4 (b_reqid c)) in
      let c1 := with_raw c (Some (Private r')) in
      if negb (b_hchanged c) && negb (b_cchanged c) then EncOk r' c1 else bolt_slow echk L c1
  | None => bolt_slow echk L c
  end.
Definition bolt_encode : bytes -> bolt_cmd -> enc_res := bolt_encode_sw bolt_enc_checked.
