(* Model of the host-set operations of the cluster manager (pkg/upstream/cluster/cluster_manager.go):
   NewSimpleHostHandler (UpdateClusterHosts), AppendSimpleHostHandler (AppendClusterHosts), RemoveClusterHosts, each
   publishing through NewHostSet (host_set.go setFinalHost: distinct by address, first occurrence kept).
   ONLY executable definitions.  Hosts are their addresses, numbered order-preservingly (the harness uses addresses
   whose string order is the numeric order).
   Whether AppendSimpleHostHandler publishes a DISTINCT set is read from the source (Gen/HostSetTokens.v):
     true  : hosts := new objects ++ old hosts; NewHostSet(hosts)
     false : hosts := new objects ++ (old hosts whose address is not appended); NewNoDistinctHostSet(hosts) *)
From Coq Require Import List Arith Bool.
Import ListNotations.

Inductive mop := MUpdate (l : list nat) | MAppend (l : list nat) | MRemove (l : list nat).

Fixpoint dedup (seen : list nat) (l : list nat) : list nat :=
  match l with
  | [] => []
  | x :: l' => if existsb (Nat.eqb x) seen then dedup seen l' else x :: dedup (x :: seen) l'
  end.

Fixpoint insert (x : nat) (l : list nat) : list nat :=
  match l with [] => [x] | y :: l' => if Nat.leb x y then x :: l else y :: insert x l' end.
Definition isort (l : list nat) : list nat := fold_right insert [] l.

(* sort.Search finds the leftmost entry >= addr; it is deleted when it is addr *)
Fixpoint remove_one (a : nat) (l : list nat) : list nat :=
  match l with [] => [] | y :: l' => if Nat.eqb a y then l' else y :: remove_one a l' end.

Definition mstep (distinct : bool) (s : list nat) (o : mop) : list nat :=
  match o with
  | MUpdate l => dedup [] l
  | MAppend l => if distinct then dedup [] (l ++ s)
                 else l ++ filter (fun a => negb (existsb (Nat.eqb a) l)) s
  | MRemove l => dedup [] (fold_left (fun acc a => remove_one a acc) l (isort s))
  end.
Definition mrun (distinct : bool) (ops : list mop) : list nat := fold_left (mstep distinct) ops [].

(* --- correspondence: the operations on the real cluster manager and the addresses of the published host set ---- *)
Definition cm_case := list (mop * list nat).
Fixpoint nat_list_eqb (a b : list nat) : bool :=
  match a, b with [], [] => true | x :: a', y :: b' => Nat.eqb x y && nat_list_eqb a' b' | _, _ => false end.
Fixpoint cm_check (distinct : bool) (s : list nat) (l : cm_case) : bool :=
  match l with
  | [] => true
  | (o, obs) :: l' => let s' := mstep distinct s o in nat_list_eqb s' obs && cm_check distinct s' l'
  end.
Fixpoint cm_mismatches_from (distinct : bool) (i : nat) (l : list cm_case) : list nat :=
  match l with
  | [] => []
  | x :: l' => if cm_check distinct [] x then cm_mismatches_from distinct (S i) l' else i :: cm_mismatches_from distinct (S i) l'
  end.
Definition cm_mismatches (distinct : bool) (l : list cm_case) : list nat := cm_mismatches_from distinct 0 l.
