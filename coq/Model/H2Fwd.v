(* Model/H2Fwd.v (group h2): C01 for HTTP/2 - what the stream layer (pkg/stream/http2/stream.go, pkg/module/http2/mhttp2.go,
   transport.go encodeHeaders, write.go encodeHeaders) does to a message on its way through the proxy:
     wire -> handleFrame (Model/H2Demux.v: step) -> receiver keeps (headers, body buffer, trailers) BY REFERENCE while the
     connection goes on reading -> AppendHeaders / AppendData / AppendTrailers on the other side -> wire.
   Part 1: the stream layer - deliveries with trailers, the sender (HEADERS, DATA frames cut by flow control, END_STREAM on
           an empty DATA frame or on the trailers).
   Part 2: the header layer - http.Header as the code fills it (canonical keys, Add), the request / response objects
           (processRequest, handleResponse) and the field lists the encoders make of them.
   Definitions only. *)
From Coq Require Import List NArith Bool.
From MV Require Import Lib.HBits Model.H2Frame Model.H2Demux.
Import ListNotations.
Open Scope N_scope.

(* ================================================================= part 1: the stream layer *)
(* a delivery as its receiver sees it when it finally looks: (stream id, headers, body, trailers) *)
Definition obs4 := (N * bytes * bytes * option bytes)%type.
Definition observe4 (buf : bytes) (d : delivery) : obs4 := (dl_sid d, dl_tok d, resolve buf (dl_body d), dl_trail d).

(* the per-stream reference machine of Proofs/H2Demux.v (pstep), with the trailers *)
Definition pstep4 (sid : N) (st : option (bytes * bytes)) (f : dframe) : option (bytes * bytes) * list obs4 :=
  if negb (fsid f =? sid) then (st, [])
  else match st with
       | None => (None, [])
       | Some (tok, a) =>
         match f with
         | FHead _ t es => if es then (None, [(sid, t, [], None)]) else (Some (t, a), [])
         | FData _ p es => if es then (None, [(sid, tok, a ++ p, None)]) else (Some (tok, a ++ p), [])
         | FTrail _ t => (None, [(sid, tok, a, Some t)])
         end
       end.

Fixpoint prun4 (sid : N) (st : option (bytes * bytes)) (fs : list dframe) : option (bytes * bytes) * list obs4 :=
  match fs with
  | [] => (st, [])
  | f :: r => let x := pstep4 sid st f in let y := prun4 sid (fst x) r in (fst y, snd x ++ snd y)
  end.

(* the trailers of stream sid in a frame sequence: those of the frame that ends it *)
Fixpoint trail_of (sid : N) (fs : list dframe) : option bytes :=
  match fs with
  | [] => None
  | FData s _ es :: r => if (s =? sid) && es then None else trail_of sid r
  | FHead s _ es :: r => if (s =? sid) && es then None else trail_of sid r
  | FTrail s t :: r => if s =? sid then Some t else trail_of sid r
  end.

(* writeDataAndTrailer / MStream.WriteData: `remain` is cut into DATA frames of `take` bytes, take = what awaitFlowControl
   grants (1 <= take <= min(len remain, maxFrameSize, window)); `takes` is ANY sequence of grants (a grant of 0 - never
   given by the code - would only add an empty frame); none of these frames carries END_STREAM *)
Fixpoint data_frames (sid : N) (takes : list N) (remain : bytes) {struct takes} : list dframe :=
  match remain with
  | [] => []
  | _ :: _ =>
    match takes with
    | [] => [FData sid remain false]
    | t :: r => FData sid (firstn (N.to_nat t) remain) false :: data_frames sid r (skipn (N.to_nat t) remain)
    end
  end.

(* clientStream.endStream + MClientStream.RoundTrip / MStream.SendResponse: HEADERS carry END_STREAM iff there is neither a
   body buffer nor trailers; otherwise the DATA frames follow and the stream is ended by the trailers (if there are any
   fields) or by an EMPTY DATA frame.  (body = None with trailers is not produced by the proxy: it hands an empty buffer.) *)
Definition send_stream (sid : N) (tok : bytes) (body : option bytes) (trail : option bytes) (takes : list N) : list dframe :=
  match body, trail with
  | None, None => [FHead sid tok true]
  | _, _ => FHead sid tok false :: data_frames sid takes (match body with Some b => b | None => [] end) ++
            [match trail with Some (x :: t) => FTrail sid (x :: t) | _ => FData sid [] true end]
  end.

Definition norm_trail (t : option bytes) : option bytes := match t with Some [] => None | x => x end.

(* the proxy: what was delivered - looked at when the read buffer holds buf - goes to the sender of the other side;
   nilbody: whether an empty body travels as a nil buffer (then, without trailers, HEADERS carry END_STREAM) *)
Definition forward (buf : bytes) (nilbody : bool) (d : delivery) (sid' : N) (takes : list N) : list dframe :=
  let b := resolve buf (dl_body d) in
  let body := match b, dl_trail d with [], None => if nilbody then None else Some [] | _, _ => Some b end in
  send_stream sid' (dl_tok d) body (dl_trail d) takes.

(* ================================================================= part 2: the header layer *)
Definition hf2 := (bytes * bytes)%type.

Definition is_upper (c : N) : bool := (65 <=? c) && (c <=? 90).
Definition is_lower (c : N) : bool := (97 <=? c) && (c <=? 122).
Definition to_lower (c : N) : N := if is_upper c then c + 32 else c.
Definition to_upper (c : N) : N := if is_lower c then c - 32 else c.
Definition lower (b : bytes) : bytes := map to_lower b.                 (* strings.ToLower / lowerHeader on ASCII *)
(* textproto.CanonicalMIMEHeaderKey: unchanged if a byte is not a token byte; otherwise upper case at the start and after
   '-', lower case elsewhere *)
Fixpoint canon_go (up : bool) (b : bytes) : bytes :=
  match b with [] => [] | c :: r => (if up then to_upper c else to_lower c) :: canon_go (c =? 45) r end.
Definition canon (b : bytes) : bytes := if forallb is_token b then canon_go true b else b.

(* http.Header: key -> values; a Go map, so the order of the KEYS is not defined: the encoders below take the iteration
   order as an input *)
Definition hstore := list (bytes * list bytes).
Fixpoint st_get (k : bytes) (st : hstore) : list bytes :=
  match st with [] => [] | e :: r => if bytes_eqb (fst e) k then snd e else st_get k r end.
Fixpoint st_add (k v : bytes) (st : hstore) : hstore :=
  match st with
  | [] => [(k, [v])]
  | e :: r => if bytes_eqb (fst e) k then (fst e, snd e ++ [v]) :: r else e :: st_add k v r
  end.
Definition st_del (k : bytes) (st : hstore) : hstore := filter (fun e => negb (bytes_eqb (fst e) k)) st.
Definition st_set (k : bytes) (vs : list bytes) (st : hstore) : hstore := (k, vs) :: st_del k st.
Definition st_first (k : bytes) (st : hstore) : bytes := hd [] (st_get k st).     (* Header.Get *)

Definition pseudo2 (f : hf2) : bool := is_pseudo (fst f).
(* MetaHeadersFrame.RegularFields / PseudoValue *)
Fixpoint regular (fs : list hf2) : list hf2 :=
  match fs with [] => [] | f :: r => if pseudo2 f then regular r else fs end.
Fixpoint pseudo_value (p : bytes) (fs : list hf2) : bytes :=
  match fs with
  | [] => []
  | f :: r => if pseudo2 f then (if bytes_eqb (fst f) (58 :: p) then snd f else pseudo_value p r) else []
  end.

Definition values (n : bytes) (l : list hf2) : list bytes := map snd (filter (fun f => bytes_eqb (fst f) n) l).

Fixpoint join (sep : bytes) (l : list bytes) : bytes :=
  match l with [] => [] | [x] => x | x :: r => x ++ sep ++ join sep r end.

Definition n_cookie : bytes := [99; 111; 111; 107; 105; 101].
Definition n_expect : bytes := [101; 120; 112; 101; 99; 116].
Definition n_trailer : bytes := [116; 114; 97; 105; 108; 101; 114].
Definition n_host : bytes := [104; 111; 115; 116].
Definition n_clen : bytes := [99; 111; 110; 116; 101; 110; 116; 45; 108; 101; 110; 103; 116; 104].
Definition n_ua : bytes := [117; 115; 101; 114; 45; 97; 103; 101; 110; 116].
Definition n_connection : bytes := [99; 111; 110; 110; 101; 99; 116; 105; 111; 110].
Definition n_proxyconn : bytes := [112; 114; 111; 120; 121; 45; 99; 111; 110; 110; 101; 99; 116; 105; 111; 110].
Definition n_te : bytes := [116; 114; 97; 110; 115; 102; 101; 114; 45; 101; 110; 99; 111; 100; 105; 110; 103].
Definition n_upgrade : bytes := [117; 112; 103; 114; 97; 100; 101].
Definition n_keepalive : bytes := [107; 101; 101; 112; 45; 97; 108; 105; 118; 101].
Definition n_ctype : bytes := [99; 111; 110; 116; 101; 110; 116; 45; 116; 121; 112; 101].
Definition n_date : bytes := [100; 97; 116; 101].
Definition n_accenc : bytes := [97; 99; 99; 101; 112; 116; 45; 101; 110; 99; 111; 100; 105; 110; 103].
Definition v_100continue : bytes := [49; 48; 48; 45; 99; 111; 110; 116; 105; 110; 117; 101].
Definition v_trailers : bytes := [116; 114; 97; 105; 108; 101; 114; 115].
Definition v_gzip : bytes := [103; 122; 105; 112].
Definition v_connect : bytes := [67; 79; 78; 78; 69; 67; 84].
Definition v_head : bytes := [72; 69; 65; 68].
Definition v_http : bytes := [104; 116; 116; 112].
Definition v_https : bytes := [104; 116; 116; 112; 115].
Definition p_method : bytes := [109; 101; 116; 104; 111; 100].
Definition p_scheme : bytes := [115; 99; 104; 101; 109; 101].
Definition p_authority : bytes := [97; 117; 116; 104; 111; 114; 105; 116; 121].
Definition p_path : bytes := [112; 97; 116; 104].
Definition p_status : bytes := [115; 116; 97; 116; 117; 115].
Definition sep_cookie : bytes := [59; 32].

Definition nilb (b : bytes) : bool := match b with [] => true | _ => false end.

(* rp.header.Add(sc.canonicalHeader(hf.Name), hf.Value) for every regular field *)
Definition store_of (fs : list hf2) : hstore := fold_left (fun st f => st_add (canon (fst f)) (snd f) st) fs [].

(* ---------------------------------------------------------------- requests *)
Record reqm := mkReq { r_method : bytes; r_scheme : bytes; r_authority : bytes; r_path : bytes;
                       r_hdr : hstore; r_trailer_decl : list bytes }.

Definition cookie_merge (st : hstore) : hstore :=
  let cs := st_get (canon n_cookie) st in
  if Nat.ltb 1 (length cs) then st_set (canon n_cookie) [join sep_cookie cs] st else st.

(* MServerConn.processRequest (the URL is kept as the text of :path: net/url is not modelled) *)
Definition srv_request (fs : list hf2) (es : bool) : option reqm :=
  let m := pseudo_value p_method fs in let sc := pseudo_value p_scheme fs in
  let au := pseudo_value p_authority fs in let pa := pseudo_value p_path fs in
  let bad :=
    if bytes_eqb m v_connect then negb (nilb pa) || negb (nilb sc) || nilb au
    else nilb m || nilb pa || negb (bytes_eqb sc v_https || bytes_eqb sc v_http) in
  if bad || (bytes_eqb m v_head && negb es) then None
  else
    let h0 := store_of (regular fs) in
    let au' := if nilb au then st_first (canon n_host) h0 else au in
    let h1 := if bytes_eqb (st_first (canon n_expect) h0) v_100continue then st_del (canon n_expect) h0 else h0 in
    let h2 := cookie_merge h1 in
    Some (mkReq m sc au' pa (st_del (canon n_trailer) h2) (st_get (canon n_trailer) h2)).

(* what an encoder makes of a header store iterated in the order `iter`: sel picks the values it emits for a (lowered) name *)
Definition enc_store (sel : bytes -> list bytes -> list bytes) (iter : hstore) : list hf2 :=
  flat_map (fun e => map (fun v => (lower (fst e), v)) (sel (lower (fst e)) (snd e))) iter.

Definition memb (n : bytes) (l : list bytes) : bool := existsb (bytes_eqb n) l.

(* ClientConn.encodeHeaders: names compared with EqualFold *)
Definition req_skip : list bytes := [n_host; n_clen; n_connection; n_proxyconn; n_te; n_upgrade; n_keepalive].
Definition req_sel (n : bytes) (vs : list bytes) : list bytes :=
  if memb n req_skip then []
  else if bytes_eqb n n_ua then match vs with v :: _ => if nilb v then [] else [v] | [] => [] end
  else vs.

Definition opt_field (n : bytes) (v : option bytes) : list hf2 := match v with Some x => [(n, x)] | None => [] end.

(* the field list of the request HEADERS: iter = the iteration order of req.Header; trailers / clen / gzip / ua: the
   fields the transport adds on its own account *)
Definition cli_request_fields (iter : hstore) (r : reqm) (trailers clen : option bytes) (gzip : bool) (ua : bytes) : list hf2 :=
  [(58 :: p_authority, r_authority r); (58 :: p_method, r_method r)] ++
  (if bytes_eqb (r_method r) v_connect then [] else [(58 :: p_path, r_path r); (58 :: p_scheme, r_scheme r)]) ++
  opt_field n_trailer trailers ++
  enc_store req_sel iter ++
  opt_field n_clen clen ++
  (if gzip then [(n_accenc, v_gzip)] else []) ++
  (if existsb (fun e => bytes_eqb (lower (fst e)) n_ua) iter then [] else [(n_ua, ua)]).

(* the names the request path manages itself: the statement about regular fields excludes them *)
Definition req_managed : list bytes := req_skip ++ [n_ua; n_cookie; n_expect; n_trailer; n_accenc].

(* ---------------------------------------------------------------- responses *)
Record rspm := mkRsp { p_code : bytes; p_hdr : hstore; p_trailer_decl : list bytes }.

(* MClientConn.handleResponse (the status is kept as its text: strconv is not modelled) *)
Definition cli_response (fs : list hf2) : option rspm :=
  let s := pseudo_value p_status fs in
  if nilb s then None
  else Some (mkRsp s
         (fold_left (fun st f => let k := canon (fst f) in if bytes_eqb k (canon n_trailer) then st else st_add k (snd f) st) (regular fs) [])
         (values n_trailer (regular fs))).

(* write.go encodeHeaders *)
Definition resp_sel (n : bytes) (vs : list bytes) : list bytes :=
  if valid_name n then filter (fun v => valid_value v && (negb (bytes_eqb n n_te) || bytes_eqb v v_trailers)) vs else [].

(* MStream.WriteHeader deletes Content-Length (it is written again from the body length) *)
Definition rsp_hdr (p : rspm) : hstore :=
  if nilb (st_first (canon n_clen) (p_hdr p)) then p_hdr p else st_del (canon n_clen) (p_hdr p).

(* MServerConn.writeHeaders: iter = sorter.Keys order of the store; ctype / clen / date: added on the server's own account *)
Definition srv_response_fields (iter : hstore) (p : rspm) (ctype clen date : option bytes) : list hf2 :=
  (58 :: p_status, p_code p) :: enc_store resp_sel iter ++ opt_field n_ctype ctype ++ opt_field n_clen clen ++ opt_field n_date date.

Definition rsp_managed : list bytes := [n_trailer; n_clen; n_ctype; n_date; n_te].
