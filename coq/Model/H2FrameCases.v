(* Model/H2FrameCases.v (group h2): comparison functions of the frame-layer correspondence shards. *)
From Coq Require Import List NArith Bool.
From MV Require Import Lib.HBits Lib.HCaseIO Gen.H2Src Model.Hpack Model.HpackCases Model.H2Frame.
Import ListNotations.
Open Scope N_scope.

Definition fhdr_eqb (a b : fhdr) : bool :=
  (fh_len a =? fh_len b) && (fh_type a =? fh_type b) && (fh_flags a =? fh_flags b) && (fh_sid a =? fh_sid b).

Definition prio_eqb (a b : prio) : bool :=
  (p_dep a =? p_dep b) && Bool.eqb (p_excl a) (p_excl b) && (p_weight a =? p_weight b).

Definition oprio_eqb (a b : option prio) : bool :=
  match a, b with Some x, Some y => prio_eqb x y | None, None => true | _, _ => false end.

Definition setting_eqb (a b : N * N) : bool := (fst a =? fst b) && (snd a =? snd b).
Definition hfield_eqb (a b : hfield) : bool := fobs_eqb (fobs_of a) (fobs_of b).

Definition fbody_eqb (a b : fbody) : bool :=
  match a, b with
  | BData x, BData y => bytes_eqb x y
  | BHeaders p x, BHeaders q y => oprio_eqb p q && bytes_eqb x y
  | BPriority p, BPriority q => prio_eqb p q
  | BRst x, BRst y => x =? y
  | BSettings x, BSettings y => list_eqb setting_eqb x y
  | BPush i x, BPush j y => (i =? j) && bytes_eqb x y
  | BPing x, BPing y => bytes_eqb x y
  | BGoAway l c x, BGoAway m d y => (l =? m) && (c =? d) && bytes_eqb x y
  | BWinUpd x, BWinUpd y => x =? y
  | BCont x, BCont y => bytes_eqb x y
  | BUnknown x, BUnknown y => bytes_eqb x y
  | BMeta p fs t, BMeta q gs u => oprio_eqb p q && list_eqb hfield_eqb fs gs && Bool.eqb t u
  | _, _ => false
  end.

Definition frame_eqb (a b : frame) : bool := fhdr_eqb (f_hdr a) (f_hdr b) && fbody_eqb (f_body a) (f_body b).

Definition devent_eqb (a b : devent) : bool :=
  match a, b with
  | EvFrame x, EvFrame y => frame_eqb x y
  | EvStreamErr, EvStreamErr => true
  | EvConnErr x, EvConnErr y => herr_eqb x y
  | _, _ => false
  end.

(* cut data at the ascending absolute offsets `cuts` *)
Fixpoint split_at (data : bytes) (cuts : list N) (pos : N) : list bytes :=
  match cuts with
  | [] => [data]
  | c :: r => firstn (N.to_nat (c - pos)) data :: split_at (skipn (N.to_nat (c - pos)) data) r c
  end.

Definition run_chunks (chunks : list bytes) : cstate := fold_left feed chunks c_init.

(* (byte stream, chunkings as lists of cut offsets, events every chunking must produce, residue length, dead) *)
Definition fr_case := (bytes * list (list N) * list devent * N * bool)%type.
Definition fr_check (c : fr_case) : bool :=
  let '(data, chunkings, evs, residue, dead) := c in
  forallb (fun cuts =>
             let s := run_chunks (split_at data cuts 0) in
             list_eqb devent_eqb (c_out s) evs && Bool.eqb (c_dead s) dead &&
             (* after a connection error the buffer is no longer observed *)
             (c_dead s || (len (c_buf s) =? residue)))
          chunkings.
Definition fr_mismatches := mismatches fr_check.

(* writers: (abstract frame, bytes the real writer produced) *)
Definition wr_case := (aframe * bytes)%type.
Definition wr_check (c : wr_case) : bool := bytes_eqb (ser_frame (fst c)) (snd c).
Definition wr_mismatches := mismatches wr_check.

(* preface: (data, result code 0 ok / 1 again / 2 error) *)
Definition pre_case := (bytes * N)%type.
Definition pre_check (c : pre_case) : bool :=
  match read_preface (fst c), snd c with
  | PreOk, 0 | PreAgain, 1 | PreErr, 2 => true
  | _, _ => false
  end.
Definition pre_mismatches := mismatches pre_check.
