(* Model/Xcodecs.v (codec) - dubbo, dubbo-thrift and tars at the FRAMING level.  ONLY executable definitions.
   The body parsers of libraries outside /repo are opaque section variables (they become explicit
   arguments): dubbo-go-hessian2 (service metadata of a dubbo request), apache thrift TBinaryProtocol
   (service name, id, message begin of a dubbo-thrift message), TarsGo (stream type scan and
   RequestPacket/ResponsePacket.ReadFrom).  Each is applied to bytes of the frame only, as the repaired code does.
   Go integer widths are written out (uint32 / uint16 arithmetic as `mod`). *)
From Coq Require Import List NArith Bool.
From MV Require Import Lib.Bytes Lib.Dec Lib.Seg Model.CodecParams.
Import ListNotations.
Open Scope N_scope.

Definition U32 : N := 4294967296.
Definition U16 : N := 65536.

(* a decoded frame of one of the three codecs: numeric fields, where the raw frame is kept, the payload (GetData) *)
Record xframe := { x_nums : list N; x_raw : option fref; x_payload : bytes; x_magic : bytes }.

Definition b2n (b : bool) : N := if b then 1 else 0.
Definition ERR_BODY : N := 2.       (* the opaque body parser refused the frame *)
Definition ERR_RECOVERED : N := 3.  (* a panic recovered inside the decoder itself (dubbo-thrift decodeFrame) *)
Definition ERR_TYPE : N := 1.

(* =============================== dubbo ==========================================================
   Decode:  data.Len() >= HeaderLen ->  payLoadLen := Uint32(data.Bytes()[12:16]);
            data.Len() >= HeaderLen + int(payLoadLen)   [int arithmetic; `cmp_int` = false models the uint32 form]
            -> decodeFrame; err -> (nil, err)
   decodeFrame: Magic = b[0:2]; Flag = b[2]; Status = b[3]; Id = Uint64(b[4:12]); DataLen = Uint32(b[12:16]);
            frameLen := HeaderLen + frame.DataLen (uint32!); body := make([]byte, frameLen); copy(body, b[:frameLen]);
            payload = body[HeaderLen:]; request && !event: getServiceAwareMeta (hessian) may fail -> (nil, err), nothing drained
            data.Drain(int(frameLen)) *)
Section Dubbo.
Variable hess : bytes -> bool.

Definition dubbo_decode_frame (v : view) : M (xframe * N) :=
  magic <- rd_sub v dubbo_MagicIdx dubbo_FlagIdx ;;
  flag <- rd_idx v dubbo_FlagIdx ;;
  status <- rd_idx v dubbo_StatusIdx ;;
  id <- rd_be v dubbo_IdIdx dubbo_IdLen ;;
  dlen <- rd_be v dubbo_DataLenIdx dubbo_DataLenSize ;;
  let isevent := N.testbit flag 5 in
  let twoway := N.testbit flag 6 in
  let dir := if N.testbit flag 7 then dubbo_EventRequest else dubbo_EventResponse in
  let serid := N.land flag 31 in
  let frameLen := (dubbo_HeaderLen + dlen) mod U32 in
  alloc frameLen ;;;
  body <- rd_sub v 0 frameLen ;;
  match l_sub body dubbo_HeaderLen (blen body) with
  | None => panic                                        (* body[HeaderLen:] with len(body) < HeaderLen *)
  | Some payload =>
      let fr := {| x_nums := [flag; status; id; dlen; b2n isevent; b2n twoway; dir; serid];
                   x_raw := Some (Private body); x_payload := payload; x_magic := magic |} in
      if negb isevent && (dir =? dubbo_EventRequest) then
        if negb (serid =? 2) then fail ERR_BODY
        else if hess payload then ret (fr, frameLen) else fail ERR_BODY
      else ret (fr, frameLen)
  end.

Definition dubbo_decode_sw (cmp_int : bool) (v : view) : M (xframe * N) :=
  if vlen v <? dubbo_HeaderLen then need_more else
  plen <- rd_be v dubbo_DataLenIdx dubbo_DataLenSize ;;
  let enough := if cmp_int then dubbo_HeaderLen + plen <=? vlen v
                else (dubbo_HeaderLen + plen) mod U32 <=? vlen v mod U32 in
  if enough then dubbo_decode_frame v else need_more.
End Dubbo.

(* dubbo Encode (after the SetData repair): rawData != nil -> PutUint64(rawData[IdIdx:], Id), return it;
   else Magic[0] Magic[1] Flag Status Id DataLen payload.  nums = [flag; status; id; datalen; ...] *)
Definition nth_num (f : xframe) (i : nat) : N := nth i (x_nums f) 0.
Definition set_num (f : xframe) (i : nat) (v : N) : xframe :=
  {| x_nums := firstn i (x_nums f) ++ [v] ++ skipn (S i) (x_nums f); x_raw := x_raw f; x_payload := x_payload f; x_magic := x_magic f |}.

Definition dubbo_set_id (id : N) (f : xframe) : xframe := set_num f 2 (id mod 18446744073709551616).
(* SetData with another buffer: content, payload, DataLen = uint32(len), rawData = nil [resets_raw: the repaired code] *)
Definition dubbo_set_data (resets_raw : bool) (d : bytes) (f : xframe) : xframe :=
  let f1 := set_num f 3 (blen d mod U32) in
  {| x_nums := x_nums f1; x_raw := if resets_raw then None else x_raw f; x_payload := d; x_magic := x_magic f |}.
Definition dubbo_encode (mem : bytes) (f : xframe) : bytes :=
  match x_raw f with
  | Some r => patch (deref mem r) dubbo_IdIdx (be_enc 8 (nth_num f 2))
  | None => firstn 2 (x_magic f) ++ [nth_num f 0; nth_num f 1] ++ be_enc 8 (nth_num f 2) ++ be_enc 4 (nth_num f 3) ++ x_payload f
  end.

(* =============================== dubbo-thrift ===================================================
   Decode: data.Len() >= MessageLenSize+MagicLen -> frameLen := Uint32(b[0:4]);
           data.Len() >= MessageLenSize + int(frameLen) -> decodeFrame (under recover: a panic is returned as an error)
   decodeFrame (repaired): frameLen := 4 + int(Uint32(b[:4])); dataBytes := make(frameLen); copy(dataBytes, b[:frameLen])
           messageLen := Uint32(dataBytes[:4]); body := dataBytes[4 : 4+messageLen] (uint32 sum);
           FrameLength = messageLen + 4 (uint32); Magic = body[:2]; MessageLength = Uint32(body[2:6]); HeaderLength = Uint16(body[6:8]);
           rawData = dataBytes[:FrameLength]; payload = body[HeaderLength:]; thrift parse over body[9:]; Drain(FrameLength) *)
Section Thrift.
Variable tparse : bytes -> option (N * N).   (* Some (id, message type) *)

Definition opt_or_recovered {A} (o : option A) (k : A -> M (xframe * N)) : M (xframe * N) :=
  match o with Some a => k a | None => fail ERR_RECOVERED end.

Definition thrift_decode_frame (v : view) : M (xframe * N) :=
  fl <- rd_be v 0 thrift_MessageLenSize ;;
  let frameLen := thrift_MessageLenSize + fl in
  alloc frameLen ;;;
  dataBytes <- rd_sub v 0 frameLen ;;
  opt_or_recovered (l_sub dataBytes 0 thrift_MessageLenSize) (fun m4 =>
  let messageLen := be_decw m4 in
  opt_or_recovered (l_sub dataBytes thrift_MessageLenSize ((thrift_MessageLenSize + messageLen) mod U32)) (fun body =>
  let frameLength := (messageLen + thrift_MessageLenSize) mod U32 in
  opt_or_recovered (l_sub body 0 thrift_MagicLen) (fun magic =>
  opt_or_recovered (l_sub body thrift_MessageLenIdx (thrift_MessageLenIdx + thrift_MessageLenSize)) (fun ml =>
  opt_or_recovered (l_sub body thrift_MessageHeaderLenIdx (thrift_MessageHeaderLenIdx + thrift_MessageHeaderLenSize)) (fun hl =>
  let headerLength := be_decw hl in
  opt_or_recovered (l_sub dataBytes 0 frameLength) (fun raw =>
  opt_or_recovered (l_sub body headerLength (blen body)) (fun payload =>
  opt_or_recovered (l_sub body thrift_HeaderIdx (blen body)) (fun tbody =>
  match tparse tbody with
  | None => fail ERR_BODY
  | Some (id, mtype) =>
      ret ({| x_nums := [frameLength; be_decw ml; headerLength; id; if mtype =? 1 then 1 else 2];
              x_raw := Some (Private raw); x_payload := payload; x_magic := magic |}, frameLength)
  end)))))))).

Definition thrift_decode (v : view) : M (xframe * N) :=
  if vlen v <? thrift_MessageLenSize + thrift_MagicLen then need_more else
  fl <- rd_be v 0 thrift_MessageLenSize ;;
  if thrift_MessageLenSize + fl <=? vlen v then thrift_decode_frame v else need_more.
End Thrift.

(* dubbo-thrift Encode fast path: idx := MessageLenSize + HeaderLength - IdLen (uint16); PutUint64(rawData[idx:], Id) *)
Definition thrift_set_id (id : N) (f : xframe) : xframe := set_num f 3 (id mod 18446744073709551616).
Definition thrift_encode (mem : bytes) (f : xframe) : option bytes :=
  match x_raw f with
  | Some r =>
      let raw := deref mem r in
      let idx := (thrift_MessageLenSize + nth_num f 2 + U16 - thrift_IdLen) mod U16 in
      if blen raw <? idx + 8 then None (* PutUint64 panics *) else Some (patch raw idx (be_enc 8 (nth_num f 3)))
  | None => None (* slow path through the thrift library: not modelled *)
  end.

(* =============================== tars ============================================================
   TarsRequest(rev): len < 4 -> LESS; n := int(Uint32(rev[0:4])); n < 4 || n > 10485760 -> ERROR; len < n -> LESS; (n, FULL)
   Decode: status == FULL -> getStreamType(b[:frameLen]) -> decodeRequest / decodeResponse / error; otherwise (nil, nil)
   decodeX: rawData := make(frameLen); copy; packet.ReadFrom(reader(rawData[4:])) err -> (nil, err); Drain(frameLen) *)
Section Tars.
Variable stype : bytes -> N.                 (* Reader.SkipToNoCheck(5, true) over frame[4:]: Jce type of tag 5, 255 = none/error *)
Variable rparse : bool -> bytes -> option N. (* ReadFrom over frame[4:] (true: response packet) -> Some GetRequestId() *)

Definition tars_decode (v : view) : M (xframe * N) :=
  if vlen v <? tars_MessageSizeLen then need_more else
  n <- rd_be v 0 4 ;;
  if (n <? 4) || (tars_MaxPackageLength <? n) then need_more else
  if vlen v <? n then need_more else
  fr <- rd_sub v 0 n ;;
  let ty := stype fr in
  (* getStreamType: case lists read from the source (Gen/CodecSrc.v) *)
  let isresp := existsb (N.eqb ty) tars_resp_types in
  let isreq := existsb (N.eqb ty) tars_req_types in
  if isresp || isreq then
    alloc n ;;;
    raw <- rd_sub v 0 n ;;
    match rparse isresp (dropN tars_MessageSizeLen raw) with
    | Some id => ret ({| x_nums := [if isresp then 1 else 0; id]; x_raw := Some (Private raw); x_payload := raw; x_magic := [] |}, n)
    | None => fail ERR_BODY
    end
  else fail ERR_TYPE.
End Tars.

(* ---- framers ------------------------------------------------------------------------------------ *)
Definition x_presult (m : M (xframe * N)) : presult xframe :=
  match res m with
  | Ok (f, n) => POk f (N.to_nat n)
  | NeedMore => PNeedMore
  | _ => PErr
  end.
Definition dubbo_decode hess : view -> M (xframe * N) := dubbo_decode_sw hess dubbo_cmp_int.
Definition dubbo_parse hess (b : bytes) := x_presult (dubbo_decode hess (view_of b)).
Definition thrift_parse tparse (b : bytes) := x_presult (thrift_decode tparse (view_of b)).
Definition tars_parse stype rparse (b : bytes) := x_presult (tars_decode stype rparse (view_of b)).

(* =============================== encoders that go through a library =====================================
   The serialisers are opaque section variables; the theorems about these encoders are stated RELATIVE to the
   library's own reader/writer law (an explicit premise), which the harness validates on the real library. *)

(* dubbo-thrift slow path (rawData == nil, e.g. after SetData): transport.Write(MagicTag); WriteI32(MaxInt32);
   WriteI16(MaxInt16); WriteByte(1); WriteString(serviceName); WriteI64(id); headerLen := len; Write(payload);
   PutUint16(message[6:], uint16(headerLen)); PutUint32(message[2:], uint32(messageLen));
   data = PutUint32(messageLen) ++ message.   whdr svc id = the bytes of WriteString(serviceName) ++ WriteI64(id). *)
Section ThriftEnc.
Variable whdr : bytes -> N -> bytes.
Definition thrift_encode_slow (svc : bytes) (id : N) (payload : bytes) : bytes :=
  let lib := whdr svc id in
  let hlen := thrift_HeaderIdx + blen lib in
  let mlen := hlen + blen payload in
  be_enc 4 (mlen mod U32) ++ [thrift_Magic0; thrift_Magic1] ++ be_enc 4 (mlen mod U32) ++ be_enc 2 (hlen mod U16) ++ [1] ++ lib ++ payload.
End ThriftEnc.

(* tars: Encode = 4 zero bytes, packet.WriteTo (TarsGo), then PutUint32(len) over the first 4 bytes.
   pkt: the parsed Request/ResponsePacket; jread/jwrite: ReadFrom / WriteTo; pid: uint64(IRequestId);
   set_pid: SetRequestId (cmd.IRequestId = int32(id)) *)
Section TarsEnc.
Variable pkt : Type.
Variable jread : bool -> bytes -> option pkt.
Variable jwrite : bool -> pkt -> bytes.
Variable pid : pkt -> N.
Definition tars_rparse (resp : bool) (b : bytes) : option N := option_map pid (jread resp b).
Definition tars_encode (resp : bool) (p : pkt) : bytes :=
  let body := jwrite resp p in be_enc 4 ((tars_MessageSizeLen + blen body) mod U32) ++ body.
End TarsEnc.
