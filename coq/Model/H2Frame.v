(* Model/H2Frame.v (group h2): executable model of the HTTP/2 frame layer:
   pkg/module/http2/frame.go (frame header, the ten payload parsers, checkFrameOrder, header validation)
   and mhttp2.go MFramer.ReadFrame / readMetaFrame / ReadPreface, plus the frame writers.  Definitions only.
   Switches read from the source (Gen/H2Src.v): h2_headers_empty_frag_ok, h2_cont_advance, h2_stream_err_drains. *)
From Coq Require Import List NArith Bool.
From MV Require Import Lib.HBits Gen.HpackTables Gen.H2Src Model.Hpack.
Import ListNotations.
Open Scope N_scope.

(* ================================================================= integers on the wire *)
Definition wr_u8 (v : N) : bytes := [v mod 256].
Definition wr_u16 (v : N) : bytes := [v / 256 mod 256; v mod 256].
Definition wr_u24 (v : N) : bytes := [v / 65536 mod 256; v / 256 mod 256; v mod 256].
Definition wr_u32 (v : N) : bytes := [v / 16777216 mod 256; v / 65536 mod 256; v / 256 mod 256; v mod 256].

Definition rd_u16 (p : bytes) : N := match p with a :: b :: _ => a * 256 + b | _ => 0 end.
Definition rd_u24 (p : bytes) : N := match p with a :: b :: c :: _ => (a * 256 + b) * 256 + c | _ => 0 end.
Definition rd_u32 (p : bytes) : N := match p with a :: b :: c :: d :: _ => ((a * 256 + b) * 256 + c) * 256 + d | _ => 0 end.

Definition two31 : N := 2147483648.

(* ================================================================= frames *)
Record fhdr := mkFh { fh_len : N; fh_type : N; fh_flags : N; fh_sid : N }.
Record prio := mkPrio { p_dep : N; p_excl : bool; p_weight : N }.

Inductive fbody :=
| BData (data : bytes)
| BHeaders (pr : option prio) (frag : bytes)
| BPriority (pr : prio)
| BRst (code : N)
| BSettings (ss : list (N * N))
| BPush (promised : N) (frag : bytes)
| BPing (data : bytes)
| BGoAway (last code : N) (debug : bytes)
| BWinUpd (inc : N)
| BCont (frag : bytes)
| BUnknown (payload : bytes)
| BMeta (pr : option prio) (fields : list hfield) (truncated : bool).   (* MetaHeadersFrame *)

Record frame := mkFrame { f_hdr : fhdr; f_body : fbody }.

Definition T_DATA : N := 0.        Definition T_HEADERS : N := 1.   Definition T_PRIORITY : N := 2.
Definition T_RST : N := 3.         Definition T_SETTINGS : N := 4.  Definition T_PUSH : N := 5.
Definition T_PING : N := 6.        Definition T_GOAWAY : N := 7.    Definition T_WINUPD : N := 8.
Definition T_CONT : N := 9.

(* Flags.Has(1<<k) *)
Definition flag (flags k : N) : bool := N.testbit flags k.
Definition F_END_STREAM : N := 0.  (* 0x1 *)
Definition F_ACK : N := 0.         (* 0x1 *)
Definition F_END_HEADERS : N := 2. (* 0x4 *)
Definition F_PADDED : N := 3.      (* 0x8 *)
Definition F_PRIORITY : N := 5.    (* 0x20 *)

(* readFrameHeader: 9 bytes at the start of p *)
Definition parse_fhdr (p : bytes) : fhdr :=
  mkFh (rd_u24 p) (nth 3 p 0) (nth 4 p 0) (rd_u32 (skipn 5 p) mod two31).

(* errors of the payload parsers *)
Definition E_EOF : herr := EOther.       (* io.ErrUnexpectedEOF from readByte/readUint32 *)

Definition parse_prio (p : bytes) : prio :=
  let v := rd_u32 p in mkPrio (v mod two31) (two31 <=? v) (nth 4 p 0).

Fixpoint parse_settings (fuel : nat) (p : bytes) : list (N * N) :=
  match fuel with
  | O => []
  | S f => match p with
           | a :: b :: c :: d :: e :: g :: rest => (rd_u16 [a; b], rd_u32 [c; d; e; g]) :: parse_settings f rest
           | _ => []
           end
  end.

(* SettingsFrame.Value: the first setting with that id *)
Fixpoint setting_value (ss : list (N * N)) (id : N) : option N :=
  match ss with
  | [] => None
  | (i, v) :: r => if i =? id then Some v else setting_value r id
  end.

Definition drop_last (p : bytes) (n : N) : bytes := firstn (length p - N.to_nat n) p.

(* the comparisons of the three padded parsers, as the source has them (Gen/H2Src.v):
   sw_empty   parseHeadersFrame: `len(p)-padLength < 0` (true) or `<= 0` (false: an empty fragment is an error)
   sw_data_gt parseDataFrame:    `padSize > len(payload)` (true) or `>=` (false), payload without the Pad Length octet
   sw_push_gt parsePushPromise:  `padLength > len(p)` (true) or `>=` (false), p without Pad Length and Promised Stream ID *)
Record psw := mkPsw { sw_empty : bool; sw_data_gt : bool; sw_push_gt : bool }.
Definition psw_ok : psw := mkPsw true true true.
Definition psw_src : psw := mkPsw h2_headers_empty_frag_ok h2_data_pad_gt h2_push_pad_gt.

(* typeFrameParser(fh.Type)(fh, payload) *)
Definition parse_payload (sw : psw) (fh : fhdr) (p : bytes) : hout fbody :=
  let t := fh_type fh in
  let sid := fh_sid fh in
  let fl := fh_flags fh in
  if t =? T_DATA then
    if sid =? 0 then HErr EProtocol
    else if flag fl F_PADDED then
      match p with
      | [] => HErr E_EOF
      | pad :: p' => if (if sw_data_gt sw then len p' <? pad else len p' <=? pad) then HErr EProtocol
                     else HOk (BData (drop_last p' pad))
      end
    else HOk (BData p)
  else if t =? T_HEADERS then
    if sid =? 0 then HErr EProtocol
    else
      let r1 := if flag fl F_PADDED then match p with [] => HErr E_EOF | pad :: p' => HOk (pad, p') end else HOk (0, p) in
      hbind r1 (fun x =>
        let pad := fst x in let p1 := snd x in
        let r2 := if flag fl F_PRIORITY
                  then (if len p1 <? 4 then HErr E_EOF
                        else if len p1 <? 5 then HErr E_EOF
                        else HOk (Some (parse_prio p1), skipn 5 p1))
                  else HOk (None, p1) in
        hbind r2 (fun y =>
          let pr := fst y in let p2 := snd y in
          if (len p2 <? pad) || (negb (sw_empty sw) && (len p2 =? pad)) then HErr EStream
          else HOk (BHeaders pr (drop_last p2 pad))))
  else if t =? T_PRIORITY then
    if sid =? 0 then HErr EProtocol
    else if negb (len p =? 5) then HErr EFrameSize
    else HOk (BPriority (parse_prio p))
  else if t =? T_RST then
    if negb (len p =? 4) then HErr EFrameSize
    else if sid =? 0 then HErr EProtocol
    else HOk (BRst (rd_u32 p))
  else if t =? T_SETTINGS then
    if flag fl F_ACK && (0 <? fh_len fh) then HErr EFrameSize
    else if negb (sid =? 0) then HErr EProtocol
    else if negb (len p mod 6 =? 0) then HErr EFrameSize
    else let ss := parse_settings (length p) p in
         match setting_value ss 4 with
         | Some v => if two31 <=? v then HErr EFlow else HOk (BSettings ss)
         | None => HOk (BSettings ss)
         end
  else if t =? T_PUSH then
    if sid =? 0 then HErr EProtocol
    else
      let r1 := if flag fl F_PADDED then match p with [] => HErr E_EOF | pad :: p' => HOk (pad, p') end else HOk (0, p) in
      hbind r1 (fun x =>
        let pad := fst x in let p1 := snd x in
        if len p1 <? 4 then HErr E_EOF
        else let p2 := skipn 4 p1 in
             if (if sw_push_gt sw then len p2 <? pad else len p2 <=? pad) then HErr EProtocol
             else HOk (BPush (rd_u32 p1 mod two31) (drop_last p2 pad)))
  else if t =? T_PING then
    if negb (len p =? 8) then HErr EFrameSize
    else if negb (sid =? 0) then HErr EProtocol
    else HOk (BPing p)
  else if t =? T_GOAWAY then
    if negb (sid =? 0) then HErr EProtocol
    else if len p <? 8 then HErr EFrameSize
    else HOk (BGoAway (rd_u32 p mod two31) (rd_u32 (skipn 4 p)) (skipn 8 p))
  else if t =? T_WINUPD then
    if negb (len p =? 4) then HErr EFrameSize
    else let inc := rd_u32 p mod two31 in
         if inc =? 0 then (if sid =? 0 then HErr EProtocol else HErr EStream)
         else HOk (BWinUpd inc)
  else if t =? T_CONT then
    if sid =? 0 then HErr EProtocol else HOk (BCont p)
  else HOk (BUnknown p).

(* ================================================================= header validation (readMetaFrame's emit callback, checkPseudos) *)
(* httpguts.IsTokenRune for a byte *)
Definition is_token (b : N) : bool :=
  ((48 <=? b) && (b <=? 57)) || ((65 <=? b) && (b <=? 90)) || ((97 <=? b) && (b <=? 122)) ||
  (b =? 33) || (b =? 35) || (b =? 36) || (b =? 37) || (b =? 38) || (b =? 39) || (b =? 42) || (b =? 43) ||
  (b =? 45) || (b =? 46) || (b =? 94) || (b =? 95) || (b =? 96) || (b =? 124) || (b =? 126).
(* validWireHeaderFieldName *)
Definition valid_name (n : bytes) : bool :=
  match n with [] => false | _ => forallb (fun b => is_token b && negb ((65 <=? b) && (b <=? 90))) n end.
(* httpguts.ValidHeaderFieldValue *)
Definition valid_value (v : bytes) : bool :=
  forallb (fun b => negb (((b <? 32) && negb (b =? 9)) || (b =? 127))) v.
Definition is_pseudo (n : bytes) : bool := match n with 58 :: _ => true | _ => false end.

(* state of the emit callback *)
Record msink := mkSink {
  sk_remain : N; sk_regular : bool; sk_invalid : bool; sk_trunc : bool; sk_fields : list hfield }.

(* the callback: returns the new sink and whether it called SetEmitEnabled(false) *)
Definition sink_emit (sk : msink) (f : hfield) : msink * bool :=
  let inv1 := negb (valid_value (hvalue f)) in
  let ps := is_pseudo (hname f) in
  let inv2 := if ps then sk_regular sk else negb (valid_name (hname f)) in
  let reg := if ps then sk_regular sk else true in
  if sk_invalid sk || inv1 || inv2
  then (mkSink (sk_remain sk) reg true (sk_trunc sk) (sk_fields sk), true)
  else let size := fsize (hname f) (hvalue f) in
       if sk_remain sk <? size
       then (mkSink (sk_remain sk) reg false true (sk_fields sk), true)
       else (mkSink (sk_remain sk - size) reg false (sk_trunc sk) (sk_fields sk ++ [f]), false).

(* hdec.Write(frag) with that callback: the loop of Decoder.Write, emitEnabled switched off by the callback *)
Fixpoint meta_loop (multi : bool) (fuel : nat) (st : dstate) (buf : bytes) (sk : msink) : dstate * msink * wres :=
  match buf with
  | [] => (st, sk, WOk)
  | _ =>
    match fuel with
    | O => (st, sk, WFuel)
    | S f =>
      let keep := multi && is_size_update buf in
      match parse_repr st buf with
      | HNeedMore =>
          if negb (d_maxstr st =? 0) && (2 * (d_maxstr st + 8) <? len buf)
          then (st, sk, WErr EStrLen)
          else (d_with_save st buf, sk, WOk)
      | HErr e => (st, sk, WErr e)
      | HOk r =>
          let st1 := if keep then fst (fst r) else d_with_first (fst (fst r)) false in
          match snd (fst r) with
          | [] => meta_loop multi f st1 (snd r) sk
          | fld :: _ =>
              let x := sink_emit sk fld in
              meta_loop multi f (if snd x then d_with_emit st1 false else st1) (snd r) (fst x)
          end
      | HPanic => (st, sk, WPanic)
      | HFuel => (st, sk, WFuel)
      end
    end
  end.

Definition meta_write (st : dstate) (p : bytes) (sk : msink) : dstate * msink * wres :=
  match p with
  | [] => (st, sk, WOk)
  | _ => let buf := d_save st ++ p in meta_loop h2_hpack_multi_update (length buf) (d_with_save st []) buf sk
  end.

Fixpoint meta_frags (st : dstate) (frags : list bytes) (sk : msink) : dstate * msink * wres :=
  match frags with
  | [] => (st, sk, WOk)
  | fr :: r => let x := meta_write st fr sk in
               match snd x with
               | WOk => meta_frags (fst (fst x)) r (snd (fst x))
               | _ => x
               end
  end.

Definition bs (s : list N) := s.
Definition N_method : bytes := [58;109;101;116;104;111;100].
Definition N_path : bytes := [58;112;97;116;104].
Definition N_scheme : bytes := [58;115;99;104;101;109;101].
Definition N_authority : bytes := [58;97;117;116;104;111;114;105;116;121].
Definition N_status : bytes := [58;115;116;97;116;117;115].

(* checkPseudos over the leading pseudo fields *)
Fixpoint check_pseudos (fs : list hfield) (seen : list bytes) (isreq isresp : bool) : bool :=
  match fs with
  | [] => negb (isreq && isresp)
  | f :: r =>
    if negb (is_pseudo (hname f)) then negb (isreq && isresp)
    else
      let n := hname f in
      let rq := bytes_eqb n N_method || bytes_eqb n N_path || bytes_eqb n N_scheme || bytes_eqb n N_authority in
      let rs := bytes_eqb n N_status in
      if negb (rq || rs) then false
      else if existsb (bytes_eqb n) seen then false
      else check_pseudos r (n :: seen) (isreq || rq) (isresp || rs)
  end.

(* ================================================================= the reader (mhttp2.go) *)
Record fstate := mkFs {
  fs_last : N;        (* lastHeaderStream; 0 = no header block in progress *)
  fs_max : N;         (* maxReadSize *)
  fs_maxlist : N;     (* maxHeaderListSize() *)
  fs_dec : dstate }.  (* ReadMetaHeaders *)

Definition fs_with_last (s : fstate) (l : N) := mkFs l (fs_max s) (fs_maxlist s) (fs_dec s).
Definition fs_with_dec (s : fstate) (d : dstate) := mkFs (fs_last s) (fs_max s) (fs_maxlist s) d.

(* NewServerConn / NewClientConn: ReadMetaHeaders = NewDecoder(4096), MaxHeaderListSize = 1 MiB, max read size 1 MiB *)
Definition fs_new : fstate := mkFs 0 1048576 1048576 (dec_new 4096).

Inductive rres :=
| ROk (f : frame) (n : N) (st : fstate)   (* frame, bytes consumed *)
| RStream (n : N) (st : fstate)           (* stream error; n bytes skipped *)
| RAgain
| RConn (e : herr)
| RPanic
| RFuel.

(* checkFrameOrder *)
Definition check_order (last : N) (fh : fhdr) : hout N :=
  if negb (last =? 0)
  then (if negb (fh_type fh =? T_CONT) then HErr EProtocol
        else if negb (fh_sid fh =? last) then HErr EProtocol
        else HOk (if flag (fh_flags fh) F_END_HEADERS then 0 else fh_sid fh))
  else if fh_type fh =? T_CONT then HErr EProtocol
  else if fh_type fh =? T_HEADERS then HOk (if flag (fh_flags fh) F_END_HEADERS then 0 else fh_sid fh)
  else HOk last.

(* the common part of ReadFrame: header, size checks, payload parser, frame order.
   Result: (frame, size, new lastHeaderStream) *)
Inductive raw :=
| WFrame (f : frame) (size : N) (last : N)
| WAgain
| WStream (size : N)      (* stream error from the payload parser *)
| WConn (e : herr).

Definition slice (data : bytes) (off n : N) : bytes := firstn (N.to_nat n) (skipn (N.to_nat off) data).

Definition read_raw (emptyok : psw) (last mx : N) (data : bytes) (off : N) : raw :=
  if len data <? off + 9 then WAgain
  else
    let fh := parse_fhdr (skipn (N.to_nat off) data) in
    if mx <? fh_len fh then WConn ETooLarge
    else if len data - (off + 9) <? fh_len fh then WAgain
    else
      let payload := slice data (off + 9) (fh_len fh) in
      match parse_payload emptyok fh payload with
      | HOk b =>
          match check_order last fh with
          | HOk last' => WFrame (mkFrame fh b) (9 + fh_len fh) last'
          | HErr e => WConn e
          | _ => WConn EOther
          end
      | HErr EStream => WStream (9 + fh_len fh)
      | HErr e => WConn e
      | _ => WConn EOther
      end.

(* readMetaFrame's first loop: collect the CONTINUATION frames following a HEADERS frame without END_HEADERS.
   `adv` = h2_cont_advance: each one is read after the previous ones (true) or at the same offset (false). *)
Inductive collected :=
| COk (frags : list bytes) (msize : N)
| CAgain
| CConn (e : herr)
| CStream          (* stream error of a nested frame, not drained (only when the repaired conversion is absent) *)
| CFuel.

Fixpoint collect (emptyok : psw) (adv drains : bool) (fuel : nat) (last mx : N) (data : bytes) (off msize : N) (acc : list bytes) : collected :=
  match fuel with
  | O => CFuel
  | S f =>
    match read_raw emptyok last mx data (if adv then off + msize else off) with
    | WAgain => CAgain
    | WConn e => CConn e
    | WStream _ => if drains then CConn EProtocol else CStream
    | WFrame fr size last' =>
        match f_body fr with
        | BCont frag =>
            if last' =? 0 then COk (acc ++ [frag]) (msize + size)
            else collect emptyok adv drains f last' mx data off (msize + size) (acc ++ [frag])
        | _ => CConn EProtocol   (* unreachable: checkFrameOrder only accepts CONTINUATION here *)
        end
    end
  end.

(* MFramer.ReadFrame(data, 0) *)
Definition read_frame_gen (emptyok : psw) (adv drains : bool) (st : fstate) (data : bytes) : rres :=
  match read_raw emptyok (fs_last st) (fs_max st) data 0 with
  | WAgain => RAgain
  | WConn e => RConn e
  | WStream size => RStream (if drains then size else 0) st
  | WFrame fr size last' =>
      match f_body fr with
      | BHeaders pr frag =>
          let coll := if last' =? 0 then COk [frag] 0
                      else collect emptyok adv drains (length data) last' (fs_max st) data size 0 [frag] in
          match coll with
          | CAgain => RAgain
          | CConn e => RConn e
          | CStream => RStream 0 st
          | CFuel => RFuel
          | COk frags msize =>
              let d0 := d_with_maxstr (d_with_emit (fs_dec st) true) (fs_maxlist st) in
              let x := meta_frags d0 frags (mkSink (fs_maxlist st) false false false []) in
              match snd x with
              | WOk =>
                  let c := dec_close (fst (fst x)) in
                  match snd c with
                  | WOk =>
                      let sk := snd (fst x) in
                      let st' := fs_with_dec (fs_with_last st 0) (fst c) in
                      if sk_invalid sk then RStream (if drains then size + msize else 0) st'
                      else if negb (check_pseudos (sk_fields sk) [] false false) then RStream (if drains then size + msize else 0) st'
                      else ROk (mkFrame (f_hdr fr) (BMeta pr (sk_fields sk) (sk_trunc sk))) (size + msize) st'
                  | WPanic => RPanic
                  | WFuel => RFuel
                  | _ => RConn ECompression
                  end
              | WPanic => RPanic
              | WFuel => RFuel
              | _ => RConn ECompression
              end
          end
      | _ => ROk fr size (fs_with_last st last')
      end
  end.

Definition read_frame := read_frame_gen psw_src h2_cont_advance h2_stream_err_drains.

(* ReadPreface *)
Definition client_preface : bytes :=
  [80;82;73;32;42;32;72;84;84;80;47;50;46;48;13;10;13;10;83;77;13;10;13;10].
Inductive pre_res := PreOk | PreAgain | PreErr.
Definition read_preface (data : bytes) : pre_res :=
  if len data <? 24 then PreAgain
  else if bytes_eqb (firstn 24 data) client_preface then PreOk else PreErr.

(* ================================================================= the writers: frame.go Framer.WriteXxx, mhttp2.go MFramer.writeXxx *)
Definition b2n (b : bool) (v : N) : N := if b then v else 0.

Definition ser_hdr (length typ flags sid : N) : bytes := wr_u24 length ++ [typ; flags] ++ wr_u32 sid.
Definition ser_frame_raw (typ flags sid : N) (payload : bytes) : bytes :=
  ser_hdr (len payload) typ flags sid ++ payload.

Definition ser_prio (p : prio) : bytes := wr_u32 (p_dep p + b2n (p_excl p) two31) ++ [p_weight p].

(* abstract frames = arguments of the writers; pad = Some k: PADDED flag with k zero bytes *)
Inductive aframe :=
| AData (sid : N) (es : bool) (data : bytes) (pad : option N)
| AHeaders (sid : N) (es eh : bool) (pr : option prio) (frag : bytes) (pad : option N)
| APriority (sid : N) (pr : prio)
| ARst (sid code : N)
| ASettings (ack : bool) (ss : list (N * N))
| APush (sid promised : N) (eh : bool) (frag : bytes) (pad : option N)
| APing (ack : bool) (data : bytes)
| AGoAway (last code : N) (debug : bytes)
| AWinUpd (sid inc : N)
| ACont (sid : N) (eh : bool) (frag : bytes)
| AUnknown (typ flags sid : N) (payload : bytes).

Definition pad_prefix (pad : option N) : bytes := match pad with Some k => [k] | None => [] end.
Definition pad_suffix (pad : option N) : bytes := match pad with Some k => repeat 0 (N.to_nat k) | None => [] end.
Definition pad_flag (pad : option N) : N := match pad with Some _ => 8 | None => 0 end.

Definition ser_settings (ss : list (N * N)) : bytes := flat_map (fun s => wr_u16 (fst s) ++ wr_u32 (snd s)) ss.

Definition aframe_parts (a : aframe) : N * N * N * bytes :=   (* type, flags, stream, payload *)
  match a with
  | AData sid es data pad => (T_DATA, b2n es 1 + pad_flag pad, sid, pad_prefix pad ++ data ++ pad_suffix pad)
  | AHeaders sid es eh pr frag pad =>
      (T_HEADERS, b2n es 1 + b2n eh 4 + pad_flag pad + match pr with Some _ => 32 | None => 0 end, sid,
       pad_prefix pad ++ match pr with Some p => ser_prio p | None => [] end ++ frag ++ pad_suffix pad)
  | APriority sid pr => (T_PRIORITY, 0, sid, ser_prio pr)
  | ARst sid code => (T_RST, 0, sid, wr_u32 code)
  | ASettings ack ss => (T_SETTINGS, b2n ack 1, 0, ser_settings ss)
  | APush sid promised eh frag pad =>
      (T_PUSH, b2n eh 4 + pad_flag pad, sid, pad_prefix pad ++ wr_u32 promised ++ frag ++ pad_suffix pad)
  | APing ack data => (T_PING, b2n ack 1, 0, data)
  | AGoAway last code debug => (T_GOAWAY, 0, 0, wr_u32 last ++ wr_u32 code ++ debug)
  | AWinUpd sid inc => (T_WINUPD, 0, sid, wr_u32 inc)
  | ACont sid eh frag => (T_CONT, b2n eh 4, sid, frag)
  | AUnknown typ flags sid payload => (typ, flags, sid, payload)
  end.

Definition ser_frame (a : aframe) : bytes :=
  let '(t, fl, sid, p) := aframe_parts a in ser_frame_raw t fl sid p.

(* what the parser must return for it *)
Definition body_of (a : aframe) : fbody :=
  match a with
  | AData _ _ data _ => BData data
  | AHeaders _ _ _ pr frag _ => BHeaders pr frag
  | APriority _ pr => BPriority pr
  | ARst _ code => BRst code
  | ASettings _ ss => BSettings ss
  | APush _ promised _ frag _ => BPush promised frag
  | APing _ data => BPing data
  | AGoAway last code debug => BGoAway last code debug
  | AWinUpd _ inc => BWinUpd inc
  | ACont _ _ frag => BCont frag
  | AUnknown _ _ _ payload => BUnknown payload
  end.

Definition frame_of (a : aframe) : frame :=
  let '(t, fl, sid, p) := aframe_parts a in mkFrame (mkFh (len p) t fl sid) (body_of a).

(* ================================================================= the connection read loop (stream/http2 Dispatch over codec.Decode) *)
Inductive devent := EvFrame (f : frame) | EvStreamErr | EvConnErr (e : herr).

Record cstate := mkC { c_buf : bytes; c_fs : fstate; c_out : list devent; c_dead : bool }.

(* `cont` = h2_dispatch_continues: a stream error does not stop the loop *)
Fixpoint drain_loop_gen (eo : psw) (adv drains cont : bool) (fuel : nat) (s : cstate) : cstate :=
  match fuel with
  | O => s
  | S f =>
    if c_dead s then s
    else match read_frame_gen eo adv drains (c_fs s) (c_buf s) with
         | ROk fr n st' => drain_loop_gen eo adv drains cont f (mkC (skipn (N.to_nat n) (c_buf s)) st' (c_out s ++ [EvFrame fr]) false)
         | RStream n st' =>
             let s' := mkC (skipn (N.to_nat n) (c_buf s)) st' (c_out s ++ [EvStreamErr]) false in
             if cont then drain_loop_gen eo adv drains cont f s' else s'
         | RAgain => s
         | RConn e => mkC (c_buf s) (c_fs s) (c_out s ++ [EvConnErr e]) true
         | RPanic => mkC (c_buf s) (c_fs s) (c_out s ++ [EvConnErr EOther]) true
         | RFuel => mkC (c_buf s) (c_fs s) (c_out s ++ [EvConnErr EOther]) true
         end
  end.

(* one read event: append the chunk, dispatch *)
Definition feed_gen (eo : psw) (adv drains cont : bool) (s : cstate) (chunk : bytes) : cstate :=
  if c_dead s then s
  else let b := c_buf s ++ chunk in
       drain_loop_gen eo adv drains cont (S (length b)) (mkC b (c_fs s) (c_out s) false).

Definition feed := feed_gen psw_src h2_cont_advance h2_stream_err_drains h2_dispatch_continues.

Definition c_init : cstate := mkC [] fs_new [] false.

(* ================================================================= sender side: header block fragmentation *)
(* MServerConn.writeHeaders / MClientConn.writeHeaders: `for len(block) > 0 { frag := block[:min(len, max)]; block = block[len(frag):];
   HEADERS (first) / CONTINUATION with END_HEADERS = (len(block) == 0) }`.  `le` (Gen h2_hdr_split_last_le): the fragment that
   completes the block is the one for which the remaining block is <= max (true, as the loops above) or < max (false). *)
Fixpoint split_block_gen (le : bool) (fuel : nat) (block : bytes) (mx : N) : list (bytes * bool) :=
  match fuel with
  | O => []
  | S f =>
    match block with
    | [] => []
    | _ => if (if le then len block <=? mx else len block <? mx) then [(block, true)]
           else (firstn (N.to_nat mx) block, false) :: split_block_gen le f (skipn (N.to_nat mx) block) mx
    end
  end.

Definition split_block (block : bytes) (mx : N) : list (bytes * bool) :=
  split_block_gen h2_hdr_split_last_le (S (length block)) block mx.

(* the frames written for the fragments: HEADERS first (END_STREAM as given, no padding/priority), then CONTINUATIONs *)
Definition ser_fragments (sid : N) (es : bool) (frs : list (bytes * bool)) : bytes :=
  match frs with
  | [] => []
  | (f0, e0) :: r => ser_frame (AHeaders sid es e0 None f0 None) ++ flat_map (fun x => ser_frame (ACont sid (snd x) (fst x))) r
  end.
