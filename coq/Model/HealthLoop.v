(* Model of the sessionChecker.Start loop of pkg/upstream/healthcheck/session_checker.go together with OnCheck /
   OnTimeout, at the granularity of the messages the loop receives.  ONLY executable definitions.

   Start:    checkTimer = NewTimer(initialDelay, OnCheck)
             loop: currentID identifies the check whose result is awaited
               resp on c.resp:   if resp.ID == currentID { checkTimeout.Stop(); HandleSuccess/HandleFailure;
                                                           checkTimer = NewTimer(interval, OnCheck) }   else ignored
               msg on c.timeout: checkTimer.Stop(); Session.OnTimeout(); HandleFailure(network);
                                 checkTimer = NewTimer(interval, OnCheck)
   OnCheck:  id := load(checkID); checkTimeout.Stop(); checkTimeout = NewTimer(timeout, OnTimeout);
             c.resp <- {id, Session.CheckHealth()}           (the send happens when CheckHealth returns)
   WHERE currentID advances is read from the source (Gen/HealthLoop.v: hl_idmode):
     IdLoopTop  : at the top of every loop iteration - also after an ignored (expired) response
     IdOnResult : only when a result (matching response or timeout) has been handled

   Events: ETick (the interval timer fires: OnCheck sends a check), EResp id ok (a response carrying id reaches the
   loop), ETimeout (the timeout timer fires and its message reaches the loop), EStop.  A timer event can only
   happen while such a timer is armed; timers are counted (NewTimer +1, Stop / firing -1) so that "exactly one
   timer armed" is a statement, not a typing artefact.  Ghost state: the ids of the checks sent (newest first);
   every result fed to the threshold automaton is attributed to a check: a matching response to the check with
   that id, a timeout to the latest check sent (the owner of the timeout timer).
   Not modelled: a timer that has fired but whose message has not yet been received by the loop (a response and the
   timeout of the same check becoming ready within one scheduling quantum); check ids are in N (uint64 wrap-around
   after 2^64 checks is out of scope). *)
From Coq Require Import List NArith Bool Arith.
From MV Require Import Model.HealthCheck.
Import ListNotations.
Open Scope N_scope.

Inductive idmode := IdLoopTop | IdOnResult.
Inductive levent := ETick | EResp (id : N) (ok : bool) | ETimeout | EStop.

Record lstate := mkL {
  l_cur : N;            (* currentID = checkID *)
  l_it : nat;           (* armed interval timers *)
  l_tt : nat;           (* armed timeout timers *)
  l_sent : list N;      (* ghost: ids of the checks sent, newest first *)
  l_auto : hcst;        (* threshold automaton (Model/HealthCheck.v) *)
  l_stopped : bool }.

Definition l_init (f : bool) : lstate := mkL 1 1%nat 0%nat [] (hc_init f) false.

(* a result: (check it is attributed to, the result fed to the automaton, callback arguments (changed, isHealthy)) *)
Definition lresult := (N * result * (bool * bool))%type.

Definition hc_loop_step (m : idmode) (u h : N) (s : lstate) (e : levent) : lstate * option lresult :=
  if l_stopped s then (s, None) else
  match e with
  | EStop => (mkL (l_cur s) 0 0 (l_sent s) (l_auto s) true, None)
  | ETick =>
      match l_it s with
      | O => (s, None)
      | S k => (mkL (l_cur s) k (S (pred (l_tt s))) (l_cur s :: l_sent s) (l_auto s) false, None)
      end
  | EResp id ok =>
      if N.eqb id (l_cur s) then
        let r := if ok then RSuccess else RFailure in
        let (a, cb) := hc_step u h (l_auto s) r in
        (mkL (l_cur s + 1) (S (l_it s)) (pred (l_tt s)) (l_sent s) a false, Some (id, r, cb))
      else
        (mkL (match m with IdLoopTop => l_cur s + 1 | IdOnResult => l_cur s end)
             (l_it s) (l_tt s) (l_sent s) (l_auto s) false, None)
  | ETimeout =>
      match l_tt s with
      | O => (s, None)
      | S k =>
          let (a, cb) := hc_step u h (l_auto s) RTimeout in
          (mkL (l_cur s + 1) (S (pred (l_it s))) k (l_sent s) a false, Some (hd 0 (l_sent s), RTimeout, cb))
      end
  end.

Fixpoint loop_run (m : idmode) (u h : N) (s : lstate) (evs : list levent) : lstate * list lresult :=
  match evs with
  | [] => (s, [])
  | e :: evs' =>
      let (s1, o) := hc_loop_step m u h s e in
      let (s2, rs) := loop_run m u h s1 evs' in
      (s2, match o with Some r => r :: rs | None => rs end)
  end.

(* well-formed histories: a response can only come from a check that has been sent *)
Fixpoint loop_wf (m : idmode) (u h : N) (s : lstate) (evs : list levent) : bool :=
  match evs with
  | [] => true
  | e :: evs' =>
      (match e with EResp id _ => existsb (N.eqb id) (l_sent s) | _ => true end)
      && loop_wf m u h (fst (hc_loop_step m u h s e)) evs'
  end.

Definition res_id (r : lresult) : N := fst (fst r).
Definition res_result (r : lresult) : result := snd (fst r).
Definition res_cb (r : lresult) : bool * bool := snd r.

(* --- correspondence: events observed on the real loop; a response is named by the ordinal of its check ------- *)
Inductive oevent := OTick | OResp (k : nat) (ok : bool) | OTimeout | OStop.
Definition resolve (s : lstate) (e : oevent) : levent :=
  match e with
  | OTick => ETick
  | OResp k ok => EResp (nth (length (l_sent s) - 1 - k) (l_sent s) 0) ok
  | OTimeout => ETimeout
  | OStop => EStop
  end.
Fixpoint loop_run_obs (m : idmode) (u h : N) (s : lstate) (evs : list oevent) : list (bool * bool) :=
  match evs with
  | [] => []
  | e :: evs' =>
      let (s1, o) := hc_loop_step m u h s (resolve s e) in
      match o with Some r => res_cb r :: loop_run_obs m u h s1 evs' | None => loop_run_obs m u h s1 evs' end
  end.
(* (unhealthy threshold, healthy threshold, initially flagged, observed events, observed callbacks (changed, isHealthy)) *)
Definition loop_case := (N * N * bool * list oevent * list (bool * bool))%type.
Definition cb_eqb (a b : bool * bool) : bool := Bool.eqb (fst a) (fst b) && Bool.eqb (snd a) (snd b).
Definition loop_case_ok (m : idmode) (k : loop_case) : bool :=
  match k with
  | (u, h, f, evs, cbs) =>
      list_eqb cb_eqb (loop_run_obs m (eff_threshold u) (eff_threshold h) (l_init f) evs) cbs
  end.
Fixpoint loop_mismatches_from (m : idmode) (i : nat) (l : list loop_case) : list nat :=
  match l with
  | [] => []
  | x :: l' => if loop_case_ok m x then loop_mismatches_from m (S i) l' else i :: loop_mismatches_from m (S i) l'
  end.
Definition loop_mismatches (m : idmode) (l : list loop_case) : list nat := loop_mismatches_from m 0 l.
