(* Model/H2Demux.v (group h2): demultiplexing in the HTTP/2 stream connections (pkg/stream/http2/stream.go
   clientStreamConnection.handleFrame / serverStreamConnection.handleFrame): the frames of interleaved streams are
   collected per stream id and handed to the receiver registered for that id when the stream ends.
   The connection's read buffer is ONE buffer refilled by every read; a DATA payload is a slice of it.
   `alias` (Gen h2_stream_data_copied = negb alias): handleFrame copies DATA payloads into a buffer of its own
   (GetIoBuffer + Write: false) or wraps the payload slice of a single DATA+END_STREAM frame (NewIoBufferBytes: true).
   Definitions only. *)
From Coq Require Import List NArith Bool.
From MV Require Import Lib.HBits.
Import ListNotations.
Open Scope N_scope.

(* what the frame layer hands over (HEADERS+CONTINUATION already aggregated and decoded: Model/H2Frame.v);
   tok stands for the header list *)
Inductive dframe :=
| FHead (sid : N) (tok : bytes) (es : bool)
| FData (sid : N) (p : bytes) (es : bool)
| FTrail (sid : N) (tok : bytes).          (* trailers: HEADERS with END_STREAM after the body *)

Definition fsid (f : dframe) : N := match f with FHead s _ _ | FData s _ _ | FTrail s _ => s end.

(* a body held by a stream / handed to a receiver: bytes of its own, or a window of the read buffer *)
Inductive bval := BCopy (b : bytes) | BRef (off n : N).

Definition resolve (buf : bytes) (v : option bval) : bytes :=
  match v with
  | None => []
  | Some (BCopy b) => b
  | Some (BRef off n) => firstn (N.to_nat n) (skipn (N.to_nat off) buf)
  end.

Record dstream := mkDs { ds_id : N; ds_tok : bytes; ds_rec : option bval }.
Record delivery := mkDl { dl_sid : N; dl_tok : bytes; dl_body : option bval; dl_trail : option bytes }.

Fixpoint find_s (sid : N) (l : list dstream) : option dstream :=
  match l with
  | [] => None
  | s :: r => if ds_id s =? sid then Some s else find_s sid r
  end.

Fixpoint put_s (s : dstream) (l : list dstream) : list dstream :=
  match l with
  | [] => []
  | x :: r => if ds_id x =? ds_id s then s :: r else x :: put_s s r
  end.

Fixpoint del_s (sid : N) (l : list dstream) : list dstream :=
  match l with
  | [] => []
  | x :: r => if ds_id x =? sid then r else x :: del_s sid r
  end.

(* handleFrame for one frame whose DATA payload (if any) sits at offset `off` of the read buffer `buf` *)
Definition step (alias : bool) (buf : bytes) (off : N) (st : list dstream) (f : dframe) : list dstream * list delivery :=
  match find_s (fsid f) st with
  | None => (st, [])                                     (* "invalid streamID": dropped *)
  | Some s =>
    match f with
    | FHead sid tok es =>
        if es then (del_s sid st, [mkDl sid tok None None])
        else (put_s (mkDs sid tok (ds_rec s)) st, [])
    | FData sid p es =>
        let rec' := match ds_rec s with
                    | None => if alias && es then BRef off (len p) else BCopy p
                    | Some v => BCopy (resolve buf (Some v) ++ p)      (* recData.Write(data) *)
                    end in
        if es then (del_s sid st, [mkDl sid (ds_tok s) (Some rec') None])
        else (put_s (mkDs sid (ds_tok s) (Some rec')) st, [])
    | FTrail sid t =>
        (del_s sid st, [mkDl sid (ds_tok s) (Some (match ds_rec s with Some v => v | None => BCopy [] end)) (Some t)])
    end
  end.

(* the payload bytes a read leaves in the buffer, and the frames with their offsets *)
Definition read_buf (fs : list dframe) : bytes :=
  flat_map (fun f => match f with FData _ p _ => p | _ => [] end) fs.

Fixpoint steps (alias : bool) (buf : bytes) (off : N) (st : list dstream) (fs : list dframe) : list dstream * list delivery :=
  match fs with
  | [] => (st, [])
  | f :: r =>
      let x := step alias buf off st f in
      let off' := match f with FData _ p _ => off + len p | _ => off end in
      let y := steps alias buf off' (fst x) r in
      (fst y, snd x ++ snd y)
  end.

Record dconn := mkDc { dc_streams : list dstream; dc_out : list delivery; dc_buf : bytes }.

(* one read event: the buffer is refilled, the frames are dispatched *)
Definition do_read (alias : bool) (c : dconn) (fs : list dframe) : dconn :=
  let buf := read_buf fs in
  let x := steps alias buf 0 (dc_streams c) fs in
  mkDc (fst x) (dc_out c ++ snd x) buf.

Definition dconn_new (opens : list N) : dconn := mkDc (map (fun sid => mkDs sid [] None) opens) [] [].

Definition run_reads (alias : bool) (opens : list N) (reads : list (list dframe)) : dconn :=
  fold_left (do_read alias) reads (dconn_new opens).

(* what a receiver that kept its delivery BY REFERENCE sees when it finally looks, the read buffer being `buf` by then *)
Definition observe (buf : bytes) (d : delivery) : N * bytes * bytes := (dl_sid d, dl_tok d, resolve buf (dl_body d)).

(* ------------------------------------------------------------------ the specification *)
(* the body of stream sid in a frame sequence: its DATA payloads, in order, up to the frame that ends it *)
Fixpoint body_of (sid : N) (fs : list dframe) : bytes :=
  match fs with
  | [] => []
  | FData s p es :: r => if s =? sid then p ++ (if es then [] else body_of sid r) else body_of sid r
  | FHead s _ es :: r => if (s =? sid) && es then [] else body_of sid r
  | FTrail s _ :: r => if s =? sid then [] else body_of sid r
  end.

(* does the sequence end the stream? *)
Fixpoint ends (sid : N) (fs : list dframe) : bool :=
  match fs with
  | [] => false
  | FData s _ es :: r => if (s =? sid) && es then true else ends sid r
  | FHead s _ es :: r => if (s =? sid) && es then true else ends sid r
  | FTrail s _ :: r => if s =? sid then true else ends sid r
  end.

(* the headers of stream sid: the last HEADERS seen before it ended (cur: what the stream holds already) *)
Fixpoint tok_of (sid : N) (cur : bytes) (fs : list dframe) : bytes :=
  match fs with
  | [] => cur
  | FHead s t es :: r => if s =? sid then (if es then t else tok_of sid t r) else tok_of sid cur r
  | FData s _ es :: r => if (s =? sid) && es then cur else tok_of sid cur r
  | FTrail s _ :: r => if s =? sid then cur else tok_of sid cur r
  end.
