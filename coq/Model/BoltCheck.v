(* Model/BoltCheck.v (codec) - executable comparison functions used by the correspondence shards of
   bolt / boltv2 (the harness prints the observations of the real code as terms of these types). *)
From Coq Require Import List NArith Bool.
From MV Require Import Lib.Bytes Lib.Dec Lib.Seg Model.CodecParams Model.HeaderKV Model.Bolt.
Import ListNotations.
Open Scope N_scope.

Fixpoint nlist_eqb (a b : list N) : bool :=
  match a, b with
  | [], [] => true
  | x :: a', y :: b' => (x =? y) && nlist_eqb a' b'
  | _, _ => false
  end.

(* canonical summary of a decoded command: numeric fields, class, header pairs, content *)
Definition fsum := (list N * bytes * list kv * bytes)%type.
Definition b2n (b : bool) : N := if b then 1 else 0.
Definition cmd_sum (c : bolt_cmd) : fsum :=
  ([b2n (b_v2 c); b2n (b_resp c); b_proto c; b_cmdtype c; b_cmdcode c; b_ver c; b_reqid c; b_codec c; b_tail c;
    b_ver1 c; b_switch c; b_classlen c; b_headerlen c; b_contentlen c], b_class c, b_kvs c, b_content c).
Definition fsum_eqb (a b : fsum) : bool :=
  match a, b with
  | (na, ca, ka, da), (nb, cb, kb, db) => nlist_eqb na nb && beq ca cb && kvs_eqb ka kb && beq da db
  end.

Fixpoint mism {A} (ok : A -> bool) (i : nat) (l : list A) : list nat :=
  match l with
  | [] => []
  | x :: l' => if ok x then mism ok (S i) l' else i :: mism ok (S i) l'
  end.

(* ---- single Decode call ------------------------------------------------------------------------ *)
Inductive dobs := ObNeedMore | ObErr | ObPanic | ObFrame (herr : bool) (n : N) (s : fsum).
(* (engine is boltv2?, received bytes, what the real Decode did) *)
Definition decode_case := (bool * bytes * dobs)%type.
Definition decode_case_ok (k : decode_case) : bool :=
  match k with
  | (v2, b, o) =>
    let m := (if v2 then boltv2_decode else bolt_decode) (view_of b) in
    match res m, o with
    | Ok (c, n), ObFrame herr n' s => Bool.eqb (b_herr c) herr && (n =? n') && fsum_eqb (cmd_sum c) s
    | NeedMore, ObNeedMore => true
    | Err _, ObErr => true
    | Panic, ObPanic => true
    | _, _ => false
    end
  end.
Definition decode_mismatches (l : list decode_case) : list nat := mism decode_case_ok 0 l.

(* ---- chunked delivery through the dispatch loop ------------------------------------------------ *)
Inductive sobs := SFrame (s : fsum) | SReply (s : fsum) | SClose.
Definition ev_obs (e : event bolt_cmd) : sobs :=
  match e with EFrame c => SFrame (cmd_sum c) | EReply c => SReply (cmd_sum c) | EClose => SClose end.
Definition sobs_eqb (a b : sobs) : bool :=
  match a, b with
  | SFrame x, SFrame y => fsum_eqb x y
  | SReply x, SReply y => fsum_eqb x y
  | SClose, SClose => true
  | _, _ => false
  end.
Fixpoint sobs_list_eqb (a b : list sobs) : bool :=
  match a, b with
  | [], [] => true
  | x :: a', y :: b' => sobs_eqb x y && sobs_list_eqb a' b'
  | _, _ => false
  end.
(* (engine is boltv2?, chunks, events observed, bytes left in the read buffer, connection closed?) *)
Definition seg_case := (bool * list bytes * list sobs * N * bool)%type.
Definition seg_case_ok (k : seg_case) : bool :=
  match k with
  | (v2, chunks, evs, nleft, closed) =>
    let s := fold_left (feed (if v2 then boltv2_parse else bolt_parse)) chunks init in
    sobs_list_eqb (map ev_obs (out s)) evs && (closed || (blen (buf s) =? nleft)) && Bool.eqb (dead s) closed && negb (stuck s)
  end.
Definition seg_mismatches (l : list seg_case) : list nat := mism seg_case_ok 0 l.

(* ---- Decode, ops, Encode, Decode again ------------------------------------------------------------
   (engine v2?, frame bytes, ops, observed: encode error? / output bytes) *)
Inductive eobs := EoErr | EoBytes (b : bytes).
Definition enc_case := (bool * bytes * list bolt_op * eobs)%type.
Definition enc_case_ok (k : enc_case) : bool :=
  match k with
  | (v2, b, ops, o) =>
    match res ((if v2 then boltv2_decode else bolt_decode) (view_of b)) with
    | Ok (c, _) =>
        match bolt_encode [] (fold_left apply_op ops c), o with
        | EncOk out _, EoBytes b' => beq out b'
        | EncErr, EoErr => true
        | _, _ => false
        end
    | _ => false
    end
  end.
Definition enc_mismatches (l : list enc_case) : list nat := mism enc_case_ok 0 l.

(* ---- containment run: one attacker connection of the real MOSN (engine v2?, bytes sent, connection closed by the
   server?, an error reply seen?).  closed <-> the dispatch model is dead; on a connection that stays open a reply event of the model must
   show up as an error reply (the converse does not hold: the proxy also answers e.g. unroutable requests) ---- *)
Definition conn_case := (bool * bytes * bool * bool)%type.
Definition conn_case_ok (k : conn_case) : bool :=
  match k with
  | (v2, b, closed, reply) =>
    let s := feed (if v2 then boltv2_parse else bolt_parse) init b in
    Bool.eqb (dead s) closed && negb (stuck s) &&
    (negb (existsb (fun e => match e with EReply _ => true | _ => false end) (out s)) || reply || closed)
  end.
Definition conn_mismatches (l : list conn_case) : list nat := mism conn_case_ok 0 l.
