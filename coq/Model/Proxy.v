(* Model of the downstream request state machine of mosn: pkg/proxy/{downstream,upstream,retrystate,streamfilters}.go,
   pkg/streamfilter/chain.go (filter cursors) and the Retries resource of pkg/upstream/cluster/resource_manager.go.
   ONLY executable definitions here (no proofs): Proofs/Proxy*.v has the invariants, Props/C03,C10,C14,C17_retry the statements.

   One request = one [st].  The worker goroutine (the task started by downStream.OnReceive) is a step function on the Go phase
   (one model step per Go phase, [processError] included, as in receive()); every asynchronous handler (upstream response,
   upstream reset, per-try timer, global timer, downstream reset, TerminateStream) is ONE atomic step guarded by the same
   CAS words as the Go code.  A schedule is a list of [step]s; outputs are the calls the proxy makes to the outside.

   Source-derived switches ([srcp], generated into Gen/ProxyTokens.v on every run):
     loop_bound    : the `for i := 0; i < 10; i++` of OnReceive
     min_budget    : retiesRemaining default (3) of newRetryState
     reset_guarded : whether retryState.reset() only releases a reservation it holds
     direct_clears_again : whether processError's direct-response branch cancels a pending re-match / re-choose-host
     direct_cancels_retry : whether that branch releases the retry reservation and cancels a retry set up in the same call
     direct_resets_upstream : whether that branch resets the upstream stream of the attempt given up for the local reply
     put_resets_cursor : whether streamfilter.PutStreamFilterChain zeroes the filter cursors before the chain object is pooled
     retry_checks_direct : whether doRetry returns without sending when a local reply became pending during the retry interval
     retry_refinalizes : whether doRetry runs the route's FinalizeRequestHeaders again
     timers_reset_stream : whether the per-try / global timer callbacks reset the upstream stream themselves
     hijack_clears_body : whether sendHijackReply (no body) drops a response body stored earlier
     retry_clears_reuse / setupretry_clears_reuse : whether doRetry / the !endStream branch of setupRetry clear reuseBuffer
     global_lost_cas_stops : whether the global timer callback returns whenever it loses the CAS on upstreamResponseReceived
                             (otherwise only when the response has already started downstream)
     append_error_continues : whether downStream.appendHeaders, when the downstream sender refuses the headers, only logs the error
                             and goes on (to endStream when the reply is complete); otherwise it calls resetStream() and returns.
                             The results of AppendData / AppendTrailers are discarded by the code (checked by the translator).
     reset_excludes_global : whether onUpstreamReset keeps UpstreamGlobalTimeout away from the retry state (`reason != UpstreamGlobalTimeout &&`)
     reset_reads_status : whether doRetryCheck consults the status mapping also when an upstream RESET is judged (no response): the
                             mapping of HTTP/1.1 and HTTP/2 ignores the headers and reads the x-mosn-status variable of the request
                             context, which then still holds the status of an EARLIER attempt's response
     send_once_per_upreq : whether the UpFilter phase runs the send-filter chain only once per upstreamRequest object (a flag on it);
                             the tree runs the chain on every entry of the phase
     started_marked_first : whether onUpstreamHeaders sets downstreamResponseStarted BEFORE it hands the headers to the sender
                             (appendHeaders may end the stream, clean it and give the downStream object back to the buffer pool;
                             an assignment after that call is a write into the pooled object)
     try_captures_id / global_captures_id : whether the per-try / global timer function compares the object's current proxy ID with
                             the ID captured when the timer was ARMED (a variable of the arming function, outside the closure);
                             otherwise it loads the ID inside the closure and compares it with itself
     on_reset_checks_done : whether downStream.OnResetStream itself returns when upstreamProcessDone is set (the tree tests that flag
                             only in proxy.onDownstreamEvent, for the streams of a closing connection); downStream.resetStream()
                             sets the flag BEFORE it resets the client stream and relies on the synchronous OnResetStream callback
     disable_retry_first : whether doRetryCheck looks at the proxy_disable_retry variable of the request BEFORE anything else
                             (otherwise only on routes with retry_on)
     res_counts_unlimited : whether resource.Increase / Decrease (cluster resource manager) count also while no limit is configured
                             (max == 0); CanCreate is true then in either case *)
From Coq Require Import List ZArith Bool Arith Lia.
From RecordUpdate Require Import RecordSet.
Import ListNotations RecordSetNotations.
Open Scope Z_scope.

Inductive phase := PInit | PDownFilter | PMatchRoute | PAfterRoute | PChooseHost | PAfterChoose | PRecvHeader | PRecvData
  | PRecvTrailer | POneway | PRetry | PWaitNotify | PUpFilter | PUpRecvHeader | PUpRecvData | PUpRecvTrailer | PEnd.

Inductive reason := RsTermination | RsConnFailed | RsLocalReset | RsOverflow | RsRemoteReset | RsUpstreamReset
  | RsGlobalTimeout | RsPerTryTimeout | RsEmpty.

Inductive poolres := PoolOk | PoolOverflow | PoolConnFail.

(* what a scripted receive filter does when called: (handler call) + returned status *)
Inductive verdict := VContinue | VStop | VTerm | VHijack | VHijackCont | VDirect | VReMatch | VReChoose.

Record rfilter := { f_phase : nat (* 0 BeforeRoute, 1 AfterRoute, 2 AfterChooseHost *); f_code : Z; f_verdicts : list verdict }.
Record sfilter := { sf_code : Z; sf_verdicts : list verdict (* VContinue | VStop | VTerm | VHijack | VDirect (through the receive handler) *) }.

Inductive route := RouteNone | RouteDirect (code : Z) (body : bool) | RouteNoCluster | RouteForward.

Record srcp := { loop_bound : nat; min_budget : nat; reset_guarded : bool; direct_clears_again : bool; direct_cancels_retry : bool; direct_resets_upstream : bool;
  put_resets_cursor : bool; retry_checks_direct : bool; retry_refinalizes : bool; timers_reset_stream : bool; hijack_clears_body : bool;
  retry_clears_reuse : bool; setupretry_clears_reuse : bool; global_lost_cas_stops : bool; append_error_continues : bool;
  reset_excludes_global : bool; reset_reads_status : bool; res_counts_unlimited : bool;
  send_once_per_upreq : bool; started_marked_first : bool; try_captures_id : bool; global_captures_id : bool; on_reset_checks_done : bool; disable_retry_first : bool;
  reason_code : reason -> Z }.

Record cfg := {
  c_oneway : bool; c_data : bool; c_trailers : bool;
  c_route : route; c_nhosts : nat;
  c_retry_on : bool; c_num_retries : nat; c_codes : list Z;
  c_try_timeout : bool;            (* effective per-try timeout > 0 (after parseProxyTimeout) *)
  c_max_retries : Z;               (* circuit breaker max_retries; 0 = not configured *)
  c_recv : list rfilter; c_send : list sfilter;
  c_pool : list poolres;           (* result of the k-th ConnectionPool.NewStream call; PoolOk beyond the list *)
  c_delay : list phase;            (* filter phases whose first entry is slow (a filter call that takes time) *)
  (* environment input of the append steps: the downstream sender (stream layer) returns an error from AppendHeaders /
     AppendData / AppendTrailers *)
  c_snd_err_hdr : bool; c_snd_err_data : bool; c_snd_err_trl : bool;
  (* upstream protocol flavour: true = the status mapping is protocol.GetStatusCodeMapping (HTTP/1.1, HTTP/2): it ignores the headers
     and reads the x-mosn-status variable of the request context, which the client stream sets when a response arrives;
     false = the status is read from the response headers (bolt and the other xprotocols) *)
  c_http : bool;
  (* host selection: from the k-th NewStream call on (k = number of attempts made so far) no healthy host / no cluster is found
     any more (hosts taken out of the cluster while the request is in flight); None = hosts stay *)
  c_nohost_from : option nat;
  (* the upstream stream layer keeps the client stream registered after it has handed the response over: a reset of that stream
     (connection closed right after the response) is still delivered to the proxy *)
  c_late_reset : bool;
  (* the request carries proxy_disable_retry = true (the HTTP/2 server stream sets it when the request body is streamed and cannot
     be replayed): it must never be retried, whatever the route and the reason *)
  c_disable_retry : bool
}.

#[export] Instance eta_cfg : Settable _ := settable! Build_cfg
  <c_oneway; c_data; c_trailers; c_route; c_nhosts; c_retry_on; c_num_retries; c_codes; c_try_timeout; c_max_retries; c_recv; c_send;
   c_pool; c_delay; c_snd_err_hdr; c_snd_err_data; c_snd_err_trl; c_http; c_nohost_from; c_late_reset; c_disable_retry>.
#[export] Instance eta_srcp : Settable _ := settable! Build_srcp
  <loop_bound; min_budget; reset_guarded; direct_clears_again; direct_cancels_retry; direct_resets_upstream; put_resets_cursor; retry_checks_direct; retry_refinalizes;
   timers_reset_stream; hijack_clears_body; retry_clears_reuse;
   setupretry_clears_reuse; global_lost_cas_stops; append_error_continues; reset_excludes_global; reset_reads_status; res_counts_unlimited; send_once_per_upreq; started_marked_first; try_captures_id; global_captures_id; on_reset_checks_done; disable_retry_first; reason_code>.

Inductive rkind := KUp | KHijack | KDirect.
Record resp := { r_kind : rkind; r_code : Z; r_data : bool; r_trailers : bool;
                 r_body : rkind (* whose body the stored data buffer is, when r_data *) }.

Inductive ev :=
  | EvUpResp (k : nat) (status : Z) (data trailers : bool)
  | EvUpReset (k : nat) (why : reason)
  | EvPerTry (k : nat)
  | EvGlobal
  | EvDownReset (why : reason)
  | EvTerminate (code : Z)
  | EvWake                           (* the 10 ms sleep of doRetry is over *)
  (* a timer function armed by some owner of this pooled downStream object runs now; [same] = the proxy ID it captured when it was
     armed is the object's current ID.  For a timer of an EARLIER owner (Timer.Stop came after the runtime had started it, the
     object was given back and taken by this request meanwhile) it is false: newActiveStream gives every owner a fresh ID *)
  | EvStaleTry (same : bool)
  | EvStaleGlobal (same : bool).
Inductive step := Worker | Env (e : ev).

Inductive out :=
  | ODownHdr (e : bool) (k : rkind) (code : Z) | ODownData (e : bool) (owner : rkind) | ODownTrl | ODownReset
  | OChoose | OUpNew (k : nat) (r : poolres) | OUpHdr (k : nat) (e : bool) (nfin : nat) | OLeak (k : nat) | OUpData (k : nat) (e : bool) | OUpTrl (k : nat)
  | OUpReset (k : nat)
  | ORes (d : Z) | OGauge (d : Z)
  | OFilterRecv (i : nat) (p : nat) (v : verdict) | OFilterSend (i : nat) (v : verdict)
  | ODestroy | OLog | OPanic.

Record st := {
  ph : phase; outer : nat; wdone : bool; sleeping : bool; woken : bool;
  received : bool; cleaned : bool; up_reset : bool; down_reset : bool;
  direct : bool; resp_started : bool; recv_done : bool; req_sent : bool; process_done : bool;
  setup_retry : bool; again : phase; rreason : reason;
  notify : bool;
  try_armed : option nat; global_armed : bool;
  retry : option nat; reserved : bool;
  has_upreq : bool; up_sender : bool; up_alive : bool; nnew : nat; cur : nat;
  rsp : option resp; route_matched : bool;
  rcursor : nat; scursor : nat; fcalls : list nat; scalls : list nat; delayed : list phase;
  reuse : bool;         (* reuseBuffer: the pooled per-request objects may be given back when the stream is cleaned *)
  gave : bool;          (* giveStream did give them back *)
  abandoned : bool;     (* some attempt's stream was reset (by the peer or locally) without ever having been answered: a reply
                           that was already under way can still reach that attempt's listener *)
  nfin : nat;           (* how many times the route's FinalizeRequestHeaders ran on the request *)
  rc : Z;
  (* ghost flags (never read by the transitions): which of the listed defect patterns occurred *)
  global_ever : bool;   (* the global timer was armed at some point *)
  x_loop : bool;        (* the outer `for` of OnReceive ran out: the worker returned without finishing the stream *)
  x_upf : bool;         (* processError in phase UpFilter consumed an upstream reset and a direct response at once: returns (End, ErrExit) *)
  x_nog : bool;         (* doRetry started a new attempt while no global timer was armed (never armed, or already expired unheard) *)
  status_var : option Z; (* the x-mosn-status variable of the request context (tracked for the HTTP flavour only, where it is read):
                           set by the client stream when a response arrives, by sendHijackReply; never cleared between attempts *)
  x_stale : bool;       (* ghost: a RESPONSE was judged by the retry state with a status that is not that response's *)
  rsp_filtered : bool;  (* the stored response has passed the send-filter chain since it was last replaced *)
  upreq_filtered : bool;(* the flag on the current upstreamRequest object (only with [send_once_per_upreq]) *)
  x_unfilt : bool;      (* ghost: reply headers were written downstream for a response that had not passed the send chain *)
  late_started : bool   (* downstreamResponseStarted = true was written into the object AFTER it had been given back to the pool *)
}.

#[export] Instance eta_st : Settable _ := settable! Build_st
  <ph; outer; wdone; sleeping; woken; received; cleaned; up_reset; down_reset; direct; resp_started; recv_done; req_sent;
   process_done; setup_retry; again; rreason; notify; try_armed; global_armed; retry; reserved; has_upreq; up_sender; up_alive;
   nnew; cur; rsp; route_matched; rcursor; scursor; fcalls; scalls; delayed; reuse; gave; abandoned; nfin; rc; global_ever; x_loop; x_upf; x_nog; status_var; x_stale; rsp_filtered; upreq_filtered; x_unfilt; late_started>.

Definition init_st (rc0 : Z) : st :=
  {| ph := PInit; outer := 0; wdone := false; sleeping := false; woken := false;
     received := false; cleaned := false; up_reset := false; down_reset := false;
     direct := false; resp_started := false; recv_done := false; req_sent := false; process_done := false;
     setup_retry := false; again := PInit; rreason := RsEmpty; notify := false;
     try_armed := None; global_armed := false; retry := None; reserved := false;
     has_upreq := false; up_sender := false; up_alive := false; nnew := 0; cur := 0;
     rsp := None; route_matched := false; rcursor := 0; scursor := 0; fcalls := []; scalls := []; delayed := []; reuse := true; gave := false; abandoned := false; nfin := 0; rc := rc0;
     global_ever := false; x_loop := false; x_upf := false; x_nog := false; status_var := None; x_stale := false;
     rsp_filtered := false; upreq_filtered := false; x_unfilt := false; late_started := false |}.

(* The filter chain object of a finished stream goes back to a pool (streamfilter.PutStreamFilterChain) and is handed to a later
   stream: the next request served by the same pooled object starts with the cursors that Put left in it.  Likewise the
   downStream object (proxyBuffers, buffer pool): zeroed at give-back, so the next owner sees what was written afterwards. *)
Definition next_request (src : srcp) (prev : st) (rc0 : Z) : st :=
  init_st rc0 <| rcursor := if put_resets_cursor src then O else rcursor prev |>
              <| scursor := if put_resets_cursor src then O else scursor prev |>
              (* the object is zeroed when it is given back; newActiveStream sets what it needs and clears nothing else *)
              <| resp_started := late_started prev |>.

(* ---------- small enumerations ---------- *)
Definition reason_eqb (a b : reason) : bool :=
  match a, b with
  | RsTermination, RsTermination | RsConnFailed, RsConnFailed | RsLocalReset, RsLocalReset | RsOverflow, RsOverflow
  | RsRemoteReset, RsRemoteReset | RsUpstreamReset, RsUpstreamReset | RsGlobalTimeout, RsGlobalTimeout
  | RsPerTryTimeout, RsPerTryTimeout | RsEmpty, RsEmpty => true
  | _, _ => false
  end.
Definition phase_eqb (a b : phase) : bool :=
  match a, b with
  | PInit, PInit | PDownFilter, PDownFilter | PMatchRoute, PMatchRoute | PAfterRoute, PAfterRoute | PChooseHost, PChooseHost
  | PAfterChoose, PAfterChoose | PRecvHeader, PRecvHeader | PRecvData, PRecvData | PRecvTrailer, PRecvTrailer
  | POneway, POneway | PRetry, PRetry | PWaitNotify, PWaitNotify | PUpFilter, PUpFilter | PUpRecvHeader, PUpRecvHeader
  | PUpRecvData, PUpRecvData | PUpRecvTrailer, PUpRecvTrailer | PEnd, PEnd => true
  | _, _ => false
  end.
Definition poolres_eqb (a b : poolres) : bool :=
  match a, b with PoolOk, PoolOk | PoolOverflow, PoolOverflow | PoolConnFail, PoolConnFail => true | _, _ => false end.
Definition rkind_eqb (a b : rkind) : bool :=
  match a, b with KUp, KUp | KHijack, KHijack | KDirect, KDirect => true | _, _ => false end.

Fixpoint incr_nth (l : list nat) (i : nat) : list nat :=
  match i, l with
  | O, [] => [1%nat]
  | O, x :: l' => S x :: l'
  | S i', [] => O :: incr_nth [] i'
  | S i', x :: l' => x :: incr_nth l' i'
  end.

(* ---------- actions: state transformers with output ---------- *)
Definition A := st -> st * list out.
Definition ret : A := fun s => (s, []).
Definition aseq (a b : A) : A := fun s => let '(s1, o1) := a s in let '(s2, o2) := b s1 in (s2, o1 ++ o2).
Definition emit (o : out) : A := fun s => (s, [o]).
Definition upd (f : st -> st) : A := fun s => (f s, []).
Definition when (b : st -> bool) (a : A) : A := fun s => if b s then a s else (s, []).
Definition ite (b : st -> bool) (a1 a2 : A) : A := fun s => if b s then a1 s else a2 s.
Notation "a ;; b" := (aseq a b) (at level 61, right associativity).

Section Model.
Variable src : srcp.
Variable c : cfg.

(* ----- Retries resource (resource_manager.go: Increase/Decrease act only when max != 0) ----- *)
(* resource.Increase / Decrease: not counted while no limit is configured (max == 0) - unless the switch says they always count *)
Definition res_off : bool := (c_max_retries c =? 0) && negb (res_counts_unlimited src).
Definition res_dec : A := fun s => if res_off then (s, []) else (s <| rc := rc s - 1 |>, [ORes (-1)]).
Definition res_inc : A := fun s => if res_off then (s, []) else (s <| rc := rc s + 1 |>, [ORes 1]).
Definition can_create (s : st) : bool := (c_max_retries c =? 0) || (rc s <? 0) || (rc s <? c_max_retries c).

(* retryState.reset() *)
Definition rs_reset : A :=
  if reset_guarded src
  then when reserved (res_dec ;; upd (fun s => s <| reserved := false |>))
  else res_dec.

(* retryState.doRetryCheck on the status the mapping yields (None: the mapping fails / is not consulted): the status branch comes
   first, the reset reasons are looked at only when there is no status *)
Definition retry_rule (status : option Z) (why : reason) : bool :=
  if reason_eqb why RsOverflow then false
  else if c_retry_on c then
    match status with
    | Some z => match c_codes c with [] => 500 <=? z | l => existsb (Z.eqb z) l end
    | None => reason_eqb why RsConnFailed || reason_eqb why RsPerTryTimeout || reason_eqb why RsTermination
    end
  else reason_eqb why RsConnFailed.
(* protocol.MappingHeaderStatusCode(ctx, upstreamProtocol, headers) as doRetryCheck calls it; hdr = Some status when a response is
   judged (onUpstreamHeaders), None for a reset (onUpstreamReset passes nil headers and the reason) *)
Definition mapped_status (hdr : option Z) (s : st) : option Z :=
  match hdr with
  | Some z => if c_http c then status_var s else Some z
  | None => if c_http c && reset_reads_status src then status_var s else None
  end.
Definition retry_check (hdr : option Z) (why : reason) (s : st) : bool := retry_rule (mapped_status hdr s) why.

(* doRetryCheck: proxy_disable_retry of the request *)
Definition retry_disabled : bool := c_disable_retry c && (disable_retry_first src || c_retry_on c).

Inductive rstatus := RShould | RNo | ROver.
(* retryState.retry(): reset(); shouldRetry; on ShouldRetry: Increase *)
Definition rs_retry (code : option Z) (why : reason) (s : st) : st * list out * rstatus :=
  let '(s1, o1) := rs_reset s in
  match retry s1 with
  | None | Some O => (s1, o1, RNo)
  | Some (S n) =>
    let s2 := s1 <| retry := Some n |> in
    if negb (retry_check code why s2) || retry_disabled then (s2, o1, RNo)
    else if negb (can_create s2) then (s2, o1, ROver)
    else let '(s3, o3) := res_inc s2 in (s3 <| reserved := true |>, o1 ++ o3, RShould)
  end.

(* upstreamRequest.resetStream() *)
Definition upreq_reset_stream : A :=
  when up_sender (fun s => (s <| up_alive := false |> <| abandoned := abandoned s || up_alive s |>, [OUpReset (cur s)])).

(* downStream.cleanUp() *)
Definition clean_up : A :=
  when (fun s => match retry s with Some _ => true | None => false end) rs_reset ;;
  upd (fun s => s <| try_armed := None |> <| global_armed := false |>).

(* downStream.cleanStream() *)
Definition clean_stream : A :=
  ite cleaned ret
    (upd (fun s => s <| cleaned := true |>) ;;
     when (fun s => has_upreq s && negb (process_done s) && negb (c_oneway c))
          (upd (fun s => s <| process_done := true |>) ;; upreq_reset_stream) ;;
     clean_up ;; emit (OGauge (-1)) ;; emit OLog ;; emit ODestroy ;;
     (* giveStream *)
     upd (fun s => s <| gave := reuse s && negb (up_reset s) && negb (down_reset s) |>)).

(* sendHijackReply (body = false) / sendHijackReplyWithBody: new headers; the data buffer is replaced by the body, or - without
   body - dropped (code in the tree) or LEFT AS IT IS (switch off) *)
Definition hijack (code : Z) (body : bool) : A :=
  upd (fun s =>
         let keep := negb body && negb (hijack_clears_body src) in
         let d := if keep then match rsp s with Some r => r_data r | None => false end else body in
         let o := if keep then match rsp s with Some r => r_body r | None => KHijack end else KHijack in
         s <| rsp := Some {| r_kind := KHijack; r_code := code; r_data := d; r_trailers := false; r_body := o |} |> <| direct := true |> <| reuse := false |>
           <| status_var := if c_http c then Some code else status_var s |> <| rsp_filtered := false |>).
Definition direct_response (code : Z) : A :=
  upd (fun s => s <| rsp := Some {| r_kind := KDirect; r_code := code; r_data := true; r_trailers := false; r_body := KDirect |} |> <| direct := true |> <| reuse := false |> <| rsp_filtered := false |>).

(* upstreamRequest.OnResetStream(reason) *)
Definition on_up_reset (why : reason) : A :=
  ite setup_retry ret
    (ite up_reset ret (upd (fun s => s <| up_reset := true |> <| rreason := why |> <| notify := true |>))).

(* downStream.OnResetStream(reason) *)
Definition on_down_reset (why : reason) : A :=
  ite (fun s => on_reset_checks_done src && process_done s) ret
 (ite down_reset ret (upd (fun s => s <| down_reset := true |> <| rreason := why |> <| notify := true |>))).

(* downStream.resetStream(): reset the downstream stream; the stream layer calls back OnResetStream synchronously *)
Definition ds_reset_stream : A :=
  when (fun s => negb (c_oneway c) && negb (process_done s))
       (upd (fun s => s <| process_done := true |>) ;; emit ODownReset ;; on_down_reset RsLocalReset).

(* downStream.setupRetry(endStream) *)
Definition setup_retry_act (e : bool) : A :=
  upd (fun s => s <| setup_retry := true |>) ;;
  (if e then ret else (if setupretry_clears_reuse src then upd (fun s => s <| reuse := false |>) else ret) ;; upreq_reset_stream) ;;
  upd (fun s => s <| try_armed := None |> <| received := false |>).

(* downStream.onUpstreamReset(reason) *)
Definition on_upstream_reset (why : reason) : A := fun s =>
  let tail : A :=
    clean_up ;;
    ite resp_started ds_reset_stream
        (upd (fun s => s <| up_reset := false |>) ;; hijack (reason_code src why) false) in
  if (negb (reset_excludes_global src) || negb (reason_eqb why RsGlobalTimeout)) && negb (resp_started s) && (match retry s with Some _ => true | None => false end)
  then
    let '(s1, o1, r) := rs_retry None why s in
    match r with
    | RShould => let '(s2, o2) := (setup_retry_act true ;; upd (fun s => s <| up_reset := false |>)) s1 in (s2, o1 ++ o2)
    | _ => let '(s2, o2) := tail s1 in (s2, o1 ++ o2)
    end
  else tail s.

Definition process_done_b (s : st) : bool := process_done s || down_reset s || up_reset s.

(* downStream.processError: returns the state, outputs, the phase to resume at and whether the pass ends (err != nil) *)
Definition process_error (s : st) : st * list out * phase * bool :=
  if cleaned s then (s, [], PEnd, true)
  else
    (* upstream reset *)
    let r1 : option (st * list out * bool) :=
      if up_reset s then
        if c_oneway c then None
        else let '(s1, o1) := on_upstream_reset (rreason s) s in Some (s1, o1, true)
      else Some (s, [], false) in
    match r1 with
    | None => (s, [], POneway, true)
    | Some (s1, o1, err1) =>
      if down_reset s1 then
        (* downStream.ResetStream -> cleanStream *)
        let '(s2, o2) := clean_stream s1 in (s2, o1 ++ o2, PEnd, true)
      else if direct s1 then
        let '(s1r, o1r) :=
          if direct_cancels_retry src
          then (when (fun s => match retry s with Some _ => true | None => false end) rs_reset ;;
                upd (fun s => s <| setup_retry := false |>) ;;
                (if direct_resets_upstream src then when has_upreq upreq_reset_stream else ret)) s1
          else (s1, []) in
        let s2 := s1r <| direct := false |> <| retry := None |>
                      <| again := if direct_clears_again src then PInit else again s1r |> in
        let o1 := o1 ++ o1r in
        if c_oneway c then (s2, o1, POneway, true)
        else if negb (phase_eqb (ph s2) PUpFilter) then (s2, o1, PUpFilter, true)
        else (s2 <| x_upf := x_upf s2 || err1 |>, o1, PEnd, err1)
      else
        let err2 := err1 || process_done s1 in
        if has_upreq s1 && setup_retry s1 then (s1 <| setup_retry := false |>, o1, PRetry, true)
        else if negb (phase_eqb (again s1) PInit) then (s1 <| again := PInit |>, o1, again s1, true)
        else (s1, o1, PEnd, err2)
    end.

(* end of a Go phase: processError, then either go on with [next] or end the pass (outer loop of OnReceive) *)
Definition finish_phase (next : phase) (s : st) (o : list out) : st * list out :=
  let '(s1, o1, p, err) := process_error s in
  if err then
    if phase_eqb p PEnd then (s1 <| wdone := true |>, o ++ o1)
    else
      let n := S (outer s1) in
      if (loop_bound src <=? n)%nat then (s1 <| outer := n |> <| wdone := true |> <| x_loop := true |>, o ++ o1)   (* for i < 10 exhausted *)
      else (s1 <| outer := n |> <| notify := false |> <| ph := p |>, o ++ o1)               (* cleanNotify; next pass *)
  else (s1 <| ph := next |>, o ++ o1).

Definition fin (next : phase) (a : A) : A := fun s => let '(s1, o1) := a s in finish_phase next s1 o1.

(* ----- stream filters (streamfilter/chain.go) ----- *)
Definition verdict_at (l : list verdict) (n : nat) : verdict := nth n l VContinue.

(* receiverFilterStatusHandler + handler calls of the scripted filter; returns whether the chain loop continues *)
Definition apply_verdict (p : nat) (f : rfilter) (v : verdict) : A :=
  match v with
  | VContinue | VStop => ret
  | VTerm => upd (fun s => s <| reuse := false |>) ;; clean_stream
  | VHijack | VHijackCont => hijack (f_code f) false
  | VDirect => direct_response (f_code f)
  | VReMatch => if (p =? 1)%nat then upd (fun s => s <| again := PMatchRoute |>) else ret
  | VReChoose => if (p =? 2)%nat then upd (fun s => s <| again := PChooseHost |>) else ret
  end.

(* RunReceiverFilter from the cursor: [l] = filters from the cursor on, [i] = cursor *)
Fixpoint run_recv_from (p : nat) (l : list rfilter) (i : nat) : A :=
  match l with
  | [] => upd (fun s => s <| rcursor := O |>)
  | f :: l' =>
    if (f_phase f =? p)%nat then
      fun s =>
        let n := nth i (fcalls s) O in
        let v := verdict_at (f_verdicts f) n in
        let '(s1, o1) := (upd (fun s => s <| fcalls := incr_nth (fcalls s) i |>) ;; emit (OFilterRecv i p v) ;; apply_verdict p f v) s in
        match v with
        | VContinue | VHijackCont => let '(s2, o2) := run_recv_from p l' (S i) s1 in (s2, o1 ++ o2)
        | VStop | VTerm | VHijack | VDirect => (s1 <| rcursor := O |>, o1)
        | VReMatch | VReChoose => (s1 <| rcursor := i |>, o1)
        end
    else run_recv_from p l' (S i)
  end.
Definition run_recv (p : nat) : A := fun s => run_recv_from p (skipn (rcursor s) (c_recv c)) (rcursor s) s.

Fixpoint run_send_from (l : list sfilter) (i : nat) : A :=
  match l with
  | [] => upd (fun s => s <| scursor := O |>)
  | f :: l' =>
    fun s =>
      let n := nth i (scalls s) O in
      let v := verdict_at (sf_verdicts f) n in
      let '(s1, o1) := (upd (fun s => s <| scalls := incr_nth (scalls s) i |>) ;; emit (OFilterSend i v) ;;
                        match v with
                        | VTerm => upd (fun s => s <| reuse := false |>) ;; clean_stream
                        | VHijack => hijack (sf_code f) false
                        | VDirect => direct_response (sf_code f)
                        | _ => ret
                        end) s in
      match v with
      | VContinue | VHijackCont => let '(s2, o2) := run_send_from l' (S i) s1 in (s2, o1 ++ o2)
      | _ => (s1 <| scursor := O |>, o1)
      end
  end.
Definition run_send : A := fun s => run_send_from (skipn (scursor s) (c_send c)) (scursor s) s.

(* ----- request path ----- *)
Definition pool_at (k : nat) : poolres := nth k (c_pool c) PoolOk.

(* upstreamRequest.appendHeaders(endStream) *)
Definition up_append_headers (e : bool) : A :=
  ite process_done_b ret
    (fun s =>
       let k := nnew s in
       let s1 := s <| nnew := S k |> <| cur := k |> in
       match pool_at k with
       | PoolOk => (* a one-way request has no response: its client stream is finished once the request is written *)
                   (s1 <| up_sender := true |> <| up_alive := negb (c_oneway c) |>, [OUpNew k PoolOk; OUpHdr k e (nfin s)])
       | PoolOverflow => let '(s2, o2) := on_up_reset RsOverflow s1 in (s2, OUpNew k PoolOverflow :: o2)
       | PoolConnFail => let '(s2, o2) := on_up_reset RsConnFailed s1 in (s2, OUpNew k PoolConnFail :: o2)
       end).
Definition up_append_data (e : bool) : A :=
  ite process_done_b ret (fun s => if up_sender s then (s, [OUpData (cur s) e]) else (s, [OPanic])).
Definition up_append_trailers : A :=
  ite process_done_b ret (fun s => if up_sender s then (s, [OUpTrl (cur s)]) else (s, [OPanic])).

Definition setup_per_req_timeout : A :=
  if c_try_timeout c then upd (fun s => s <| try_armed := Some (cur s) |>) else ret.
(* downStream.onUpstreamRequestSent *)
Definition request_sent : A :=
  upd (fun s => s <| req_sent := true |>) ;;
  when (fun s => has_upreq s && negb (c_oneway c)) (setup_per_req_timeout ;; upd (fun s => s <| global_armed := true |> <| global_ever := true |>)).

Definition no_body : bool := negb (c_data c) && negb (c_trailers c).

Definition budget : nat := Nat.max (min_budget src) (c_num_retries c).

(* a healthy host is found for the attempt about to be made *)
Definition hosts_ok (s : st) : bool :=
  negb (c_nhosts c =? 0)%nat && match c_nohost_from c with Some k => (nnew s <? k)%nat | None => true end.

Definition choose_host : A :=
  upd (fun s => s <| recv_done := no_body |>) ;;
  fun s =>
    if negb (route_matched s) then hijack 404 false s
    else match c_route c with
         | RouteNone => hijack 404 false s
         | RouteDirect code body => hijack code body s
         | RouteNoCluster => hijack 404 false s
         | RouteForward =>
           if negb (hosts_ok s) then (emit OChoose ;; hijack 502 false) s
           else (emit OChoose ;;
                 upd (fun s => s <| retry := Some budget |> <| reserved := false |> <| has_upreq := true |>)) s
         end.

(* receiveHeaders: FinalizeRequestHeaders, then the first attempt *)
Definition receive_headers : A :=
  upd (fun s => s <| nfin := S (nfin s) |>) ;; up_append_headers no_body ;; (if no_body then request_sent else ret).
Definition receive_data : A :=
  ite process_done_b ret
    (upd (fun s => s <| recv_done := negb (c_trailers c) |>) ;;
     (if negb (c_trailers c) then request_sent else ret) ;;
     up_append_data (negb (c_trailers c)) ;;
     when process_done clean_stream).
Definition receive_trailers : A :=
  ite process_done_b ret
    (upd (fun s => s <| recv_done := true |>) ;; request_sent ;; up_append_trailers ;; when process_done clean_stream).

Definition do_retry_send : A :=
  emit OChoose ;;
  ite (fun s => negb (hosts_ok s))
    (* initializeUpstreamConnectionPool failed: the OLD upstreamRequest object stays *)
    (when has_upreq (upd (fun s => s <| setup_retry := false |>)) ;; hijack 502 false ;; clean_up)
   (when up_alive (fun s => (s, [OLeak (cur s)])) ;;      (* the previous attempt's stream is abandoned while still open *)
    (if retry_refinalizes src then upd (fun s => s <| nfin := S (nfin s) |>) else ret) ;;
    upd (fun s => s <| has_upreq := true |> <| up_sender := false |> <| up_alive := false |> <| setup_retry := false |>
                     <| upreq_filtered := false |>      (* a new upstreamRequest object *)
                     <| x_nog := x_nog s || (negb (global_armed s) && negb (c_oneway c)) |>) ;;
    up_append_headers no_body ;;
    (if c_data c then up_append_data (negb (c_trailers c)) else ret) ;;
    (if c_trailers c then up_append_trailers else ret) ;;
    setup_per_req_timeout ;;
    upd (fun s => s <| req_sent := true |> <| recv_done := true |>)).

Definition do_retry : A :=
  (if retry_clears_reuse src then upd (fun s => s <| reuse := false |>) else ret) ;;
  (if retry_checks_direct src then ite direct ret do_retry_send else do_retry_send).

(* ----- response path ----- *)
Definition end_stream : A :=
  when (fun s => negb (c_oneway c) && negb (recv_done s)) (upd (fun s => s <| reuse := false |>)) ;; clean_stream.
Definition recv_finished : A := when (fun s => negb (req_sent s)) upreq_reset_stream ;; clean_up.

(* what the append step does with the sender's result [err]: appendHeaders has an `if err != nil` block - log only (the switch),
   or resetStream() and return; appendData / appendTrailers discard the result ([handled] = false) *)
Definition after_append (handled err e : bool) : A :=
  if handled && negb (append_error_continues src) && err then ds_reset_stream
  else if e then end_stream else ret.
Definition down_append_headers (e : bool) (r : resp) : A :=
  upd (fun s => s <| process_done := e |> <| x_unfilt := x_unfilt s || negb (rsp_filtered s) |>) ;;
  (if c_oneway c then emit OPanic else emit (ODownHdr e (r_kind r) (r_code r))) ;;
  after_append true (c_snd_err_hdr c) e.
Definition down_append_data (e : bool) (owner : rkind) : A :=
  upd (fun s => s <| process_done := e |>) ;;
  (if c_oneway c then emit OPanic else emit (ODownData e owner)) ;;
  after_append false (c_snd_err_data c) e.
Definition down_append_trailers : A :=
  upd (fun s => s <| process_done := true |>) ;;
  (if c_oneway c then emit OPanic else emit ODownTrl) ;; after_append false (c_snd_err_trl c) true.

(* the assignment `downstreamResponseStarted = true` placed after appendHeaders: into this request's object - or, when the stream was
   ended, cleaned and the object given back inside appendHeaders, into the pooled (zeroed) object *)
Definition late_mark : A :=
  fun s => if gave s then (s <| late_started := true |>, []) else (s <| resp_started := true |>, []).
Definition headers_tail (e : bool) (r : resp) : A :=
  (if started_marked_first src then upd (fun s => s <| resp_started := true |>) else ret) ;;
  (if e then recv_finished else ret) ;;
  down_append_headers e r ;;
  (if started_marked_first src then ret else late_mark).

(* downStream.onUpstreamHeaders(endStream) *)
Definition on_upstream_headers (r : resp) : A := fun s =>
  let e := negb (r_data r) && negb (r_trailers r) in
  let tail : A := headers_tail e r in
  match retry s with
  | Some _ =>
    let s := s <| x_stale := x_stale s || (c_http c && negb (match status_var s with Some z => z =? r_code r | None => false end)) |> in
    let '(s1, o1, rs) := rs_retry (Some (r_code r)) RsEmpty s in
    match rs with
    | RShould => let '(s2, o2) := setup_retry_act e s1 in (s2, o1 ++ o2)
    | _ => let '(s2, o2) := (rs_reset ;; tail) s1 in (s2, o1 ++ o2)
    end
  | None => tail s
  end.

Definition upreq_guard (a : A) : A := ite (fun s => process_done_b s || setup_retry s) ret a.

(* UpFilter needs an action between processError and the phase increment (the fake upstreamRequest) *)
Definition up_filter_step (s : st) : st * list out :=
  let skip := send_once_per_upreq src && has_upreq s && upreq_filtered s in
  let '(s1, o1) := if skip then (s, [])
                   else (run_send ;; upd (fun s => s <| rsp_filtered := true |> <| upreq_filtered := send_once_per_upreq src |>)) s in
  let '(s2, o2) := finish_phase PUpRecvHeader s1 o1 in
  if phase_eqb (ph s2) PUpRecvHeader && negb (wdone s2) && negb (has_upreq s2)
  then (s2 <| has_upreq := true |> <| up_sender := false |> <| up_alive := false |>, o2)
  else (s2, o2).

(* ----- the worker: one step per Go phase ----- *)
Definition worker_enabled (s : st) : bool :=
  negb (wdone s) && negb (sleeping s) && (if phase_eqb (ph s) PWaitNotify then notify s else true).

(* the worker sleeps before the body of doRetry (10 ms) and at the first entry of a slow filter phase; EvWake resumes it *)
Definition needs_sleep (s : st) : bool :=
  phase_eqb (ph s) PRetry ||
  (existsb (phase_eqb (ph s)) (c_delay c) && negb (existsb (phase_eqb (ph s)) (delayed s))).

Definition wstep (s0 : st) : st * list out :=
  if negb (worker_enabled s0) then (s0, [])
  else if needs_sleep s0 && negb (woken s0) then (s0 <| sleeping := true |>, [])
  else
    let s := if needs_sleep s0 then s0 <| woken := false |> <| delayed := ph s0 :: delayed s0 |> else s0 in
    match ph s with
    | PInit => (s <| notify := false |> <| ph := PDownFilter |>, [])
    | PDownFilter => fin PMatchRoute (run_recv 0) s
    | PMatchRoute =>
      fin PAfterRoute (upd (fun s => s <| route_matched := match c_route c with RouteNone => false | _ => true end |>)) s
    | PAfterRoute => fin PChooseHost (run_recv 1) s
    | PChooseHost => fin PAfterChoose choose_host s
    | PAfterChoose => fin PRecvHeader (run_recv 2) s
    | PRecvHeader => fin PRecvData receive_headers s
    | PRecvData => if c_data c then fin PRecvTrailer receive_data s else (s <| ph := PRecvTrailer |>, [])
    | PRecvTrailer => if c_trailers c then fin POneway receive_trailers s else (s <| ph := POneway |>, [])
    | POneway => if c_oneway c then fin PWaitNotify clean_stream s else (s <| ph := PWaitNotify |>, [])
    | PRetry => fin PWaitNotify do_retry s
    | PWaitNotify => fin PUpFilter ret (s <| notify := false |>)
    | PUpFilter => up_filter_step s
    | PUpRecvHeader =>
      match rsp s with
      | Some r => fin PUpRecvData (upreq_guard (on_upstream_headers r)) s
      | None => (s <| ph := PUpRecvData |>, [])
      end
    | PUpRecvData =>
      match rsp s with
      | Some r =>
        if r_data r then
          fin PUpRecvTrailer
              (upreq_guard ((if negb (r_trailers r) then recv_finished else ret) ;; down_append_data (negb (r_trailers r)) (r_body r))) s
        else (s <| ph := PUpRecvTrailer |>, [])
      | None => (s <| ph := PUpRecvTrailer |>, [])
      end
    | PUpRecvTrailer =>
      match rsp s with
      | Some r =>
        if r_trailers r then fin PEnd (upreq_guard (recv_finished ;; down_append_trailers)) s
        else (s <| ph := PEnd |>, [])
      | None => (s <| ph := PEnd |>, [])
      end
    | PEnd => (s <| wdone := true |>, [])
    end.

Definition worker (s : st) : st * list out := wstep s.

(* ----- timer functions of an earlier owner of the object: reuseBuffer = 0, cleaned?, ID check, CAS, time-out handling ----- *)
Definition stale_try (same : bool) (s : st) : st * list out :=
  let s1 := s <| reuse := false |> in
  if cleaned s1 then (s1, [])
  else if (if try_captures_id src then negb same else false) then (s1, [])     (* the ID check; without the capture: ID != ID *)
  else if received s1 then (s1, [])
  else
    let s2 := s1 <| received := true |> in
    if resp_started s2 then (s2, [])
    else ((if timers_reset_stream src then upreq_reset_stream else ret) ;; on_up_reset RsPerTryTimeout) s2.
Definition stale_global (same : bool) (s : st) : st * list out :=
  let s1 := s <| reuse := false |> in
  if cleaned s1 then (s1, [])
  else if (if global_captures_id src then negb same else false) then (s1, [])
  else if received s1 then (s1, [])
  else
    let s2 := s1 <| received := true |> in
    if has_upreq s2 then ((if timers_reset_stream src then upreq_reset_stream else ret) ;; on_up_reset RsGlobalTimeout) s2
    else (s2, []).

(* ----- asynchronous handlers: one atomic guarded step each ----- *)
Definition env_step (e : ev) (s : st) : st * list out :=
  match e with
  | EvUpResp k status d t =>
    if (k =? cur s)%nat && up_sender s && up_alive s && negb (c_oneway c) then
      (* the client stream puts the status into the request context before it calls the listener *)
      let s1 := s <| up_alive := false |> <| status_var := if c_http c then Some status else status_var s |> in
      if process_done_b s1 || setup_retry s1 then (s1, [])
      else if received s1 then (s1, [])
      else (s1 <| received := true |> <| rsp := Some {| r_kind := KUp; r_code := status; r_data := d; r_trailers := t; r_body := KUp |} |>
               <| notify := true |> <| rsp_filtered := false |>, [])
    else (s, [])
  | EvUpReset k why =>
    if (k =? cur s)%nat && up_sender s && up_alive s then on_up_reset why (s <| up_alive := false |> <| abandoned := true |>)
    else if (k =? cur s)%nat && up_sender s && c_late_reset c && negb (c_oneway c) then on_up_reset why s      (* after the response *)
    else (s, [])
  | EvPerTry k =>
    match try_armed s with
    | Some k' =>
      if (k =? k')%nat then
        let s1 := s <| try_armed := None |> <| reuse := false |> in
        if cleaned s1 then (s1, [])
        else if received s1 then (s1, [])
        else
          let s2 := s1 <| received := true |> in
          if resp_started s2 then (s2, [])
          else ((if timers_reset_stream src then upreq_reset_stream else ret) ;; on_up_reset RsPerTryTimeout) s2
      else (s, [])
    | None => (s, [])
    end
  | EvGlobal =>
    if global_armed s then
      let s1 := s <| global_armed := false |> <| reuse := false |> in
      let timeout (s2 : st) : st * list out :=
        if has_upreq s2 then ((if timers_reset_stream src then upreq_reset_stream else ret) ;; on_up_reset RsGlobalTimeout) s2
        else (s2, []) in
      if cleaned s1 then (s1, [])
      else if received s1 then
        (* the CAS is lost *)
        if global_lost_cas_stops src || resp_started s1 then (s1, []) else timeout s1
      else timeout (s1 <| received := true |>)
    else (s, [])
  | EvDownReset why => on_down_reset why s
  | EvTerminate code =>
    let s := s <| reuse := false |> in      (* TerminateStream clears reuseBuffer before any check *)
    match rsp s with
    | Some _ => (s, [])
    | None =>
      if cleaned s then (s, [])
      else if received s then (s, [])
      else (upd (fun s => s <| received := true |> <| try_armed := None |> <| global_armed := false |> <| reuse := false |>) ;;
            hijack code false ;; upd (fun s => s <| notify := true |>)) s
    end
  | EvWake => if sleeping s then (s <| sleeping := false |> <| woken := true |>, []) else (s, [])
  | EvStaleTry g => stale_try g s
  | EvStaleGlobal g => stale_global g s
  end.

Definition do_step (s : st) (x : step) : st * list out :=
  match x with Worker => worker s | Env e => env_step e s end.

Fixpoint run (s : st) (l : list step) : st * list out :=
  match l with
  | [] => (s, [])
  | x :: l' => let '(s1, o1) := do_step s x in let '(s2, o2) := run s1 l' in (s2, o1 ++ o2)
  end.

End Model.
