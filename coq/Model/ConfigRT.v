(* Model/ConfigRT.v (cfg, C19) - configuration round trip over the generated type graph: well-formedness of values,
   the conditions on the type table under which the generic round-trip theorem holds, the finite check of the
   marshal / unmarshal hook pairs extracted from the source, and the correspondence functions.
   ONLY executable definitions; proofs are in Proofs/ConfigRT.v. *)
From Coq Require Import List String Bool ZArith NArith Ascii.
From MV Require Import Lib.GoJson Gen.CfgTypes.
Import ListNotations.
Open Scope string_scope.

(* ------------------------------------------------------------------------------------ the plain fragment *)
(* types below which there is no custom hook: the generic theorem is about these *)
Definition plain_struct (sd : sdesc) : bool :=
  match s_hook sd, s_unhook sd with
  | HkNone, UkNone => forallb (fun fd => (f_skip fd || negb (f_embed fd))%bool) (s_fields sd)
  | _, _ => false
  end.

(* JSON names of the visible fields are pairwise different, ignoring case (otherwise a member would be decoded into
   another field than the one that printed it) *)
Fixpoint names_distinct (fs : list field) : bool :=
  match fs with
  | [] => true
  | fd :: fs' =>
    ((f_skip fd || negb (existsb (fun fd' => (negb (f_skip fd') && key_eq (f_json fd') (f_json fd))%bool) fs'))
     && names_distinct fs')%bool
  end.

(* a pointer to something that itself prints as null (pointer, slice, map, interface, raw) is not stable in Go *)
Definition ptr_ok (t : ty) : bool :=
  match t with
  | TPtr (TPtr _) | TPtr (TSlice _) | TPtr (TMap _) | TPtr TAny | TPtr TRaw => false
  | _ => true
  end.
Fixpoint ty_ptr_ok (t : ty) : bool :=
  match t with
  | TPtr t' => (ptr_ok t && ty_ptr_ok t')%bool
  | TSlice t' | TMap t' => ty_ptr_ok t'
  | _ => true
  end.

(* omitempty on a struct / opaque field never omits: nothing to require; on the other kinds the zero value is empty *)
Definition struct_ok (sd : sdesc) : bool :=
  (names_distinct (s_fields sd) && forallb (fun fd => ty_ptr_ok (f_ty fd)) (s_fields sd))%bool.

Definition table_ok (T : table) : bool :=
  forallb (fun sd => (negb (plain_struct sd) || struct_ok sd)%bool) T.

(* well-formed values of the plain fragment *)
Fixpoint wf (T : table) (t : ty) (v : val) {struct v} : bool :=
  match v with
  | VBool _ => match t with TBool => true | _ => false end
  | VInt _ => match t with TInt => true | _ => false end
  | VFloat _ => match t with TFloat => true | _ => false end
  | VStr _ | VSecret _ => match t with TStr => true | _ => false end
  | VNil => match t with TPtr _ | TSlice _ | TMap _ | TAny | TRaw => true | _ => false end
  | VJson j => match t with TAny => match j with JNull => false | _ => true end | TRaw => true | _ => false end
  | VOpaque _ _ => match t with TOpaque _ => true | _ => false end
  | VStruct vs =>
    match t with
    | TNamed n =>
      match find_struct T n with
      | Some sd =>
        (plain_struct sd &&
         (fix go (fds : list field) (vs : list val) {struct vs} : bool :=
            match vs, fds with
            | [], [] => true
            | x :: vs', fd :: fds' => (wf T (f_ty fd) x && go fds' vs')%bool
            | _, _ => false
            end) (s_fields sd) vs)%bool
      | None => false
      end
    | _ => false
    end
  | VRef _ es =>
    match t with
    | TPtr t' => match es with [(_, x)] => wf T t' x | _ => false end
    | TSlice t' | TMap t' =>
      (fix go (es : list (string * val)) : bool :=
         match es with [] => true | (_, x) :: es' => (wf T t' x && go es')%bool end) es
    | _ => false
    end
  end.

Fixpoint fuel_free (j : json) : bool :=
  match j with
  | JFuel _ => false
  | JArr l => (fix go (l : list json) : bool := match l with [] => true | x :: l' => (fuel_free x && go l')%bool end) l
  | JObj kvs => (fix go (l : list (string * json)) : bool := match l with [] => true | (_, x) :: l' => (fuel_free x && go l')%bool end) kvs
  | _ => true
  end.

(* dump of the load of a document *)
Definition norm (T : table) (fuel : nat) (t : ty) (j : json) : option json :=
  match decode T fuel t j with Some v => Some (encode T fuel t v) | None => None end.

(* ------------------------------------------------------------------------------------------- hook laws *)
Inductive law := LawNone | LawPairs | LawSpecial | LawBroken.

Definition inverse_pair (f g : option string) : bool :=
  match f, g with
  | None, None => true
  | Some a, Some b =>
    ((String.eqb a "metadataToConfig" && String.eqb b "configToMetadata")
     || (String.eqb a "time.Duration" && String.eqb b "uint64")
     || (String.eqb a "time.Duration" && String.eqb b "time.Duration"))%bool
  | _, _ => false
  end.

Fixpoint path_eqb (a b : list string) : bool :=
  match a, b with
  | [], [] => true
  | x :: a', y :: b' => (String.eqb x y && path_eqb a' b')%bool
  | _, _ => false
  end.

(* marshal statement `l := f(h)` is matched by a derivation `h := g(l)` with (f, g) a known inverse pair *)
Definition assign_matched (derive : list hassign) (s : hstmt) : bool :=
  match s with
  | HAssign l r =>
    match simple_rhs r with
    | Some (f, h) =>
      existsb (fun d => match simple_rhs (snd d) with
                        | Some (g, l') => (path_eqb (fst d) h && path_eqb l' l && inverse_pair f g)%bool
                        | None => false
                        end) derive
    | None => false
    end
  | _ => false
  end.
Definition derive_matched (pre : list hstmt) (d : hassign) : bool :=
  existsb (fun s => match s with
                    | HAssign l r => match simple_rhs r, simple_rhs (snd d) with
                                     | Some (_, h), Some (_, l') => (path_eqb (fst d) h && path_eqb l' l)%bool
                                     | _, _ => false
                                     end
                    | _ => false
                    end) pre.

(* hidden (json:"-") fields of a hooked struct, other than the marshal target, whose name is exported *)
Definition exported (s : string) : bool :=
  match s with String c _ => let n := Ascii.nat_of_ascii c in (Nat.leb 65 n && Nat.leb n 90)%bool | _ => false end.
Definition hidden_fields (sd : sdesc) (tgt : list string) : list string :=
  map f_go (filter (fun fd => (f_skip fd && exported (f_go fd) && negb (path_eqb [f_go fd] tgt))%bool) (s_fields sd)).

Definition hook_law (sd : sdesc) : law :=
  match s_hook sd, s_unhook sd with
  | HkNone, UkNone => LawNone
  | HkShadow pre tgt, UkShadow tgt' derive O =>
    if (path_eqb tgt tgt'
        && forallb (assign_matched derive) pre
        && forallb (derive_matched pre) derive
        && forallb (fun h => existsb (fun d => path_eqb (fst d) [h]) derive) (hidden_fields sd tgt))%bool
    then LawPairs else LawBroken
  | HkShadow _ tgt, UkShadow tgt' _ (S _) => if path_eqb tgt tgt' then LawSpecial else LawBroken
  | HkDirMode _ _ tgt, UkShadow tgt' _ _ => if path_eqb tgt tgt' then LawSpecial else LawBroken
  | HkCustom, UkCustom => LawSpecial
  | HkPromoted f, UkPromoted g => if String.eqb f g then LawSpecial else LawBroken
  | _, _ => LawBroken
  end.

(* the hooks whose unmarshal side is more than a list of derivations: modelled / checked by hand *)
Definition special_hooks : list string :=
  ["v2.Listener"; "v2.FilterChain"; "v2.RouterConfiguration"; "v2.ClusterManagerConfig"; "v2.SecretConfigWrapper"].

Fixpoint mem_str (s : string) (l : list string) : bool :=
  match l with [] => false | x :: l' => (String.eqb x s || mem_str s l')%bool end.

Definition hook_laws_ok (T : table) : bool :=
  forallb (fun sd => match hook_law sd with
                     | LawNone | LawPairs => true
                     | LawSpecial => mem_str (s_name sd) special_hooks
                     | LawBroken => false
                     end) T.

Definition law_census (T : table) : nat * nat * nat :=
  fold_left (fun acc sd => let '(a, b, c) := acc in
                           match hook_law sd with
                           | LawNone => (S a, b, c) | LawPairs => (a, S b, c) | _ => (a, b, S c) end) T (O, O, O).

(* ------------------------------------------------------------------- correspondence (evaluated on shards) *)
(* encode case: a real Go value (printed), its type, the JSON the real json.Marshal produced *)
Definition enc_case := (ty * val * json)%type.
Definition enc_case_ok (k : enc_case) : bool :=
  let '(t, v, j) := k in json_eqb (encode cfg_structs 64 t v) j.

(* decode case (plain fragment only): type, document, the value the real json.Unmarshal produced (printed) *)
Fixpoint val_eqb (a b : val) {struct a} : bool :=
  match a, b with
  | VBool x, VBool y => Bool.eqb x y
  | VInt x, VInt y => Z.eqb x y
  | VFloat x, VFloat y => String.eqb x y
  | VStr x, VStr y => String.eqb x y
  | VSecret x, VSecret y => String.eqb x y
  | VNil, VNil => true
  | VOpaque _ x, VOpaque _ y =>
    (String.eqb x y || match string_to_Z y with Some z => String.eqb x (fmt_duration z) | None => false end)%bool
  | VOpaque _ x, VInt z => (String.eqb x (fmt_duration z) || String.eqb x (Z_to_string z))%bool   (* a derived duration *)
  | VJson x, VJson y => json_eqb x y
  | VStruct l, VStruct m =>
    (fix go (l m : list val) {struct l} : bool :=
       match l, m with
       | [], [] => true
       | x :: l', y :: m' => (val_eqb x y && go l' m')%bool
       | _, _ => false
       end) l m
  | VRef _ l, VRef _ m =>
    (fix go (l : list (string * val)) (m : list (string * val)) {struct l} : bool :=
       match l, m with
       | [], [] => true
       | (k, x) :: l', (k', y) :: m' => (String.eqb k k' && val_eqb x y && go l' m')%bool
       | _, _ => false
       end) l m
  | _, _ => false
  end.
Definition dec_case := (ty * json * val)%type.
Definition dec_case_ok (k : dec_case) : bool :=
  let '(t, j, v) := k in
  match decode cfg_structs 64 t j with
  | Some v' => (val_eqb v' v && wf cfg_structs t v)%bool
  | None => false
  end.

(* the same for types whose closure also has shadow-field hooks (decode runs the derivations): no wf requirement *)
Definition dech_case_ok (k : dec_case) : bool :=
  let '(t, j, v) := k in
  match decode cfg_structs 64 t j with
  | Some v' => val_eqb v' v
  | None => false
  end.
(* the model's own round trip evaluated on a real value: dump (load (dump v)) = dump v *)
Definition stable_case_ok (k : ty * val) : bool :=
  let '(t, v) := k in
  let j := encode cfg_structs 64 t v in
  match decode cfg_structs 64 t j with
  | Some v' => (fuel_free j && json_eqb (encode cfg_structs 64 t v') j)%bool
  | None => false
  end.



(* ================================================================================================ *)
(* Well-formed values of the WHOLE graph (hooked structs included) and the table conditions for the  *)
(* full round-trip theorem                                                                           *)
(* ================================================================================================ *)
Definition all_strings (es : list (string * val)) : Prop := Forall (fun kv => exists s, snd kv = VStr s) es.
Definition hidden_meta_ok (h : val) : Prop := h = VNil \/ exists r es, h = VRef r es /\ all_strings es.

(* what a value of a hooked struct must satisfy besides the well-formedness of what it hands to the encoder *)
Definition shadow_side (sh : shadow) (v : val) : Prop :=
  Forall (fun p => match p with
                   | (_, H, CMeta) => forall h, iget [H] v = Some h -> hidden_meta_ok h
                   | _ => True
                   end) (sh_pairs sh).
(* FilterChain: the parsed context list is never empty (UnmarshalJSON always fills it) *)
Definition chain_side (ctxs : nat) (v : val) : Prop := exists r e es, iget [ctxs] v = Some (VRef r (e :: es)).
(* RouterConfiguration / ClusterManagerConfig: inline mode (path mode keeps the items in files: c19_..._partial) *)
Definition inline_side (tgt pathf : nat) (v : val) : Prop := iget [tgt; pathf] v = Some (VStr "").
(* Listener: a resolved address, a normalised network *)
Definition listener_side (tgt addr network : nat) (v : val) : Prop :=
  exists c a nw, iget [addr] v = Some (VOpaque c a) /\ a <> "" /\ iget [tgt; network] v = Some (VStr nw) /\
                 lower nw = nw /\ (nw = "tcp" \/ nw = "udp" \/ nw = "unix").
Definition hook_side (h : chook) (v : val) : Prop :=
  match h with
  | CShadow sh => shadow_side sh v
  | CChain _ ctxs _ _ => chain_side ctxs v
  | CInline tgt _ pathf _ => inline_side tgt pathf v
  | CListener tgt addr _ network _ => listener_side tgt addr network v
  | _ => False
  end.

Inductive WF (T : table) : ty -> val -> Prop :=
| WF_leaf t v :
    match v with
    | VStruct _ | VRef _ _ => False
    | VJson _ => match t with TNamed _ => False | _ => True end
    | _ => True
    end -> wf T t v = true -> WF T t v
| WF_ptr t' r k x : WF T t' x -> WF T (TPtr t') (VRef r [(k, x)])
| WF_slice t' r es : Forall (fun kv => WF T t' (snd kv)) es -> WF T (TSlice t') (VRef r es)
| WF_map t' r es : Forall (fun kv => WF T t' (snd kv)) es -> WF T (TMap t') (VRef r es)
| WF_plain n sd vs :
    find_struct T n = Some sd -> plain_struct sd = true ->
    Forall2 (fun fd x => WF T (f_ty fd) x) (s_fields sd) vs -> WF T (TNamed n) (VStruct vs)
| WF_hooked n sd vs t2 w :
    find_struct T n = Some sd -> hook_out T sd (hook_compiled T sd) (VStruct vs) = Some (t2, w) ->
    hook_side (hook_compiled T sd) (VStruct vs) -> List.length vs = List.length (s_fields sd) -> s_mptr sd = false ->
    WF T t2 w -> WF T (TNamed n) (VStruct vs)
| WF_json n sd j :
    find_struct T n = Some sd -> hook_compiled T sd = CJson -> j <> JNull -> WF T (TNamed n) (VJson j).

(* conditions on a hooked struct of the table (all computable) *)
Definition plain_target (T : table) (t : ty) : option sdesc :=
  match t with
  | TNamed n => match find_struct T n with Some tsd => if (plain_struct tsd && struct_ok tsd)%bool then Some tsd else None | None => None end
  | _ => None
  end.
Definition field_at (sd : sdesc) (i : nat) : option field := nth_error (s_fields sd) i.
Fixpoint nodupb (l : list nat) : bool :=
  match l with [] => true | x :: l' => (negb (existsb (Nat.eqb x) l') && nodupb l')%bool end.
Definition is_meta_slot (t : ty) : bool := match t with TPtr (TNamed n) => String.eqb n "v2.MetadataConfig" | _ => false end.

Definition hook_ok (T : table) (sd : sdesc) : bool :=
  let nf := List.length (s_fields sd) in
  match hook_compiled T sd with
  | CNone | CJson => true
  | CBad => false
  | CShadow sh =>
    let X := sh_tgt sh in
    (Nat.ltb X nf && ty_ptr_ok (field_ty sd X) && negb (s_mptr sd)
     && nodupb (map (fun p => snd (fst p)) (sh_pairs sh))
     && nodupb (map (fun p => fst (fst p)) (sh_pairs sh))
     && forallb (fun p => (negb (Nat.eqb (snd (fst p)) X) && Nat.ltb (snd (fst p)) nf)%bool) (sh_pairs sh)
     && match field_ty sd X with TNamed _ => match plain_target T (field_ty sd X) with Some _ => true | None => false end | _ => true end
     && match sh_pairs sh with
        | [] => true
        | _ => match plain_target T (field_ty sd X) with
               | Some tsd =>
                 forallb (fun p => match p with
                                   | (i, _, c) =>
                                     match field_at tsd i with
                                     | Some fd => (negb (f_skip fd) &&
                                                   match c, f_ty fd with
                                                   | CId (Some _), TOpaque _ => true
                                                   | CId None, _ => true
                                                   | CMeta, t => is_meta_slot t
                                                   | _, _ => false
                                                   end)%bool
                                     | None => false
                                     end
                                   end) (sh_pairs sh)
               | None => false
               end
        end)%bool
  | CChain tgt ctxs single set =>
    (Nat.ltb tgt nf && Nat.ltb ctxs nf && negb (Nat.eqb tgt ctxs) && negb (s_mptr sd)
     && match plain_target T (field_ty sd tgt) with
        | Some tsd =>
          (match field_at tsd single with Some fd => (negb (f_skip fd) && match f_ty fd with TPtr _ => true | _ => false end)%bool | None => false end
           && match field_at tsd set with Some fd => (negb (f_skip fd) && match f_ty fd with TSlice _ => true | _ => false end)%bool | None => false end
           && negb (Nat.eqb single set))%bool
        | None => false
        end)%bool
  | CInline tgt hidden pathf inlf =>
    (Nat.ltb tgt nf && Nat.ltb hidden nf && negb (Nat.eqb tgt hidden) && negb (s_mptr sd)
     && match field_ty sd hidden with TSlice _ => true | _ => false end
     && match plain_target T (field_ty sd tgt) with
        | Some tsd =>
          (match field_at tsd pathf with Some fd => (negb (f_skip fd) && f_omit fd && match f_ty fd with TStr => true | _ => false end)%bool | None => false end
           && match field_at tsd inlf with Some fd => (negb (f_skip fd) && f_omit fd && match f_ty fd with TSlice _ => true | _ => false end)%bool | None => false end
           && negb (Nat.eqb pathf inlf))%bool
        | None => false
        end)%bool
  | CListener tgt addr addrcfg network perconn =>
    (Nat.ltb tgt nf && Nat.ltb addr nf && Nat.ltb perconn nf && negb (s_mptr sd)
     && negb (Nat.eqb tgt addr) && negb (Nat.eqb tgt perconn) && negb (Nat.eqb addr perconn)
     && match plain_target T (field_ty sd tgt) with
        | Some tsd =>
          (match field_at tsd addrcfg with Some fd => (negb (f_skip fd) && match f_ty fd with TStr => true | _ => false end)%bool | None => false end
           && match field_at tsd network with Some fd => (negb (f_skip fd) && match f_ty fd with TStr => true | _ => false end)%bool | None => false end
           && negb (Nat.eqb addrcfg network))%bool
        | None => false
        end)%bool
  end.

(* GRPC's MarshalJSON has a pointer receiver: json.Marshal of a VALUE does not call it; such structs are outside *)
Definition hooks_ok (T : table) : bool :=
  forallb (fun sd => (s_mptr sd || hook_ok T sd)%bool) T.

(* a boolean decision of WF (fuel bounds the hook indirections), for examples and the correspondence *)
Fixpoint wfb (T : table) (fuel : nat) (t : ty) (v : val) {struct fuel} : bool :=
  match fuel with
  | O => false
  | S f =>
    match v with
    | VStruct vs =>
      match t with
      | TNamed n =>
        match find_struct T n with
        | Some sd =>
          if plain_struct sd then
            (fix go (fds : list field) (vs : list val) {struct vs} : bool :=
               match vs, fds with
               | [], [] => true
               | x :: vs', fd :: fds' => (wfb T f (f_ty fd) x && go fds' vs')%bool
               | _, _ => false
               end) (s_fields sd) vs
          else
            match hook_out T sd (hook_compiled T sd) v with
            | Some (t2, w) =>
              (Nat.eqb (List.length vs) (List.length (s_fields sd)) && negb (s_mptr sd) && wfb T f t2 w &&
               match hook_compiled T sd with
               | CShadow sh =>
                 forallb (fun p => match p with
                                   | (_, H, CMeta) =>
                                     match iget [H] v with
                                     | Some VNil | None => true
                                     | Some (VRef _ es) => forallb (fun kv => match snd kv with VStr _ => true | _ => false end) es
                                     | Some _ => false
                                     end
                                   | _ => true
                                   end) (sh_pairs sh)
               | CChain _ ctxs _ _ => match iget [ctxs] v with Some (VRef _ (_ :: _)) => true | _ => false end
               | CInline tgt _ pathf _ => match iget [tgt; pathf] v with Some (VStr s) => String.eqb s "" | _ => false end
               | CListener tgt addr _ network _ =>
                 match iget [addr] v, iget [tgt; network] v with
                 | Some (VOpaque _ a), Some (VStr nw) =>
                   (negb (String.eqb a "") && String.eqb (lower nw) nw
                    && (String.eqb nw "tcp" || String.eqb nw "udp" || String.eqb nw "unix"))%bool
                 | _, _ => false
                 end
               | _ => false
               end)%bool
            | None => false
            end
        | None => false
        end
      | _ => false
      end
    | VRef _ es =>
      match t with
      | TPtr t' => match es with [(_, x)] => wfb T f t' x | _ => false end
      | TSlice t' | TMap t' => forallb (fun kv => wfb T f t' (snd kv)) es
      | _ => false
      end
    | VJson j =>
      match t with
      | TNamed n => match find_struct T n with
                    | Some sd => match hook_compiled T sd, j with CJson, JNull => false | CJson, _ => true | _, _ => false end
                    | None => false
                    end
      | _ => wf T t v
      end
    | _ => wf T t v
    end
  end.

(* a pointer to a hooked struct whose target prints as null (a slice target) would not be stable *)
Fixpoint ptr_hook_ok (T : table) (t : ty) : bool :=
  match t with
  | TPtr (TNamed n) =>
    match find_struct T n with
    | Some sd => match hook_tgt (hook_compiled T sd) with
                 | Some X => match field_ty sd X with TNamed _ => true | _ => false end
                 | None => true
                 end
    | None => true
    end
  | TPtr t' | TSlice t' | TMap t' => ptr_hook_ok T t'
  | _ => true
  end.
Definition ty_ok (T : table) (t : ty) : bool := (ty_ptr_ok t && ptr_hook_ok T t)%bool.

Definition table_ok2 (T : table) : bool :=
  (table_ok T && hooks_ok T
   && forallb (fun sd => forallb (fun fd => ptr_hook_ok T (f_ty fd)) (s_fields sd)) T)%bool.

(* the metadata slot: loading the dump of metadataToConfig(h), h a non-empty string map, gives it back *)
Definition meta_rt (T : table) : Prop :=
  forall t, is_meta_slot t = true -> forall r e es, all_strings (e :: es) ->
    forall fuel fuel' x,
      fuel_free (encode T fuel t (call_marshal_fn "metadataToConfig" (VRef r (e :: es)))) = true ->
      decode T fuel' t (encode T fuel t (call_marshal_fn "metadataToConfig" (VRef r (e :: es)))) = Some x ->
      x = call_marshal_fn "metadataToConfig" (VRef r (e :: es)).

(* ------------------------------------------------------------------------------------ an example document *)
(* a configuration exercising the Listener, FilterChain (single tls_context), ClusterManagerConfig, RouterConfiguration
   (inline), Router, RouteAction (metadata + duration), HealthCheck (durations), Host (metadata) and CircuitBreakers hooks *)
Definition w_doc : json :=
  JObj [("servers", JArr [JObj [
          ("mosn_server_name", JStr "s1");
          ("listeners", JArr [JObj [
             ("name", JStr "ingress"); ("address", JStr "127.0.0.1:2045"); ("bind_port", JBool true);
             ("filter_chains", JArr [JObj [
                ("tls_context", JObj [("status", JBool true); ("cert_chain", JStr "CERT"); ("private_key", JStr "KEY")]);
                ("filters", JArr [JObj [("type", JStr "proxy"); ("config", JObj [("downstream_protocol", JStr "Http1"); ("n", JNum "3")])]])]])]]);
          ("routers", JArr [JObj [
             ("router_config_name", JStr "r1");
             ("virtual_hosts", JArr [JObj [
                ("name", JStr "vh1"); ("domains", JArr [JStr "*"]);
                ("routers", JArr [JObj [
                   ("match", JObj [("prefix", JStr "/")]);
                   ("route", JObj [("cluster_name", JStr "c1");
                                   ("metadata_match", JObj [("filter_metadata", JObj [("mosn.lb", JObj [("zone", JStr "a")])])]);
                                   ("timeout", JStr "1.5s")])]])]])]])]]);
        ("cluster_manager", JObj [
           ("clusters", JArr [JObj [
              ("name", JStr "c1"); ("type", JStr "SIMPLE"); ("lb_type", JStr "LB_RANDOM");
              ("circuit_breakers", JArr [JObj [("max_connections", JNum "5")]]);
              ("health_check", JObj [("protocol", JStr "http1"); ("timeout", JStr "1s"); ("interval", JStr "2m0s")]);
              ("hosts", JArr [JObj [("address", JStr "127.0.0.1:8080"); ("weight", JNum "2");
                                    ("metadata", JObj [("filter_metadata", JObj [("mosn.lb", JObj [("zone", JStr "a")])])])]])]])])].
Definition w_cfg : val :=
  match decode cfg_structs 64 (TNamed "v2.MOSNConfig") w_doc with Some v => v | None => VNil end.

(* ----------------------------------------------------------------------------- correspondence cases *)
(* file case: the file the real marshaler wrote for an item name (router = false: cluster manager, true: router) *)
Inductive rt_case := EncCase (k : enc_case) | DecCase (k : dec_case) | DecHCase (k : dec_case) | StableCase (k : ty * val)
                   | FileCase (router : bool) (name fname : string)
                   | WfCase (k : ty * val)         (* a real loaded value satisfies the premise of c19_roundtrip_full *)
                   (* the real marshaler ran on a directory holding the files `stale` with items named `names` (in order):
                      `listing` is what ioutil.ReadDir returns afterwards *)
                   | DirCase (router : bool) (stale names listing : list string)
                   (* time.Duration.String of a nanosecond count; time.ParseDuration of a text (None: rejected) *)
                   | DurFmt (ns : Z) (text : string)
                   | DurCase (text : string) (ns : option Z)
                   (* the literal body json.Marshal writes for a string; the string json.Unmarshal reads from a literal body *)
                   | EscCase (s lit : string)
                   | UnescCase (lit : string) (s : option string).



(* ------------------------------------------------------------------------------ path-mode file naming *)
(* ClusterManagerConfig.MarshalJSON / RouterConfiguration.MarshalJSON keep every cluster / virtual host of a
   container in path (directory) mode in a file named after it; the loader reads the files whose extension is
   ".json".  Strings are byte strings (Go slices bytes).  The ORDER of the three operations is read from the source. *)
Definition sep_char : Ascii.ascii := "/"%char.
Fixpoint replace_sep (s : string) : string :=
  match s with
  | EmptyString => EmptyString
  | String c s' => String (if Ascii.eqb c sep_char then "_"%char else c) (replace_sep s')
  end.
Fixpoint firstn_str (n : nat) (s : string) : string :=
  match n, s with
  | S n', String c s' => String c (firstn_str n' s')
  | _, _ => EmptyString
  end.
Definition apply_fop (max : nat) (s : string) (o : fop) : string :=
  match o with
  | FTrunc => firstn_str max s
  | FReplaceSep => replace_sep s
  | FAppendJson => s ++ ".json"
  end.
Definition file_name (max : nat) (ops : list fop) (name : string) : string := fold_left (apply_fop max) ops name.
Definition canon_ops : list fop := [FTrunc; FReplaceSep; FAppendJson].

(* path.Ext(file) == ".json" : the name ends in ".json" *)
Definition loader_accepts (fname : string) : bool :=
  String.eqb (substring (String.length fname - 5) 5 fname) ".json".

Fixpoint has_sep (s : string) : bool :=
  match s with EmptyString => false | String c s' => (Ascii.eqb c sep_char || has_sep s')%bool end.

Definition repeat_char (c : Ascii.ascii) (n : nat) : string :=
  (fix go (n : nat) : string := match n with O => EmptyString | S n' => String c (go n') end) n.

(* ------------------------------------------------------------------- the directory of a path-mode container *)
(* The directory as a finite map file name -> document.  MarshalJSON in path mode: list the directory, write one file per
   item (a later item with the same file name replaces the earlier file), remove every file that was listed and not
   written.  UnmarshalJSON in path mode: list the directory (ioutil.ReadDir: sorted by file name), skip files the loader
   does not accept (extension other than .json), decode every other file as an item, in that order. *)
Definition dir := list (string * json).
Definition dput (k : string) (x : json) (d : dir) : dir := (k, x) :: filter (fun kv => negb (String.eqb (fst kv) k)) d.
Fixpoint dget (k : string) (d : dir) : option json :=
  match d with [] => None | (k', x) :: d' => if String.eqb k' k then Some x else dget k d' end.
Fixpoint dins (e : string * json) (l : dir) : dir :=
  match l with
  | [] => [e]
  | e' :: l' => match String.compare (fst e) (fst e') with Gt => e' :: dins e l' | _ => e :: l end
  end.
Definition listing (d : dir) : dir := fold_right dins [] d.

Definition path_written {A} (fn : A -> string) (enc : A -> json) (d : dir) (items : list A) : dir :=
  fold_left (fun d it => dput (fn it) (enc it) d) items d.
Definition path_write {A} (fn : A -> string) (enc : A -> json) (d : dir) (items : list A) : dir :=
  filter (fun kv => existsb (String.eqb (fst kv)) (map fn items)) (path_written fn enc d items).
Definition path_read {A} (accepts : string -> bool) (dec : json -> option A) (d : dir) : option (list A) :=
  sequence (map (fun kv => dec (snd kv)) (filter (fun kv => accepts (fst kv)) (listing d))).

Definition dir_case_ok (router : bool) (stale names lst : list string) : bool :=
  let fn := file_name src_max_file_path (if router then src_fname_ops_router else src_fname_ops_cluster) in
  let d0 := fold_right (fun k d => dput k JNull d) [] stale in
  let d := path_write fn (fun _ : string => JNull) d0 names in
  (fix eqb (a b : list string) : bool :=
     match a, b with
     | [], [] => true
     | x :: a', y :: b' => (String.eqb x y && eqb a' b')%bool
     | _, _ => false
     end) (map fst (listing d)) lst.

Definition rt_case_ok (k : rt_case) : bool :=
  match k with
  | EncCase e => enc_case_ok e | DecCase d => dec_case_ok d | DecHCase d => dech_case_ok d | StableCase s => stable_case_ok s
  | WfCase (t, v) => (wfb cfg_structs 64 t v && ty_ok cfg_structs t)%bool
  | FileCase router name fname =>
    String.eqb (file_name src_max_file_path (if router then src_fname_ops_router else src_fname_ops_cluster) name) fname
  | DirCase router stale names lst => dir_case_ok router stale names lst
  | DurFmt ns text => String.eqb (fmt_duration ns) text
  | EscCase s lit => String.eqb (escape s) lit
  | UnescCase lit s => match unescape lit, s with
                       | Some a, Some b => String.eqb a b
                       | None, None => true
                       | _, _ => false
                       end
  | DurCase text ns => match parse_duration text, ns with
                       | Some a, Some b => Z.eqb a b
                       | None, None => true
                       | _, _ => false
                       end
  end.

Fixpoint mismatches_from {A} (ok : A -> bool) (i : nat) (l : list A) : list nat :=
  match l with
  | [] => []
  | x :: l' => if ok x then mismatches_from ok (S i) l' else i :: mismatches_from ok (S i) l'
  end.
Definition c19_mismatches (l : list rt_case) : list nat := mismatches_from rt_case_ok 0 l.
