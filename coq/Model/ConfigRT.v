(* Model/ConfigRT.v (cfg, C19) - configuration round trip over the generated type graph: well-formedness of values,
   the conditions on the type table under which the generic round-trip theorem holds, the finite check of the
   marshal / unmarshal hook pairs extracted from the source, and the correspondence functions.
   ONLY executable definitions; proofs are in Proofs/ConfigRT.v. *)
From Coq Require Import List String Bool ZArith NArith Ascii.
From MV Require Import Lib.GoJson Gen.CfgTypes.
Import ListNotations.
Open Scope string_scope.

(* ------------------------------------------------------------------------------------ the plain fragment *)
(* types below which there is no custom hook: the generic theorem is about these *)
Definition plain_struct (sd : sdesc) : bool :=
  match s_hook sd, s_unhook sd with
  | HkNone, UkNone => forallb (fun fd => (f_skip fd || negb (f_embed fd))%bool) (s_fields sd)
  | _, _ => false
  end.

(* JSON names of the visible fields are pairwise different, ignoring case (otherwise a member would be decoded into
   another field than the one that printed it) *)
Fixpoint names_distinct (fs : list field) : bool :=
  match fs with
  | [] => true
  | fd :: fs' =>
    ((f_skip fd || negb (existsb (fun fd' => (negb (f_skip fd') && key_eq (f_json fd') (f_json fd))%bool) fs'))
     && names_distinct fs')%bool
  end.

(* a pointer to something that itself prints as null (pointer, slice, map, interface, raw) is not stable in Go *)
Definition ptr_ok (t : ty) : bool :=
  match t with
  | TPtr (TPtr _) | TPtr (TSlice _) | TPtr (TMap _) | TPtr TAny | TPtr TRaw => false
  | _ => true
  end.
Fixpoint ty_ptr_ok (t : ty) : bool :=
  match t with
  | TPtr t' => (ptr_ok t && ty_ptr_ok t')%bool
  | TSlice t' | TMap t' => ty_ptr_ok t'
  | _ => true
  end.

(* omitempty on a struct / opaque field never omits: nothing to require; on the other kinds the zero value is empty *)
Definition struct_ok (sd : sdesc) : bool :=
  (names_distinct (s_fields sd) && forallb (fun fd => ty_ptr_ok (f_ty fd)) (s_fields sd))%bool.

Definition table_ok (T : table) : bool :=
  forallb (fun sd => (negb (plain_struct sd) || struct_ok sd)%bool) T.

(* well-formed values of the plain fragment *)
Fixpoint wf (T : table) (t : ty) (v : val) {struct v} : bool :=
  match v with
  | VBool _ => match t with TBool => true | _ => false end
  | VInt _ => match t with TInt => true | _ => false end
  | VFloat _ => match t with TFloat => true | _ => false end
  | VStr _ | VSecret _ => match t with TStr => true | _ => false end
  | VNil => match t with TPtr _ | TSlice _ | TMap _ | TAny | TRaw => true | _ => false end
  | VJson j => match t with TAny => match j with JNull => false | _ => true end | TRaw => true | _ => false end
  | VOpaque _ _ => match t with TOpaque _ => true | _ => false end
  | VStruct vs =>
    match t with
    | TNamed n =>
      match find_struct T n with
      | Some sd =>
        (plain_struct sd &&
         (fix go (fds : list field) (vs : list val) {struct vs} : bool :=
            match vs, fds with
            | [], [] => true
            | x :: vs', fd :: fds' => (wf T (f_ty fd) x && go fds' vs')%bool
            | _, _ => false
            end) (s_fields sd) vs)%bool
      | None => false
      end
    | _ => false
    end
  | VRef _ es =>
    match t with
    | TPtr t' => match es with [(_, x)] => wf T t' x | _ => false end
    | TSlice t' | TMap t' =>
      (fix go (es : list (string * val)) : bool :=
         match es with [] => true | (_, x) :: es' => (wf T t' x && go es')%bool end) es
    | _ => false
    end
  end.

Fixpoint fuel_free (j : json) : bool :=
  match j with
  | JFuel _ => false
  | JArr l => (fix go (l : list json) : bool := match l with [] => true | x :: l' => (fuel_free x && go l')%bool end) l
  | JObj kvs => (fix go (l : list (string * json)) : bool := match l with [] => true | (_, x) :: l' => (fuel_free x && go l')%bool end) kvs
  | _ => true
  end.

(* dump of the load of a document *)
Definition norm (T : table) (fuel : nat) (t : ty) (j : json) : option json :=
  match decode T fuel t j with Some v => Some (encode T fuel t v) | None => None end.

(* ------------------------------------------------------------------------------------------- hook laws *)
Inductive law := LawNone | LawPairs | LawSpecial | LawBroken.

Definition inverse_pair (f g : option string) : bool :=
  match f, g with
  | None, None => true
  | Some a, Some b =>
    ((String.eqb a "metadataToConfig" && String.eqb b "configToMetadata")
     || (String.eqb a "time.Duration" && String.eqb b "uint64")
     || (String.eqb a "time.Duration" && String.eqb b "time.Duration"))%bool
  | _, _ => false
  end.

Fixpoint path_eqb (a b : list string) : bool :=
  match a, b with
  | [], [] => true
  | x :: a', y :: b' => (String.eqb x y && path_eqb a' b')%bool
  | _, _ => false
  end.

(* marshal statement `l := f(h)` is matched by a derivation `h := g(l)` with (f, g) a known inverse pair *)
Definition assign_matched (derive : list hassign) (s : hstmt) : bool :=
  match s with
  | HAssign l r =>
    match simple_rhs r with
    | Some (f, h) =>
      existsb (fun d => match simple_rhs (snd d) with
                        | Some (g, l') => (path_eqb (fst d) h && path_eqb l' l && inverse_pair f g)%bool
                        | None => false
                        end) derive
    | None => false
    end
  | _ => false
  end.
Definition derive_matched (pre : list hstmt) (d : hassign) : bool :=
  existsb (fun s => match s with
                    | HAssign l r => match simple_rhs r, simple_rhs (snd d) with
                                     | Some (_, h), Some (_, l') => (path_eqb (fst d) h && path_eqb l' l)%bool
                                     | _, _ => false
                                     end
                    | _ => false
                    end) pre.

(* hidden (json:"-") fields of a hooked struct, other than the marshal target, whose name is exported *)
Definition exported (s : string) : bool :=
  match s with String c _ => let n := Ascii.nat_of_ascii c in (Nat.leb 65 n && Nat.leb n 90)%bool | _ => false end.
Definition hidden_fields (sd : sdesc) (tgt : list string) : list string :=
  map f_go (filter (fun fd => (f_skip fd && exported (f_go fd) && negb (path_eqb [f_go fd] tgt))%bool) (s_fields sd)).

Definition hook_law (sd : sdesc) : law :=
  match s_hook sd, s_unhook sd with
  | HkNone, UkNone => LawNone
  | HkShadow pre tgt, UkShadow tgt' derive O =>
    if (path_eqb tgt tgt'
        && forallb (assign_matched derive) pre
        && forallb (derive_matched pre) derive
        && forallb (fun h => existsb (fun d => path_eqb (fst d) [h]) derive) (hidden_fields sd tgt))%bool
    then LawPairs else LawBroken
  | HkShadow _ tgt, UkShadow tgt' _ (S _) => if path_eqb tgt tgt' then LawSpecial else LawBroken
  | HkDirMode _ _ tgt, UkShadow tgt' _ _ => if path_eqb tgt tgt' then LawSpecial else LawBroken
  | HkCustom, UkCustom => LawSpecial
  | HkPromoted f, UkPromoted g => if String.eqb f g then LawSpecial else LawBroken
  | _, _ => LawBroken
  end.

(* the hooks whose unmarshal side is more than a list of derivations: modelled / checked by hand *)
Definition special_hooks : list string :=
  ["v2.Listener"; "v2.FilterChain"; "v2.RouterConfiguration"; "v2.ClusterManagerConfig"; "v2.SecretConfigWrapper"].

Fixpoint mem_str (s : string) (l : list string) : bool :=
  match l with [] => false | x :: l' => (String.eqb x s || mem_str s l')%bool end.

Definition hook_laws_ok (T : table) : bool :=
  forallb (fun sd => match hook_law sd with
                     | LawNone | LawPairs => true
                     | LawSpecial => mem_str (s_name sd) special_hooks
                     | LawBroken => false
                     end) T.

Definition law_census (T : table) : nat * nat * nat :=
  fold_left (fun acc sd => let '(a, b, c) := acc in
                           match hook_law sd with
                           | LawNone => (S a, b, c) | LawPairs => (a, S b, c) | _ => (a, b, S c) end) T (O, O, O).

(* ------------------------------------------------------------------- correspondence (evaluated on shards) *)
(* encode case: a real Go value (printed), its type, the JSON the real json.Marshal produced *)
Definition enc_case := (ty * val * json)%type.
Definition enc_case_ok (k : enc_case) : bool :=
  let '(t, v, j) := k in json_eqb (encode cfg_structs 64 t v) j.

(* decode case (plain fragment only): type, document, the value the real json.Unmarshal produced (printed) *)
Fixpoint val_eqb (a b : val) {struct a} : bool :=
  match a, b with
  | VBool x, VBool y => Bool.eqb x y
  | VInt x, VInt y => Z.eqb x y
  | VFloat x, VFloat y => String.eqb x y
  | VStr x, VStr y => String.eqb x y
  | VSecret x, VSecret y => String.eqb x y
  | VNil, VNil => true
  | VOpaque _ x, VOpaque _ y =>
    (String.eqb x y || match string_to_Z y with Some z => String.eqb x (fmt_duration z) | None => false end)%bool
  | VOpaque _ x, VInt z => (String.eqb x (fmt_duration z) || String.eqb x (Z_to_string z))%bool   (* a derived duration *)
  | VJson x, VJson y => json_eqb x y
  | VStruct l, VStruct m =>
    (fix go (l m : list val) {struct l} : bool :=
       match l, m with
       | [], [] => true
       | x :: l', y :: m' => (val_eqb x y && go l' m')%bool
       | _, _ => false
       end) l m
  | VRef _ l, VRef _ m =>
    (fix go (l : list (string * val)) (m : list (string * val)) {struct l} : bool :=
       match l, m with
       | [], [] => true
       | (k, x) :: l', (k', y) :: m' => (String.eqb k k' && val_eqb x y && go l' m')%bool
       | _, _ => false
       end) l m
  | _, _ => false
  end.
Definition dec_case := (ty * json * val)%type.
Definition dec_case_ok (k : dec_case) : bool :=
  let '(t, j, v) := k in
  match decode cfg_structs 64 t j with
  | Some v' => (val_eqb v' v && wf cfg_structs t v)%bool
  | None => false
  end.

(* the same for types whose closure also has shadow-field hooks (decode runs the derivations): no wf requirement *)
Definition dech_case_ok (k : dec_case) : bool :=
  let '(t, j, v) := k in
  match decode cfg_structs 64 t j with
  | Some v' => val_eqb v' v
  | None => false
  end.
(* the model's own round trip evaluated on a real value: dump (load (dump v)) = dump v *)
Definition stable_case_ok (k : ty * val) : bool :=
  let '(t, v) := k in
  let j := encode cfg_structs 64 t v in
  match decode cfg_structs 64 t j with
  | Some v' => (fuel_free j && json_eqb (encode cfg_structs 64 t v') j)%bool
  | None => false
  end.

(* file case: the file the real marshaler wrote for an item name (router = false: cluster manager, true: router) *)
Inductive rt_case := EncCase (k : enc_case) | DecCase (k : dec_case) | DecHCase (k : dec_case) | StableCase (k : ty * val)
                   | FileCase (router : bool) (name fname : string).



(* ------------------------------------------------------------------------------ path-mode file naming *)
(* ClusterManagerConfig.MarshalJSON / RouterConfiguration.MarshalJSON keep every cluster / virtual host of a
   container in path (directory) mode in a file named after it; the loader reads the files whose extension is
   ".json".  Strings are byte strings (Go slices bytes).  The ORDER of the three operations is read from the source. *)
Definition sep_char : Ascii.ascii := "/"%char.
Fixpoint replace_sep (s : string) : string :=
  match s with
  | EmptyString => EmptyString
  | String c s' => String (if Ascii.eqb c sep_char then "_"%char else c) (replace_sep s')
  end.
Fixpoint firstn_str (n : nat) (s : string) : string :=
  match n, s with
  | S n', String c s' => String c (firstn_str n' s')
  | _, _ => EmptyString
  end.
Definition apply_fop (max : nat) (s : string) (o : fop) : string :=
  match o with
  | FTrunc => firstn_str max s
  | FReplaceSep => replace_sep s
  | FAppendJson => s ++ ".json"
  end.
Definition file_name (max : nat) (ops : list fop) (name : string) : string := fold_left (apply_fop max) ops name.
Definition canon_ops : list fop := [FTrunc; FReplaceSep; FAppendJson].

(* path.Ext(file) == ".json" : the name ends in ".json" *)
Definition loader_accepts (fname : string) : bool :=
  String.eqb (substring (String.length fname - 5) 5 fname) ".json".

Fixpoint has_sep (s : string) : bool :=
  match s with EmptyString => false | String c s' => (Ascii.eqb c sep_char || has_sep s')%bool end.

Definition repeat_char (c : Ascii.ascii) (n : nat) : string :=
  (fix go (n : nat) : string := match n with O => EmptyString | S n' => String c (go n') end) n.

Definition rt_case_ok (k : rt_case) : bool :=
  match k with
  | EncCase e => enc_case_ok e | DecCase d => dec_case_ok d | DecHCase d => dech_case_ok d | StableCase s => stable_case_ok s
  | FileCase router name fname =>
    String.eqb (file_name src_max_file_path (if router then src_fname_ops_router else src_fname_ops_cluster) name) fname
  end.

Fixpoint mismatches_from {A} (ok : A -> bool) (i : nat) (l : list A) : list nat :=
  match l with
  | [] => []
  | x :: l' => if ok x then mismatches_from ok (S i) l' else i :: mismatches_from ok (S i) l'
  end.
Definition c19_mismatches (l : list rt_case) : list nat := mismatches_from rt_case_ok 0 l.
