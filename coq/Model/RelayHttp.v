(* Model of what MOSN's HTTP/1 proxy path does to a message's header section and body (C01): fasthttp's header parser
   (RequestHeader.parseHeaders / ResponseHeader.parseHeaders), MOSN's stream layer (pkg/stream/http/stream.go
   serverStreamConnection.serve, clientStream.AppendHeaders/AppendData, serverStream.AppendHeaders/endStream) and
   fasthttp's header writer (RequestHeader.AppendBytes / ResponseHeader.AppendBytes).
   ONLY executable definitions; proofs are in Proofs/RelayHttp.v.

   A message is (method / status, ordered list of header fields, body).  Field NAMES are lower-cased ASCII strings
   (HTTP field names are case-insensitive; fasthttp rewrites them to canonical Mime-Case); field VALUES and the body are
   byte strings, a value without its surrounding optional white space (RFC 7230 3.2.4: not part of the value).
   The framing fields content-length / transfer-encoding / trailer are not part of a message here: MOSN always buffers
   the whole body and re-frames it with Content-Length (RFC 7230 3.3: hop-level framing); the body bytes are.

   REQUEST, in the order things happen:
     serve            request.Header.Read + ContinueReadBody(.., false)                     [no_multipart_preparse]
                      (before the repair: Request.ReadLimitBody, which parses a multipart/form-data body of known length; the
                      body forwarded is then fasthttp's re-serialisation `mp` of the parsed form)
     fasthttp parse   host, user-agent, content-type: a later field overwrites an earlier one (kept aside);
                      connection: the value "close" sets a flag and is dropped, any other value clears the flag and is kept;
                      everything else is appended to the generic list in order
     serve            first Expect value "100-continue": MOSN answers "100 Continue" itself and deletes every Expect field
     AppendHeaders    connection flag set -> Del("Connection") (all remaining Connection fields go, flag cleared);
                      Host := the request URI's host = the Host value, lower-cased by fasthttp's URI parser
                      headers.CopyTo(&s.request.Header)                        [copy_by_copyto]
                      s.request.Header.SetNoDefaultContentType(true)           [req_no_default_ct]
     fasthttp write   User-Agent (if non-empty), Host, Content-Type (the last one; if none and the method is not GET/HEAD and
                      the default is not switched off: application/octet-stream), the generic fields in order
   RESPONSE:
     fasthttp parse   content-type, content-encoding, server: a later field overwrites an earlier one; set-cookie fields
                      are collected in order; connection as above; date and everything else -> generic list
     AppendHeaders    headers.CopyTo(&s.response.Header); s.response.Header.SetNoDefaultContentType(true) [resp_no_default_ct]
     endStream        HEAD request -> no body; the downstream connection is to be closed -> Del("Connection"), close flag
     fasthttp write   Server (if non-empty), Date := the PROXY's clock (a Date field of the upstream is dropped),
                      Content-Type (the last one received; if none, the default is not switched off and the header's content length
                      is not exactly 0: text/plain; charset=utf-8), Content-Encoding, the generic fields in order except date,
                      the Set-Cookie fields in order, "Connection: close" if the flag is set
   The four bracketed facts are read from stream.go on every run (Gen/RelayHttpSrc.v). *)
From Coq Require Import List NArith Bool String Ascii.
Import ListNotations.
Open Scope string_scope.

Definition field := (string * list N)%type.

Record sw := mkHsw { copy_by_copyto : bool; req_no_default_ct : bool; resp_no_default_ct : bool; no_multipart_preparse : bool }.

Record req := mkReq { q_method : string; q_fields : list field; q_body : list N }.
(* p_declared: the Content-Length the upstream declared (only looked at for the response to a HEAD request) *)
(* p_close_delim: the upstream's response had neither Content-Length nor chunked coding (its end was the connection's close) *)
Record resp := mkResp { p_status : nat; p_fields : list field; p_body : list N; p_declared : nat; p_close_delim : bool }.

Definition named (n : string) (fs : list field) : list field := filter (fun f => String.eqb (fst f) n) fs.
Definition others (ns : list string) (fs : list field) : list field :=
  filter (fun f => negb (existsb (String.eqb (fst f)) ns)) fs.
Definition last_value (n : string) (fs : list field) : option (list N) :=
  match rev (named n fs) with [] => None | f :: _ => Some (snd f) end.
Definition one (n : string) (v : option (list N)) : list field := match v with Some v => [(n, v)] | None => [] end.
(* fasthttp keeps these in a byte slice: an empty value is the same as no field *)
Definition nonempty (v : option (list N)) : option (list N) := match v with Some [] => None | _ => v end.

Definition bytes_of (s : string) : list N := map (fun a => N_of_ascii a) (list_ascii_of_string s).
Fixpoint beqb (a b : list N) : bool :=
  match a, b with [], [] => true | x :: a', y :: b' => N.eqb x y && beqb a' b' | _, _ => false end.
Definition lowerb (b : list N) : list N := map (fun x => if (N.leb 65 x && N.leb x 90)%bool then (x + 32)%N else x) b.

Definition is_nil_b (l : list N) : bool := match l with [] => true | _ => false end.
Definition v_close := bytes_of "close".
Definition v_100 := bytes_of "100-continue".

(* connection fields as the parser leaves them: (flag, kept fields) *)
Fixpoint conn_scan (fs : list field) (flag : bool) : bool :=
  match fs with
  | [] => flag
  | (n, v) :: r => if String.eqb n "connection" then conn_scan r (beqb v v_close) else conn_scan r flag
  end.
Definition drop_close (fs : list field) : list field :=
  filter (fun f => negb (String.eqb (fst f) "connection" && beqb (snd f) v_close)) fs.

Definition req_special := ["host"; "user-agent"; "content-type"].
Definition default_req_ct := bytes_of "application/octet-stream".
Definition default_resp_ct := bytes_of "text/plain; charset=utf-8".

Definition ignore_body (m : string) : bool := String.eqb m "GET" || String.eqb m "HEAD".

(* mp: fasthttp's multipart form parser followed by its writer (only used before the repair) *)
Definition is_multipart (ct : option (list N)) : bool :=
  match ct with Some v => beqb (firstn 19 (lowerb v)) (bytes_of "multipart/form-data") | None => false end.

Definition fwd_req (w : sw) (mp : list N -> list N) (q : req) : req :=
  let fs := q_fields q in
  let generic := drop_close (others req_special fs) in
  (* Expect: 100-continue is answered by MOSN *)
  let generic := match named "expect" generic with
                 | (_, v) :: _ => if beqb v v_100 then others ["expect"] generic else generic
                 | [] => generic
                 end in
  let generic := if conn_scan fs false then others ["connection"] generic else generic in
  let ct := match nonempty (last_value "content-type" fs) with
            | Some v => Some v
            | None => if req_no_default_ct w || ignore_body (q_method q) then None else Some default_req_ct
            end in
  mkReq (q_method q)
        (one "user-agent" (nonempty (last_value "user-agent" fs)) ++
         one "host" (option_map lowerb (last_value "host" fs)) ++
         one "content-type" ct ++ generic)
        (if no_multipart_preparse w then q_body q
         else if is_multipart (last_value "content-type" fs) && negb (is_nil_b (q_body q)) then mp (q_body q) else q_body q).

Definition resp_special := ["server"; "content-type"; "content-encoding"; "set-cookie"; "date"].

(* head = the request was HEAD; closing = MOSN closes the downstream connection after this response; now = the value of the
   proxy's clock in IMF-fixdate *)
Definition fwd_resp (w : sw) (head closing : bool) (now : list N) (p : resp) : resp :=
  let fs := p_fields p in
  let generic := drop_close (others resp_special fs) in
  (* the parser's close flag: "Connection: close", or a response delimited by the close of the upstream connection *)
  let flag := conn_scan fs false || p_close_delim p in
  let close := flag || closing in
  (* endStream: if !s.response.ConnectionClose() { Del("Connection"); SetConnectionClose() } *)
  let generic := if closing && negb flag then others ["connection"] generic else generic in
  let body := if head then [] else p_body p in
  (* "Append Content-Type only for non-zero responses or if it is explicitly set": fasthttp's ContentLength() is 0 *)
  let len0 := if head then Nat.eqb (p_declared p) 0
              else if Nat.eqb (p_status p) 204 || Nat.eqb (p_status p) 304 || Nat.ltb (p_status p) 200 then false
              else is_nil_b (p_body p) in
  let ct := match nonempty (last_value "content-type" fs) with
            | Some v => Some v
            | None => if resp_no_default_ct w || len0 then None else Some default_resp_ct
            end in
  mkResp (p_status p)
         (one "server" (nonempty (last_value "server" fs)) ++ [("date", now)] ++ one "content-type" ct ++
          one "content-encoding" (nonempty (last_value "content-encoding" fs)) ++ generic ++ named "set-cookie" fs ++
          (if close then [("connection", v_close)] else []))
         body (p_declared p) (p_close_delim p).

(* the end-to-end exceptions, exactly *)
Definition req_exceptions := ["host"; "user-agent"; "content-type"; "connection"; "expect"].
Definition resp_exceptions := ["server"; "content-type"; "content-encoding"; "connection"; "date"].

(* the shape of stream.go the theorems are instantiated for *)
Definition hsw_verified := mkHsw true true true true.
(* before the repairs: fasthttp's default Content-Type is added, multipart forms are parsed and re-serialised *)
Definition hsw_old := mkHsw true false false false.

(* --- correspondence cases ---------------------------------------------------------------------------------- *)
Fixpoint fields_eqb (a b : list field) : bool :=
  match a, b with
  | [], [] => true
  | (n, v) :: a', (m, u) :: b' => String.eqb n m && beqb v u && fields_eqb a' b'
  | _, _ => false
  end.

(* a request as sent by the raw client, the request the raw upstream received *)
Record req_case := mkReqCase { rc_sent : req; rc_got : req }.
Definition req_case_ok (w : sw) (k : req_case) : bool :=
  let e := fwd_req w (fun b => b) (rc_sent k) in
  String.eqb (q_method e) (q_method (rc_got k)) && fields_eqb (q_fields e) (q_fields (rc_got k)) && beqb (q_body e) (q_body (rc_got k)).

Record resp_case := mkRespCase { pc_head : bool; pc_closing : bool; pc_now : list N; pc_sent : resp; pc_got : resp }.
Definition resp_case_ok (w : sw) (k : resp_case) : bool :=
  let e := fwd_resp w (pc_head k) (pc_closing k) (pc_now k) (pc_sent k) in
  Nat.eqb (p_status e) (p_status (pc_got k)) && fields_eqb (p_fields e) (p_fields (pc_got k)) && beqb (p_body e) (p_body (pc_got k)).

Fixpoint hmm_from {A} (ok : A -> bool) (i : nat) (l : list A) : list nat :=
  match l with [] => [] | x :: l' => if ok x then hmm_from ok (S i) l' else i :: hmm_from ok (S i) l' end.
Definition req_mismatches (w : sw) (l : list req_case) : list nat := hmm_from (req_case_ok w) 0 l.
Definition resp_mismatches (w : sw) (l : list resp_case) : list nat := hmm_from (resp_case_ok w) 0 l.
