(* Model of pkg/upstream/healthcheck/session_checker.go HandleSuccess / HandleFailure.
   ONLY executable definitions; proofs are in Proofs/HealthCheck.v.

   Go (HandleSuccess):  unHealthCount = 0; changed := false
                        if Host.ContainHealthFlag(FAILED_ACTIVE_HC) { healthCount++
                            if healthCount == healthyThreshold { changed = true; Host.ClearHealthFlag(FAILED_ACTIVE_HC) } }
                        callbacks(host, changed, true)
      (HandleFailure):  healthCount = 0; changed := false
                        if !Host.ContainHealthFlag(FAILED_ACTIVE_HC) { unHealthCount++
                            if unHealthCount == unhealthyThreshold { changed = true; Host.SetHealthFlag(FAILED_ACTIVE_HC) } }
                        callbacks(host, changed, false)
   A timeout calls Session.OnTimeout() and then HandleFailure(FailureNetwork).
   Counters are uint32 (wrap-around written into the model); thresholds are uint32, defaulted to 1 when 0. *)
From Coq Require Import List NArith Bool.
Import ListNotations.
Open Scope N_scope.

Inductive result := RSuccess | RFailure | RTimeout.
Definition is_succ (r : result) : bool := match r with RSuccess => true | _ => false end.
Definition is_fail (r : result) : bool := negb (is_succ r).

Record hcst := mkHC { hflag : bool (* FAILED_ACTIVE_HC set on the host *); unc : N (* unHealthCount *); hcc : N (* healthCount *) }.

Definition u32 (n : N) : N := n mod 4294967296.

(* callback arguments: (changed, isHealthy) *)
Definition hc_step (u h : N) (s : hcst) (r : result) : hcst * (bool * bool) :=
  if is_succ r then
    if hflag s then
      let c := u32 (hcc s + 1) in
      if N.eqb c h then (mkHC false 0 c, (true, true)) else (mkHC true 0 c, (false, true))
    else (mkHC false 0 (hcc s), (false, true))
  else
    if hflag s then (mkHC true (unc s) 0, (false, false))
    else
      let c := u32 (unc s + 1) in
      if N.eqb c u then (mkHC true c 0, (true, false)) else (mkHC false c 0, (false, false)).

Definition hc_init (f : bool) : hcst := mkHC f 0 0.

Fixpoint hc_run (u h : N) (s : hcst) (rs : list result) : hcst * list (bool * bool) :=
  match rs with
  | [] => (s, [])
  | r :: rs' => let (s1, o) := hc_step u h s r in let (s2, os) := hc_run u h s1 rs' in (s2, o :: os)
  end.
Definition hc_state (u h : N) (f : bool) (rs : list result) : hcst := fst (hc_run u h (hc_init f) rs).

(* newHealthChecker: a configured threshold 0 becomes 1 *)
Definition eff_threshold (t : N) : N := if N.eqb t 0 then 1 else t.

(* --- correspondence: (configured unhealthy, healthy thresholds, initially flagged, results,
       observed per step (changed, isHealthy, flag after, unHealthCount, healthCount)) *)
Definition hc_obs := (bool * bool * bool * N * N)%type.
Definition hc_case := (N * N * bool * list result * list hc_obs)%type.
Fixpoint hc_trace (u h : N) (s : hcst) (rs : list result) : list hc_obs :=
  match rs with
  | [] => []
  | r :: rs' => let (s1, o) := hc_step u h s r in
                (fst o, snd o, hflag s1, unc s1, hcc s1) :: hc_trace u h s1 rs'
  end.
Definition hc_obs_eqb (a b : hc_obs) : bool :=
  match a, b with
  | (c1, i1, f1, u1, h1), (c2, i2, f2, u2, h2) =>
      Bool.eqb c1 c2 && Bool.eqb i1 i2 && Bool.eqb f1 f2 && N.eqb u1 u2 && N.eqb h1 h2
  end.
Fixpoint list_eqb {A} (e : A -> A -> bool) (l1 l2 : list A) : bool :=
  match l1, l2 with
  | [], [] => true
  | x :: l1', y :: l2' => e x y && list_eqb e l1' l2'
  | _, _ => false
  end.
Definition hc_case_ok (k : hc_case) : bool :=
  match k with
  | (u, h, f, rs, obs) => list_eqb hc_obs_eqb (hc_trace (eff_threshold u) (eff_threshold h) (hc_init f) rs) obs
  end.
Fixpoint hc_mismatches_from (i : nat) (l : list hc_case) : list nat :=
  match l with
  | [] => []
  | x :: l' => if hc_case_ok x then hc_mismatches_from (S i) l' else i :: hc_mismatches_from (S i) l'
  end.
Definition hc_mismatches (l : list hc_case) : list nat := hc_mismatches_from 0 l.
