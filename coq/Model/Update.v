(* Model of the runtime update paths and of the configuration they record:
     pkg/router/routers_manager.go     AddOrUpdateRouters, AddRoute, RemoveAllRoutes (+ routers_impl.go AddRoute / RemoveAllRoutes)
     pkg/upstream/cluster/cluster_manager.go  AddOrUpdatePrimaryCluster, AddOrUpdateClusterAndHost, RemovePrimaryCluster,
                                        UpdateClusterHosts, AppendClusterHosts, RemoveClusterHosts, refreshHostsConfig
     pkg/configmanager/effectiveconfig.go     SetRouter, SetClusterConfig, SetRemoveClusterConfig, SetHosts
     istio/istio1106/xds/conv/update.go       ConvertUpdateEndpoints (one load assignment)
   ONLY executable definitions; proofs are in Proofs/Update.v.
   The state has the LIVE objects (what lookups and host selection use) and the STORED configuration (what is dumped);
   every mutator is modelled with the two writes the code makes, in the code's order.  A host carries everything v2.Host
   carries (address, weight, hostname, tls_disable, metadata); NewHostSet keeps the FIRST host of every address. *)
From Coq Require Import List String Bool Arith.
From MV Require Import Model.Router.
Import ListNotations.
Local Open Scope string_scope.

(* ------------------------------------------------------------------ state *)
(* routersImpl: the tables built by NewRouters from the domains, and the route lists of the virtual hosts (mutable) *)
Record live_router := { lr_cfg : config; lr_tab : table }.
(* RoutersWrapper: routers (None = nil: NewRouters failed when the router was first added) and routersConfig;
   rw_stored is the copy configmanager.SetRouter keeps *)
Record rwrap := { rw_live : option live_router; rw_stored : config }.

(* v2.Host / simpleHost: metadata as a key-sorted association list *)
Record host := { h_addr : string; h_weight : nat; h_name : string; h_tls_disable : bool; h_meta : list (string * string) }.

Record cluster := { cl_lb : nat; cl_hosts : list host }.

(* one xDS LbEndpoint: address and optional load_balancing_weight (clamped to [1,128] by ConvertEndpointsConfig) *)
Record endpoint := { ep_addr : string; ep_weight : option nat }.
Definition ep_to_host (e : endpoint) : host :=
  {| h_addr := ep_addr e;
     h_weight := match ep_weight e with
                 | None => 0
                 | Some w => if Nat.ltb w 1 then 1 else if Nat.ltb 128 w then 128 else w
                 end;
     h_name := ""; h_tls_disable := false; h_meta := [] |}.

Record state := {
  st_routers : list (string * rwrap);
  st_clusters : list (string * cluster);        (* clusterManager.clustersMap *)
  st_cfg_clusters : list (string * cluster) }.  (* effectiveConfig.Cluster *)

Definition init_state : state := {| st_routers := []; st_clusters := []; st_cfg_clusters := [] |}.

Section Maps.
  Context {V : Type}.
  Fixpoint mget (k : string) (m : list (string * V)) : option V :=
    match m with
    | [] => None
    | (k', v) :: m' => if String.eqb k' k then Some v else mget k m'
    end.
  Fixpoint mset (k : string) (v : V) (m : list (string * V)) : list (string * V) :=
    match m with
    | [] => [(k, v)]
    | (k', v') :: m' => if String.eqb k' k then (k, v) :: m' else (k', v') :: mset k v m'
    end.
  Fixpoint mdel (k : string) (m : list (string * V)) : list (string * V) :=
    match m with
    | [] => []
    | (k', v') :: m' => if String.eqb k' k then mdel k m' else (k', v') :: mdel k m'
    end.
End Maps.

(* ------------------------------------------------------------------ operations *)
Inductive op :=
| OAddOrUpdateRouters (name : string) (c : config)
| OAddRoute (name domain : string) (r : route)
| ORemoveAllRoutes (name domain : string)
| OAddOrUpdateCluster (name : string) (lb : nat) (cfg_hosts : list host)          (* TriggerClusterAddOrUpdate: keeps the live hosts *)
| OAddOrUpdateClusterAndHosts (name : string) (lb : nat) (cfg_hosts hosts : list host)
| ORemoveClusters (names : list string)
| OUpdateHosts (name : string) (hosts : list host)
| OAppendHosts (name : string) (hosts : list host)
| ORemoveHosts (name : string) (addrs : list string)
| OEndpoints (name : string) (localities : list (list endpoint)).                   (* one ClusterLoadAssignment *)

(* routers_impl.go findVirtualHostIndex(domain): the domain is NOT lower-cased here *)
Definition vhost_index_of_domain (t : table) (domain : string) : option nat :=
  match split_graceful domain with
  | None => None
  | Some (h, p) => find_index t h p
  end.

Fixpoint update_nth {A} (n : nat) (f : A -> A) (l : list A) : list A :=
  match l, n with
  | [], _ => []
  | x :: l', O => f x :: l'
  | x :: l', S n' => x :: update_nth n' f l'
  end.

Definition add_route_at (i : nat) (r : route) (c : config) : config :=
  update_nth i (fun v => {| vh_domains := vh_domains v; vh_routes := (vh_routes v ++ [r])%list |}) c.
Definition clear_routes_at (i : nat) (c : config) : config :=
  update_nth i (fun v => {| vh_domains := vh_domains v; vh_routes := [] |}) c.

(* a step returns the new state and whether the call returned nil (true) or an error (false) *)
Definition set_routers (s : state) (m : list (string * rwrap)) : state :=
  {| st_routers := m; st_clusters := st_clusters s; st_cfg_clusters := st_cfg_clusters s |}.
Definition set_clusters (s : state) (l c : list (string * cluster)) : state :=
  {| st_routers := st_routers s; st_clusters := l; st_cfg_clusters := c |}.

Definition step_add_or_update_routers (s : state) (name : string) (c : config) : state * bool :=
  match mget name (st_routers s) with
  | Some _ =>
      match build c with
      | Err _ => (s, false)
      | Ok t => (set_routers s (mset name {| rw_live := Some {| lr_cfg := c; lr_tab := t |}; rw_stored := c |} (st_routers s)), true)
      end
  | None =>
      let live := match build c with Ok t => Some {| lr_cfg := c; lr_tab := t |} | Err _ => None end in
      (set_routers s (mset name {| rw_live := live; rw_stored := c |} (st_routers s)), true)
  end.

(* the live virtual host and the stored configuration are changed by two separate writes *)
Definition step_route_change (s : state) (name domain : string) (bad : bool) (f : nat -> config -> config) : state * bool :=
  match mget name (st_routers s) with
  | None => (s, true)                                  (* unknown router name: nothing happens, nil is returned *)
  | Some w =>
      match rw_live w with
      | None => (s, false)                             (* ErrNoRouters *)
      | Some l =>
          match vhost_index_of_domain (lr_tab l) domain with
          | None => (s, false)
          | Some i =>
              if bad then (s, false)                   (* NewRouteBase fails *)
              else (set_routers s (mset name {| rw_live := Some {| lr_cfg := f i (lr_cfg l); lr_tab := lr_tab l |};
                                                rw_stored := f i (rw_stored w) |} (st_routers s)), true)
          end
      end
  end.

(* refreshHostsConfig -> configmanager.SetHosts: only if the stored configuration has the cluster *)
Definition set_hosts_cfg (name : string) (hosts : list host) (cfg : list (string * cluster)) : list (string * cluster) :=
  match mget name cfg with
  | Some c => mset name {| cl_lb := cl_lb c; cl_hosts := hosts |} cfg
  | None => cfg
  end.

(* clusterManager.UpdateCluster with the handler's resulting host list *)
Definition step_update_cluster (s : state) (name : string) (lb : nat) (cfg_hosts : list host)
           (new_hosts : option cluster -> list host) : state * bool :=
  let cfg1 := mset name {| cl_lb := lb; cl_hosts := cfg_hosts |} (st_cfg_clusters s) in     (* SetClusterConfig *)
  let hosts := new_hosts (mget name (st_clusters s)) in
  let live := mset name {| cl_lb := lb; cl_hosts := hosts |} (st_clusters s) in              (* clustersMap.Store *)
  (set_clusters s live (set_hosts_cfg name hosts cfg1), true).                               (* refreshHostsConfig *)

(* clusterManager.UpdateHosts with a host handler *)
Definition step_update_hosts (s : state) (name : string) (f : list host -> list host) : state * bool :=
  match mget name (st_clusters s) with
  | None => (s, false)
  | Some c =>
      let hosts := f (cl_hosts c) in
      (set_clusters s (mset name {| cl_lb := cl_lb c; cl_hosts := hosts |} (st_clusters s))
                      (set_hosts_cfg name hosts (st_cfg_clusters s)), true)
  end.

(* NewHostSet keeps the first host of every address *)
Fixpoint dedup (l : list host) : list host :=
  match l with
  | [] => []
  | x :: l' => x :: filter (fun y => negb (String.eqb (h_addr y) (h_addr x))) (dedup l')
  end.

(* RemoveClusterHosts: one host of that address, if any *)
Fixpoint remove_one (a : string) (l : list host) : list host :=
  match l with
  | [] => []
  | x :: l' => if String.eqb (h_addr x) a then l' else x :: remove_one a l'
  end.

(* the host a lookup by address finds *)
Fixpoint find_host (a : string) (l : list host) : option host :=
  match l with
  | [] => None
  | x :: l' => if String.eqb (h_addr x) a then Some x else find_host a l'
  end.

(* ConvertUpdateEndpoints for one load assignment.  per_locality (read from the source: Gen/EndpointSrc.v) = the host
   update is issued inside the loop over the localities *)
Fixpoint endpoints_per_locality (s : state) (name : string) (ls : list (list endpoint)) (ok : bool) : state * bool :=
  match ls with
  | [] => (s, ok)
  | l :: ls' => let (s', r) := step_update_hosts s name (fun _ => dedup (map ep_to_host l)) in
                endpoints_per_locality s' name ls' (andb ok r)
  end.

Definition step_endpoints (per_locality : bool) (s : state) (name : string) (ls : list (list endpoint)) : state * bool :=
  match ls with
  | [] => step_update_hosts s name (fun _ => [])
  | _ => if per_locality then endpoints_per_locality s name ls true
         else step_update_hosts s name (fun _ => dedup (map ep_to_host (List.concat ls)))
  end.

Definition step (per_locality : bool) (s : state) (o : op) : state * bool :=
  match o with
  | OAddOrUpdateRouters name c => step_add_or_update_routers s name c
  | OAddRoute name domain r => step_route_change s name domain (r_bad r) (fun i => add_route_at i r)
  | ORemoveAllRoutes name domain => step_route_change s name domain false clear_routes_at
  | OAddOrUpdateCluster name lb cfg_hosts =>
      step_update_cluster s name lb cfg_hosts (fun old => match old with Some c => cl_hosts c | None => [] end)
  | OAddOrUpdateClusterAndHosts name lb cfg_hosts hosts => step_update_cluster s name lb cfg_hosts (fun _ => dedup hosts)
  | ORemoveClusters names =>
      if forallb (fun n => match mget n (st_clusters s) with Some _ => true | None => false end) names
      then (fold_left (fun s n => set_clusters s (mdel n (st_clusters s)) (mdel n (st_cfg_clusters s))) names s, true)
      else (s, false)
  | OUpdateHosts name hosts => step_update_hosts s name (fun _ => dedup hosts)
  | OAppendHosts name hosts => step_update_hosts s name (fun old => dedup (hosts ++ old))
  | ORemoveHosts name addrs => step_update_hosts s name (fun old => dedup (fold_left (fun l a => remove_one a l) addrs old))
  | OEndpoints name ls => step_endpoints per_locality s name ls
  end.

Fixpoint run (per_locality : bool) (s : state) (ops : list op) : state * list bool :=
  match ops with
  | [] => (s, [])
  | o :: ops' => let (s1, r) := step per_locality s o in
                 let (s2, rs) := run per_locality s1 ops' in (s2, r :: rs)
  end.

Definition final (per_locality : bool) (ops : list op) : state := fst (run per_locality init_state ops).

(* ------------------------------------------------------------------ a fresh MOSN started from the stored configuration *)
(* router manager of a fresh process: AddOrUpdateRouters(stored) on an empty map *)
Definition fresh_router (c : config) : option live_router :=
  match build c with Ok t => Some {| lr_cfg := c; lr_tab := t |} | Err _ => None end.
(* cluster manager of a fresh process: each stored cluster with its stored hosts *)
Definition fresh_clusters (cfg : list (string * cluster)) : list (string * cluster) := cfg.

(* what a lookup on a (possibly nil) routers object answers *)
Definition lookup (l : option live_router) (rq : request) : option route :=
  match l with Some l => match_route (lr_cfg l) (lr_tab l) rq | None => None end.
Definition lookup_all (l : option live_router) (rq : request) : list route :=
  match l with Some l => match_all (lr_cfg l) (lr_tab l) rq | None => [] end.

(* ------------------------------------------------------------------ concurrent lookups (c12_swap_atomic) *)
(* One router name.  Every successful AddOrUpdateRouters creates a new routers object and swaps the wrapper's pointer in
   one assignment; AddRoute / RemoveAllRoutes mutate the CURRENT object's route lists under the virtual host's lock.
   A lookup reads the pointer once (GetRouters), later reads the route list of the selected virtual host under the lock
   and evaluates.  Events of any number of lookup threads interleave with the updates in any order. *)
Inductive ev :=
| EUpdate (c : config)                         (* AddOrUpdateRouters on the existing name *)
| EAddRoute (domain : string) (r : route)
| ERemoveAll (domain : string)
| ERead (tid : nat)                            (* lookup: rw.GetRouters() *)
| EEval (tid : nat) (rq : request).            (* lookup: findVirtualHost + GetRouteFromEntries on the object read before *)

Record cstate := {
  cs_objs : list live_router;                  (* every routers object ever created; index = identity *)
  cs_cur : nat;                                (* the wrapper's pointer *)
  cs_regs : list (nat * nat) }.                (* thread -> object it read *)

Fixpoint reg_get (tid : nat) (l : list (nat * nat)) : option nat :=
  match l with [] => None | (t, o) :: l' => if Nat.eqb t tid then Some o else reg_get tid l' end.

Definition cur_obj (s : cstate) : option live_router := nth_error (cs_objs s) (cs_cur s).

Definition mutate_cur (s : cstate) (f : live_router -> live_router) : cstate :=
  {| cs_objs := update_nth (cs_cur s) f (cs_objs s); cs_cur := cs_cur s; cs_regs := cs_regs s |}.

Definition route_change_obj (domain : string) (bad : bool) (f : nat -> config -> config) (l : live_router) : live_router :=
  match vhost_index_of_domain (lr_tab l) domain with
  | None => l
  | Some i => if bad then l else {| lr_cfg := f i (lr_cfg l); lr_tab := lr_tab l |}
  end.

(* one event; the answer of an EEval is returned *)
Definition cstep (s : cstate) (e : ev) : cstate * option (nat * option route) :=
  match e with
  | EUpdate c =>
      match build c with
      | Err _ => (s, None)
      | Ok t => ({| cs_objs := (cs_objs s ++ [{| lr_cfg := c; lr_tab := t |}])%list; cs_cur := List.length (cs_objs s); cs_regs := cs_regs s |}, None)
      end
  | EAddRoute d r => (mutate_cur s (route_change_obj d (r_bad r) (fun i => add_route_at i r)), None)
  | ERemoveAll d => (mutate_cur s (route_change_obj d false clear_routes_at), None)
  | ERead tid => ({| cs_objs := cs_objs s; cs_cur := cs_cur s; cs_regs := (tid, cs_cur s) :: cs_regs s |}, None)
  | EEval tid rq =>
      match reg_get tid (cs_regs s) with
      | None => (s, None)
      | Some o => (s, Some (tid, lookup (nth_error (cs_objs s) o) rq))
      end
  end.

Fixpoint crun (s : cstate) (es : list ev) : cstate :=
  match es with [] => s | e :: es' => crun (fst (cstep s e)) es' end.

(* ------------------------------------------------------------------ correspondence cases *)
Fixpoint pairs_eqb (a b : list (string * string)) : bool :=
  match a, b with
  | [], [] => true
  | (k, v) :: a', (k', v') :: b' => andb (String.eqb k k') (andb (String.eqb v v') (pairs_eqb a' b'))
  | _, _ => false
  end.
Definition host_eqb (x y : host) : bool :=
  andb (String.eqb (h_addr x) (h_addr y)) (andb (Nat.eqb (h_weight x) (h_weight y))
  (andb (String.eqb (h_name x) (h_name y)) (andb (Bool.eqb (h_tls_disable x) (h_tls_disable y)) (pairs_eqb (h_meta x) (h_meta y))))).
(* same hosts WITH attributes: equally many, and every host of a is the host b has at that address (addresses are unique
   in a live host set) *)
Definition same_hosts (a b : list host) : bool :=
  andb (Nat.eqb (List.length a) (List.length b))
       (forallb (fun x => match find_host (h_addr x) b with Some y => host_eqb x y | None => false end) a).

Fixpoint bools_eqb (a b : list bool) : bool :=
  match a, b with
  | [], [] => true
  | x :: a', y :: b' => andb (Bool.eqb x y) (bools_eqb a' b')
  | _, _ => false
  end.

(* observed after a history: per router name the lookups (request, cluster of MatchRoute, clusters of MatchAllRoutes);
   per cluster name None (absent) or (lb type, addresses) *)
Definition router_obs := (string * list (request * option string * list string))%type.
Definition cluster_obs := (string * option (nat * list host))%type.
(* after EVERY operation, for the object it addresses: a fingerprint of the live object, of the configuration the wrapper
   keeps, and of the dumped configuration.
     router:  [0 absent | 1 routers nil | 2 routers present; virtual hosts, routes of the wrapper's configuration;
               0 | 1 in the dump; virtual hosts, routes of the dumped configuration]
     cluster: [0 | 1 live; lb; hosts; 0 | 1 in the dump; lb; hosts] *)
Definition count_routes (c : config) : nat := fold_right (fun v n => List.length (vh_routes v) + n) 0 c.
Definition router_fp (s : state) (name : string) : list nat :=
  match mget name (st_routers s) with
  | None => [0; 0; 0; 0; 0; 0]
  | Some w => [match rw_live w with None => 1 | Some _ => 2 end; List.length (rw_stored w); count_routes (rw_stored w);
               1; List.length (rw_stored w); count_routes (rw_stored w)]
  end.
Definition cluster_fp (s : state) (name : string) : list nat :=
  (match mget name (st_clusters s) with None => [0; 0; 0] | Some c => [1; cl_lb c; List.length (cl_hosts c)] end ++
   match mget name (st_cfg_clusters s) with None => [0; 0; 0] | Some c => [1; cl_lb c; List.length (cl_hosts c)] end)%list.
Definition fingerprint (s : state) (o : op) : list nat :=
  match o with
  | OAddOrUpdateRouters name _ | OAddRoute name _ _ | ORemoveAllRoutes name _ => router_fp s name
  | OAddOrUpdateCluster name _ _ | OAddOrUpdateClusterAndHosts name _ _ _ | OUpdateHosts name _ | OAppendHosts name _
  | ORemoveHosts name _ | OEndpoints name _ => cluster_fp s name
  | ORemoveClusters names => match names with n :: _ => cluster_fp s n | [] => [] end
  end.
Fixpoint run_fp (per_locality : bool) (s : state) (ops : list op) : list (list nat) :=
  match ops with
  | [] => []
  | o :: ops' => let s1 := fst (step per_locality s o) in fingerprint s1 o :: run_fp per_locality s1 ops'
  end.
Fixpoint nats_eqb (a b : list nat) : bool :=
  match a, b with
  | [], [] => true
  | x :: a', y :: b' => andb (Nat.eqb x y) (nats_eqb a' b')
  | _, _ => false
  end.
Fixpoint fps_eqb (a b : list (list nat)) : bool :=
  match a, b with
  | [], [] => true
  | x :: a', y :: b' => andb (nats_eqb x y) (fps_eqb a' b')
  | _, _ => false
  end.

(* operations, per-operation results, per-operation fingerprints, live observations, and the same observations on objects
   rebuilt from the dump *)
Definition up_case := (list op * list bool * list (list nat) * list router_obs * list cluster_obs * list router_obs * list cluster_obs)%type.

Definition router_obs_ok_with (live : option live_router) (ls : list (request * option string * list string)) : bool :=
  forallb (fun x => match x with
                    | (rq, one, all) => andb (opt_str_eqb (option_map r_cluster (lookup live rq)) one)
                                             (strs_eqb (map r_cluster (lookup_all live rq)) all)
                    end) ls.

Definition router_obs_ok (s : state) (o : router_obs) : bool :=
  let (name, ls) := o in
  router_obs_ok_with (match mget name (st_routers s) with Some w => rw_live w | None => None end) ls.

(* a router rebuilt from the stored configuration *)
Definition router_dump_ok (s : state) (o : router_obs) : bool :=
  let (name, ls) := o in
  router_obs_ok_with (match mget name (st_routers s) with Some w => fresh_router (rw_stored w) | None => None end) ls.

Definition cluster_obs_ok_in (m : list (string * cluster)) (o : cluster_obs) : bool :=
  let (name, got) := o in
  match mget name m, got with
  | None, None => true
  | Some c, Some (lb, hosts) => andb (Nat.eqb (cl_lb c) lb) (same_hosts (cl_hosts c) hosts)
  | _, _ => false
  end.

Definition up_case_ok (per_locality : bool) (k : up_case) : bool :=
  match k with
  | (ops, results, fps, robs, cobs, rdump, cdump) =>
      let (s, rs) := run per_locality init_state ops in
      andb (bools_eqb rs results)
      (andb (fps_eqb (run_fp per_locality init_state ops) fps)
      (andb (forallb (router_obs_ok s) robs)
      (andb (forallb (cluster_obs_ok_in (st_clusters s)) cobs)
      (andb (forallb (router_dump_ok s) rdump)
            (forallb (cluster_obs_ok_in (st_cfg_clusters s)) cdump)))))
  end.

Fixpoint up_mismatches_from (pl : bool) (i : nat) (l : list up_case) : list nat :=
  match l with
  | [] => []
  | k :: l' => if up_case_ok pl k then up_mismatches_from pl (S i) l' else i :: up_mismatches_from pl (S i) l'
  end.
Definition up_mismatches (pl : bool) (l : list up_case) : list nat := up_mismatches_from pl 0 l.
