(* Model/Flow.v (group h2): HTTP/2 SEND-side flow control of MOSN's http2 module.
   Only executable definitions (proofs: Proofs/Flow.v, statements: Props/C18_flow.v).

   Source modelled (pkg/module/http2):
     flow.go                flow.available / take / add   (int32 arithmetic, overflow test of add)
     mhttp2.go              MStream.WriteData + MStream.awaitFlowControl              (server sender loop)
                            MClientStream.writeDataAndTrailer + awaitFlowControl      (client sender loop)
                            MFramer.writeData   (DATA frames of at most `const maxFrameSize` bytes = Gen h2_write_chunk)
                            MServerConn.processSettings / processWindowUpdate, newStream
                            MClientConn.processSettings / processWindowUpdate, newStream
     server.go              processSetting / processSettingInitialWindowSize
   Abstractions: the condition variable is a `parked` flag per sender (cond.Wait parks, cond.Broadcast unparks
   everybody); goroutine scheduling is the position of the ESend events in the schedule (one ESend = one iteration
   of the `for` loop of awaitFlowControl followed, when it took something, by the writeData call of the caller);
   a SETTINGS frame carrying several settings is the sequence of its settings. *)
From Coq Require Import List ZArith Bool.
Import ListNotations.
Open Scope Z_scope.

(* ------------------------------------------------------------------ int32 *)
Definition i32_max : Z := 2147483647.
Definition i32_min : Z := -2147483648.
(* two's complement truncation of a Go int32 operation *)
Definition wrap32 (z : Z) : Z := (z + 2147483648) mod 4294967296 - 2147483648.

(* flow.add:   sum := f.n + n;  if (sum > n) == (f.n > 0) { f.n = sum; return true };  return false *)
Definition flow_add (n delta : Z) : Z * bool :=
  let sum := wrap32 (n + delta) in
  if Bool.eqb (delta <? sum) (0 <? n) then (sum, true) else (n, false).

(* flow.available of a stream flow linked to a connection flow *)
Definition flow_available (sw cw : Z) : Z := if cw <? sw then cw else sw.

(* flow.take: None = panic("internal error: took too much") *)
Definition flow_take (sw cw n : Z) : option (Z * Z) :=
  if flow_available sw cw <? n then None else Some (wrap32 (sw - n), wrap32 (cw - n)).

(* ------------------------------------------------------------------ state *)
Inductive side := Server | Client.

(* side;
   g_wakes      the client's SETTINGS processing ends with cond.Broadcast()   (Gen h2_client_settings_wakes);
   g_wu_always  processWindowUpdate broadcasts after every successful add (true), or only when the updated flow's
                available() was exactly 0 before the add (false)              (Gen h2_winupd_wakes_always);
   g_validated  the client checks Setting.Valid() like the server             (Gen h2_client_settings_validated);
   g_chunk      writeData chunk size                                          (Gen h2_write_chunk) *)
Record cfg := mkCfg { g_side : side; g_wakes : bool; g_wu_always : bool; g_validated : bool; g_chunk : Z }.

Record strm := mkS {
  s_id : Z;
  s_win : Z;        (* stream send window  st.flow.n / cs.flow.n *)
  s_body : Z;       (* length of the body handed to the sender *)
  s_sent : Z        (* bytes of it already put into DATA frames (offset of `remain`) *)
}.

Record conn := mkC {
  c_win : Z;        (* connection send window  sc.flow.n / cc.flow.n *)
  c_mfs : Z;        (* peer's SETTINGS_MAX_FRAME_SIZE  sc.maxFrameSize / cc.maxFrameSize *)
  c_init : Z;       (* peer's SETTINGS_INITIAL_WINDOW_SIZE  sc.initialStreamSendWindowSize / cc.initialWindowSize *)
  c_strs : list strm;
  c_wait : list Z;  (* wait set of the condition variable: streams whose sender goroutine sits in cond.Wait *)
  c_err : bool;     (* a frame handler returned a connection error: the read loop (stream/http2 handleError) closes the
                       connection and handles no further frame; senders may still run until the close takes effect *)
  c_panic : bool    (* flow.take panicked, or the sender took <= 0 bytes (slice panic / livelock; only reachable
                       on the client with an unvalidated SETTINGS_MAX_FRAME_SIZE outside [2^14, 2^24-1]) *)
}.

(* NewServerConn / NewClientConn: window 65535, max frame size 16384, initial window 65535 *)
Definition conn_new (cw init mfs : Z) : conn := mkC cw mfs init [] [] false false.
Definition conn_default : conn := conn_new 65535 65535 16384.

Inductive event :=
| EOpen (sid body : Z)      (* a stream is created (newStream) and its sender gets a body of `body` bytes *)
| EWinUpd (sid inc : Z)     (* WINDOW_UPDATE on a stream *)
| EWinUpdConn (inc : Z)     (* WINDOW_UPDATE on stream 0 *)
| ESetInit (v : Z)          (* SETTINGS_INITIAL_WINDOW_SIZE *)
| ESetMaxFrame (v : Z)      (* SETTINGS_MAX_FRAME_SIZE *)
| ESend (sid : Z)           (* one iteration of the sender loop of the stream *)
| EWake.                    (* any other cond.Broadcast (closeStream, streamByID(.., true)) *)

(* DATA frame: stream, offset of its payload in the body, payload length *)
Definition frame := (Z * Z * Z)%type.
Definition f_sid (f : frame) : Z := fst (fst f).
Definition f_off (f : frame) : Z := snd (fst f).
Definition f_len (f : frame) : Z := snd f.

(* ------------------------------------------------------------------ streams *)
Definition has_id (sid : Z) (s : strm) : bool := s_id s =? sid.
Definition find_s (sid : Z) (l : list strm) : option strm := find (has_id sid) l.
Definition has_s (sid : Z) (l : list strm) : bool := existsb (has_id sid) l.
Definition upd_s (sid : Z) (f : strm -> strm) (l : list strm) : list strm :=
  map (fun s => if has_id sid s then f s else s) l.

Definition set_win (w : Z) (s : strm) : strm := mkS (s_id s) w (s_body s) (s_sent s).
Definition took (w t : Z) (s : strm) : strm := mkS (s_id s) w (s_body s) (s_sent s + t).

Definition with_strs (c : conn) (l : list strm) : conn := mkC (c_win c) (c_mfs c) (c_init c) l (c_wait c) (c_err c) (c_panic c).
Definition with_win (c : conn) (w : Z) : conn := mkC w (c_mfs c) (c_init c) (c_strs c) (c_wait c) (c_err c) (c_panic c).
Definition with_mfs (c : conn) (v : Z) : conn := mkC (c_win c) v (c_init c) (c_strs c) (c_wait c) (c_err c) (c_panic c).
Definition with_init (c : conn) (v : Z) : conn := mkC (c_win c) (c_mfs c) v (c_strs c) (c_wait c) (c_err c) (c_panic c).
Definition set_err (c : conn) : conn := mkC (c_win c) (c_mfs c) (c_init c) (c_strs c) (c_wait c) true (c_panic c).
Definition set_panic (c : conn) : conn := mkC (c_win c) (c_mfs c) (c_init c) (c_strs c) (c_wait c) (c_err c) true.
Definition mem_z (x : Z) (l : list Z) : bool := existsb (Z.eqb x) l.

(* cond.Wait of the sender of `sid`; cond.Broadcast *)
Definition park (c : conn) (sid : Z) : conn := mkC (c_win c) (c_mfs c) (c_init c) (c_strs c) (sid :: c_wait c) (c_err c) (c_panic c).
Definition broadcast (c : conn) : conn := mkC (c_win c) (c_mfs c) (c_init c) (c_strs c) [] (c_err c) (c_panic c).

(* server processSettingInitialWindowSize: `for _, st := range sc.streams { if !st.flow.add(growth) { return err } }`
   (streams after the failing one keep their window; the iteration order of the Go map is the list order here) *)
Fixpoint add_all_stop (delta : Z) (l : list strm) : list strm * bool :=
  match l with
  | [] => ([], true)
  | s :: r =>
      let a := flow_add (s_win s) delta in
      if snd a then let x := add_all_stop delta r in (set_win (fst a) s :: fst x, snd x)
      else (s :: r, false)
  end.
(* client processSettings: `for _, cs := range cc.streams { cs.flow.add(delta) }`  (result ignored) *)
Definition add_all_ignore (delta : Z) (l : list strm) : list strm :=
  map (fun s => set_win (fst (flow_add (s_win s) delta)) s) l.

(* MFramer.writeData: frames of at most `ch` bytes; (offset, length) of each *)
Fixpoint chunks_fuel (fuel : nat) (ch sid off t : Z) : list frame :=
  match fuel with
  | O => []
  | S f => if t <=? 0 then [] else
           let l := Z.min t ch in (sid, off, l) :: chunks_fuel f ch sid (off + l) (t - l)
  end.
Definition chunks (ch sid off t : Z) : list frame := chunks_fuel (Z.to_nat (t / ch) + 1) ch sid off t.

(* SETTINGS processing ends with cond.Broadcast on the server; on the client iff the source has it *)
Definition settings_wake (g : cfg) (c : conn) : conn :=
  match g_side g with
  | Server => broadcast c
  | Client => if g_wakes g then broadcast c else c
  end.

(* processWindowUpdate: cond.Broadcast() unconditionally, or only `if exhausted` *)
Definition winupd_wake (g : cfg) (exhausted : bool) (c : conn) : conn :=
  if g_wu_always g || exhausted then broadcast c else c.

(* frames of the peer; after a connection error the read loop handles no further frame *)
Definition is_peer_frame (e : event) : bool :=
  match e with EWinUpd _ _ | EWinUpdConn _ | ESetInit _ | ESetMaxFrame _ => true | _ => false end.
Definition dropped (c : conn) (e : event) : bool := c_err c && is_peer_frame e.

Definition step (g : cfg) (c : conn) (e : event) : conn * list frame :=
  if dropped c e then (c, []) else
  match e with
  | EOpen sid body =>
      if has_s sid (c_strs c) then (c, [])
      else (with_strs c (c_strs c ++ [mkS sid (fst (flow_add 0 (c_init c))) body 0]), [])
  | EWinUpd sid inc =>
      match find_s sid (c_strs c) with
      | None => (c, [])                                     (* unknown stream: ignored, no broadcast *)
      | Some s =>
          let exhausted := flow_available (s_win s) (c_win c) =? 0 in    (* fl.available() before the add *)
          let a := flow_add (s_win s) (wrap32 inc) in
          if snd a then (winupd_wake g exhausted (with_strs c (upd_s sid (set_win (fst a)) (c_strs c))), [])
          else (set_err c, [])                              (* ConnectionError(ErrCodeFlowControl) *)
      end
  | EWinUpdConn inc =>
      let exhausted := c_win c =? 0 in                      (* the connection flow has no parent: available() = n *)
      let a := flow_add (c_win c) (wrap32 inc) in
      if snd a then (winupd_wake g exhausted (with_win c (fst a)), []) else (set_err c, [])
  | ESetInit v =>
      if (v <? 0) || (i32_max <? v) then (set_err c, [])    (* Setting.Valid / `s.Val > math.MaxInt32` *)
      else
        let delta := wrap32 (v - c_init c) in
        match g_side g with
        | Server =>
            let x := add_all_stop delta (c_strs c) in
            let c' := with_strs (with_init c v) (fst x) in
            if snd x then (broadcast c', []) else (set_err c', [])
        | Client =>
            (settings_wake g (with_strs (with_init c v) (add_all_ignore delta (c_strs c))), [])
        end
  | ESetMaxFrame v =>
      match g_side g with
      | Server => if (v <? 16384) || (16777215 <? v) then (set_err c, [])   (* Setting.Valid *)
                  else (broadcast (with_mfs c v), [])
      | Client => if g_validated g && ((v <? 16384) || (16777215 <? v)) then (set_err c, [])
                  else (settings_wake g (with_mfs c v), []) (* unvalidated unless the source calls s.Valid() *)
      end
  | ESend sid =>
      match find_s sid (c_strs c) with
      | None => (c, [])
      | Some s =>
          if mem_z sid (c_wait c) then (c, [])              (* blocked in cond.Wait *)
          else
            let rem := s_body s - s_sent s in
            if rem <=? 0 then (c, [])                       (* `for len(remain) > 0` is over *)
            else
              let a := flow_available (s_win s) (c_win c) in
              if a <=? 0 then (park c sid, [])
              else
                let t1 := if rem <? a then rem else a in
                let m := wrap32 (c_mfs c) in
                let t := if m <? t1 then m else t1 in
                if t <=? 0 then (set_panic c, [])
                else match flow_take (s_win s) (c_win c) t with
                     | None => (set_panic c, [])
                     | Some w =>
                         (with_win (with_strs c (upd_s sid (took (fst w) t) (c_strs c))) (snd w),
                          chunks (g_chunk g) sid (s_sent s) t)
                     end
      end
  | EWake => (broadcast c, [])
  end.

(* a schedule: final state and the DATA frames in the order of emission *)
Fixpoint run (g : cfg) (c : conn) (evs : list event) : conn * list frame :=
  match evs with
  | [] => (c, [])
  | e :: r => let x := step g c e in let y := run g (fst x) r in (fst y, snd x ++ snd y)
  end.

(* the events MOSN handled: the schedule without the peer frames that arrived after a connection error *)
Fixpoint effective (g : cfg) (c : conn) (evs : list event) : list event :=
  match evs with
  | [] => []
  | e :: r => (if dropped c e then [] else [e]) ++ effective g (fst (step g c e)) r
  end.

(* the same, frames grouped by event *)
Fixpoint run_trace (g : cfg) (c : conn) (evs : list event) : conn * list (list frame) :=
  match evs with
  | [] => (c, [])
  | e :: r => let x := step g c e in let y := run_trace g (fst x) r in (fst y, snd x :: snd y)
  end.

(* ------------------------------------------------------------------ observables of a frame list *)
Fixpoint sent_total (fs : list frame) : Z :=
  match fs with [] => 0 | f :: r => f_len f + sent_total r end.
(* (offset, length) of the frames of one stream, in order *)
Fixpoint frames_of (sid : Z) (fs : list frame) : list (Z * Z) :=
  match fs with
  | [] => []
  | f :: r => if f_sid f =? sid then (f_off f, f_len f) :: frames_of sid r else frames_of sid r
  end.
Fixpoint len_sum (l : list (Z * Z)) : Z :=
  match l with [] => 0 | x :: r => snd x + len_sum r end.
Definition sent_on (sid : Z) (fs : list frame) : Z := len_sum (frames_of sid fs).
(* the pieces are consecutive, starting at `pos` *)
Fixpoint contig (pos : Z) (l : list (Z * Z)) : Prop :=
  match l with [] => True | x :: r => fst x = pos /\ 0 < snd x /\ contig (pos + snd x) r end.
(* "the complete body, in order": consecutive pieces from offset 0 up to the body length *)
Definition delivers (body : Z) (l : list (Z * Z)) : Prop := contig 0 l /\ len_sum l = body.

(* ------------------------------------------------------------------ what the peer granted (schedule side) *)
(* connection-wide ledger of a schedule prefix *)
Record gled := mkG {
  gl_init : Z;          (* SETTINGS_INITIAL_WINDOW_SIZE in force *)
  gl_conn : Z;          (* initial connection window + connection WINDOW_UPDATE increments *)
  gl_mfs : Z;           (* SETTINGS_MAX_FRAME_SIZE in force *)
  gl_ids : list Z;      (* streams opened *)
  gl_bodies : Z         (* sum of their body lengths *)
}.
Definition gstep (l : gled) (e : event) : gled :=
  match e with
  | ESetInit v => mkG v (gl_conn l) (gl_mfs l) (gl_ids l) (gl_bodies l)
  | ESetMaxFrame v => mkG (gl_init l) (gl_conn l) v (gl_ids l) (gl_bodies l)
  | EWinUpdConn inc => mkG (gl_init l) (gl_conn l + inc) (gl_mfs l) (gl_ids l) (gl_bodies l)
  | EOpen sid b => if mem_z sid (gl_ids l) then l
                   else mkG (gl_init l) (gl_conn l) (gl_mfs l) (sid :: gl_ids l) (gl_bodies l + b)
  | _ => l
  end.
Definition gledger (cw i0 m0 : Z) (evs : list event) : gled := fold_left gstep evs (mkG i0 cw m0 [] 0).

(* per-stream ledger: opened?, WINDOW_UPDATE increments received since, body length *)
Record sled := mkSL { sl_open : bool; sl_incs : Z; sl_body : Z }.
Definition sstep (sid : Z) (l : sled) (e : event) : sled :=
  match e with
  | EOpen s b => if (s =? sid) && negb (sl_open l) then mkSL true 0 b else l
  | EWinUpd s inc => if (s =? sid) && sl_open l then mkSL true (sl_incs l + inc) (sl_body l) else l
  | _ => l
  end.
Definition sledger (sid : Z) (evs : list event) : sled := fold_left (sstep sid) evs (mkSL false 0 0).

(* credit of a stream after a schedule prefix: initial window in force + its WINDOW_UPDATE increments *)
Definition stream_credit (cw i0 m0 sid : Z) (evs : list event) : Z :=
  gl_init (gledger cw i0 m0 evs) + sl_incs (sledger sid evs).
Definition conn_credit (cw i0 m0 : Z) (evs : list event) : Z := gl_conn (gledger cw i0 m0 evs).

(* events a conforming peer / the local side can produce *)
Definition ev_valid (e : event) : Prop :=
  match e with
  | EOpen _ b => 0 <= b
  | EWinUpd _ inc => 1 <= inc <= i32_max
  | EWinUpdConn inc => 1 <= inc <= i32_max
  | ESetInit v => 0 <= v <= i32_max
  | ESetMaxFrame v => 16384 <= v <= 16777215
  | ESend _ => True
  | EWake => True
  end.

(* RFC 7540 6.9.1/6.9.2: a peer must not let a window exceed 2^31-1.  Sufficient on the schedule alone: *)
Definition bounded (cw i0 m0 : Z) (evs : list event) : Prop :=
  forall p q, evs = p ++ q ->
    conn_credit cw i0 m0 p <= i32_max /\ forall sid, stream_credit cw i0 m0 sid p <= i32_max.

Fixpoint count_send (sid : Z) (evs : list event) : Z :=
  match evs with
  | [] => 0
  | ESend s :: r => (if s =? sid then 1 else 0) + count_send sid r
  | _ :: r => count_send sid r
  end.

(* ------------------------------------------------------------------ liveness, as a statement about the model *)
(* `evs`: any schedule of a peer that keeps the credits within 2^31-1, after which the stream `sid` has been given
   credit for its whole body, and the connection credit covers the bodies of all streams opened; then the sender
   of `sid` runs (k iterations, no further event needed).  Claim: its DATA frames carry the whole body, in order. *)
Definition liveness_statement (g : cfg) : Prop :=
  forall cw i0 m0 evs sid body (k : nat),
    0 <= cw <= i32_max -> 0 <= i0 <= i32_max -> 16384 <= m0 <= 16777215 ->
    Forall ev_valid evs -> bounded cw i0 m0 evs ->
    sl_open (sledger sid evs) = true -> sl_body (sledger sid evs) = body ->
    body <= stream_credit cw i0 m0 sid evs ->
    gl_bodies (gledger cw i0 m0 evs) <= conn_credit cw i0 m0 evs ->
    body / 16384 + 1 <= Z.of_nat k ->
    delivers body (frames_of sid (snd (run g (conn_new cw i0 m0) (evs ++ repeat (ESend sid) k)))).

(* the same with an arbitrary continuation `tail` (other streams sending, more credit, settings changes) during
   which the credit conditions keep holding and the sender of `sid` gets enough iterations *)
Definition liveness_general_statement (g : cfg) : Prop :=
  forall cw i0 m0 pre tail sid body,
    0 <= cw <= i32_max -> 0 <= i0 <= i32_max -> 16384 <= m0 <= 16777215 ->
    Forall ev_valid (pre ++ tail) -> bounded cw i0 m0 (pre ++ tail) ->
    sl_open (sledger sid pre) = true -> sl_body (sledger sid pre) = body ->
    (forall p q, tail = p ++ q ->
       body <= stream_credit cw i0 m0 sid (pre ++ p) /\
       gl_bodies (gledger cw i0 m0 (pre ++ p)) <= conn_credit cw i0 m0 (pre ++ p)) ->
    body / 16384 + 1 <= count_send sid tail ->
    delivers body (frames_of sid (snd (run g (conn_new cw i0 m0) (pre ++ tail)))).
