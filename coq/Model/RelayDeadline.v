(* Model of the write deadline of a connection (C01, TCP relay: "the byte stream is relayed unchanged ... including the
   bytes a peer sent immediately before closing"): pkg/network/connection.go setWriteDeadline + writeDirectly/doWrite.
   ONLY executable definitions; proofs are in Proofs/RelayDeadline.v.

   Go:   writeDirectly: ... c.appendBuffer(buf); c.setWriteDeadline(); _, err = c.doWrite()
         setWriteDeadline: c.rawConnection.SetWriteDeadline(time.Now().Add(types.DefaultConnWriteTimeout))   (tcp)
   A raw write that cannot complete before the deadline in force fails with an i/o time-out; the connection is then
   closed with OnWriteTimeout and the stream proxy closes the other side after a flush: the peer sees a clean end after
   a truncated stream.  So WHICH deadline is in force during a write decides whether bytes are lost.

   Time is an integer (any unit).  The writes of one connection are sequential: write k starts `gap` after the end
   of write k-1 and the receiver keeps it blocked for `stall` (0 = it completes at once).
   fresh = true : every write arms now + W before it starts (the shape of the source; read by the translator)
   fresh = false: the deadline armed by an earlier write is kept while it is still in the future (seeded variant) *)
From Coq Require Import List ZArith Bool.
Import ListNotations.
Open Scope Z_scope.

Record wr := mkWr { gap : Z; stall : Z }.

Record dstate := mkD { now : Z; armed : option Z }.   (* the current time, the deadline armed on the raw connection *)

Inductive wresult := Done (finished : Z) | TimedOut (deadline : Z).

(* setWriteDeadline at time t *)
Definition arm (fresh : bool) (W : Z) (t : Z) (a : option Z) : Z :=
  if fresh then t + W
  else match a with Some d => if t <? d then d else t + W | None => t + W end.

(* one write: (result, deadline in force, state afterwards) *)
Definition write1 (fresh : bool) (W : Z) (s : dstate) (w : wr) : wresult * Z * dstate :=
  let start := now s + Z.max 0 (gap w) in
  let d := arm fresh W start (armed s) in
  let fin := start + Z.max 0 (stall w) in
  if fin <? d then (Done fin, d, mkD fin (Some d)) else (TimedOut d, d, mkD d (Some d)).

(* a history of writes; it ends at the first time-out (the connection is closed) *)
Fixpoint writes (fresh : bool) (W : Z) (s : dstate) (l : list wr) : list (wr * wresult * Z (*start*) * Z (*deadline*)) :=
  match l with
  | [] => []
  | w :: r =>
      let start := now s + Z.max 0 (gap w) in
      let '(res, d, s') := write1 fresh W s w in
      (w, res, start, d) :: match res with Done _ => writes fresh W s' r | TimedOut _ => [] end
  end.

Definition d0 := mkD 0 None.

(* --- correspondence: what the scripted socket saw - for each Write call of the connection, the time of the call and
   the deadline armed at that moment (ms since the first one); tol = scheduling tolerance *)
Record dl_obs := mkDl { o_start : Z; o_deadline : Z }.
Definition dl_ok (W tol : Z) (o : dl_obs) : bool :=
  (* fresh shape: deadline - start = W up to the tolerance (the deadline is armed just before the write) *)
  (W - tol <=? o_deadline o - o_start o) && (o_deadline o - o_start o <=? W + tol).
Fixpoint dl_mm_from (W tol : Z) (i : nat) (l : list (list dl_obs)) : list nat :=
  match l with
  | [] => []
  | k :: l' => if forallb (dl_ok W tol) k then dl_mm_from W tol (S i) l' else i :: dl_mm_from W tol (S i) l'
  end.
Definition dl_mismatches (fresh : bool) (W tol : Z) (l : list (list dl_obs)) : list nat :=
  if fresh then dl_mm_from W tol 0 l else [0%nat].
