(* Model/HpackCases.v (group h2): executable comparison functions used by the correspondence shards
   (run the Hpack model on the inputs the real code was run on, compare canonical observables). *)
From Coq Require Import List NArith Bool.
From MV Require Import Lib.HBits Lib.HCaseIO Gen.HpackTables Model.Hpack.
Import ListNotations.
Open Scope N_scope.

Definition fobs := (bytes * bytes * bool)%type.
Definition fobs_of (f : hfield) : fobs := (hname f, hvalue f, hsens f).
Definition fobs_eqb (a b : fobs) : bool :=
  bytes_eqb (fst (fst a)) (fst (fst b)) && bytes_eqb (snd (fst a)) (snd (fst b)) && Bool.eqb (snd a) (snd b).

Definition wres_eqb (a b : wres) : bool :=
  match a, b with
  | WOk, WOk => true
  | WErr x, WErr y => herr_eqb x y
  | WPanic, WPanic => true
  | WFuel, WFuel => true
  | _, _ => false
  end.

Definition ent_eqb (a b : bytes * bytes) : bool := bytes_eqb (fst a) (fst b) && bytes_eqb (snd a) (snd b).

(* table snapshot: entries oldest first, size, maxSize *)
Definition tsnap := (list (bytes * bytes) * N * N)%type.
Definition tsnap_of (t : dtab) : tsnap := (dt_ents t, dt_size t, dt_max t).
Definition tsnap_eqb (a b : tsnap) : bool :=
  list_eqb ent_eqb (fst (fst a)) (fst (fst b)) && (snd (fst a) =? snd (fst b)) && (snd a =? snd b).

(* ------------------------------------------------------------ decoder sessions *)
Inductive dop :=
| DWrite (p : bytes)
| DClose
| DSetMax (v : N)        (* Decoder.SetMaxDynamicTableSize *)
| DSetAllowed (v : N)    (* Decoder.SetAllowedMaxDynamicTableSize *)
| DSetEmit (b : bool)    (* Decoder.SetEmitEnabled *)
| DSetMaxStr (n : N).    (* Decoder.SetMaxStringLength *)

Definition dobs := (list fobs * wres)%type.
Definition dobs_eqb (a b : dobs) : bool := list_eqb fobs_eqb (fst a) (fst b) && wres_eqb (snd a) (snd b).

Definition run_dop (st : dstate) (o : dop) : dstate * dobs :=
  match o with
  | DWrite p => let r := dec_write st p in (fst (fst r), (map fobs_of (snd (fst r)), snd r))
  | DClose => let r := dec_close st in (fst r, ([], snd r))
  | DSetMax v => (d_with_tab st (dt_set_max (d_tab st) v), ([], WOk))
  | DSetAllowed v => (d_with_tab st (mkDtab (dt_ents (d_tab st)) (dt_size (d_tab st)) (dt_max (d_tab st)) v), ([], WOk))
  | DSetEmit b => (d_with_emit st b, ([], WOk))
  | DSetMaxStr n => (d_with_maxstr st n, ([], WOk))
  end.

Fixpoint run_dops (st : dstate) (ops : list dop) : dstate * list dobs :=
  match ops with
  | [] => (st, [])
  | o :: r => let x := run_dop st o in let y := run_dops (fst x) r in (fst y, snd x :: snd y)
  end.

(* (initial table size, ops, observation per op, final table) *)
Definition dec_case := (N * list dop * list dobs * tsnap)%type.
Definition dec_check (c : dec_case) : bool :=
  let '(mx, ops, obs, fin) := c in
  let r := run_dops (dec_new mx) ops in
  list_eqb dobs_eqb (snd r) obs &&
  (* after an error the connection is torn down: the table is compared only for sessions without error *)
  (negb (forallb (fun o => wres_eqb (snd o) WOk) obs) || tsnap_eqb (tsnap_of (d_tab (fst r))) fin).
Definition dec_mismatches := mismatches dec_check.

(* ------------------------------------------------------------ encoder sessions *)
Inductive eop :=
| EWrite (n v : bytes) (s : bool)
| ESetMax (v : N)
| ESetLimit (v : N).

Definition run_eop (e : estate) (o : eop) : estate * bytes :=
  match o with
  | EWrite n v s => enc_write_field e (mkF n v s)
  | ESetMax v => (enc_set_max e v, [])
  | ESetLimit v => (enc_set_limit e v, [])
  end.

Fixpoint run_eops (e : estate) (ops : list eop) : estate * list bytes :=
  match ops with
  | [] => (e, [])
  | o :: r => let x := run_eop e o in let y := run_eops (fst x) r in (fst y, snd x :: snd y)
  end.

Definition enc_case := (list eop * list bytes * tsnap)%type.
Definition enc_check (c : enc_case) : bool :=
  let '(ops, outs, fin) := c in
  let r := run_eops enc_new ops in
  list_eqb bytes_eqb (snd r) outs && tsnap_eqb (tsnap_of (e_tab (fst r))) fin.
Definition enc_mismatches := mismatches enc_check.

(* ------------------------------------------------------------ Huffman, integers *)
Definition hout_bytes_eqb (a b : hout bytes) : bool :=
  match a, b with
  | HOk x, HOk y => bytes_eqb x y
  | HNeedMore, HNeedMore => true
  | HErr x, HErr y => herr_eqb x y
  | HPanic, HPanic => true
  | HFuel, HFuel => true
  | _, _ => false
  end.

(* (maxlen, input, result of huffmanDecode) *)
Definition huffdec_case := (N * bytes * hout bytes)%type.
Definition huffdec_check (c : huffdec_case) : bool :=
  let '(ml, v, r) := c in hout_bytes_eqb (huff_decode ml v) r.
Definition huffdec_mismatches := mismatches huffdec_check.

(* (s, AppendHuffmanString(nil, s), HuffmanEncodeLength(s)) *)
Definition huffenc_case := (bytes * bytes * N)%type.
Definition huffenc_check (c : huffenc_case) : bool :=
  let '(s, enc, l) := c in bytes_eqb (huff_encode s) enc && (huff_enc_len s =? l).
Definition huffenc_mismatches := mismatches huffenc_check.

(* (prefix bits n, value, appendVarInt output) and (n, input, readVarInt result) *)
Definition intenc_case := (N * N * bytes)%type.
Definition intenc_check (c : intenc_case) : bool :=
  let '(n, i, out) := c in bytes_eqb (enc_int n i) out.
Definition intenc_mismatches := mismatches intenc_check.

Definition hout_int_eqb (a b : hout (N * bytes)) : bool :=
  match a, b with
  | HOk x, HOk y => (fst x =? fst y) && bytes_eqb (snd x) (snd y)
  | HNeedMore, HNeedMore => true
  | HErr x, HErr y => herr_eqb x y
  | HPanic, HPanic => true
  | _, _ => false
  end.
Definition intdec_case := (N * bytes * hout (N * bytes))%type.
Definition intdec_check (c : intdec_case) : bool :=
  let '(n, p, r) := c in hout_int_eqb (dec_int n p) r.
Definition intdec_mismatches := mismatches intdec_check.
