(* Model of the plain TCP relay (C01, last sentence): pkg/network/connection.go (doRead / onRead / Write /
   writeDirectly / doWrite / Close) under pkg/filter/network/streamproxy/streamproxy.go (OnData, onUpstreamData,
   onUpstreamEvent, onDownstreamEvent).  ONLY executable definitions; proofs are in Proofs/Relay.v.

   Two connection objects: D (downstream, accepted by the listener) and U (upstream, dialled by the filter).
   The environment supplies events:
     EvConnect ok            OnNewConnection: the upstream Connect() returned (ok) or every attempt failed
     EvRead X bytes e wo     one rawConnection.Read of X's read loop returned (bytes, e); `wo` are the outcomes of
                             the raw socket writes this step performs, in order (missing entries = complete write)
   Everything MOSN does in reaction to one Read result runs on the reading goroutine before the next Read of that
   connection (Write is writeDirectly: synchronous), so one event = one atomic step.  Steps of the two read loops
   interleave in any order = any event list.

   Go, connection.go (abridged):
     doRead:   n, err = readBuffer.ReadOnce(raw)            // appends the n bytes to readBuffer even if err != nil
               if err != nil { if closed {return err}
                               if timeout { OnReadTimeout callbacks; if n == 0 {return err} }
                               else if err != io.EOF {return err} }      // io.EOF falls through: bytes are delivered
               if n == 0 && err == nil { err = io.EOF }
               onRead(n); return err
     onRead:   if !readEnabled {return}; if readBuffer.Len()==0 {return}; filterManager.OnRead()
     loop:     if readEnabled { err := doRead(); timeout -> continue; io.EOF -> Close(NoFlush, RemoteClose);
                                other -> Close(NoFlush, OnReadErrClose) }
     Write:    writeDirectly: if internalStopChan closed {return ErrConnectionHasClosed}
               appendBuffer; doWrite (net.Buffers.WriteTo: consumes what was written, keeps the rest);
               err == buffer.EOF (an EOF marker buffer was flushed) -> Close(NoFlush, LocalClose)
               timeout -> Close(NoFlush, OnWriteTimeout); other errors: the connection stays open
     Close:    FlushWrite -> Write(EOF marker buffer); return        // the event type argument is ignored
               NoFlush   -> CAS closed; close(internalStopChan); raw.Close(); listeners.OnEvent(ev)
   streamproxy.go:
     OnData(buf):        upstream.Write(buf.Clone()); buf.Drain(all)         onUpstreamData: the mirror image
     on{Down,Up}streamEvent(ev): RemoteClose|OnWriteTimeout|OnWriteErrClose -> other.Close(FlushWrite, _)
                                 LocalClose|OnReadErrClose                  -> other.Close(NoFlush, LocalClose)
     (OnWriteErrClose is never raised by connection.go.)
   The reaction table is the same for both sides, so the model is written once over an ordered pair (x, y) =
   (the connection the event happens on, the other one). *)
From Coq Require Import List NArith Bool.
Import ListNotations.

Inductive side := D | U.
Inductive rerr := RNone | REOF | RTimeout | RErr.
(* outcome of one doWrite: everything written / k bytes then a time-out / k bytes then another error *)
Inductive wres := WOk | WTimeout (k : nat) | WErr (k : nat).
Inductive cev := RemoteClose | LocalClose | OnReadErrClose | OnWriteTimeout.
(* what the connection's filter chain and event listeners see, in order *)
Inductive tev := TData (l : list N) | TClose (e : cev).

Record conn := mkConn {
  c_rbuf : list N;      (* readBuffer: read from the socket, not yet consumed by the filter chain *)
  c_ren : bool;         (* readEnabled *)
  c_closed : bool;
  c_pend : list N;      (* writeBuffers left over after a failed doWrite *)
  c_peof : bool;        (* an EOF marker buffer is among the pending buffers *)
  c_out : list N;       (* bytes written to the raw socket, in order *)
  c_in : list N;        (* ghost: every byte a raw Read returned, in order *)
  c_trace : list tev;   (* ghost: OnData calls of the filter chain and close events, in order *)
  c_werr : bool         (* ghost: some raw write on this connection failed *)
}.

Definition set_rbuf c v := mkConn v (c_ren c) (c_closed c) (c_pend c) (c_peof c) (c_out c) (c_in c) (c_trace c) (c_werr c).
Definition set_ren c v := mkConn (c_rbuf c) v (c_closed c) (c_pend c) (c_peof c) (c_out c) (c_in c) (c_trace c) (c_werr c).
Definition set_in c v := mkConn (c_rbuf c) (c_ren c) (c_closed c) (c_pend c) (c_peof c) (c_out c) v (c_trace c) (c_werr c).
Definition add_trace c t := mkConn (c_rbuf c) (c_ren c) (c_closed c) (c_pend c) (c_peof c) (c_out c) (c_in c) (c_trace c ++ [t]) (c_werr c).
Definition mark_closed c ev :=
  mkConn (c_rbuf c) (c_ren c) true (c_pend c) (c_peof c) (c_out c) (c_in c) (c_trace c ++ [TClose ev]) (c_werr c).

Definition next_w (wo : list wres) : wres * list wres :=
  match wo with [] => (WOk, []) | w :: r => (w, r) end.

(* does the proxy flush-close the other side on this event? *)
Definition flushes (ev : cev) : bool :=
  match ev with RemoteClose | OnWriteTimeout => true | LocalClose | OnReadErrClose => false end.

(* doWrite with everything appended: Some ev = the connection closes itself with ev afterwards *)
Definition do_write (c : conn) (pend : list N) (peof : bool) (w : wres) : conn * option cev :=
  match w with
  | WOk => (mkConn (c_rbuf c) (c_ren c) (c_closed c) [] false (c_out c ++ pend) (c_in c) (c_trace c) (c_werr c),
            if peof then Some LocalClose else None)
  | WTimeout k => (mkConn (c_rbuf c) (c_ren c) (c_closed c) (skipn k pend) peof (c_out c ++ firstn k pend) (c_in c) (c_trace c) true,
                   Some OnWriteTimeout)
  | WErr k => (mkConn (c_rbuf c) (c_ren c) (c_closed c) (skipn k pend) peof (c_out c ++ firstn k pend) (c_in c) (c_trace c) true,
               None)
  end.

(* Connection.Write(bytes) (eof = false) and Close(FlushWrite, _) = Write(EOF marker) (eof = true) *)
Definition wr (c : conn) (bytes : list N) (eof : bool) (wo : list wres) : conn * option cev * list wres :=
  if c_closed c then (c, None, wo)
  else let (w, wo') := next_w wo in
       let (c', cl) := do_write c (c_pend c ++ bytes) (c_peof c || eof) w in (c', cl, wo').

(* the proxy's listener reacts on y to the close event ev of x; x is already closed, so whatever y's own close
   makes the proxy call on x is a no-op (Close(NoFlush): CAS fails; Close(FlushWrite): Write on a closed connection) *)
Definition react (y : conn) (ev : cev) (wo : list wres) : conn * list wres :=
  if c_closed y then (y, wo)
  else if flushes ev then
    match wr y [] true wo with
    | (y1, Some e, wo1) => (mark_closed y1 e, wo1)
    | (y1, None, wo1) => (y1, wo1)
    end
  else (mark_closed y LocalClose, wo).

(* x.Close(NoFlush, ev) *)
Definition close_conn (x y : conn) (ev : cev) (wo : list wres) : conn * conn * list wres :=
  if c_closed x then (x, y, wo)
  else let (y1, wo1) := react y ev wo in (mark_closed x ev, y1, wo1).

(* x's filter hands bytes to y.Write; y may close itself, to which the proxy reacts on x *)
Definition deliver (x y : conn) (bytes : list N) (wo : list wres) : conn * conn * list wres :=
  match wr y bytes false wo with
  | (y1, None, wo1) => (x, y1, wo1)
  | (y1, Some e, wo1) => let (x1, wo2) := react x e wo1 in (x1, mark_closed y1 e, wo2)
  end.

Definition is_nil {A} (l : list A) : bool := match l with [] => true | _ => false end.

(* onRead (readEnabled holds): the filter chain gets the whole read buffer and drains it *)
Definition on_read (x y : conn) (wo : list wres) : conn * conn * list wres :=
  if is_nil (c_rbuf x) then (x, y, wo)
  else deliver (add_trace (set_rbuf x []) (TData (c_rbuf x))) y (c_rbuf x) wo.

(* one iteration of x's read loop whose raw Read returned (bytes, e) *)
Definition rd (x y : conn) (bytes : list N) (e : rerr) (wo : list wres) : conn * conn :=
  if c_closed x || negb (c_ren x) then (x, y)
  else
    let x0 := set_rbuf (set_in x (c_in x ++ bytes)) (c_rbuf x ++ bytes) in
    match e with
    | RErr => let '(x1, y1, _) := close_conn x0 y OnReadErrClose wo in (x1, y1)
    | RTimeout => if is_nil bytes then (x0, y) else let '(x1, y1, _) := on_read x0 y wo in (x1, y1)
    | RNone | REOF =>
        let eof := match e with REOF => true | _ => is_nil bytes end in
        let '(x1, y1, wo1) := on_read x0 y wo in
        if eof then let '(x2, y2, _) := close_conn x1 y1 RemoteClose wo1 in (x2, y2) else (x1, y1)
    end.

Record st := mkSt { s_d : conn; s_u : conn; s_tried : bool }.

Inductive event :=
| EvConnect (ok : bool)
| EvRead (x : side) (bytes : list N) (e : rerr) (wo : list wres).

Definition conn0 (ren : bool) := mkConn [] ren false [] false [] [] [] false.
(* InitializeReadFilterCallbacks disables reading on D; a client connection starts read-enabled but has no read
   loop before Connect() succeeds *)
Definition st0 := mkSt (conn0 false) (conn0 false) false.

Definition step (s : st) (ev : event) : st :=
  match ev with
  | EvConnect ok =>
      if s_tried s then s
      else if ok then mkSt (set_ren (s_d s) true) (set_ren (s_u s) true) true
      else (* onInitFailure: D.Close(NoFlush, LocalClose); the listener closes the never-connected client
              connection, which raises no event *)
        mkSt (mark_closed (s_d s) LocalClose)
             (mkConn [] false true [] false [] [] [] false) true
  | EvRead D bytes e wo => let (d, u) := rd (s_d s) (s_u s) bytes e wo in mkSt d u (s_tried s)
  | EvRead U bytes e wo => let (u, d) := rd (s_u s) (s_d s) bytes e wo in mkSt d u (s_tried s)
  end.

Definition run (evs : list event) : st := fold_left step evs st0.

Definition get (s : st) (x : side) : conn := match x with D => s_d s | U => s_u s end.
Definition other (x : side) : side := match x with D => U | U => D end.

(* close events of a connection, in order *)
Fixpoint closes (t : list tev) : list cev :=
  match t with [] => [] | TClose e :: r => e :: closes r | TData _ :: r => closes r end.
(* bytes handed to the filter chain, concatenated *)
Fixpoint fdata (t : list tev) : list N :=
  match t with [] => [] | TData l :: r => l ++ fdata r | TClose _ :: r => fdata r end.
