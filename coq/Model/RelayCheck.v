(* Correspondence cases for Model/Relay.v (definitions only): the events of one run of the real read loop + real
   tcp_proxy filter, and what was observed. *)
From Coq Require Import List NArith Bool.
From MV Require Import Model.Relay.
Import ListNotations.

Definition cev_eqb (a b : cev) : bool :=
  match a, b with
  | RemoteClose, RemoteClose | LocalClose, LocalClose | OnReadErrClose, OnReadErrClose | OnWriteTimeout, OnWriteTimeout => true
  | _, _ => false
  end.
Fixpoint list_eqb {A} (eqb : A -> A -> bool) (a b : list A) : bool :=
  match a, b with
  | [], [] => true
  | x :: a', y :: b' => eqb x y && list_eqb eqb a' b'
  | _, _ => false
  end.
Definition bytes_eqb := list_eqb N.eqb.
Definition tev_eqb (a b : tev) : bool :=
  match a, b with
  | TData l, TData m => bytes_eqb l m
  | TClose e, TClose f => cev_eqb e f
  | _, _ => false
  end.

(* observed: bytes written to D's socket, bytes written to U's socket, D's trace (OnData calls of the filter chain +
   close events, in order), U's close events.
   mode 0: scripted downstream socket - the events are the results of the socket's Read calls, D's trace is compared
           exactly;
   mode 2: real sockets through a real listener - D's filter chain is not observable: bytes and U's close events only *)
Record relay_case := mkCase {
  k_events : list event;
  k_out_d : list N;
  k_out_u : list N;
  k_trace_d : list tev;
  k_closes_u : list cev;
  k_mode : nat
}.

Definition relay_case_ok (k : relay_case) : bool :=
  let s := run (k_events k) in
  bytes_eqb (c_out (s_d s)) (k_out_d k) && bytes_eqb (c_out (s_u s)) (k_out_u k) &&
  match k_mode k with
  | O => list_eqb tev_eqb (c_trace (s_d s)) (k_trace_d k)
  | _ => true
  end &&
  list_eqb cev_eqb (closes (c_trace (s_u s))) (k_closes_u k).

Fixpoint relay_mm_from (i : nat) (l : list relay_case) : list nat :=
  match l with
  | [] => []
  | k :: l' => if relay_case_ok k then relay_mm_from (S i) l' else i :: relay_mm_from (S i) l'
  end.
Definition relay_mismatches (l : list relay_case) : list nat := relay_mm_from 0 l.
