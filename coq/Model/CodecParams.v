(* Model/CodecParams.v (codec) - the protocol constants and source shapes that the codec models are written with and the
   theorems are proved about ("expected" values).  This file is COMMITTED, not generated: nothing under Model/ or Proofs/
   imports Gen/*, so a change of the mosn source that flips a generated value does not rebuild the proof closure.
   The translators regenerate Gen/ProtoConsts.v and Gen/CodecSrc.v from /repo on every run; the Props files compare
   `MV.Gen.ProtoConsts.ProtoConsts_all` / `MV.Gen.CodecSrc.CodecSrc_all` with the values below by conversion (eq_refl): when
   the tree no longer has these offsets / magic numbers / repaired shapes the obligation fails (and the correspondence
   shards, which evaluate the model with these values against the real code, disagree).
   To refresh after an intended change of the translators: copy the two Gen files here (see notes/codec.md). *)
From Coq Require Import NArith.
Open Scope N_scope.
Definition bolt_ProtocolCode : N := 1.
Definition bolt_RequestHeaderLen : N := 22.
Definition bolt_ResponseHeaderLen : N := 20.
Definition bolt_LessLen : N := 20.
Definition bolt_RequestIdIndex : N := 5.
Definition bolt_CmdTypeResponse : N := 0.
Definition bolt_CmdTypeRequest : N := 1.
Definition bolt_CmdTypeRequestOneway : N := 2.
Definition bolt_CmdCodeHeartbeat : N := 0.
Definition boltv2_ProtocolCode : N := 2.
Definition boltv2_RequestHeaderLen : N := 24.
Definition boltv2_ResponseHeaderLen : N := 22.
Definition boltv2_LessLen : N := 22.
Definition boltv2_RequestIdIndex : N := 6.
Definition dubbo_HeaderLen : N := 16.
Definition dubbo_IdLen : N := 8.
Definition dubbo_MagicIdx : N := 0.
Definition dubbo_FlagIdx : N := 2.
Definition dubbo_StatusIdx : N := 3.
Definition dubbo_IdIdx : N := 4.
Definition dubbo_DataLenIdx : N := 12.
Definition dubbo_DataLenSize : N := 4.
Definition dubbo_Magic0 : N := 218.
Definition dubbo_Magic1 : N := 187.
Definition dubbo_EventRequest : N := 1.
Definition dubbo_EventResponse : N := 0.
Definition thrift_MessageLenSize : N := 4.
Definition thrift_MagicLen : N := 2.
Definition thrift_MessageLenIdx : N := 2.
Definition thrift_MessageHeaderLenIdx : N := 6.
Definition thrift_MessageHeaderLenSize : N := 2.
Definition thrift_HeaderIdx : N := 9.
Definition thrift_HeaderLen : N := 9.
Definition thrift_IdLen : N := 8.
Definition thrift_Magic0 : N := 218.
Definition thrift_Magic1 : N := 188.
Definition tars_MessageSizeLen : N := 4.
Definition tars_IVersionLen : N := 2.
Definition tars_IVersionHeaderIdx : N := 4.
Definition tars_MaxPackageLength : N := 10485760.
Definition bolt_req_classLen_lo : N := 14.
Definition bolt_req_classLen_hi : N := 16.
Definition bolt_req_headerLen_lo : N := 16.
Definition bolt_req_headerLen_hi : N := 18.
Definition bolt_req_contentLen_lo : N := 18.
Definition bolt_req_contentLen_hi : N := 22.
Definition bolt_req_CmdCode_lo : N := 2.
Definition bolt_req_CmdCode_hi : N := 4.
Definition bolt_req_Version_lo : N := 4.
Definition bolt_req_Version_hi : N := 5.
Definition bolt_req_RequestId_lo : N := 5.
Definition bolt_req_RequestId_hi : N := 9.
Definition bolt_req_Codec_lo : N := 9.
Definition bolt_req_Codec_hi : N := 10.
Definition bolt_req_Timeout_lo : N := 10.
Definition bolt_req_Timeout_hi : N := 14.
Definition bolt_resp_classLen_lo : N := 12.
Definition bolt_resp_classLen_hi : N := 14.
Definition bolt_resp_headerLen_lo : N := 14.
Definition bolt_resp_headerLen_hi : N := 16.
Definition bolt_resp_contentLen_lo : N := 16.
Definition bolt_resp_contentLen_hi : N := 20.
Definition bolt_resp_CmdCode_lo : N := 2.
Definition bolt_resp_CmdCode_hi : N := 4.
Definition bolt_resp_Version_lo : N := 4.
Definition bolt_resp_Version_hi : N := 5.
Definition bolt_resp_RequestId_lo : N := 5.
Definition bolt_resp_RequestId_hi : N := 9.
Definition bolt_resp_Codec_lo : N := 9.
Definition bolt_resp_Codec_hi : N := 10.
Definition bolt_resp_ResponseStatus_lo : N := 10.
Definition bolt_resp_ResponseStatus_hi : N := 12.
Definition boltv2_req_classLen_lo : N := 16.
Definition boltv2_req_classLen_hi : N := 18.
Definition boltv2_req_headerLen_lo : N := 18.
Definition boltv2_req_headerLen_hi : N := 20.
Definition boltv2_req_contentLen_lo : N := 20.
Definition boltv2_req_contentLen_hi : N := 24.
Definition boltv2_req_CmdCode_lo : N := 3.
Definition boltv2_req_CmdCode_hi : N := 5.
Definition boltv2_req_Version_lo : N := 5.
Definition boltv2_req_Version_hi : N := 6.
Definition boltv2_req_RequestId_lo : N := 6.
Definition boltv2_req_RequestId_hi : N := 10.
Definition boltv2_req_Codec_lo : N := 10.
Definition boltv2_req_Codec_hi : N := 11.
Definition boltv2_req_Timeout_lo : N := 12.
Definition boltv2_req_Timeout_hi : N := 16.
Definition boltv2_req_Version1_lo : N := 1.
Definition boltv2_req_Version1_hi : N := 2.
Definition boltv2_req_SwitchCode_lo : N := 11.
Definition boltv2_req_SwitchCode_hi : N := 12.
Definition boltv2_resp_classLen_lo : N := 14.
Definition boltv2_resp_classLen_hi : N := 16.
Definition boltv2_resp_headerLen_lo : N := 16.
Definition boltv2_resp_headerLen_hi : N := 18.
Definition boltv2_resp_contentLen_lo : N := 18.
Definition boltv2_resp_contentLen_hi : N := 22.
Definition boltv2_resp_CmdCode_lo : N := 3.
Definition boltv2_resp_CmdCode_hi : N := 5.
Definition boltv2_resp_Version_lo : N := 5.
Definition boltv2_resp_Version_hi : N := 6.
Definition boltv2_resp_RequestId_lo : N := 6.
Definition boltv2_resp_RequestId_hi : N := 10.
Definition boltv2_resp_Codec_lo : N := 10.
Definition boltv2_resp_Codec_hi : N := 11.
Definition boltv2_resp_ResponseStatus_lo : N := 12.
Definition boltv2_resp_ResponseStatus_hi : N := 14.
Definition boltv2_resp_Version1_lo : N := 1.
Definition boltv2_resp_Version1_hi : N := 2.
Definition boltv2_resp_SwitchCode_lo : N := 11.
Definition boltv2_resp_SwitchCode_hi : N := 12.
Definition bolt_cmdtype_idx : N := 1.
Definition boltv2_cmdtype_idx : N := 2.
From Coq Require Import List.
Import ListNotations.
Definition http_methods : list (list N) := [[67;79;78;78;69;67;84]%N; [68;69;76;69;84;69]%N; [71;69;84]%N; [72;69;65;68]%N; [76;73;78;75]%N; [79;80;84;73;79;78;83]%N; [80;65;84;67;72]%N; [80;79;83;84]%N; [80;85;84]%N; [84;82;65;67;69]%N; [85;78;76;73;78;75]%N].
Definition http_min_method : N := 3.
Definition http_max_method : N := 7.
Definition h2_preface : list N := [80;82;73;32;42;32;72;84;84;80;47;50;46;48;13;10;13;10;83;77;13;10;13;10]%N.
Definition ProtoConsts_all : list N * list (list N) * list N := ([bolt_ProtocolCode; bolt_RequestHeaderLen; bolt_ResponseHeaderLen; bolt_LessLen; bolt_RequestIdIndex; bolt_CmdTypeResponse; bolt_CmdTypeRequest; bolt_CmdTypeRequestOneway; bolt_CmdCodeHeartbeat; boltv2_ProtocolCode; boltv2_RequestHeaderLen; boltv2_ResponseHeaderLen; boltv2_LessLen; boltv2_RequestIdIndex; dubbo_HeaderLen; dubbo_IdLen; dubbo_MagicIdx; dubbo_FlagIdx; dubbo_StatusIdx; dubbo_IdIdx; dubbo_DataLenIdx; dubbo_DataLenSize; dubbo_Magic0; dubbo_Magic1; dubbo_EventRequest; dubbo_EventResponse; thrift_MessageLenSize; thrift_MagicLen; thrift_MessageLenIdx; thrift_MessageHeaderLenIdx; thrift_MessageHeaderLenSize; thrift_HeaderIdx; thrift_HeaderLen; thrift_IdLen; thrift_Magic0; thrift_Magic1; tars_MessageSizeLen; tars_IVersionLen; tars_IVersionHeaderIdx; tars_MaxPackageLength; bolt_req_classLen_lo; bolt_req_classLen_hi; bolt_req_headerLen_lo; bolt_req_headerLen_hi; bolt_req_contentLen_lo; bolt_req_contentLen_hi; bolt_req_CmdCode_lo; bolt_req_CmdCode_hi; bolt_req_Version_lo; bolt_req_Version_hi; bolt_req_RequestId_lo; bolt_req_RequestId_hi; bolt_req_Codec_lo; bolt_req_Codec_hi; bolt_req_Timeout_lo; bolt_req_Timeout_hi; bolt_resp_classLen_lo; bolt_resp_classLen_hi; bolt_resp_headerLen_lo; bolt_resp_headerLen_hi; bolt_resp_contentLen_lo; bolt_resp_contentLen_hi; bolt_resp_CmdCode_lo; bolt_resp_CmdCode_hi; bolt_resp_Version_lo; bolt_resp_Version_hi; bolt_resp_RequestId_lo; bolt_resp_RequestId_hi; bolt_resp_Codec_lo; bolt_resp_Codec_hi; bolt_resp_ResponseStatus_lo; bolt_resp_ResponseStatus_hi; boltv2_req_classLen_lo; boltv2_req_classLen_hi; boltv2_req_headerLen_lo; boltv2_req_headerLen_hi; boltv2_req_contentLen_lo; boltv2_req_contentLen_hi; boltv2_req_CmdCode_lo; boltv2_req_CmdCode_hi; boltv2_req_Version_lo; boltv2_req_Version_hi; boltv2_req_RequestId_lo; boltv2_req_RequestId_hi; boltv2_req_Codec_lo; boltv2_req_Codec_hi; boltv2_req_Timeout_lo; boltv2_req_Timeout_hi; boltv2_req_Version1_lo; boltv2_req_Version1_hi; boltv2_req_SwitchCode_lo; boltv2_req_SwitchCode_hi; boltv2_resp_classLen_lo; boltv2_resp_classLen_hi; boltv2_resp_headerLen_lo; boltv2_resp_headerLen_hi; boltv2_resp_contentLen_lo; boltv2_resp_contentLen_hi; boltv2_resp_CmdCode_lo; boltv2_resp_CmdCode_hi; boltv2_resp_Version_lo; boltv2_resp_Version_hi; boltv2_resp_RequestId_lo; boltv2_resp_RequestId_hi; boltv2_resp_Codec_lo; boltv2_resp_Codec_hi; boltv2_resp_ResponseStatus_lo; boltv2_resp_ResponseStatus_hi; boltv2_resp_Version1_lo; boltv2_resp_Version1_hi; boltv2_resp_SwitchCode_lo; boltv2_resp_SwitchCode_hi; bolt_cmdtype_idx; boltv2_cmdtype_idx], http_methods, h2_preface).
Definition ProtoConsts_translator_ok := true.

(* ---- source shapes (Gen/CodecSrc.v) ---- *)
(* source-driven switches: true = the repaired shape is present in the tree *)
From Coq Require Import List.
Import ListNotations.
From Coq Require Import NArith List.
Definition tars_resp_types : list N := [0;1;12;2]%N.
Definition tars_req_types : list N := [6;7]%N.
Definition bolt_enc_checked : bool := true.
Definition bolt_gate_first : bool := false.
Definition ctx_reset_puts_once : bool := true.
Definition decode_keeps_frame_copy : bool := true.
Definition dispatch_continues_after_reply : bool := true.
Definition dispatch_progress_guard : bool := true.
Definition dubbo_cmp_int : bool := true.
Definition dubbo_meta_unlock_every_exit : bool := true.
Definition dubbo_setdata_resets_raw : bool := true.
Definition hdr_end_u32 : bool := false.
Definition select_shape_ok : bool := true.
Definition setdata_sees_inplace_rewrite : bool := true.
Definition tars_reader_in_frame : bool := true.
Definition tars_stype_in_frame : bool := true.
Definition thrift_copies_frame : bool := true.
Definition thrift_enc_fields_after_body : bool := true.
Definition thrift_len_has_prefix : bool := true.
Definition thrift_match_first_zero : bool := true.
Definition xp_hdr_checked : bool := true.
Definition CodecSrc_all : list bool * list N * list N := ([bolt_enc_checked; bolt_gate_first; ctx_reset_puts_once; decode_keeps_frame_copy; dispatch_continues_after_reply; dispatch_progress_guard; dubbo_cmp_int; dubbo_meta_unlock_every_exit; dubbo_setdata_resets_raw; hdr_end_u32; select_shape_ok; setdata_sees_inplace_rewrite; tars_reader_in_frame; tars_stype_in_frame; thrift_copies_frame; thrift_enc_fields_after_body; thrift_len_has_prefix; thrift_match_first_zero; xp_hdr_checked], tars_resp_types, tars_req_types).
Definition CodecSrc_translator_ok := true.
