(* Host replacement at the same address as one more actor on the shared per-address flag word:
   cluster_manager.go transferHostSetStates (run by NewSimpleHostHandler / AppendSimpleHostHandler for slow-start
   clusters) next to the writers that own conditions (active health checker: FAILED_ACTIVE_HC, outlier regulator:
   FAILED_OUTLIER_CHECK, ...).  ONLY executable definitions.

   A writer's SetHealthFlag / ClearHealthFlag is ONE atomic step here: that is c16_no_lost_update for the CAS-loop /
   atomic shapes of Model/Health.v (each call is linearizable).  Old and new host object share the word
   (c16_one_word_per_address).  What transferHostSetStates does with health flags is READ FROM THE SOURCE
   (Gen/HealthXferTokens.v xfer_mode), as micro-steps:
     XferNone        : it does not touch health flags (one no-op step)
     XferReadThenSet : flags := old.HealthFlag()  |  if flags != 0 { new.SetHealthFlag(flags) }       (read, then OR)
     XferPerFlag fs  : for each flag f of fs: old.ContainHealthFlag(f)  |  if so new.SetHealthFlag(f)  (read, then OR) *)
From Coq Require Import List NArith Bool.
From MV Require Import Lib.Interleave Model.Health.
Import ListNotations.
Open Scope N_scope.

Inductive xfer_shape := XferNone | XferReadThenSet | XferPerFlag (fs : list N).

Inductive xphase :=
| XStart                         (* transfer not begun *)
| XRead (r : N)                  (* whole word read into r, OR pending *)
| XFlags (fs : list N)           (* per-flag shape: flags still to do, about to read *)
| XFlagRead (f : N) (present : bool) (fs : list N)
| XDone.

Inductive xthread := XWriter (todo : list hop) | XTransfer (ph : xphase).

Definition xtodo (t : xthread) : list hop := match t with XWriter l => l | XTransfer _ => [] end.

Definition xstep (md : xfer_shape) (t : xthread) (w : N) : xthread * N :=
  match t with
  | XWriter [] => (t, w)
  | XWriter (o :: rest) => (XWriter rest, apply_op o w)
  | XTransfer ph =>
      match ph with
      | XStart =>
          match md with
          | XferNone => (XTransfer XDone, w)
          | XferReadThenSet => (XTransfer (XRead w), w)
          | XferPerFlag fs => (XTransfer (XFlags fs), w)
          end
      | XRead r => (XTransfer XDone, if N.eqb r 0 then w else N.lor w r)
      | XFlags [] => (XTransfer XDone, w)
      | XFlags (f :: fs) => (XTransfer (XFlagRead f (negb (N.eqb (N.land w f) 0)) fs), w)
      | XFlagRead f present fs => (XTransfer (XFlags fs), if present then N.lor w f else w)
      | XDone => (t, w)
      end
  end.

Definition xdone (t : xthread) : bool :=
  match t with XWriter [] => true | XTransfer XDone => true | _ => false end.
Definition xinitial (t : xthread) : bool :=
  match t with XWriter _ => true | XTransfer XStart => true | _ => false end.

Definition xrun (md : xfer_shape) (sched : list nat) (ts : list xthread) (w0 : N) : list xthread * N :=
  run (xstep md) sched (ts, w0).

(* every flag ends as its last writer left it: the final word is the initial word with the writers' operations
   applied (per writer in program order; writers own disjoint conditions) - the host replacement neither loses a
   clear nor resurrects a flag *)
Definition xfer_statement (md : xfer_shape) : Prop :=
  forall ts, forallb xinitial ts = true -> cross_disjoint (map xtodo ts) -> forall sched w0,
    forallb xdone (fst (xrun md sched ts w0)) = true ->
    snd (xrun md sched ts w0) = apply_all (concat (map xtodo ts)) w0.

(* --- correspondence: a real UpdateClusterHosts on a slow-start cluster with writers interleaved at forced points --- *)
Definition xfer_case := (N * list xthread * list nat * N)%type.
Definition xfer_case_ok (md : xfer_shape) (k : xfer_case) : bool :=
  match k with
  | (w0, ts, sched, wfinal) =>
      let r := xrun md sched ts w0 in forallb xdone (fst r) && N.eqb (snd r) wfinal
  end.
Definition xfer_mismatches (md : xfer_shape) (l : list xfer_case) : list nat := mismatches_from (xfer_case_ok md) 0 l.
