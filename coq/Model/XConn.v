(* Model of the client side of pkg/stream/xprotocol/conn.go + stream.go: request-id allocation
   (newClientStream: protocol.GenerateRequestID(&clientStreamIDBase)), the client stream table
   (clientStreams map), handleResponse (lookup + delete + deliver; unknown ids dropped), xStream.ResetStream
   (delete BY ID unless connReset, then BaseStream.ResetStream), streamConn.Reset (mark connReset, reset, entries
   STAY in the table), and the delivery wrapper of pkg/stream/client.go (destroy, then OnReceive).
   And of the server side id restore (newServerStream keeps the downstream id; endStream writes it back).
   ONLY executable definitions here; proofs are in Proofs/XConn.v. *)
From Coq Require Import List NArith Bool Arith.
From RecordUpdate Require Import RecordUpdate.
Import ListNotations.
Open Scope N_scope.

(* GenerateRequestID of the protocols, over the uint64 counter after atomic.AddUint64(&base, 1):
     bolt, boltv2, example : uint64(uint32(c))      tars : uint64(int32(c))  (sign extension)
     dubbo, dubbothrift, wasm : c
   GenBits w (ids of w bits) exists only to show small witnesses. *)
Inductive genk := GenU32 | GenS32 | GenU64 | GenBits (w : N).

Definition two64 : N := 18446744073709551616.
Definition two32 : N := 4294967296.
Definition two31 : N := 2147483648.

Definition next_ctr (c : N) : N := (c + 1) mod two64.
Definition gen_id (g : genk) (c : N) : N :=
  match g with
  | GenU32 => c mod two32
  | GenS32 => let lo := c mod two32 in if lo <? two31 then lo else two64 - two32 + lo
  | GenU64 => c
  | GenBits w => c mod 2 ^ w
  end.
(* number of distinct ids *)
Definition id_space (g : genk) : N :=
  match g with GenU32 | GenS32 => two32 | GenU64 => two64 | GenBits w => 2 ^ w end.

(* one client stream: id allocated, BaseStream still alive, connReset flag, responses delivered,
   resets notified to the listeners; ghost: in the table and never displaced/answered/reset = "in flight" *)
Record xs := mkXs { x_id : N; x_alive : bool; x_connreset : bool; x_recv : nat; x_resets : nat; x_inflight : bool }.

Record xconn := mkX {
  ctr : N;                    (* clientStreamIDBase *)
  nstreams : nat;             (* streams are numbered in allocation order *)
  xst : nat -> xs;
  tbl : list (N * nat);       (* clientStreams: id -> stream; keys unique *)
  wok : bool;                 (* ghost: no stream was kept in the table, or reset, across a full turn of the id space *)
  displaced : nat }.          (* ghost: how often a stream lost its table entry to ANOTHER stream with the same id *)
#[global] Instance eta_xconn : Settable _ := settable! mkX <ctr; nstreams; xst; tbl; wok; displaced>.

Definition xinit (c0 : N) : xconn := mkX c0 0 (fun _ => mkXs 0 false false 0 0 false) [] true 0.

Definition upd {A} (f : nat -> A) (i : nat) (v : A) : nat -> A := fun j => if Nat.eqb j i then v else f j.

Fixpoint lookup (id : N) (t : list (N * nat)) : option nat :=
  match t with
  | [] => None
  | (k, s) :: t' => if k =? id then Some s else lookup id t'
  end.
Fixpoint remove_key (id : N) (t : list (N * nat)) : list (N * nat) :=
  match t with
  | [] => []
  | (k, s) :: t' => if k =? id then remove_key id t' else (k, s) :: remove_key id t'
  end.

Inductive xop :=
| XNew (oneway : bool)     (* streamConn.NewStream(ctx, receiver); oneway: receiver == nil (no table entry) *)
| XResponse (id : N)       (* a response frame with this request id is dispatched *)
| XReset (s : nat)         (* xStream.ResetStream on stream s by its holder (time-out, abort; possibly late or repeated) *)
| XConnReset.              (* streamConn.Reset(reason): the connection failed/closed *)

Inductive xout := OId (id : N) | ODeliver (s : nat) | ODrop | ONone.

Definition age (x : xconn) (s : nat) : N := N.of_nat (nstreams x - s).

Definition set_flags (x : xconn) (s : nat) (f : xs -> xs) : xconn := x <| xst := upd (xst x) s (f (xst x s)) |>.

(* BaseStream.ResetStream: listeners are told once, only while the stream is alive *)
Definition base_reset (x : xconn) (s : nat) : xconn :=
  if x_alive (xst x s)
  then set_flags x s (fun e => mkXs (x_id e) false (x_connreset e) (x_recv e) (S (x_resets e)) (x_inflight e))
  else x.

Definition clear_inflight (x : xconn) (s : nat) : xconn :=
  set_flags x s (fun e => mkXs (x_id e) (x_alive e) (x_connreset e) (x_recv e) (x_resets e) false).

Definition xstep (g : genk) (x : xconn) (o : xop) : xconn * xout :=
  match o with
  | XNew oneway =>
    let c' := next_ctr (ctr x) in
    let id := gen_id g c' in
    let s := nstreams x in
    (* window: every stream still in the table was allocated fewer than id_space allocations ago *)
    let w := wok x && forallb (fun e => age x (snd e) <? id_space g) (tbl x) in
    (* an entry with the same id is overwritten: its stream is displaced *)
    let x1 := match lookup id (tbl x) with
              | Some s' => if oneway then x else (clear_inflight x s') <| displaced := S (displaced x) |>
              | None => x end in
    (* a one-way stream is destroyed as soon as its request is written (stream.go endStream), which the holder does at once *)
    let e := mkXs id (negb oneway) false 0 0 (negb oneway) in
    (x1 <| ctr := c' |> <| nstreams := S s |> <| xst := upd (xst x1) s e |>
        <| tbl := if oneway then tbl x else (id, s) :: remove_key id (tbl x) |> <| wok := w |>, OId id)
  | XResponse id =>
    match lookup id (tbl x) with
    | Some s =>
      (* delete, then the wrapper destroys the stream and delivers *)
      (set_flags (x <| tbl := remove_key id (tbl x) |>) s
         (fun e => mkXs (x_id e) false (x_connreset e) (S (x_recv e)) (x_resets e) false), ODeliver s)
    | None => (x, ODrop)
    end
  | XReset s =>
    if Nat.ltb s (nstreams x) then
      let w := wok x && (age x s <? id_space g) in
      let id := x_id (xst x s) in
      let x1 := if x_connreset (xst x s) then x
                else (match lookup id (tbl x) with
                      | Some s' => (clear_inflight x s') <| displaced := if Nat.eqb s' s then displaced x else S (displaced x) |>
                      | None => x end)
                       <| tbl := remove_key id (tbl x) |> in
      (base_reset x1 s <| wok := w |>, ONone)
    else (x, ONone)
  | XConnReset =>
    (fold_left (fun q e => base_reset (set_flags q (snd e)
                  (fun v => mkXs (x_id v) (x_alive v) true (x_recv v) (x_resets v) (x_inflight v))) (snd e))
               (tbl x) x, ONone)
  end.

Definition xrun (g : genk) (ops : list xop) (x : xconn) : xconn := fold_left (fun q o => fst (xstep g q o)) ops x.

(* outputs of a history, in order *)
Fixpoint xtrace (g : genk) (ops : list xop) (x : xconn) : list xout :=
  match ops with
  | [] => []
  | o :: ops' => let (x', out) := xstep g x o in out :: xtrace g ops' x'
  end.

(* ---- server side: the downstream id is kept in the server stream and written back into the reply ---------- *)
Record frame := mkFrame { f_id : N; f_payload : N }.
(* conn.go newServerStream: serverStream.id = frame.GetRequestId(); stream.go endStream: frame.SetRequestId(s.id) *)
Definition server_stream_id (req : frame) : N := f_id req.
Definition upstream_request (req : frame) (upstream_id : N) : frame := mkFrame upstream_id (f_payload req).
Definition downstream_reply (server_id : N) (upstream_resp : frame) : frame := mkFrame server_id (f_payload upstream_resp).

(* ---- observations, for the correspondence check -------------------------------------------------------- *)
(* after each op: output, counter, sorted table keys are compared as a set (Go map), per stream (alive, recv, resets) *)
Definition xobs := (xout * N * list N * list (bool * nat * nat))%type.

Fixpoint insert_sorted (v : N) (l : list N) : list N :=
  match l with [] => [v] | y :: l' => if v <=? y then v :: l else y :: insert_sorted v l' end.
Definition sort_keys (l : list N) : list N := fold_right insert_sorted [] l.

Definition xobserve (x : xconn) (o : xout) : xobs :=
  (o, ctr x, sort_keys (map fst (tbl x)),
   map (fun s => let e := xst x s in (x_alive e, x_recv e, x_resets e)) (seq 0 (nstreams x))).

Definition xout_eqb (a b : xout) : bool :=
  match a, b with
  | OId x, OId y => x =? y
  | ODeliver x, ODeliver y => Nat.eqb x y
  | ODrop, ODrop | ONone, ONone => true
  | _, _ => false
  end.
Fixpoint list_eqb {A} (e : A -> A -> bool) (a b : list A) : bool :=
  match a, b with
  | [], [] => true
  | x :: a', y :: b' => e x y && list_eqb e a' b'
  | _, _ => false
  end.
Definition xobs_eqb (a b : xobs) : bool :=
  match a, b with
  | (o1, c1, k1, s1), (o2, c2, k2, s2) =>
    xout_eqb o1 o2 && (c1 =? c2) && list_eqb N.eqb k1 k2 &&
    list_eqb (fun u v => match u, v with (a1, r1, n1), (a2, r2, n2) => Bool.eqb a1 a2 && Nat.eqb r1 r2 && Nat.eqb n1 n2 end) s1 s2
  end.

Fixpoint xrun_check (g : genk) (x : xconn) (h : list (xop * xobs)) : bool :=
  match h with
  | [] => true
  | (o, ob) :: h' => let (x', out) := xstep g x o in xobs_eqb (xobserve x' out) ob && xrun_check g x' h'
  end.

Definition xconn_case := (genk * N * list (xop * xobs))%type.     (* generator, initial counter, history *)
Definition xconn_case_ok (c : xconn_case) : bool := match c with (g, c0, h) => xrun_check g (xinit c0) h end.
Fixpoint xmismatches_from {A} (ok : A -> bool) (i : nat) (l : list A) : list nat :=
  match l with
  | [] => []
  | x :: l' => if ok x then xmismatches_from ok (S i) l' else i :: xmismatches_from ok (S i) l'
  end.
Definition xconn_mismatches (l : list xconn_case) : list nat := xmismatches_from xconn_case_ok 0 l.

(* server-side case: downstream id, upstream id, id observed in the reply written downstream *)
Definition xserver_case := (N * N * N)%type.
Definition xserver_case_ok (c : xserver_case) : bool :=
  match c with (d, u, got) => f_id (downstream_reply (server_stream_id (mkFrame d 7)) (mkFrame u 9)) =? got end.
Definition xserver_mismatches (l : list xserver_case) : list nat := xmismatches_from xserver_case_ok 0 l.

(* ---- several connections in one history (they share only the per-request buffer pool of the implementation,
   which the model has no notion of: connections are independent) ------------------------------------------- *)
Fixpoint upd_nth {A} (l : list A) (i : nat) (v : A) : list A :=
  match l, i with
  | [], _ => []
  | _ :: l', O => v :: l'
  | y :: l', S i' => y :: upd_nth l' i' v
  end.

Fixpoint xmulti_check (g : genk) (xs : list xconn) (h : list (nat * xop * xobs)) : bool :=
  match h with
  | [] => true
  | (i, o, ob) :: h' =>
    match nth_error xs i with
    | Some x => let (x', out) := xstep g x o in xobs_eqb (xobserve x' out) ob && xmulti_check g (upd_nth xs i x') h'
    | None => false
    end
  end.

Definition xmulti_case := (genk * list N * list (nat * xop * xobs))%type.   (* generator, initial counter per connection, history *)
Definition xmulti_case_ok (c : xmulti_case) : bool := match c with (g, c0s, h) => xmulti_check g (map xinit c0s) h end.
Definition xmulti_mismatches (l : list xmulti_case) : list nat := xmismatches_from xmulti_case_ok 0 l.
