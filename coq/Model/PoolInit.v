(* Connect paths of the pools split into micro-steps and interleaved (Lib/Interleave.v) with the connection's read
   goroutine that delivers the close event:
     multiplex  poolMultiplex.init (placeholder already stored by CheckAndInit):  lock / dial / store / unlock
     ping-pong  GetActiveClient, no idle client:  lock, check, totalClientCount.Inc, unlock / dial (newActiveClient)
                (before the repair: lock, check, unlock / dial / totalClientCount.Inc)
     http/1     getAvailableClient, no idle client: lock, totalClientCount+1, unlock / dial (newActiveClient)
   against   the close event: connection closed at the network level (only possible once the dial succeeded), then the
             pool's handler under clientMux (multiplex: delete the slot entry if it is this client; ping-pong/http:
             totalClientCount-1, closed flag).
   Which micro-steps of init() are inside the clientMux critical section is READ FROM THE SOURCE (Gen/PoolSrc.v
   poolinit_src_mx_dial_locked; today: dial and store are inside).
   ONLY executable definitions here; proofs are in Proofs/PoolInit.v. *)
From Coq Require Import List ZArith Bool Arith.
From MV Require Import Lib.Interleave.
Import ListNotations.
Open Scope Z_scope.

Inductive instr :=
| ILock | IUnlock          (* clientMux; a Lock on a held mutex does not advance *)
| IDial                    (* the dial succeeds: the connection exists and its read goroutine runs *)
| IStoreMx                 (* multiplex: client.state = Connected; activeClients[index].Store(client) *)
| IIncTotal                (* ping-pong / http: totalClientCount + 1 *)
| IEvClose                 (* read goroutine: the connection closes (Close CAS) - waits until the dial has succeeded *)
| IEvHandleMx              (* multiplex onConnectionEvent: if the slot holds THIS client, delete it *)
| IEvHandleCount.          (* ping-pong removeFromPool / http onConnectionEvent: totalClientCount - 1, closed flag *)

(* slot: 1 = Connecting placeholder, 2 = this client stored as Connected, 0 = empty *)
Record ishared := mkISh { i_mu : bool; i_dialed : bool; i_closed : bool; i_slot : nat; i_total : Z; i_cflag : bool }.

Definition istep (t : list instr) (s : ishared) : list instr * ishared :=
  match t with
  | [] => (t, s)
  | ILock :: r => if i_mu s then (t, s) else (r, mkISh true (i_dialed s) (i_closed s) (i_slot s) (i_total s) (i_cflag s))
  | IUnlock :: r => (r, mkISh false (i_dialed s) (i_closed s) (i_slot s) (i_total s) (i_cflag s))
  | IDial :: r => (r, mkISh (i_mu s) true (i_closed s) (i_slot s) (i_total s) (i_cflag s))
  | IStoreMx :: r => (r, mkISh (i_mu s) (i_dialed s) (i_closed s) 2%nat (i_total s) (i_cflag s))
  | IIncTotal :: r => (r, mkISh (i_mu s) (i_dialed s) (i_closed s) (i_slot s) (i_total s + 1) (i_cflag s))
  | IEvClose :: r => if i_dialed s then (r, mkISh (i_mu s) (i_dialed s) true (i_slot s) (i_total s) (i_cflag s)) else (t, s)
  | IEvHandleMx :: r => (r, mkISh (i_mu s) (i_dialed s) (i_closed s) (if Nat.eqb (i_slot s) 2 then 0%nat else i_slot s) (i_total s) (i_cflag s))
  | IEvHandleCount :: r => (r, mkISh (i_mu s) (i_dialed s) (i_closed s) (i_slot s) (i_total s - 1) true)
  end.

Definition icfg := (list (list instr) * ishared)%type.

(* multiplex init(): dial_locked = the dial happens inside the critical section that also stores the client *)
Definition mx_init_prog (dial_locked : bool) : list instr :=
  if dial_locked then [ILock; IDial; IStoreMx; IUnlock] else [IDial; ILock; IStoreMx; IUnlock].
Definition mx_event_prog : list instr := [IEvClose; ILock; IEvHandleMx; IUnlock].
Definition mx_init_cfg (dial_locked : bool) : icfg := ([mx_init_prog dial_locked; mx_event_prog], mkISh false false false 1%nat 0 false).

(* ping-pong GetActiveClient: is totalClientCount incremented inside the critical section that tested it against
   max_connections (READ FROM THE SOURCE: poolinit_src_pp_count_locked; before the repair it was incremented after the dial) *)
Definition pp_connect_prog (count_locked : bool) : list instr :=
  if count_locked then [ILock; IIncTotal; IUnlock; IDial] else [ILock; IUnlock; IDial; IIncTotal].
Definition http_connect_prog : list instr := [ILock; IIncTotal; IUnlock; IDial].
Definition count_event_prog : list instr := [IEvClose; ILock; IEvHandleCount; IUnlock].
Definition pp_connect_cfg (count_locked : bool) : icfg := ([pp_connect_prog count_locked; count_event_prog], mkISh false false false 0%nat 0 false).
Definition http_connect_cfg : icfg := ([http_connect_prog; count_event_prog], mkISh false false false 0%nat 0 false).

Definition irun (sched : list nat) (c : icfg) : icfg := Interleave.run istep sched c.

(* multiplex: a client stored as Connected is open, or its close event has not been handled yet (the handler is still
   ahead of the read goroutine and will find the client in the slot) *)
Definition mx_init_good (c : icfg) : bool :=
  negb (Nat.eqb (i_slot (snd c)) 2 && i_closed (snd c)) ||
  match nth_error (fst c) 1 with Some t => existsb (fun i => match i with IEvHandleMx => true | _ => false end) t | None => false end.

(* ping-pong / http: when both goroutines are done the books agree with the connection: total = open connections, closed flag set *)
Definition count_good (c : icfg) : bool :=
  match fst c with
  | [[]; []] => (i_total (snd c) =? (if i_closed (snd c) then 0 else 1)) && Bool.eqb (i_cflag (snd c)) (i_closed (snd c))
  | [[]; _] => (* the connection never closed (its read goroutine is still waiting) or the event is under way *) true
  | _ => true
  end.

(* ---- the finite reachable set, computed ---------------------------------------------------------------- *)
Definition instr_eqb (a b : instr) : bool :=
  match a, b with
  | ILock, ILock | IUnlock, IUnlock | IDial, IDial | IStoreMx, IStoreMx | IIncTotal, IIncTotal
  | IEvClose, IEvClose | IEvHandleMx, IEvHandleMx | IEvHandleCount, IEvHandleCount => true
  | _, _ => false
  end.
Fixpoint leqb {A} (e : A -> A -> bool) (a b : list A) : bool :=
  match a, b with [], [] => true | x :: a', y :: b' => e x y && leqb e a' b' | _, _ => false end.
Definition ish_eqb (a b : ishared) : bool :=
  Bool.eqb (i_mu a) (i_mu b) && Bool.eqb (i_dialed a) (i_dialed b) && Bool.eqb (i_closed a) (i_closed b) &&
  Nat.eqb (i_slot a) (i_slot b) && (i_total a =? i_total b) && Bool.eqb (i_cflag a) (i_cflag b).
Definition icfg_eqb (a b : icfg) : bool := leqb (leqb instr_eqb) (fst a) (fst b) && ish_eqb (snd a) (snd b).
Definition imem (c : icfg) (l : list icfg) : bool := existsb (icfg_eqb c) l.

Definition isucc (c : icfg) : list icfg := [sched_step istep c 0%nat; sched_step istep c 1%nat].
Fixpoint ireach (fuel : nat) (frontier visited : list icfg) : list icfg :=
  match fuel with
  | O => visited
  | S f =>
    match frontier with
    | [] => visited
    | c :: rest =>
      if imem c visited then ireach f rest visited
      else ireach f (isucc c ++ rest) (c :: visited)
    end
  end.
Definition ireachable (c0 : icfg) : list icfg := ireach 4000 [c0] [].

(* closed under both threads' steps, two threads everywhere, contains the start *)
Definition iclosed_check (c0 : icfg) (R : list icfg) : bool :=
  imem c0 R && forallb (fun c => Nat.eqb (length (fst c)) 2 && forallb (fun d => imem d R) (isucc c)) R.
