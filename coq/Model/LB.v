(* Model of the load-balancing policies of pkg/upstream/cluster/loadbalancer.go and lb_leastconnection.go,
   of hostSet.Get (host_set.go) and of the snapshot publication of cluster.go UpdateHosts.
   ONLY executable definitions; proofs are in Proofs/LB.v.

   Random draws (rand.Intn) are an explicit input `draw : nat -> Z` (the i-th draw of this call), consumed exactly
   where the Go code calls Intn.  The hosts the EDF scheduler hands out (NextAndPush) are an explicit input
   `pick : nat -> Z` (index of the i-th picked host; the pick ORDER is the subject of C06, here every order is
   allowed).  The maglev table lookup result is the input `lookup`.  Scores/active counts are per-host inputs.
   Go `int` arithmetic is modelled in Z (no wrap-around: the theorems bound the stored retry index), `%` is
   Z.rem (truncated), the round-robin cursor is a uint32 (wrap-around written into the model). *)
From Coq Require Import List ZArith NArith Bool.
Import ListNotations.
Open Scope Z_scope.

Record host := mkHost {
  hid : nat;          (* identity (address) *)
  hweight : N;
  hhealthy : bool;    (* Health() at the time of the call *)
  hreq : N;           (* HostStats().UpstreamRequestActive.Count() *)
  hconn : N;          (* HostStats().UpstreamConnectionActive.Count() *)
  hscore : N          (* rank of unweightedPeakEwmaScore among the hosts *)
}.

Definition zlen (hs : list host) : Z := Z.of_nat (length hs).

(* host_set.go Get: index clamped into [0, len-1]; (panics on an empty set: every caller checks Size() first,
   the model returns None there and the theorems show it is never reached with a non-empty set) *)
Definition clamp (n : nat) (i : Z) : nat := Z.to_nat (Z.max 0 (Z.min i (Z.of_nat n - 1))).
Definition get (hs : list host) (i : Z) : option host :=
  match hs with
  | [] => None
  | h0 :: _ => Some (nth (clamp (length hs) i) hs h0)
  end.

Definition healthy_opt (o : option host) : bool := match o with Some h => hhealthy h | None => false end.

(* "for i := 0; i < n; i++ { idx := (start + i) % total; h := Get(idx); if h.Health() { return h, idx } }" *)
Fixpoint scan_from (hs : list host) (total start : Z) (n : nat) (i : Z) : option (host * Z) :=
  match n with
  | O => None
  | S n' =>
      let idx := Z.rem (start + i) total in
      match get hs idx with
      | Some h => if hhealthy h then Some (h, idx) else scan_from hs total start n' (i + 1)
      | None => None
      end
  end.

(* ---------------- round robin ---------------- *)
Definition u32 (n : N) : N := (n mod 4294967296)%N.

Fixpoint rr_pass1 (hs : list host) (total : N) (n : nat) (idx : N) : option host * N :=
  match n with
  | O => (None, idx)
  | S n' =>
      let idx' := u32 (idx + 1) in
      match get hs (Z.of_N (idx' mod total)%N) with
      | Some h => if hhealthy h then (Some h, idx') else rr_pass1 hs total n' idx'
      | None => (None, idx')
      end
  end.

Definition rr_choose (hs : list host) (idx : N) : option host * N :=
  match hs with
  | [] => (None, idx)
  | _ =>
      let total := N.of_nat (length hs) in
      match rr_pass1 hs total (length hs) idx with
      | (Some h, idx') => (Some h, idx')
      | (None, idx') =>
          let idx'' := u32 (idx' + 1) in
          let start := Z.of_N (idx'' mod total)%N in
          (option_map fst (scan_from hs (zlen hs) start (length hs) 0), idx'')
      end
  end.

(* ---------------- random ---------------- *)
(* result, new rr cursor, draws consumed *)
Definition random_choose (hs : list host) (rr : N) (draw : nat -> Z) : option host * N * nat :=
  match hs with
  | [] => (None, rr, 0%nat)
  | _ =>
      match get hs (draw 0%nat) with
      | Some h => if hhealthy h then (Some h, rr, 1%nat)
                  else let r := rr_choose hs rr in (fst r, snd r, 1%nat)
      | None => (None, rr, 1%nat)
      end
  end.

(* ---------------- EDF based balancers ---------------- *)
(* up to n scheduler picks; returns the first healthy pick and the number of picks consumed *)
Fixpoint edf_try (hs : list host) (pick : nat -> Z) (n : nat) (i : nat) : option host * nat :=
  match n with
  | O => (None, i)
  | S n' =>
      match get hs (pick i) with
      | Some h => if hhealthy h then (Some h, S i) else edf_try hs pick n' (S i)
      | None => (None, S i)
      end
  end.

(* fallback result: (host, rr', draws) ; edf result adds picks consumed *)
Definition edf_choose (hs : list host) (sched : bool) (pick : nat -> Z)
           (fallback : unit -> option host * N * nat) (rr : N) : option host * N * nat * nat :=
  match hs with
  | [] => (None, rr, 0%nat, 0%nat)
  | [h] => (if hhealthy h then Some h else None, rr, 0%nat, 0%nat)
  | _ =>
      if sched then
        match edf_try hs pick (length hs) 0 with
        | (Some h, k) => (Some h, rr, 0%nat, k)
        | (None, k) => let f := fallback tt in (f, k)
        end
      else (fallback tt, 0%nat)
  end.

(* WRR: fallback = round robin *)
Definition wrr_choose hs sched pick rr :=
  edf_choose hs sched pick (fun _ => let r := rr_choose hs rr in (fst r, snd r, 0%nat)) rr.

(* least request / least connection: "power of `choice` random picks".
   aware = false: the loop as it was before the repair (no Health() test at all);
   aware = true : unhealthy samples are skipped and, when no healthy host was sampled, one more draw gives the
                  start of a scan for the first healthy host.  The switch is read from the source (Gen/LBTokens.v). *)
Fixpoint least_loop (aware : bool) (key : host -> N) (hs : list host) (draw : nat -> Z)
         (n : nat) (i : nat) (cand : option host) : option host :=
  match n with
  | O => cand
  | S n' =>
      match get hs (draw i) with
      | None => cand
      | Some t =>
          if aware && negb (hhealthy t) then least_loop aware key hs draw n' (S i) cand
          else match cand with
               | None => least_loop aware key hs draw n' (S i) (Some t)
               | Some c => least_loop aware key hs draw n' (S i) (if (key t <? key c)%N then Some t else Some c)
               end
      end
  end.

Definition least_fallback (aware : bool) (key : host -> N) (hs : list host) (choice : nat) (draw : nat -> Z)
  : option host * nat :=
  match least_loop aware key hs draw choice 0 None with
  | Some h => (Some h, choice)
  | None =>
      if aware then (option_map fst (scan_from hs (zlen hs) (draw choice) (length hs) 0), S choice)
      else (None, choice)
  end.

Definition least_choose (aware : bool) (key : host -> N) hs sched pick (choice : nat) draw rr :=
  edf_choose hs sched pick (fun _ => let r := least_fallback aware key hs choice draw in (fst r, rr, snd r)) rr.

(* peak EWMA *)
Definition better (t : host) (cand : option host) : option host :=
  match cand with
  | None => Some t
  | Some c => if (hscore t <? hscore c)%N then Some t else Some c
  end.

Fixpoint peak_iter (hs : list host) (total idx : Z) (n : nat) (i : Z) (cand : option host) : option host :=
  match n with
  | O => cand
  | S n' =>
      match get hs (Z.rem (i + idx) total) with
      | None => cand
      | Some t => peak_iter hs total idx n' (i + 1) (if hhealthy t then better t cand else cand)
      end
  end.

Fixpoint peak_rand (hs : list host) (draw : nat -> Z) (n : nat) (i : nat) (cand : option host) : option host :=
  match n with
  | O => cand
  | S n' =>
      match get hs (draw i) with
      | None => cand
      | Some t => peak_rand hs draw n' (S i) (if hhealthy t then better t cand else cand)
      end
  end.

Definition peak_fallback (hs : list host) (choice : nat) (draw : nat -> Z) (rr : N) : option host * N * nat :=
  if (zlen hs <=? Z.of_nat choice) then (peak_iter hs (zlen hs) (draw 0%nat) (length hs) 0 None, rr, 1%nat)
  else match peak_rand hs draw choice 0 None with
       | Some h => (Some h, rr, choice)
       | None => let r := rr_choose hs rr in (fst r, snd r, choice)
       end.

Definition peak_choose hs sched pick (choice : nat) draw rr :=
  edf_choose hs sched pick (fun _ => peak_fallback hs choice draw rr) rr.

(* ---------------- maglev and request round robin: the retry index lives in the request context ------------- *)
Inductive ctxvar := VarUnset | VarBad (* set, not a number *) | VarInt (z : Z).

(* table = the maglev table exists (0 < hosts < 65537); haspolicy = route with a hash policy *)
Definition maglev_choose (hs : list host) (table haspolicy : bool) (lookup : Z) (v : ctxvar) : option host * ctxvar :=
  if negb table || negb haspolicy then (None, v) else
  match get hs lookup with
  | None => (None, v)
  | Some chosen =>
      let '(index, retrying) := match v with
                                | VarUnset => (lookup, false)
                                | VarBad => (lookup, true)
                                | VarInt i => (i, true)
                                end in
      if negb (hhealthy chosen) || retrying then
        match scan_from hs (zlen hs) (index + 1) (length hs) 0 with
        | Some (h, ind) => (Some h, VarInt ind)
        | None => (None, v)
        end
      else (Some chosen, VarInt index)
  end.

Definition reqrr_choose (hs : list host) (v : ctxvar) : option host * ctxvar :=
  match hs with
  | [] => (None, v)
  | _ =>
      let ind := match v with VarInt i => i + 1 | _ => 0 end in
      match scan_from hs (zlen hs) ind (length hs) 0 with
      | Some (h, idx) => (Some h, VarInt idx)
      | None => (None, v)
      end
  end.

(* ---------------- all policies behind one interface ---------------- *)
Inductive policy := PRandom | PRoundRobin | PWRR | PLeastRequest | PLeastConn | PPeakEwma | PMaglev | PReqRR.

Record inputs := mkIn {
  i_draw : nat -> Z; i_pick : nat -> Z; i_sched : bool; i_choice : nat;
  i_table : bool; i_haspolicy : bool; i_lookup : Z; i_var : ctxvar }.

Record output := mkOut { o_res : option host; o_rr : N; o_var : ctxvar; o_draws : nat; o_picks : nat }.

(* lr_aware / lc_aware: whether the least-request / least-connection fallback tests Health() (Gen/LBTokens.v) *)
Definition choose (lr_aware lc_aware : bool) (p : policy) (hs : list host) (rr : N) (x : inputs) : output :=
  match p with
  | PRandom => let '(r, rr', d) := random_choose hs rr (i_draw x) in mkOut r rr' (i_var x) d 0
  | PRoundRobin => let '(r, rr') := rr_choose hs rr in mkOut r rr' (i_var x) 0 0
  | PWRR => let '(r, rr', d, k) := wrr_choose hs (i_sched x) (i_pick x) rr in mkOut r rr' (i_var x) d k
  | PLeastRequest =>
      let '(r, rr', d, k) := least_choose lr_aware hreq hs (i_sched x) (i_pick x) (i_choice x) (i_draw x) rr in
      mkOut r rr' (i_var x) d k
  | PLeastConn =>
      let '(r, rr', d, k) := least_choose lc_aware hconn hs (i_sched x) (i_pick x) (i_choice x) (i_draw x) rr in
      mkOut r rr' (i_var x) d k
  | PPeakEwma =>
      let '(r, rr', d, k) := peak_choose hs (i_sched x) (i_pick x) (i_choice x) (i_draw x) rr in mkOut r rr' (i_var x) d k
  | PMaglev => let '(r, v) := maglev_choose hs (i_table x) (i_haspolicy x) (i_lookup x) (i_var x) in mkOut r rr v 0 0
  | PReqRR => let '(r, v) := reqrr_choose hs (i_var x) in mkOut r rr v 0 0
  end.

(* the precondition under which "a healthy host exists -> some host is returned" is claimed *)
Definition pre_ok (p : policy) (hs : list host) (x : inputs) : Prop :=
  (forall i, 0 <= i_draw x i) /\
  match p with
  | PMaglev => i_table x = true /\ i_haspolicy x = true /\
               match i_var x with VarInt i => -1 <= i | _ => 0 <= i_lookup x + 1 end
  | PReqRR => match i_var x with VarInt i => -1 <= i | _ => True end
  | _ => True
  end.

(* ---------------- histories: lookups interleaved with health flips and host-set replacements -------------- *)
Inductive lbop := OChoose (x : inputs) | OFlip (k : nat) | OUpdate (hs : list host) (rr0 : N).

Definition flip (h : host) : host := mkHost (hid h) (hweight h) (negb (hhealthy h)) (hreq h) (hconn h) (hscore h).
Fixpoint flip_nth (k : nat) (hs : list host) : list host :=
  match hs, k with
  | [], _ => []
  | h :: hs', O => flip h :: hs'
  | h :: hs', S k' => h :: flip_nth k' hs'
  end.

(* returns, for every lookup, the host set at that moment and the output *)
Fixpoint run_ops (la lc : bool) (p : policy) (hs : list host) (rr : N) (ops : list lbop) : list (list host * inputs * output) :=
  match ops with
  | [] => []
  | OChoose x :: ops' => let o := choose la lc p hs rr x in (hs, x, o) :: run_ops la lc p hs (o_rr o) ops'
  | OFlip k :: ops' => run_ops la lc p (flip_nth k hs) rr ops'
  | OUpdate hs' rr0 :: ops' => run_ops la lc p hs' rr0 ops'
  end.

(* ---------------- correspondence ---------------- *)
Definition fn_of (l : list Z) : nat -> Z := fun i => nth i l 0.
(* a case: policy, hosts, rr cursor, (draws, picks, sched, choice, table, haspolicy, lookup, var),
   observed (result id or none, rr cursor after, var after) *)
Inductive obsres := RNone | RHost (id : nat).
Definition lb_case := (policy * list host * N * (list Z * list Z * bool * nat * bool * bool * Z * ctxvar)
                       * (obsres * N * ctxvar))%type.
Definition ctxvar_eqb (a b : ctxvar) : bool :=
  match a, b with
  | VarUnset, VarUnset => true | VarBad, VarBad => true | VarInt x, VarInt y => Z.eqb x y | _, _ => false
  end.
Definition obsres_eqb (r : option host) (o : obsres) : bool :=
  match r, o with None, RNone => true | Some h, RHost id => Nat.eqb (hid h) id | _, _ => false end.
Definition lb_case_ok (la lc : bool) (k : lb_case) : bool :=
  match k with
  | (p, hs, rr, (ds, ps, sched, choice, table, haspol, lookup, v), (r, rr', v')) =>
      let o := choose la lc p hs rr (mkIn (fn_of ds) (fn_of ps) sched choice table haspol lookup v) in
      obsres_eqb (o_res o) r && N.eqb (o_rr o) rr' && ctxvar_eqb (o_var o) v'
      && Nat.eqb (o_draws o) (length ds) && Nat.eqb (o_picks o) (length ps)
  end.
Fixpoint lb_mismatches_from (la lc : bool) (i : nat) (l : list lb_case) : list nat :=
  match l with
  | [] => []
  | x :: l' => if lb_case_ok la lc x then lb_mismatches_from la lc (S i) l' else i :: lb_mismatches_from la lc (S i) l'
  end.
Definition lb_mismatches (la lc : bool) (l : list lb_case) : list nat := lb_mismatches_from la lc 0 l.
