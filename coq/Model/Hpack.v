(* Model/Hpack.v (group h2): executable model of pkg/module/http2/hpack (fork of x/net/http2/hpack):
   huffman.go, tables.go, encode.go, hpack.go.  Definitions only.
   Tables come from Gen/HpackTables.v (dumped from the fork on every run). *)
From Coq Require Import List NArith ZArith Bool.
From MV Require Import Lib.HBits Gen.HpackTables Gen.H2Src.
Import ListNotations.
Open Scope N_scope.

(* ================================================================= Huffman (huffman.go) *)
Definition huff_entry (sym : N) : N * N :=
  match nth_error huffman_table (N.to_nat sym) with Some e => e | None => (0, 0) end.
Definition huff_codelen (sym : N) : N := snd (huff_entry sym).
Definition huff_code (sym : N) : list bool :=
  let e := huff_entry sym in bits_of (N.to_nat (snd e)) (fst e).
(* EOS: 30 one bits (huffman.go: code 0x3fffffff, nbits 30) *)
Definition huff_eos : list bool := repeat true 30.

(* HuffmanEncodeLength *)
Definition huff_bitlen (s : bytes) : N := fold_left (fun a c => a + huff_codelen c) s 0.
Definition huff_enc_len (s : bytes) : N := (huff_bitlen s + 7) / 8.

(* AppendHuffmanString: the concatenated codes, padded to a byte boundary with the msbs of EOS *)
Definition huff_bits (s : bytes) : list bool := flat_map huff_code s.
Definition huff_pad (nbits : nat) : list bool := repeat true (Nat.modulo (8 - Nat.modulo nbits 8) 8).
Definition huff_encode (s : bytes) : bytes :=
  let bs := huff_bits s in pack_bits (bs ++ huff_pad (length bs)).

(* decoding tree, built from the table as buildRootHuffmanNode does (binary instead of 256-way) *)
Inductive htree := HLeaf (sym : N) | HNode (l r : htree) | HNone.

Fixpoint hinsert (t : htree) (bits : list bool) (sym : N) : htree :=
  match bits with
  | [] => HLeaf sym
  | b :: bs =>
    match t with
    | HNode l r => if b then HNode l (hinsert r bs sym) else HNode (hinsert l bs sym) r
    | _ => if b then HNode HNone (hinsert HNone bs sym) else HNode (hinsert HNone bs sym) HNone
    end
  end.

Definition build_trie (tbl : list (N * N)) : htree :=
  snd (fold_left (fun (st : N * htree) (e : N * N) =>
                    (fst st + 1, hinsert (snd st) (bits_of (N.to_nat (snd e)) (fst e)) (fst st)))
                 tbl (0, HNone)).

Definition huff_trie : htree := Eval vm_compute in build_trie huffman_table.

(* huffmanDecode(buf, maxLen, v), bit by bit.  cur: node reached; pend: bits consumed since the last
   symbol (Go: sbits); ones: all of them are 1 (Go: the final mask test).  maxlen = 0: unlimited. *)
Fixpoint hdec (maxlen : N) (cur : htree) (pend : N) (ones : bool) (bits : list bool)
              (outn : N) (out : bytes) : hout bytes :=
  match bits with
  | [] => if 7 <? pend then HErr EHuffman else if ones then HOk (rev out) else HErr EHuffman
  | b :: bs =>
    match cur with
    | HNode l r =>
      match (if b then r else l) with
      | HLeaf s =>
          if negb (maxlen =? 0) && (outn =? maxlen) then HErr EStrLen
          else hdec maxlen huff_trie 0 true bs (outn + 1) (s :: out)
      | HNone => HErr EHuffman
      | HNode l' r' => hdec maxlen (HNode l' r') (pend + 1) (ones && b) bs outn out
      end
    | _ => HErr EHuffman
    end
  end.

Definition huff_decode (maxlen : N) (v : bytes) : hout bytes :=
  hdec maxlen huff_trie 0 true (unpack_bytes v) 0 [].

(* ================================================================= integers (encode.go appendVarInt, hpack.go readVarInt) *)
(* continuation bytes of appendVarInt; fuel 10 covers every uint64 *)
Fixpoint enc_cont (fuel : nat) (i : N) : bytes :=
  match fuel with
  | O => []
  | S f => if i <? 128 then [i] else (128 + i mod 128) :: enc_cont f (i / 128)
  end.

Definition enc_int (n : N) (i : N) : bytes :=
  let k := 2 ^ n - 1 in
  if i <? k then [i] else k :: enc_cont 10 (i - k).

(* OR a flag into the first byte (dst[first] |= flag); the flag bits are above the n-bit prefix *)
Definition or_first (flag : N) (l : bytes) : bytes :=
  match l with [] => [] | b :: r => (flag + b) :: r end.

(* the loop of readVarInt *)
Fixpoint dec_cont (p : bytes) (i m : N) : hout (N * bytes) :=
  match p with
  | [] => HNeedMore
  | b :: p' =>
    let i' := u64 (i + (b mod 128) * 2 ^ m) in
    if b <? 128 then HOk (i', p')
    else let m' := m + 7 in
         if 63 <=? m' then HErr EVarint else dec_cont p' i' m'
  end.

Definition dec_int (n : N) (p : bytes) : hout (N * bytes) :=
  if (n <? 1) || (8 <? n) then HPanic
  else match p with
       | [] => HNeedMore
       | b :: p' =>
         let i := b mod 2 ^ n in
         if i <? 2 ^ n - 1 then HOk (i, p') else dec_cont p' i 0
       end.

(* ================================================================= string literals *)
(* "any encoder": the H flag is a free choice *)
Definition ser_string (huff : bool) (s : bytes) : bytes :=
  if huff then or_first 128 (enc_int 7 (huff_enc_len s)) ++ huff_encode s
  else enc_int 7 (len s) ++ s.

(* appendHpackString: Huffman only when strictly shorter *)
Definition mosn_huff (s : bytes) : bool := huff_enc_len s <? len s.
Definition enc_string (s : bytes) : bytes := ser_string (mosn_huff s) s.

(* Decoder.readString(p, wantStr) *)
Definition dec_string (maxstr : N) (want : bool) (p : bytes) : hout (bytes * bytes) :=
  match p with
  | [] => HNeedMore
  | b0 :: _ =>
    let ishuff := 128 <=? b0 in
    hbind (dec_int 7 p) (fun r =>
      let slen := fst r in let p1 := snd r in
      if negb (maxstr =? 0) && (maxstr <? slen) then HErr EStrLen
      else if len p1 <? slen then HNeedMore
      else hbind (slice_to p1 slen) (fun raw =>
           hbind (slice_from p1 slen) (fun rest =>
             if negb ishuff then HOk (if want then raw else [], rest)
             else if want then hbind (huff_decode maxstr raw) (fun s => HOk (s, rest))
             else HOk ([], rest))))
  end.

(* size of the allocation readString requests: string(p[:strLen]) takes the ANNOUNCED length; the
   Huffman buffer grows with the decoded symbols (>= 5 bits each).  Guard order as in the code. *)
Definition dec_string_alloc (maxstr : N) (want : bool) (p : bytes) : N :=
  match p with
  | [] => 0
  | b0 :: _ =>
    match dec_int 7 p with
    | HOk (slen, p1) =>
      if negb (maxstr =? 0) && (maxstr <? slen) then 0
      else if len p1 <? slen then 0
      else if want then (if 128 <=? b0 then (8 * slen) / 5 else slen) else 0
    | _ => 0
    end
  end.

(* ================================================================= tables (tables.go, hpack.go dynamicTable) *)
Definition fsize (nm vl : bytes) : N := u32 (len nm + len vl + 32).   (* HeaderField.Size *)

Record dtab := mkDtab {
  dt_ents : list (bytes * bytes);   (* oldest first, as headerFieldTable.ents *)
  dt_size : N;
  dt_max : N;
  dt_allowed : N }.

Definition static_len : N := N.of_nat (length hpack_static_table).

(* dynamicTable.evict *)
Fixpoint evict (ents : list (bytes * bytes)) (size mx : N) : list (bytes * bytes) * N :=
  match ents with
  | [] => ([], size)
  | e :: rest => if mx <? size then evict rest (u32sub size (fsize (fst e) (snd e))) mx else (ents, size)
  end.

Definition dt_set_max (t : dtab) (v : N) : dtab :=
  let r := evict (dt_ents t) (dt_size t) v in mkDtab (fst r) (snd r) v (dt_allowed t).

Definition dt_add (t : dtab) (nm vl : bytes) : dtab :=
  let r := evict (dt_ents t ++ [(nm, vl)]) (u32 (dt_size t + fsize nm vl)) (dt_max t) in
  mkDtab (fst r) (snd r) (dt_max t) (dt_allowed t).

Definition dt_new (mx : N) : dtab := mkDtab [] 0 mx mx.

(* Decoder.at.  Go converts the uint64 index to int where it indexes the dynamic table.
   go_int = int(uint64): values >= 2^63 become negative. *)
Definition go_int (x : N) : Z := if x <? 9223372036854775808 then Z.of_N x else (Z.of_N x - 18446744073709551616)%Z.

(* Go l[z] with an int index *)
Definition index_atZ {A} (l : list A) (z : Z) : hout A :=
  if (z <? 0)%Z then HPanic else index_at l (Z.to_N z).

(* `u64cmp` (Gen/H2Src.v h2_hpack_at_u64cmp, read from the source):
   true  - the range test is made on the uint64 value, `i > uint64(d.maxTableIndex())`, BEFORE the conversion:
           past it i <= len+61 (a Go int), so int(i) = i and the index dt.len()-(int(i)-61) is computed exactly;
   false - the index is converted first, `pos := int(i) - staticTable.len(); if pos > dt.len() { return }`,
           and the test is made on the int: an index >= 2^63 is negative, passes, and dt.ents[dt.len()-pos] panics. *)
Definition tab_at_gen (u64cmp : bool) (t : dtab) (i : N) : hout (option (bytes * bytes)) :=
  if i =? 0 then HOk None
  else if i <=? static_len then hbind (index_at hpack_static_table (i - 1)) (fun e => HOk (Some e))
  else let dl := N.of_nat (length (dt_ents t)) in
       if u64cmp then
         if dl + static_len <? i then HOk None
         else hbind (index_at (dt_ents t) (dl - (i - static_len))) (fun e => HOk (Some e))
       else
         let pos := (go_int i - Z.of_N static_len)%Z in
         if (Z.of_N dl <? pos)%Z then HOk None
         else hbind (index_atZ (dt_ents t) (Z.of_N dl - pos)%Z) (fun e => HOk (Some e)).

Definition tab_at := tab_at_gen h2_hpack_at_u64cmp.

(* ================================================================= decoder (hpack.go) *)
Record hfield := mkF { hname : bytes; hvalue : bytes; hsens : bool }.

Record dstate := mkD {
  d_tab : dtab;
  d_maxstr : N;      (* maxStrLen, 0 = unlimited *)
  d_emit : bool;     (* emitEnabled *)
  d_first : bool;    (* firstField *)
  d_save : bytes }.  (* saveBuf *)

Definition dec_new (mx : N) : dstate := mkD (dt_new mx) 0 true true [].
Definition d_with_tab (st : dstate) (t : dtab) := mkD t (d_maxstr st) (d_emit st) (d_first st) (d_save st).
Definition d_with_first (st : dstate) (b : bool) := mkD (d_tab st) (d_maxstr st) (d_emit st) b (d_save st).
Definition d_with_save (st : dstate) (s : bytes) := mkD (d_tab st) (d_maxstr st) (d_emit st) (d_first st) s.
Definition d_with_emit (st : dstate) (b : bool) := mkD (d_tab st) (d_maxstr st) b (d_first st) (d_save st).
Definition d_with_maxstr (st : dstate) (n : N) := mkD (d_tab st) n (d_emit st) (d_first st) (d_save st).

Inductive lit_kind := KIncr | KPlain | KNever.   (* indexedTrue | indexedFalse | indexedNever *)
Definition kind_indexed (k : lit_kind) := match k with KIncr => true | _ => false end.
Definition kind_sens (k : lit_kind) := match k with KNever => true | _ => false end.
Definition kind_prefix (k : lit_kind) : N := match k with KIncr => 6 | _ => 4 end.
Definition kind_flag (k : lit_kind) : N := match k with KIncr => 64 | KPlain => 0 | KNever => 16 end.

(* result of one representation: new state, emitted fields (0 or 1), unparsed rest *)
Definition pres := (dstate * list hfield * bytes)%type.

(* callEmit *)
Definition call_emit (st : dstate) (f : hfield) (rest : bytes) : hout pres :=
  if negb (d_maxstr st =? 0) && ((d_maxstr st <? len (hname f)) || (d_maxstr st <? len (hvalue f)))
  then HErr EStrLen
  else HOk (st, if d_emit st then [f] else [], rest).

Definition parse_indexed (st : dstate) (buf : bytes) : hout pres :=
  hbind (dec_int 7 buf) (fun r =>
  hbind (tab_at (d_tab st) (fst r)) (fun o =>
    match o with
    | None => HErr EIndex
    | Some e => call_emit st (mkF (fst e) (snd e) false) (snd r)
    end)).

Definition parse_literal (k : lit_kind) (st : dstate) (buf : bytes) : hout pres :=
  hbind (dec_int (kind_prefix k) buf) (fun r =>
    let want := d_emit st || kind_indexed k in
    hbind (if 0 <? fst r
           then hbind (tab_at (d_tab st) (fst r)) (fun o =>
                  match o with None => HErr EIndex | Some e => HOk (fst e, snd r) end)
           else dec_string (d_maxstr st) want (snd r)) (fun nr =>
    hbind (dec_string (d_maxstr st) want (snd nr)) (fun vr =>
      let st' := if kind_indexed k then d_with_tab st (dt_add (d_tab st) (fst nr) (fst vr)) else st in
      call_emit st' (mkF (fst nr) (fst vr) (kind_sens k)) (snd vr)))).

Definition parse_size_update (st : dstate) (buf : bytes) : hout pres :=
  if negb (d_first st) && (0 <? dt_size (d_tab st)) then HErr ESizeUpdate
  else hbind (dec_int 5 buf) (fun r =>
         if dt_allowed (d_tab st) <? fst r then HErr ESizeUpdate
         else HOk (d_with_tab st (dt_set_max (d_tab st) (u32 (fst r))), [], snd r)).

(* parseHeaderFieldRepr; precondition len(buf) > 0, d.buf[0] panics otherwise *)
Definition parse_repr (st : dstate) (buf : bytes) : hout pres :=
  match buf with
  | [] => HPanic
  | b :: _ =>
    if 128 <=? b then parse_indexed st buf
    else if 64 <=? b then parse_literal KIncr st buf
    else if b <? 16 then parse_literal KPlain st buf
    else if b <? 32 then parse_literal KNever st buf
    else if b <? 64 then parse_size_update st buf
    else HErr EEncoding
  end.

(* outcome of Write / Close *)
Inductive wres := WOk | WErr (e : herr) | WPanic | WFuel.

(* the loop of Decoder.Write: at most one iteration per buffered byte.
   `multi` (read from the source, Gen/H2Src.v h2_hpack_multi_update): firstField stays set while only
   dynamic table size updates have been parsed (true), or is cleared after every representation (false). *)
Definition is_size_update (buf : bytes) : bool :=
  match buf with b :: _ => (32 <=? b) && (b <? 64) | [] => false end.

Fixpoint dec_loop_gen (multi : bool) (fuel : nat) (st : dstate) (buf : bytes) (acc : list hfield) : dstate * list hfield * wres :=
  match buf with
  | [] => (st, acc, WOk)
  | _ =>
    match fuel with
    | O => (st, acc, WFuel)
    | S f =>
      let keep := multi && is_size_update buf in
      match parse_repr st buf with
      | HNeedMore =>
          if negb (d_maxstr st =? 0) && (2 * (d_maxstr st + 8) <? len buf)
          then (st, acc, WErr EStrLen)
          else (d_with_save st buf, acc, WOk)
      | HErr e => (if keep then st else d_with_first st false, acc, WErr e)
      | HOk r => dec_loop_gen multi f (if keep then fst (fst r) else d_with_first (fst (fst r)) false) (snd r) (acc ++ snd (fst r))
      | HPanic => (st, acc, WPanic)
      | HFuel => (st, acc, WFuel)
      end
    end
  end.
Definition dec_loop := dec_loop_gen h2_hpack_multi_update.

(* Decoder.Write(p) *)
Definition dec_write (st : dstate) (p : bytes) : dstate * list hfield * wres :=
  match p with
  | [] => (st, [], WOk)
  | _ => let buf := d_save st ++ p in dec_loop (length buf) (d_with_save st []) buf []
  end.

(* Decoder.Close *)
Definition dec_close (st : dstate) : dstate * wres :=
  match d_save st with
  | [] => (d_with_first st true, WOk)
  | _ => (d_with_save st [], WErr ETruncated)
  end.

(* Write then Close: one complete header block (DecodeFull / readMetaFrame with one fragment) *)
Definition dec_block (st : dstate) (p : bytes) : dstate * list hfield * wres :=
  let r := dec_write st p in
  match snd r with
  | WOk => let c := dec_close (fst (fst r)) in (fst c, snd (fst r), snd c)
  | _ => r
  end.

(* ================================================================= representations ("any valid encoder") *)
Inductive repr :=
| RIndexed (i : N)
| RLitIdx (k : lit_kind) (i : N) (hv : bool) (v : bytes)
| RLitNew (k : lit_kind) (hn : bool) (n : bytes) (hv : bool) (v : bytes)
| RSize (v : N).

Definition ser_repr (r : repr) : bytes :=
  match r with
  | RIndexed i => or_first 128 (enc_int 7 i)
  | RLitIdx k i hv v => or_first (kind_flag k) (enc_int (kind_prefix k) i) ++ ser_string hv v
  | RLitNew k hn n hv v => [kind_flag k] ++ ser_string hn n ++ ser_string hv v
  | RSize v => or_first 32 (enc_int 5 v)
  end.

(* what a representation MEANS (RFC 7541 section 6), independent of the wire format *)
Definition tab_lookup (t : dtab) (i : N) : option (bytes * bytes) :=
  if i =? 0 then None
  else if i <=? static_len then nth_error hpack_static_table (N.to_nat (i - 1))
  else let dl := N.of_nat (length (dt_ents t)) in
       if dl + static_len <? i then None
       else nth_error (dt_ents t) (N.to_nat (dl - (i - static_len))).

Definition interp_repr (t : dtab) (r : repr) : option (dtab * list hfield) :=
  match r with
  | RIndexed i => match tab_lookup t i with Some e => Some (t, [mkF (fst e) (snd e) false]) | None => None end
  | RLitIdx k i _ v =>
      match tab_lookup t i with
      | Some e => Some (if kind_indexed k then dt_add t (fst e) v else t, [mkF (fst e) v (kind_sens k)])
      | None => None
      end
  | RLitNew k _ n _ v => Some (if kind_indexed k then dt_add t n v else t, [mkF n v (kind_sens k)])
  | RSize v => if v <=? dt_allowed t then Some (dt_set_max t v, []) else None
  end.

Fixpoint interp_reprs (t : dtab) (rs : list repr) : option (dtab * list hfield) :=
  match rs with
  | [] => Some (t, [])
  | r :: rs' =>
    match interp_repr t r with
    | None => None
    | Some (t1, f1) =>
      match interp_reprs t1 rs' with
      | None => None
      | Some (t2, f2) => Some (t2, f1 ++ f2)
      end
    end
  end.

(* ================================================================= encoder (encode.go) *)
Record estate := mkE {
  e_tab : dtab;       (* dt_allowed unused by the encoder *)
  e_min : N;          (* minSize *)
  e_limit : N;        (* maxSizeLimit *)
  e_pending : bool }. (* tableSizeUpdate *)

Definition uint32_max : N := 4294967295.
Definition enc_new : estate := mkE (dt_new 4096) uint32_max 4096 false.

(* SetMaxDynamicTableSize *)
Definition enc_set_max (e : estate) (v : N) : estate :=
  let v' := if e_limit e <? v then e_limit e else v in
  mkE (dt_set_max (e_tab e) v') (if v' <? e_min e then v' else e_min e) (e_limit e) true.

(* SetMaxDynamicTableSizeLimit *)
Definition enc_set_limit (e : estate) (v : N) : estate :=
  if v <? dt_max (e_tab e) then mkE (dt_set_max (e_tab e) v) (e_min e) v true
  else mkE (e_tab e) (e_min e) v (e_pending e).

(* headerFieldTable.search over a list (oldest first): position of the NEWEST match, if any *)
Fixpoint find_last {A} (p : A -> bool) (l : list A) (pos : N) (acc : option N) : option N :=
  match l with
  | [] => acc
  | x :: r => find_last p r (pos + 1) (if p x then Some pos else acc)
  end.

Definition nv_match (f : hfield) (e : bytes * bytes) : bool := bytes_eqb (fst e) (hname f) && bytes_eqb (snd e) (hvalue f).
Definition n_match (f : hfield) (e : bytes * bytes) : bool := bytes_eqb (fst e) (hname f).

(* search in a table; `idx` turns a 0-based position into an HPACK index for that table *)
Definition tbl_search (ents : list (bytes * bytes)) (idx : N -> N) (f : hfield) : N * bool :=
  match (if hsens f then None else find_last (nv_match f) ents 0 None) with
  | Some k => (idx k, true)
  | None => match find_last (n_match f) ents 0 None with
            | Some k => (idx k, false)
            | None => (0, false)
            end
  end.

(* Encoder.searchTable *)
Definition enc_search (t : dtab) (f : hfield) : N * bool :=
  let s := tbl_search hpack_static_table (fun k => k + 1) f in
  if snd s then s
  else let dl := N.of_nat (length (dt_ents t)) in
       let d := tbl_search (dt_ents t) (fun k => dl - k) f in
       if snd d || ((fst s =? 0) && negb (fst d =? 0)) then (fst d + static_len, snd d)
       else (fst s, false).

(* Encoder.WriteField as representations *)
Definition enc_field_reprs (e : estate) (f : hfield) : estate * list repr :=
  let pre := if e_pending e
             then (if e_min e <? dt_max (e_tab e) then [RSize (e_min e)] else []) ++ [RSize (dt_max (e_tab e))]
             else [] in
  let e1 := if e_pending e then mkE (e_tab e) uint32_max (e_limit e) false else e in
  let s := enc_search (e_tab e1) f in
  if snd s then (e1, pre ++ [RIndexed (fst s)])
  else
    let indexing := negb (hsens f) && (fsize (hname f) (hvalue f) <=? dt_max (e_tab e1)) in
    let e2 := if indexing then mkE (dt_add (e_tab e1) (hname f) (hvalue f)) (e_min e1) (e_limit e1) (e_pending e1) else e1 in
    let k := if hsens f then KNever else if indexing then KIncr else KPlain in
    (e2, pre ++ [if fst s =? 0
                 then RLitNew k (mosn_huff (hname f)) (hname f) (mosn_huff (hvalue f)) (hvalue f)
                 else RLitIdx k (fst s) (mosn_huff (hvalue f)) (hvalue f)]).

Definition enc_write_field (e : estate) (f : hfield) : estate * bytes :=
  let r := enc_field_reprs e f in (fst r, flat_map ser_repr (snd r)).

Fixpoint enc_fields_reprs (e : estate) (fs : list hfield) : estate * list repr :=
  match fs with
  | [] => (e, [])
  | f :: fs' => let r := enc_field_reprs e f in
                let r' := enc_fields_reprs (fst r) fs' in (fst r', snd r ++ snd r')
  end.

(* one header block *)
Definition enc_block (e : estate) (fs : list hfield) : estate * bytes :=
  let r := enc_fields_reprs e fs in (fst r, flat_map ser_repr (snd r)).

(* ================================================================= an encoder/decoder session *)
(* header blocks interleaved with table-size changes (SETTINGS_HEADER_TABLE_SIZE -> SetMaxDynamicTableSize) *)
Inductive hop := OBlock (fs : list hfield) | OSetMax (v : N).

Fixpoint run_session (e : estate) (d : dstate) (ops : list hop) : list (list hfield * wres) * estate * dstate :=
  match ops with
  | [] => ([], e, d)
  | OSetMax v :: r => run_session (enc_set_max e v) d r
  | OBlock fs :: r =>
      let eb := enc_block e fs in
      let db := dec_block d (snd eb) in
      let rest := run_session (fst eb) (fst (fst db)) r in
      ((snd (fst db), snd db) :: fst (fst rest), snd (fst rest), snd rest)
  end.

(* what the decoder must report: every block's list, each decoded without error *)
Definition blocks_of (ops : list hop) : list (list hfield * wres) :=
  flat_map (fun o => match o with OBlock fs => [(fs, WOk)] | OSetMax _ => [] end) ops.
