(* The health checker LIFECYCLE around the threshold automaton (pkg/upstream/healthcheck/healthchecker.go:
   SetHealthCheckerHostSet -> startCheck / stopCheck, Stop; a cluster configuration update = Stop of the old checker and
   a new checker over the same addresses).  ONLY executable definitions.

   The FAILED_ACTIVE_HC condition of an ADDRESS lives in the shared per-address word (it outlives sessions and host
   objects); a SESSION (one per address in the checker's host set) holds the two counters, starting at 0.
   What stopCheck does with the flag is READ FROM THE SOURCE (Gen/HealthLifecycleTokens.v stop_mode):
     StopKeeps  : stopCheck touches no health flag
     StopClears : stopCheck clears FAILED_ACTIVE_HC of the host whose session is stopped *)
From Coq Require Import List NArith Arith Bool.
From MV Require Import Model.HealthCheck.
Import ListNotations.

Inductive stop_shape := StopKeeps | StopClears.

Record astate := mkA { a_flag : bool; a_sess : option (N * N) }.   (* per address: the condition; the session counters *)
Definition lcstate := list astate.                                   (* addresses 0..n-1 *)

Inductive lcop :=
| LResult (a : nat) (r : result)     (* a check result for the session of address a *)
| LSetHosts (l : list nat)           (* SetHealthCheckerHostSet: exactly the addresses of l have sessions afterwards *)
| LStopAll.                          (* healthChecker.Stop (cluster removed / replaced by a new cluster object) *)

Definition stop_addr (md : stop_shape) (s : astate) : astate :=
  match a_sess s with
  | None => s
  | Some _ => mkA (match md with StopKeeps => a_flag s | StopClears => false end) None
  end.

Fixpoint map_nth {A} (f : A -> A) (k : nat) (l : list A) : list A :=
  match l, k with [], _ => [] | x :: l', O => f x :: l' | x :: l', S k' => x :: map_nth f k' l' end.

(* returns the new state and, for a result that reached a session, the callback (changed, isHealthy) *)
Definition lc_step (md : stop_shape) (u h : N) (st : lcstate) (o : lcop) : lcstate * option (bool * bool) :=
  match o with
  | LResult a r =>
      match nth_error st a with
      | Some (mkA fl (Some (unc, hcc))) =>
          let (s', cb) := hc_step u h (mkHC fl unc hcc) r in
          (map_nth (fun _ => mkA (hflag s') (Some (HealthCheck.unc s', HealthCheck.hcc s'))) a st, Some cb)
      | _ => (st, None)
      end
  | LSetHosts l =>
      (map (fun p : nat * astate =>
              let (i, s) := p in
              if existsb (Nat.eqb i) l
              then match a_sess s with Some _ => s | None => mkA (a_flag s) (Some (0%N, 0%N)) end
              else stop_addr md s) (combine (seq 0 (length st)) st), None)
  | LStopAll => (map (stop_addr md) st, None)
  end.

Definition is_result (o : lcop) : bool := match o with LResult _ _ => true | _ => false end.
Definition flags (st : lcstate) : list bool := map a_flag st.

Fixpoint lc_run (md : stop_shape) (u h : N) (st : lcstate) (ops : list lcop) : lcstate :=
  match ops with [] => st | o :: ops' => lc_run md u h (fst (lc_step md u h st o)) ops' end.

(* the statement: no lifecycle operation changes the condition of any address *)
Definition lifecycle_statement (md : stop_shape) : Prop :=
  forall u h st o, is_result o = false -> flags (fst (lc_step md u h st o)) = flags st.

(* --- correspondence: operations on the real checker, observed flags of all addresses and callback after each ------ *)
Definition lc_case := (N * N * list bool * list (lcop * list bool * option (bool * bool)))%type.
Fixpoint bools_eqb (a b : list bool) : bool :=
  match a, b with [], [] => true | x :: a', y :: b' => Bool.eqb x y && bools_eqb a' b' | _, _ => false end.
Definition ocb_eqb (a b : option (bool * bool)) : bool :=
  match a, b with
  | None, None => true
  | Some (c1, i1), Some (c2, i2) => Bool.eqb c1 c2 && Bool.eqb i1 i2
  | _, _ => false
  end.
Fixpoint lc_check (md : stop_shape) (u h : N) (st : lcstate) (l : list (lcop * list bool * option (bool * bool))) : bool :=
  match l with
  | [] => true
  | (o, fl, cb) :: l' =>
      let (st', c) := lc_step md u h st o in
      bools_eqb (flags st') fl && ocb_eqb c cb && lc_check md u h st' l'
  end.
Definition lc_case_ok (md : stop_shape) (k : lc_case) : bool :=
  match k with
  | (u, h, fl0, l) => lc_check md (eff_threshold u) (eff_threshold h) (map (fun f => mkA f None) fl0) l
  end.
Fixpoint lc_mismatches_from (md : stop_shape) (i : nat) (l : list lc_case) : list nat :=
  match l with
  | [] => []
  | x :: l' => if lc_case_ok md x then lc_mismatches_from md (S i) l' else i :: lc_mismatches_from md (S i) l'
  end.
Definition lc_mismatches (md : stop_shape) (l : list lc_case) : list nat := lc_mismatches_from md 0 l.
