(* Two concurrent pool.NewStream calls on an HTTP/2 pool with no shared client, split into micro-steps and interleaved
   (Lib/Interleave.v) with the close events of the (at most two) connections they dial.

     NewStream thread i, dial under the pool mutex (the code as it is; poolh2_src_dial_locked = true):
        lock / p.activeClient != nil ? use it : (dial i / Active.Inc / p.activeClient = i) / unlock
     NewStream thread i, dial outside the mutex (check under the lock, dial unlocked, publish under the lock, the loser of
     the publish race closes its own connection and shares the winner's):
        lock / check / unlock / dial i / Active.Inc / lock / publish-or-give-up / unlock / [close own]
     event thread i: connection i is closed - by the peer at any time after the dial succeeded, or by the loser's own
        Close() - then onConnectionEvent under the mutex: Active.Dec and p.activeClient = nil
        (identity = true: only if p.activeClient is THIS client).
   ONLY executable definitions; proofs in Proofs/PoolH2Race.v. *)
From Coq Require Import List ZArith Bool Arith.
From MV Require Import Lib.Interleave Model.Pool Model.PoolH2.
Import ListNotations.
Open Scope Z_scope.

Inductive rinstr :=
| RLock | RUnlock            (* p.mux; a Lock on a held mutex does not advance *)
| RCheck                     (* p.activeClient != nil: take it, the rest of the connect path is skipped (only the unlock remains) *)
| RDial (i : nat)            (* newActiveClient: Connect() succeeded - connection i exists and its read goroutine runs *)
| RInc                       (* UpstreamConnectionActive.Inc (host and cluster) *)
| RStore (i : nat)           (* p.activeClient = ac *)
| RPublish (i : nat)         (* under the lock: p.activeClient != nil ? give up own connection (unlock, close it) : p.activeClient = ac *)
| RCloseOwn (i : nat)        (* ac.client.Close() on the connection this thread dialled *)
| REvClose (i : nat)         (* connection i closes (peer, or RCloseOwn before): waits until the dial has succeeded *)
| REvHandle (i : nat).       (* deleteActiveClient: Active.Dec; p.activeClient = nil (identity: only if it is client i) *)

(* r_cur: 0 = no shared client, S i = connection i *)
Record rshared := mkRSh { r_mu : bool; r_d0 : bool; r_d1 : bool; r_k0 : bool; r_k1 : bool; r_cur : nat; r_gauge : Z }.
Definition r_dialed (s : rshared) (i : nat) : bool := match i with O => r_d0 s | _ => r_d1 s end.
Definition r_closed (s : rshared) (i : nat) : bool := match i with O => r_k0 s | _ => r_k1 s end.
Definition r_open (s : rshared) (i : nat) : bool := r_dialed s i && negb (r_closed s i).
Definition r_set_dialed (s : rshared) (i : nat) : rshared :=
  match i with O => mkRSh (r_mu s) true (r_d1 s) (r_k0 s) (r_k1 s) (r_cur s) (r_gauge s)
             | _ => mkRSh (r_mu s) (r_d0 s) true (r_k0 s) (r_k1 s) (r_cur s) (r_gauge s) end.
Definition r_set_closed (s : rshared) (i : nat) : rshared :=
  match i with O => mkRSh (r_mu s) (r_d0 s) (r_d1 s) true (r_k1 s) (r_cur s) (r_gauge s)
             | _ => mkRSh (r_mu s) (r_d0 s) (r_d1 s) (r_k0 s) true (r_cur s) (r_gauge s) end.
Definition r_set_mu (s : rshared) (m : bool) : rshared := mkRSh m (r_d0 s) (r_d1 s) (r_k0 s) (r_k1 s) (r_cur s) (r_gauge s).
Definition r_set_cur (s : rshared) (c : nat) : rshared := mkRSh (r_mu s) (r_d0 s) (r_d1 s) (r_k0 s) (r_k1 s) c (r_gauge s).
Definition r_add (s : rshared) (z : Z) : rshared := mkRSh (r_mu s) (r_d0 s) (r_d1 s) (r_k0 s) (r_k1 s) (r_cur s) (r_gauge s + z).

Definition rstep (identity : bool) (t : list rinstr) (s : rshared) : list rinstr * rshared :=
  match t with
  | [] => (t, s)
  | RLock :: r => if r_mu s then (t, s) else (r, r_set_mu s true)
  | RUnlock :: r => (r, r_set_mu s false)
  | RCheck :: r => match r_cur s with O => (r, s) | S _ => ([RUnlock], s) end
  | RDial i :: r => (r, r_set_dialed s i)
  | RInc :: r => (r, r_add s 1)
  | RStore i :: r => (r, r_set_cur s (S i))
  | RPublish i :: r => match r_cur s with O => (r, r_set_cur s (S i)) | S _ => ([RUnlock; RCloseOwn i], s) end
  | RCloseOwn i :: r => (r, r_set_closed s i)
  | REvClose i :: r => if r_dialed s i then (r, r_set_closed s i) else (t, s)
  | REvHandle i :: r =>
      (r, r_set_cur (r_add s (-1)) (if identity then (if Nat.eqb (r_cur s) (S i) then O else r_cur s) else O))
  end.

Definition rcfg := (list (list rinstr) * rshared)%type.

Definition new_prog (dial_locked : bool) (i : nat) : list rinstr :=
  if dial_locked then [RLock; RCheck; RDial i; RInc; RStore i; RUnlock]
  else [RLock; RCheck; RUnlock; RDial i; RInc; RLock; RPublish i; RUnlock].
Definition ev_prog (i : nat) : list rinstr := [REvClose i; RLock; REvHandle i; RUnlock].
Definition race_cfg (dial_locked : bool) : rcfg :=
  ([new_prog dial_locked 0; new_prog dial_locked 1; ev_prog 0; ev_prog 1], mkRSh false false false false false 0 0).

Definition rrun (identity : bool) (sched : list nat) (c : rcfg) : rcfg := Interleave.run (rstep identity) sched c.

(* quiescent: both NewStream calls returned, and every close event has been handled (an event thread that has not started
   belongs to a connection that is not closed) *)
Definition ev_idle (c : rcfg) (i : nat) : bool :=
  match nth_error (fst c) (2 + i) with
  | Some [] => true
  | Some (REvClose _ :: _) => negb (r_closed (snd c) i)
  | _ => false
  end.
Definition quiescent (c : rcfg) : bool :=
  match fst c with [] :: [] :: _ => ev_idle c 0 && ev_idle c 1 | _ => false end.

Definition b2z (b : bool) : Z := if b then 1 else 0.
(* the books of a quiescent pool: the gauge is the number of open connections, every open connection is the shared client
   (none orphaned), the shared client is open *)
Definition books_ok (s : rshared) : bool :=
  (r_gauge s =? b2z (r_open s 0) + b2z (r_open s 1)) &&
  (negb (r_open s 0) || Nat.eqb (r_cur s) 1) && (negb (r_open s 1) || Nat.eqb (r_cur s) 2) &&
  match r_cur s with O => true | S i => Nat.ltb i 2 && r_open s i end.
Definition race_good (c : rcfg) : bool :=
  (0 <=? r_gauge (snd c)) && (negb (quiescent c) || books_ok (snd c)).

(* hand-over of a quiescent state to the atomic model *)
Definition race_pool (s : rshared) : h2pool :=
  mkH2P 2 (fun i => mkH2C (negb (r_open s i)) false 0) (match r_cur s with O => None | S i => Some i end) (r_gauge s).

(* ---- the finite reachable set, computed ---------------------------------------------------------------- *)
Definition rinstr_eqb (a b : rinstr) : bool :=
  match a, b with
  | RLock, RLock | RUnlock, RUnlock | RCheck, RCheck | RInc, RInc => true
  | RDial i, RDial j | RStore i, RStore j | RPublish i, RPublish j | RCloseOwn i, RCloseOwn j
  | REvClose i, REvClose j | REvHandle i, REvHandle j => Nat.eqb i j
  | _, _ => false
  end.
Definition rsh_eqb (a b : rshared) : bool :=
  Bool.eqb (r_mu a) (r_mu b) && Bool.eqb (r_d0 a) (r_d0 b) && Bool.eqb (r_d1 a) (r_d1 b) && Bool.eqb (r_k0 a) (r_k0 b) &&
  Bool.eqb (r_k1 a) (r_k1 b) && Nat.eqb (r_cur a) (r_cur b) && (r_gauge a =? r_gauge b).
Definition rcfg_eqb (a b : rcfg) : bool := list_eqb (list_eqb rinstr_eqb) (fst a) (fst b) && rsh_eqb (snd a) (snd b).
Definition rmem (c : rcfg) (l : list rcfg) : bool := existsb (rcfg_eqb c) l.

Definition rsucc (identity : bool) (c : rcfg) : list rcfg :=
  map (sched_step (rstep identity) c) [0; 1; 2; 3]%nat.
Fixpoint rreach (identity : bool) (fuel : nat) (frontier visited : list rcfg) : list rcfg :=
  match fuel with
  | O => visited
  | S f =>
    match frontier with
    | [] => visited
    | c :: rest =>
      if rmem c visited then rreach identity f rest visited
      else rreach identity f (rsucc identity c ++ rest) (c :: visited)
    end
  end.
Definition rreachable (identity : bool) (c0 : rcfg) : list rcfg := rreach identity 5000 [c0] [].
Definition rclosed_check (identity : bool) (c0 : rcfg) (R : list rcfg) : bool :=
  rmem c0 R && forallb (fun c => Nat.eqb (length (fst c)) 4 && forallb (fun d => rmem d R) (rsucc identity c)) R.
