(* The weighted round robin BALANCER (loadbalancer.go EdfLoadBalancer) with hosts whose HEALTH changes.

   refresh Adds EVERY host of the host set to the scheduler, healthy or not (a host that is unhealthy when the
   balancer is built and recovers later is served by weight again, without a rebuild).  ChooseHost performs up to
   `total` scheduler picks and returns the first healthy one; when all `total` picks are unhealthy it falls back to
   the unweighted chooser, which does not touch the scheduler.
   An OBSERVED pick is (unhealthy flags at that moment, host returned).  ONLY executable definitions here. *)
From Coq Require Import List ZArith Bool.
From MV Require Import Model.Edf.
Import ListNotations.
Open Scope Z_scope.

Definition unh_at (unh : list bool) (j : nat) : bool := nth j unh false.

(* states after k <= fuel skipped picks of unhealthy deadline-minimal entries *)
Fixpoint edf_skips (fuel : nat) (unh : list bool) (s : edf) : list edf :=
  s :: match fuel with
       | O => []
       | S f => flat_map (fun j => if unh_at unh j
                                   then match edf_pick s j with Some s' => edf_skips f unh s' | None => [] end
                                   else [])
                         (seq 0 (length (es s)))
       end.

(* exactly n skipped picks *)
Fixpoint edf_skips_exact (n : nat) (unh : list bool) (s : edf) : list edf :=
  match n with
  | O => [s]
  | S f => flat_map (fun j => if unh_at unh j
                              then match edf_pick s j with Some s' => edf_skips_exact f unh s' | None => [] end
                              else [])
                    (seq 0 (length (es s)))
  end.

(* one observed ChooseHost returning host i: at most total-1 skips then the pick of healthy i; or `total`
   skipped picks and the fallback (any healthy host, scheduler state after the skips) *)
Definition edf_observe (unh : list bool) (s : edf) (i : nat) : list edf :=
  let total := length (es s) in
  if unh_at unh i then [] else
  flat_map (fun s1 => match edf_pick s1 i with Some s' => [s'] | None => [] end) (edf_skips (total - 1) unh s)
  ++ edf_skips_exact total unh s.

(* states are compared up to the scheduler's clock / queuedTime (they only break ties, which `edf_pick` leaves open) *)
Definition entry_eqb (a b : entry) : bool := (per a =? per b) && (dl a =? dl b).
Fixpoint es_eqb (l1 l2 : list entry) : bool :=
  match l1, l2 with
  | [], [] => true
  | a :: l1', b :: l2' => entry_eqb a b && es_eqb l1' l2'
  | _, _ => false
  end.
Definition edf_eqb (a b : edf) : bool := (now a =? now b) && es_eqb (es a) (es b).
Fixpoint dedup_states (l : list edf) : list edf :=
  match l with
  | [] => []
  | s :: l' => if existsb (edf_eqb s) l' then dedup_states l' else s :: dedup_states l'
  end.

Fixpoint edf_observe_all (ss : list edf) (obs : list (list bool * nat)) : list edf :=
  match obs with
  | [] => ss
  | (unh, i) :: obs' => edf_observe_all (dedup_states (flat_map (fun s => edf_observe unh s i) ss)) obs'
  end.

(* a case: D, weights in host-set order, observed picks with the health flags in force; the balancer starts from
   a state reached by r < n pre-picks (refresh) *)
Definition edfh_start (D : Z) (ws : list Z) : edf := fold_left (fun s w => edf_add s (D / w)) ws edf_init.
Definition wrrh_case := (Z * list Z * list (list bool * nat))%type.
Definition wrrh_case_ok (k : wrrh_case) : bool :=
  match k with (D, ws, obs) =>
    (0 <? D) && forallb (fun w => (0 <? w) && (D mod w =? 0)) ws &&
    negb (match edf_observe_all (flat_map (fun r => edf_reach (edfh_start D ws) r) (seq 0 (length ws))) obs with
          | [] => true | _ => false end)
  end.
Definition wrrh_mismatches (l : list wrrh_case) : list nat := mism wrrh_case_ok 0 l.
