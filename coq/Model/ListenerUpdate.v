(* Model of runtime listener updates (property C12, part of group tls).  ONLY executable definitions.

   pkg/server/adapter.go   ListenerAdapter.AddOrUpdateListener / DeleteListener (the LDS entry points)
   pkg/server/handler.go   connHandler.AddOrUpdateListener: add branch (new activeListener from the config) and update branch
                           (rawConfig := the live listener's stored config; fields copied one by one; the TLS manager rebuilt
                           by mtls.NewTLSServerContextManager(rawConfig)); configmanager.SetListenerConfig of the live listener config
                           records the stored config = what a dump shows and a fresh MOSN would start from.
   A listener configuration is reduced to what a client can observe:
     TLS contexts (opaque tokens, [] = no TLS), inspector, the route target of its proxy filter (opaque token),
     the connection idle time-out (0 = unset).
   Switches read from the source (Gen/ListenerTokens.v):
     insp_first     rawConfig.Inspector is assigned BEFORE the TLS manager is built from rawConfig
     idle_stored    the update branch writes the new idle time-out into the stored config as well (not only into the live object)
     remove_clears  DeleteListener removes the listener from the stored configuration
     dump_is_live   what is stored for the dump is the running listener's own (merged) config, not the update request *)
From Coq Require Import List Arith Bool.
Import ListNotations.

Record lconf := mkLC { lc_ctxs : list nat; lc_insp : bool; lc_route : nat; lc_idle : nat;
                       lc_static : nat (* the fields an in-place update does NOT apply to a running listener - bind_port, type,
                                          network, reuse_port, access_logs, default_read_buffer_size - as one opaque token *) }.
(* the live listener: what its TLS manager was built from, where its proxy routes, its idle time-out *)
Record llive := mkLL { ll_mgr : list nat * bool; ll_route : nat; ll_idle : nat; ll_static : nat }.

Definition fresh (c : lconf) : llive := mkLL (lc_ctxs c, lc_insp c) (lc_route c) (lc_idle c) (lc_static c).

Record lflags := mkF { insp_first : bool; idle_stored : bool; remove_clears : bool; dump_is_live : bool }.

Record lstate := mkS { live : nat -> option llive; stored : nat -> option lconf }.
Definition s_init : lstate := mkS (fun _ => None) (fun _ => None).

Definition upd {A} (m : nat -> option A) (n : nat) (v : option A) : nat -> option A :=
  fun k => if Nat.eqb k n then v else m k.

Inductive uop := UAddOrUpdate (n : nat) (c : lconf) | URemove (n : nat).

(* the config of a running listener after an in-place update with document c: the applied fields come from the document,
   the static fields stay as they are *)
Definition merge (p c : lconf) : lconf := mkLC (lc_ctxs c) (lc_insp c) (lc_route c) (lc_idle c) (lc_static p).

Definition u_step (f : lflags) (s : lstate) (o : uop) : lstate :=
  match o with
  | UAddOrUpdate n c =>
      match live s n, stored s n with
      | Some _, Some p =>
          (* update branch: the running listener keeps its static fields; the stored (dumped) config is the running
             listener's own merged config - or, with dump_is_live = false, the update request's document *)
          mkS (upd (live s) n (Some (mkLL (lc_ctxs c, if insp_first f then lc_insp c else lc_insp p) (lc_route c) (lc_idle c) (lc_static p))))
              (upd (stored s) n (Some (if dump_is_live f
                                       then mkLC (lc_ctxs c) (lc_insp c) (lc_route c) (if idle_stored f then lc_idle c else lc_idle p) (lc_static p)
                                       else c)))
      | _, _ =>
          (* add branch *)
          mkS (upd (live s) n (Some (fresh c))) (upd (stored s) n (Some c))
      end
  | URemove n =>
      mkS (upd (live s) n None) (if remove_clears f then upd (stored s) n None else stored s)
  end.
Definition u_run (f : lflags) (ops : list uop) : lstate := fold_left (u_step f) ops s_init.

(* what a client observes on a listener: listening?, TLS handshake possible, certificate of the first context,
   plaintext served, route target, idle connection closed *)
Definition observation := (bool * bool * nat * bool * nat * bool * nat)%type.
Definition observe (l : option llive) : observation :=
  match l with
  | None => (false, false, 0, false, 0, false, 0)
  | Some x =>
      let ctxs := fst (ll_mgr x) in
      let tls := negb (match ctxs with [] => true | _ => false end) in
      (true, tls, hd 0 ctxs, orb (negb tls) (snd (ll_mgr x)), ll_route x, negb (Nat.eqb (ll_idle x) 0), ll_static x)
  end.

Definition obs_eqb (a b : observation) : bool :=
  match a, b with (a1, a2, a3, a4, a5, a6, a7), (b1, b2, b3, b4, b5, b6, b7) =>
    andb (andb (andb (andb (Bool.eqb a1 b1) (Bool.eqb a2 b2)) (andb (Nat.eqb a3 b3) (Bool.eqb a4 b4))) (andb (Nat.eqb a5 b5) (Bool.eqb a6 b6))) (Nat.eqb a7 b7) end.

Fixpoint mismatches_from {A} (ok : A -> bool) (i : nat) (l : list A) : list nat :=
  match l with
  | [] => []
  | x :: l' => if ok x then mismatches_from ok (S i) l' else i :: mismatches_from ok (S i) l'
  end.

(* update history, listener name, what was observed on the LIVE listener (clients + the static fields of its own config),
   the static fields of the DUMPED config (None: not in the dump) *)
Definition lu_case := (list uop * nat * observation * option nat)%type.
Definition lu_case_ok (f : lflags) (k : lu_case) : bool :=
  match k with (ops, n, got, dumped) =>
    andb (obs_eqb (observe (live (u_run f ops) n)) got)
         (match option_map lc_static (stored (u_run f ops) n), dumped with
          | Some a, Some b => Nat.eqb a b
          | None, None => true
          | _, _ => false
          end) end.
Definition lu_mismatches (f : lflags) (l : list lu_case) : list nat := mismatches_from (lu_case_ok f) 0 l.
