(* Model/XCheck.v (codec) - comparison functions for the correspondence shards of dubbo / dubbo-thrift / tars.
   The opaque body parsers are given per case as finite tables computed by the harness with the real libraries. *)
From Coq Require Import List NArith Bool.
From MV Require Import Lib.Bytes Lib.Dec Lib.Seg Model.CodecParams Model.Xcodecs Model.BoltCheck.
Import ListNotations.
Open Scope N_scope.

Fixpoint lookup {A} (k : bytes) (t : list (bytes * A)) (d : A) : A :=
  match t with
  | [] => d
  | (k', a) :: r => if beq k' k then a else lookup k r d
  end.
Fixpoint lookup2 {A} (f : bool) (k : bytes) (t : list (bool * bytes * A)) (d : A) : A :=
  match t with
  | [] => d
  | (f', k', a) :: r => if Bool.eqb f f' && beq k' k then a else lookup2 f k r d
  end.

(* which codec, with its oracle tables *)
Inductive xcodec :=
| XDubbo (hess : list (bytes * bool))
| XThrift (tp : list (bytes * option (N * N)))
| XTars (st : list (bytes * N)) (rp : list (bool * bytes * option N)).

Definition x_decode (c : xcodec) : view -> M (xframe * N) :=
  match c with
  | XDubbo t => dubbo_decode (fun p => lookup p t false)
  | XThrift t => thrift_decode (fun p => lookup p t None)
  | XTars st rp => tars_decode (fun p => lookup p st 255) (fun f p => lookup2 f p rp None)
  end.
Definition x_parse (c : xcodec) (b : bytes) : presult xframe := x_presult (x_decode c (view_of b)).

Inductive xobs := XNeedMore | XErr | XPanic | XFrame (n : N) (nums : list N) (payload : bytes).
Definition xdecode_case := (xcodec * bytes * xobs)%type.
Definition xdecode_case_ok (k : xdecode_case) : bool :=
  match k with
  | (c, b, o) =>
    match res (x_decode c (view_of b)), o with
    | Ok (f, n), XFrame n' nums p => (n =? n') && nlist_eqb (x_nums f) nums && beq (x_payload f) p
    | NeedMore, XNeedMore => true
    | Err _, XErr => true
    | Panic, XPanic => true
    | _, _ => false
    end
  end.
Definition xdecode_mismatches (l : list xdecode_case) : list nat := mism xdecode_case_ok 0 l.

Inductive xsobs := XSFrame (nums : list N) (payload : bytes) | XSClose.
Definition xev_obs (e : event xframe) : xsobs :=
  match e with EFrame f => XSFrame (x_nums f) (x_payload f) | EReply f => XSFrame (x_nums f) (x_payload f) | EClose => XSClose end.
Definition xsobs_eqb (a b : xsobs) : bool :=
  match a, b with
  | XSFrame n p, XSFrame n' p' => nlist_eqb n n' && beq p p'
  | XSClose, XSClose => true
  | _, _ => false
  end.
Fixpoint xsobs_list_eqb (a b : list xsobs) : bool :=
  match a, b with
  | [], [] => true
  | x :: a', y :: b' => xsobs_eqb x y && xsobs_list_eqb a' b'
  | _, _ => false
  end.
Definition xseg_case := (xcodec * list bytes * list xsobs * N * bool)%type.
Definition xseg_case_ok (k : xseg_case) : bool :=
  match k with
  | (c, chunks, evs, nleft, closed) =>
    let s := fold_left (feed (x_parse c)) chunks init in
    xsobs_list_eqb (map xev_obs (out s)) evs && (closed || (blen (buf s) =? nleft)) && Bool.eqb (dead s) closed && negb (stuck s)
  end.
Definition xseg_mismatches (l : list xseg_case) : list nat := mism xseg_case_ok 0 l.

(* ---- Decode, SetRequestId(id) [, SetData(d)], Encode: (codec, frame bytes, id, new body, bytes observed) ---- *)
Definition xenc_case := (xcodec * bytes * N * option bytes * bytes)%type.
Definition xenc_case_ok (k : xenc_case) : bool :=
  match k with
  | (c, b, id, sd, o) =>
    match res (x_decode c (view_of b)) with
    | Ok (f, _) =>
      match c with
      | XDubbo _ =>
          let f1 := dubbo_set_id id f in
          let f2 := match sd with Some d => dubbo_set_data dubbo_setdata_resets_raw d f1 | None => f1 end in
          beq (dubbo_encode [] f2) o
      | XThrift _ =>
          match sd, thrift_encode [] (thrift_set_id id f) with
          | None, Some out => beq out o
          | _, _ => false
          end
      | XTars _ _ => false
      end
    | _ => false
    end
  end.
Definition xenc_mismatches (l : list xenc_case) : list nat := mism xenc_case_ok 0 l.

(* containment run, dubbo / tars listener: (codec tables, bytes sent, closed by the server?) *)
Definition xconn_case := (xcodec * bytes * bool)%type.
Definition xconn_case_ok (k : xconn_case) : bool :=
  match k with
  | (c, b, closed) => let s := feed (x_parse c) init b in Bool.eqb (dead s) closed && negb (stuck s)
  end.
Definition xconn_mismatches (l : list xconn_case) : list nat := mism xconn_case_ok 0 l.

(* dubbo-thrift slow path: (bytes written by the thrift library for service name + id, new payload, bytes observed) *)
Definition xslow_case := (bytes * bytes * bytes)%type.
Definition xslow_case_ok (k : xslow_case) : bool :=
  match k with (lib, payload, o) => beq (thrift_encode_slow (fun _ _ => lib) [] 0 payload) o end.
Definition xslow_mismatches (l : list xslow_case) : list nat := mism xslow_case_ok 0 l.
