(* The built-in stream filters of mosn that can DENY a request (answer it themselves with a hijack reply and stop the chain):
     ip_access      pkg/filter/stream/ipaccess       BeforeRoute   403 when the source address is blocked
     payload_limit  pkg/filter/stream/payloadlimit   AfterRoute    configured status when the body is larger than the limit
     fault_inject   pkg/filter/stream/faultinject    AfterRoute    configured abort status (abort percent 100; 0 = never)
   ONLY executable definitions here.

   Two layers:
   [decide]  the decision as a pure function of (listener-level configuration, per-route configuration of THIS request's route,
             request) - what the property needs;
   [serve]   the filters as the code builds them: one factory per listener configuration, a filter object per stream whose
             configuration is either a fresh conversion of the factory's configuration or the factory's own object (switch
             [*_fresh]), and ReadPerRouteConfig that either REPLACES the filter's configuration pointer by the route-level one or
             writes the route-level values INTO the object it points to (switch [*_replaces]).  A history = the list of
             requests served by streams of one factory.
   Proofs/ProxyBuiltin.v: if for each filter one of the two switches holds, [serve] over any history answers request k with
   [decide] of request k alone; with both off it does not.
   Other deny-capable filters of pkg/filter/stream are not modelled: flowcontrol (sentinel: depends on traffic statistics by
   design), transcoder (plug-in transcoders), seata (talks to a transaction coordinator), dubbo (termination on an undecodable
   frame), mirror (only when the mirror is the sole destination). *)
From Coq Require Import List ZArith Bool.
From MV Require Import Model.Proxy.
Import ListNotations.
Open Scope Z_scope.

Inductive decision := Allow | Deny (status : Z).

(* payload_limit: max_entity_size (0 = disabled), http_status *)
Record plc := { pl_max : Z; pl_status : Z }.
(* fault_inject (abort part): status; [fi_always] = abort percent >= 100 (0 = never; other percentages are random: not modelled);
   upstream cluster the fault is restricted to (None = any); [fi_hdr] = a header matcher is configured (x-fault: 1) *)
Record fic := { fi_status : Z; fi_always : bool; fi_upstream : option nat; fi_hdr : bool }.
(* ip_access: entries in order, each an allow-list or a deny-list; default action *)
Inductive ipact := IpAllow | IpDeny.
Record ipc := { ip_entries : list ipact; ip_default_deny : bool }.

(* the filters configured on the listener, in chain order ip_access, payload_limit, fault_inject *)
Record lcfg := { l_ip : option ipc; l_pl : option plc; l_fi : option fic }.
(* the route the request matched: its cluster, its per_filter_config entries *)
Record rcfg := { r_cluster : nat; r_pl : option plc; r_fi : option fic }.
(* the request: body length (None = no body buffer), whether it carries x-fault: 1, and for every ip_access entry whether the
   source address is in the entry's list (None = the address cannot be parsed: the entry is skipped) *)
Record breq := { q_body : option Z; q_fault_hdr : bool; q_member : list (option bool) }.

(* ---------- the decision functions on an EFFECTIVE configuration ---------- *)
Definition pl_eval (e : plc) (body : option Z) : decision :=
  match body with
  | Some n => if negb (pl_max e =? 0) && (pl_max e <? n) then Deny (pl_status e) else Allow
  | None => Allow
  end.

Definition fi_eval (e : fic) (cluster : nat) (hdr : bool) : decision :=
  let up := match fi_upstream e with Some k => Nat.eqb k cluster | None => true end in
  if up && (negb (fi_hdr e) || hdr) && fi_always e then Deny (fi_status e) else Allow.

Fixpoint ip_eval (es : list ipact) (ms : list (option bool)) (default_deny : bool) : decision :=
  match es, ms with
  | a :: es', m :: ms' =>
    match m with
    | Some true => match a with IpAllow => Allow | IpDeny => Deny 403 end
    | _ => ip_eval es' ms' default_deny
    end
  | _, _ => if default_deny then Deny 403 else Allow
  end.

(* ---------- specification: route-level configuration overrides the listener-level one, wholesale ---------- *)
Definition eff {T} (l : T) (r : option T) : T := match r with Some o => o | None => l end.

Definition first_deny (ds : list decision) : decision :=
  fold_right (fun d acc => match d with Deny s => Deny s | Allow => acc end) Allow ds.

Definition decide_spec (l : lcfg) (r : rcfg) (q : breq) : list decision :=
  [match l_ip l with Some i => ip_eval (ip_entries i) (q_member q) (ip_default_deny i) | None => Allow end;
   match l_pl l with Some p => pl_eval (eff p (r_pl r)) (q_body q) | None => Allow end;
   match l_fi l with Some f => fi_eval (eff f (r_fi r)) (r_cluster r) (q_fault_hdr q) | None => Allow end].

(* ---------- the filters as built by the code ---------- *)
Record bsrc := { pl_fresh : bool; pl_replaces : bool; fi_fresh : bool; fi_replaces : bool }.

(* ReadPerRouteConfig writing INTO the current object: payload_limit keeps the status when the route-level one is 0 (the only
   variant seen); fault_inject: every field *)
Definition pl_merge (cur o : plc) : plc := {| pl_max := pl_max o; pl_status := if pl_status o =? 0 then pl_status cur else pl_status o |}.
Definition fi_merge (cur o : fic) : fic := o.

(* one stream of the factory: [shared] = the factory's configuration object; returns the object afterwards and the
   configuration the filter decides with *)
Definition stream_cfg {T} (fresh replaces : bool) (merge : T -> T -> T) (shared : T) (r : option T) : T * T :=
  match r with
  | None => (shared, shared)
  | Some o =>
    if replaces then (shared, o)
    else let e := merge shared o in ((if fresh then shared else e), e)
  end.

Record bstate := { b_pl : option plc; b_fi : option fic }.
Definition binit (l : lcfg) : bstate := {| b_pl := l_pl l; b_fi := l_fi l |}.

Definition serve (src : bsrc) (l : lcfg) (b : bstate) (r : rcfg) (q : breq) : bstate * list decision :=
  let d_ip := match l_ip l with Some i => ip_eval (ip_entries i) (q_member q) (ip_default_deny i) | None => Allow end in
  let '(pl', d_pl) := match b_pl b with
                      | Some p => let '(p', e) := stream_cfg (pl_fresh src) (pl_replaces src) pl_merge p (r_pl r) in (Some p', pl_eval e (q_body q))
                      | None => (None, Allow)
                      end in
  let '(fi', d_fi) := match b_fi b with
                      | Some f => let '(f', e) := stream_cfg (fi_fresh src) (fi_replaces src) fi_merge f (r_fi r) in (Some f', fi_eval e (r_cluster r) (q_fault_hdr q))
                      | None => (None, Allow)
                      end in
  (* a filter that is not reached (an earlier one denied and stopped the chain) does not read its route configuration *)
  let reach_pl := match d_ip with Allow => true | Deny _ => false end in
  let reach_fi := reach_pl && match d_pl with Allow => true | Deny _ => false end in
  ({| b_pl := if reach_pl then pl' else b_pl b; b_fi := if reach_fi then fi' else b_fi b |},
   [d_ip; if reach_pl then d_pl else Allow; if reach_fi then d_fi else Allow]).

Fixpoint serve_all (src : bsrc) (l : lcfg) (b : bstate) (h : list (rcfg * breq)) : list (list decision) :=
  match h with
  | [] => []
  | (r, q) :: h' => let '(b', d) := serve src l b r q in d :: serve_all src l b' h'
  end.

(* the decision of request k alone: a factory that has served nothing before *)
Definition decide (src : bsrc) (l : lcfg) (r : rcfg) (q : breq) : list decision := snd (serve src l (binit l) r q).

(* ---------- into the proxy model: the chain of THIS request, every filter with the verdict it returns ---------- *)
Definition verdict_of (d : decision) : verdict := match d with Allow => VContinue | Deny _ => VHijack end.
Definition code_of (d : decision) (dflt : Z) : Z := match d with Allow => dflt | Deny s => s end.

Definition builtin_recv (l : lcfg) (ds : list decision) : list rfilter :=
  match ds with
  | [d_ip; d_pl; d_fi] =>
    (match l_ip l with Some _ => [{| f_phase := 0; f_code := code_of d_ip 403; f_verdicts := [verdict_of d_ip] |}] | None => [] end) ++
    (match l_pl l with Some p => [{| f_phase := 1; f_code := code_of d_pl (pl_status p); f_verdicts := [verdict_of d_pl] |}] | None => [] end) ++
    (match l_fi l with Some f => [{| f_phase := 1; f_code := code_of d_fi (fi_status f); f_verdicts := [verdict_of d_fi] |}] | None => [] end)
  | _ => []
  end.

Definition builtin_cfg (l : lcfg) (r : rcfg) (q : breq) : cfg :=
  {| c_oneway := false; c_data := match q_body q with Some _ => true | None => false end; c_trailers := false;
     c_route := RouteForward; c_nhosts := 2; c_retry_on := false; c_num_retries := 0; c_codes := []; c_try_timeout := false;
     c_max_retries := 0; c_recv := builtin_recv l (decide_spec l r q); c_send := []; c_pool := []; c_delay := [];
     c_snd_err_hdr := false; c_snd_err_data := false; c_snd_err_trl := false; c_http := false; c_nohost_from := None; c_late_reset := false; c_disable_retry := false |}.

(* ---------- correspondence checker: a recorded history of one factory ---------- *)
(* what was seen for one request: the reply (None = the upstream's), and whether the request was sent upstream *)
Record bobs := { o_denied : option Z; o_forwarded : bool }.
Record bcase := { bc_l : lcfg; bc_hist : list (rcfg * breq * bobs) }.

Definition dec_eqb (a b : decision) : bool :=
  match a, b with Allow, Allow => true | Deny x, Deny y => x =? y | _, _ => false end.

Definition obs_matches (ds : list decision) (o : bobs) : bool :=
  match first_deny ds, o_denied o with
  | Allow, None => o_forwarded o
  | Deny s, Some s' => (s =? s') && negb (o_forwarded o)
  | _, _ => false
  end.

Definition bcase_ok (src : bsrc) (c : bcase) : bool :=
  let ds := serve_all src (bc_l c) (binit (bc_l c)) (map fst (bc_hist c)) in
  (length ds =? length (bc_hist c))%nat && forallb (fun p => obs_matches (fst p) (snd (snd p))) (combine ds (bc_hist c)).

Fixpoint mism_from {A} (f : A -> bool) (l : list A) (i : nat) : list nat :=
  match l with [] => [] | x :: l' => if f x then mism_from f l' (S i) else i :: mism_from f l' (S i) end.
Definition builtin_mismatches (src : bsrc) (cs : list bcase) : list nat := mism_from (bcase_ok src) cs 0.
