(* CHECK-THEN-ACT on the limits, as micro-steps under every schedule (Lib/Interleave.v): three concurrent admissions
   against a limit of 1.

     Requests resource (every pool's NewStream):  Requests().CanCreate()  ...  Requests().Increase()
        two separate calls on types.Resource, nothing holds them together      [ACheckReq; AIncReq]
     connection count of the ping-pong / HTTP/1 pools (totalClientCount vs max_connections), no idle client:
        counted inside the critical section of the test (HTTP/1; ping-pong since the repair)
                                                                               [ALock; ATestInc; AUnlock; ADial]
        counted after the dial (ping-pong before the repair)                   [ALock; ATest; AUnlock; ADial; AIncConn]
   ONLY executable definitions; proofs in Proofs/PoolAdmit.v. *)
From Coq Require Import List ZArith Bool Arith.
From MV Require Import Lib.Interleave Model.Pool.
Import ListNotations.
Open Scope Z_scope.

Inductive ainstr :=
| ALock | AUnlock
| ACheckReq          (* CanCreate(): cur < max, else the call is refused (the thread stops) *)
| AIncReq            (* Increase(); the request is accepted *)
| ATest              (* totalClientCount < max, else Overflow (unlock and stop) *)
| ATestInc           (* the same test and totalClientCount + 1 in one critical section *)
| ADial              (* the connection is dialled: it exists *)
| AIncConn.          (* totalClientCount + 1 after the dial *)

Record ashared := mkASh { ad_mu : bool; ad_cur : Z; ad_entered : Z; ad_total : Z; ad_conns : Z }.
Definition ad_max : Z := 1.

Definition adstep (t : list ainstr) (s : ashared) : list ainstr * ashared :=
  match t with
  | [] => (t, s)
  | ALock :: r => if ad_mu s then (t, s) else (r, mkASh true (ad_cur s) (ad_entered s) (ad_total s) (ad_conns s))
  | AUnlock :: r => (r, mkASh false (ad_cur s) (ad_entered s) (ad_total s) (ad_conns s))
  | ACheckReq :: r => if ad_cur s <? ad_max then (r, s) else ([], s)
  | AIncReq :: r => (r, mkASh (ad_mu s) (ad_cur s + 1) (ad_entered s + 1) (ad_total s) (ad_conns s))
  | ATest :: r => if ad_total s <? ad_max then (r, s) else ([AUnlock], s)
  | ATestInc :: r => if ad_total s <? ad_max then (r, mkASh (ad_mu s) (ad_cur s) (ad_entered s) (ad_total s + 1) (ad_conns s))
                     else ([AUnlock], s)
  | ADial :: r => (r, mkASh (ad_mu s) (ad_cur s) (ad_entered s) (ad_total s) (ad_conns s + 1))
  | AIncConn :: r => (r, mkASh (ad_mu s) (ad_cur s) (ad_entered s) (ad_total s + 1) (ad_conns s))
  end.

Definition adcfg := (list (list ainstr) * ashared)%type.
Definition req_prog : list ainstr := [ACheckReq; AIncReq].
Definition conn_prog (count_locked : bool) : list ainstr :=
  if count_locked then [ALock; ATestInc; AUnlock; ADial] else [ALock; ATest; AUnlock; ADial; AIncConn].
Definition ad0 : ashared := mkASh false 0 0 0 0.
Definition req_cfg : adcfg := ([req_prog; req_prog; req_prog], ad0).
Definition conn_cfg (count_locked : bool) : adcfg := ([conn_prog count_locked; conn_prog count_locked; conn_prog count_locked], ad0).
Definition adrun (sched : list nat) (c : adcfg) : adcfg := Interleave.run adstep sched c.

(* the limits hold: never more accepted requests / open connections than the limit *)
Definition entry_good (c : adcfg) : bool := (ad_entered (snd c) <=? ad_max) && (ad_conns (snd c) <=? ad_max).

(* ---- the finite reachable set, computed ---------------------------------------------------------------- *)
Definition ainstr_eqb (a b : ainstr) : bool :=
  match a, b with
  | ALock, ALock | AUnlock, AUnlock | ACheckReq, ACheckReq | AIncReq, AIncReq | ATest, ATest | ATestInc, ATestInc
  | ADial, ADial | AIncConn, AIncConn => true
  | _, _ => false
  end.
Definition ash_eqb (a b : ashared) : bool :=
  Bool.eqb (ad_mu a) (ad_mu b) && (ad_cur a =? ad_cur b) && (ad_entered a =? ad_entered b) && (ad_total a =? ad_total b) && (ad_conns a =? ad_conns b).
Definition adcfg_eqb (a b : adcfg) : bool := list_eqb (list_eqb ainstr_eqb) (fst a) (fst b) && ash_eqb (snd a) (snd b).
Definition admem (c : adcfg) (l : list adcfg) : bool := existsb (adcfg_eqb c) l.
Definition adsucc (c : adcfg) : list adcfg := map (sched_step adstep c) [0; 1; 2]%nat.
Fixpoint adreach (fuel : nat) (frontier visited : list adcfg) : list adcfg :=
  match fuel with
  | O => visited
  | S f =>
    match frontier with
    | [] => visited
    | c :: rest => if admem c visited then adreach f rest visited else adreach f (adsucc c ++ rest) (c :: visited)
    end
  end.
Definition adreachable (c0 : adcfg) : list adcfg := adreach 5000 [c0] [].
Definition adclosed_check (c0 : adcfg) (R : list adcfg) : bool :=
  admem c0 R && forallb (fun c => Nat.eqb (length (fst c)) 3 && forallb (fun d => admem d R) (adsucc c)) R.
