(* Model of pkg/router: routers_impl.go (NewRouters, findVirtualHost, findHighestPriorityIndex),
   virtualhost.go (GetRouteFromEntries / GetAllRoutesFromEntries, NewRouteBase), http_rule.go, rpc_rule.go,
   variable_rule.go, dsl_rule.go, configutility.go (header matchers).
   ONLY executable definitions; proofs are in Proofs/Router.v.

   Strings are Coq [string]s; the correspondence with Go holds for ASCII (bytes < 128): Go's strings.ToLower and
   strings.EqualFold act on Unicode, the model folds 'A'..'Z' only.
   Regular expressions and DSL (CEL) expressions are black boxes: each occurrence in the configuration carries an
   identifier, and the request carries the list of identifiers whose expression holds for this request
   (filled in by the harness with Go's regexp on the subject the code would use). *)
From Coq Require Import List String Ascii Bool Arith.
From MV Require Import Gen.RouterSrc.
Import ListNotations.
Local Open Scope string_scope.

(* ------------------------------------------------------------------ strings *)
Definition lower_ascii (c : ascii) : ascii :=
  let n := nat_of_ascii c in
  if andb (Nat.leb 65 n) (Nat.leb n 90) then ascii_of_nat (n + 32) else c.

Fixpoint lower (s : string) : string :=
  match s with
  | EmptyString => EmptyString
  | String c s' => String (lower_ascii c) (lower s')
  end.

Fixpoint index_of (c : ascii) (s : string) : option nat :=
  match s with
  | EmptyString => None
  | String a s' => if Ascii.eqb a c then Some 0 else option_map S (index_of c s')
  end.

Fixpoint last_index_of (c : ascii) (s : string) : option nat :=
  match s with
  | EmptyString => None
  | String a s' =>
      match last_index_of c s' with
      | Some i => Some (S i)
      | None => if Ascii.eqb a c then Some 0 else None
      end
  end.

Definition contains_char (c : ascii) (s : string) : bool :=
  match index_of c s with Some _ => true | None => false end.

Fixpoint drop (n : nat) (s : string) : string :=
  match n, s with
  | O, _ => s
  | S n', String _ s' => drop n' s'
  | S _, EmptyString => EmptyString
  end.

Definition head_is (c : ascii) (s : string) : bool :=
  match s with String a _ => Ascii.eqb a c | EmptyString => false end.

Definition char_is (n : nat) (c : ascii) (s : string) : bool :=
  match String.get n s with Some a => Ascii.eqb a c | None => false end.

(* strings.HasSuffix *)
Definition is_suffix (suf s : string) : bool :=
  andb (Nat.leb (String.length suf) (String.length s))
       (String.eqb suf (drop (String.length s - String.length suf) s)).

(* strings.HasPrefix is String.prefix *)

(* ------------------------------------------------------------------ net.SplitHostPort (Go 1.23) *)
Inductive split_res := SplitOk (host port : string) | SplitMissingPort | SplitErr.

Definition split_host_port (hp : string) : split_res :=
  match last_index_of ":" hp with
  | None => SplitMissingPort
  | Some i =>
      if head_is "[" hp then
        match index_of "]" hp with
        | None => SplitErr                                  (* missing ']' in address *)
        | Some e =>
            if Nat.eqb (e + 1) (String.length hp) then SplitMissingPort
            else if Nat.eqb (e + 1) i then
              if contains_char "[" (drop 1 hp) then SplitErr
              else if contains_char "]" (drop (e + 1) hp) then SplitErr
              else SplitOk (substring 1 (e - 1) hp) (drop (i + 1) hp)
            else if char_is (e + 1) ":" hp then SplitErr     (* too many colons *)
            else SplitMissingPort
        end
      else
        let host := substring 0 i hp in
        if contains_char ":" host then SplitErr              (* too many colons *)
        else if contains_char "[" hp then SplitErr
        else if contains_char "]" hp then SplitErr
        else SplitOk host (drop (i + 1) hp)
  end.

(* routers_impl.go splitHostPortGraceful: a missing port is not an error *)
Definition split_graceful (hp : string) : option (string * string) :=
  match split_host_port hp with
  | SplitOk h p => Some (h, p)
  | SplitMissingPort => Some (hp, "")
  | SplitErr => None
  end.

(* ------------------------------------------------------------------ configuration *)
(* v2.HeaderMatcher: regex = Some id when Regex is set *)
Record hmatch := { hm_name : string; hm_value : string; hm_regex : option nat }.
(* v2.VariableMatcher after ParseToVariableMatchItem: value = None when Value == "", regex = Some id when Regex != "",
   vm_or = (lower Model == "or") *)
Record vmatch := { vm_name : string; vm_value : option string; vm_regex : option nat; vm_or : bool }.
(* v2.RouterMatch: m_regex = Some id when Regex != "" *)
Record rmatch := {
  m_prefix : string; m_path : string; m_regex : option nat;
  m_headers : list hmatch; m_vars : list vmatch; m_dsl : list nat }.
(* a route: its match, the cluster it names, and whether NewRouteBase fails on it (bad regex, bad redirect ...) *)
Record route := { r_match : rmatch; r_cluster : string; r_bad : bool }.
Record vhost := { vh_domains : list string; vh_routes : list route }.
Definition config := list vhost.

(* ------------------------------------------------------------------ request *)
(* variables that are set in the context (x-mosn-host, x-mosn-path, x-mosn-method, ...), the header map, and the
   identifiers of the regex / DSL occurrences that hold for this request *)
Record request := {
  rq_vars : list (string * string);
  rq_headers : list (string * string);
  rq_rx : list nat;
  rq_dsl : list nat }.

Fixpoint assoc (k : string) (l : list (string * string)) : option string :=
  match l with
  | [] => None
  | (k', v) :: l' => if String.eqb k' k then Some v else assoc k l'
  end.

Definition var_host := "x-mosn-host".
Definition var_path := "x-mosn-path".
Definition var_method := "x-mosn-method".
Definition rpc_key := "service".

Definition get_var (rq : request) (k : string) : option string := assoc k (rq_vars rq).
Definition get_hdr (rq : request) (k : string) : option string := assoc k (rq_headers rq).
Definition rx_holds (rq : request) (id : nat) : bool := existsb (Nat.eqb id) (rq_rx rq).
Definition dsl_holds (rq : request) (id : nat) : bool := existsb (Nat.eqb id) (rq_dsl rq).

(* ------------------------------------------------------------------ NewRouters *)
Inductive dkind := KExact (host port : string) | KWild (suffix port : string) | KDefault.
Inductive berr := ENilConfig | ERoute | ENoVirtualHost | EDupVirtualHost | EDupHostPort | ENoVirtualHostPort.
Inductive res (A : Type) := Ok (a : A) | Err (e : berr).
Arguments Ok {A} a.
Arguments Err {A} e.

(* generateHostWithPortConfig, the part that depends on the domain only *)
Definition classify_hp (hp : string * string) : res dkind :=
  let (h, p) := hp in
  if andb (String.eqb h "") (String.eqb p "") then Err ENoVirtualHost
  else if andb (String.eqb h "*") (orb (String.eqb p "*") (String.eqb p "")) then Ok KDefault
  else if negb (contains_char "*" h) then Ok (KExact h p)
  else if head_is "*" h then Ok (KWild (drop 1 h) p)
  else Err ENoVirtualHostPort.

Definition classify (domain : string) : res dkind :=
  match split_graceful (lower domain) with
  | None => Err ENoVirtualHostPort
  | Some hp => classify_hp hp
  end.

(* virtualHostPortsMap as (host, port, index) triples, portWildcardVirtualHost as (port, suffix, index) triples in
   insertion order, defaultVirtualHostIndex *)
Record table := {
  t_default : option nat;
  t_exact : list (string * string * nat);
  t_wild : list (string * string * nat) }.

Definition empty_table : table := {| t_default := None; t_exact := []; t_wild := [] |}.

Definition key_eqb (a b : string) (e : string * string * nat) : bool :=
  match e with (x, y, _) => andb (String.eqb x a) (String.eqb y b) end.

Definition add_entry (t : table) (i : nat) (k : dkind) : res table :=
  match k with
  | KDefault =>
      match t_default t with
      | Some _ => Err EDupVirtualHost
      | None => Ok {| t_default := Some i; t_exact := t_exact t; t_wild := t_wild t |}
      end
  | KExact h p =>
      if existsb (key_eqb h p) (t_exact t) then Err EDupHostPort
      else Ok {| t_default := t_default t; t_exact := t_exact t ++ [(h, p, i)]; t_wild := t_wild t |}
  | KWild s p =>
      if existsb (key_eqb p s) (t_wild t) then Err EDupVirtualHost
      else Ok {| t_default := t_default t; t_exact := t_exact t; t_wild := t_wild t ++ [(p, s, i)] |}
  end.

Fixpoint add_domains (t : table) (i : nat) (ds : list string) : res table :=
  match ds with
  | [] => Ok t
  | d :: ds' =>
      match classify d with
      | Err e => Err e
      | Ok k => match add_entry t i k with
                | Err e => Err e
                | Ok t' => add_domains t' i ds'
                end
      end
  end.

Fixpoint build_from (t : table) (i : nat) (vs : list vhost) : res table :=
  match vs with
  | [] => Ok t
  | v :: vs' =>
      if existsb r_bad (vh_routes v) then Err ERoute
      else match add_domains t i (vh_domains v) with
           | Err e => Err e
           | Ok t' => build_from t' (S i) vs'
           end
  end.

Definition build (c : config) : res table :=
  match c with
  | [] => Err ENilConfig
  | _ => build_from empty_table 0 c
  end.

(* ------------------------------------------------------------------ findVirtualHost *)
Fixpoint lookup3 (a b : string) (l : list (string * string * nat)) : option nat :=
  match l with
  | [] => None
  | e :: l' => if key_eqb a b e then (match e with (_, _, i) => Some i end) else lookup3 a b l'
  end.

Definition suffix_len (e : string * string * nat) : nat := match e with (_, s, _) => String.length s end.

(* sort.Sort(WildcardVirtualHostWithPortSlice): decreasing suffix length.  Go's sort is not stable; the model sorts by
   insertion and Proofs/Router.v shows that every order that is sorted by decreasing length gives the same answers. *)
Fixpoint insert_desc (e : string * string * nat) (l : list (string * string * nat)) :=
  match l with
  | [] => [e]
  | x :: l' => if Nat.ltb (suffix_len e) (suffix_len x) then x :: insert_desc e l' else e :: l
  end.
Definition sort_desc (l : list (string * string * nat)) := fold_right insert_desc [] l.

Definition port_is (p : string) (e : string * string * nat) : bool := match e with (x, _, _) => String.eqb x p end.

(* portWildcardVirtualHost[port] after NewRouters *)
Definition wild_for (t : table) (port : string) := sort_desc (filter (port_is port) (t_wild t)).

Definition wild_matches (host : string) (e : string * string * nat) : bool :=
  match e with (_, s, _) => andb (Nat.ltb (String.length s) (String.length host)) (is_suffix s host) end.

Fixpoint first_wild (l : list (string * string * nat)) (host : string) : option nat :=
  match l with
  | [] => None
  | e :: l' => if wild_matches host e then (match e with (_, _, i) => Some i end) else first_wild l' host
  end.

Definition orelse {A} (a b : option A) : option A := match a with Some _ => a | None => b end.

(* findHighestPriorityIndex, with the per-port lists given by [wl] *)
Definition find_index_with (wl : string -> list (string * string * nat)) (t : table) (host port : string) : option nat :=
  orelse (lookup3 host port (t_exact t))
  (orelse (lookup3 host "*" (t_exact t))
  (orelse (first_wild (wl port) host)
  (orelse (first_wild (wl "*") host)
          (t_default t)))).

Definition find_index (t : table) := find_index_with (wild_for t) t.

Definition only_default (t : table) : bool :=
  match t_exact t, t_wild t, t_default t with
  | [], [], Some _ => true
  | _, _, _ => false
  end.

(* a usable Host value: non-empty and host:port splits *)
Definition host_parts (h : string) : option (string * string) :=
  if String.eqb h "" then None else split_graceful (lower h).
Definition host_parts_opt (h : option string) : option (string * string) :=
  match h with Some hh => host_parts hh | None => None end.

(* findVirtualHost: h = value of the x-mosn-host variable (None when unset).  host_fallback_default (Gen/RouterSrc.v) says
   whether the source has `if index == -1 { index = ri.defaultVirtualHostIndex }` before giving up *)
Definition find_vhost_with wl (t : table) (h : option string) : option nat :=
  if only_default t then t_default t
  else match host_parts_opt h with
       | Some (host, port) => find_index_with wl t host port
       | None => if host_fallback_default then t_default t else None
       end.
Definition find_vhost (t : table) := find_vhost_with (wild_for t) t.

(* ------------------------------------------------------------------ declarative precedence *)
(* all (virtual host index, kind) pairs of the configuration, in configuration order *)
Fixpoint kinds_of (i : nat) (ds : list string) : list (nat * dkind) :=
  match ds with
  | [] => []
  | d :: ds' => match classify d with
                | Ok k => (i, k) :: kinds_of i ds'
                | Err _ => kinds_of i ds'
                end
  end.
Fixpoint entries_from (i : nat) (vs : list vhost) : list (nat * dkind) :=
  match vs with
  | [] => []
  | v :: vs' => kinds_of i (vh_domains v) ++ entries_from (S i) vs'
  end.
Definition entries (c : config) := entries_from 0 c.

(* (priority class, suffix length): 4 exact host + exact port, 3 exact host + port "*", 2 wildcard suffix + exact port,
   1 wildcard suffix + port "*", 0 default; None = the domain does not apply to this host:port *)
Definition score (host port : string) (k : dkind) : option (nat * nat) :=
  match k with
  | KExact h p =>
      if String.eqb h host then
        if String.eqb p port then Some (4, 0) else if String.eqb p "*" then Some (3, 0) else None
      else None
  | KWild s p =>
      if andb (Nat.ltb (String.length s) (String.length host)) (is_suffix s host) then
        if String.eqb p port then Some (2, String.length s) else if String.eqb p "*" then Some (1, String.length s) else None
      else None
  | KDefault => Some (0, 0)
  end.

Definition score_lt (a b : nat * nat) : bool :=
  orb (Nat.ltb (fst a) (fst b)) (andb (Nat.eqb (fst a) (fst b)) (Nat.ltb (snd a) (snd b))).

(* the candidate with the greatest score (the first such one) *)
Fixpoint best (host port : string) (es : list (nat * dkind)) (acc : option (nat * (nat * nat))) : option (nat * (nat * nat)) :=
  match es with
  | [] => acc
  | (i, k) :: es' =>
      match score host port k with
      | None => best host port es' acc
      | Some s =>
          match acc with
          | None => best host port es' (Some (i, s))
          | Some (_, s0) => if score_lt s0 s then best host port es' (Some (i, s)) else best host port es' acc
          end
      end
  end.

Definition spec_vhost (c : config) (h : string) : option nat :=
  match host_parts h with
  | None => None
  | Some (host, port) => option_map fst (best host port (entries c) None)
  end.

(* for every Host value, also an unset, empty or malformed one: then only the default can apply *)
Definition is_default (e : nat * dkind) : bool := match snd e with KDefault => true | _ => false end.
Definition default_of (es : list (nat * dkind)) : option nat := option_map fst (find is_default es).
Definition spec_vhost_opt (c : config) (h : option string) : option nat :=
  match host_parts_opt h with
  | Some (host, port) => option_map fst (best host port (entries c) None)
  | None => default_of (entries c)
  end.

(* ------------------------------------------------------------------ rule matching *)
Definition hmatch_holds (rq : request) (m : hmatch) : bool :=
  match get_hdr rq (hm_name m) with
  | None => false
  | Some v => match hm_regex m with
              | Some id => rx_holds rq id
              | None => String.eqb v (hm_value m)
              end
  end.

(* commonHeaderMatcherImpl.Matches *)
Definition common_headers_hold (rq : request) (ms : list hmatch) : bool := forallb (hmatch_holds rq) ms.

Definition is_method (m : hmatch) : bool := String.eqb (hm_name m) "method".

(* httpHeaderMatcherImpl: entries named "method" go to variables[x-mosn-method] (a later one overwrites), the rest is a
   common matcher *)
Definition http_headers_hold (rq : request) (ms : list hmatch) : bool :=
  let meth := filter is_method ms in
  let rest := filter (fun m => negb (is_method m)) ms in
  andb (match last (map Some meth) None with
        | None => true
        | Some m => match get_var rq var_method with
                    | None => false
                    | Some v => String.eqb v (hm_value m)
                    end
        end)
       (common_headers_hold rq rest).

Definition path_nonempty (rq : request) : option string :=
  match get_var rq var_path with
  | Some p => if String.eqb p "" then None else Some p
  | None => None
  end.

(* VariableRouteRuleImpl.Match *)
Fixpoint vars_hold (rq : request) (vs : list vmatch) (result last_and : bool) : bool :=
  match vs with
  | [] => result
  | v :: vs' =>
      let actual := match get_var rq (vm_name v) with Some s => s | None => "" end in
      let cur0 := match vm_value v with Some x => String.eqb x actual | None => false end in
      let cur := match vm_regex v with Some id => rx_holds rq id | None => cur0 end in
      let result' := if last_and then andb result cur else cur in
      if andb result' (vm_or v) then true else vars_hold rq vs' result' (negb (vm_or v))
  end.

(* RPCRouteRuleImpl.Match; fastmatch is set when there is exactly one header matcher and it is named "service" *)
Definition rpc_holds (rq : request) (ms : list hmatch) : bool :=
  let fast := match ms with
              | [m] => if String.eqb (hm_name m) rpc_key then hm_value m else ""
              | _ => ""
              end in
  if String.eqb fast "" then common_headers_hold rq ms
  else match get_hdr rq rpc_key with
       | None => false
       | Some v => andb (negb (String.eqb v "")) (orb (String.eqb v fast) (String.eqb fast ".*"))
       end.

(* NewRouteBase chooses the rule kind in this order: prefix, path, regex, variables, dsl, rpc *)
Definition rule_holds (rq : request) (m : rmatch) : bool :=
  if negb (String.eqb (m_prefix m) "") then
    andb (http_headers_hold rq (m_headers m))
         (match path_nonempty rq with Some p => String.prefix (m_prefix m) p | None => false end)
  else if negb (String.eqb (m_path m) "") then
    andb (http_headers_hold rq (m_headers m))
         (match path_nonempty rq with Some p => String.eqb (lower p) (lower (m_path m)) | None => false end)
  else match m_regex m with
  | Some id =>
    andb (http_headers_hold rq (m_headers m))
         (match path_nonempty rq with Some _ => rx_holds rq id | None => false end)
  | None =>
    match m_vars m with
    | _ :: _ => vars_hold rq (m_vars m) true true
    | [] =>
      match m_dsl m with
      | _ :: _ => forallb (dsl_holds rq) (m_dsl m)
      | [] => rpc_holds rq (m_headers m)
      end
    end
  end.

Definition route_holds (rq : request) (r : route) : bool := rule_holds rq (r_match r).

(* GetRouteFromEntries / GetAllRoutesFromEntries *)
Definition first_route (rs : list route) (rq : request) : option route := find (route_holds rq) rs.
Definition all_routes (rs : list route) (rq : request) : list route := filter (route_holds rq) rs.

(* ------------------------------------------------------------------ fast index (virtualhost.go addRouteBase / GetRouteFromHeaderKV) *)
(* RouteRule.HeaderMatchCriteria: http rule kinds expose the header matchers without the "method" entries, the RPC kind all
   of them, variable and DSL kinds none *)
Definition criteria (m : rmatch) : option (list hmatch) :=
  if negb (String.eqb (m_prefix m) "") then Some (filter (fun h => negb (is_method h)) (m_headers m))
  else if negb (String.eqb (m_path m) "") then Some (filter (fun h => negb (is_method h)) (m_headers m))
  else match m_regex m with
  | Some _ => Some (filter (fun h => negb (is_method h)) (m_headers m))
  | None => match m_vars m with
            | _ :: _ => None
            | [] => match m_dsl m with _ :: _ => None | [] => Some (m_headers m) end
            end
  end.

(* a route is recorded in fastIndex[key][value] when it has exactly ONE header matcher and that one is an exact value *)
Definition index_key_is (k v : string) (r : route) : bool :=
  match criteria (r_match r) with
  | Some [h] => match hm_regex h with
                | None => andb (String.eqb (hm_name h) k) (String.eqb (hm_value h) v)
                | Some _ => false
                end
  | _ => false
  end.

(* valueMap[value] = route: a later route with the same key and value overwrites an earlier one *)
Definition fast_lookup (rs : list route) (k v : string) : option route :=
  fold_left (fun acc r => if index_key_is k v r then Some r else acc) rs None.

Definition routes_of (c : config) (i : nat) : list route :=
  match nth_error c i with Some v => vh_routes v | None => [] end.

(* routersImpl.MatchRoute / MatchAllRoutes on the table built from c *)
Definition match_route_with wl (c : config) (t : table) (rq : request) : option route :=
  match find_vhost_with wl t (get_var rq var_host) with
  | None => None
  | Some i => first_route (routes_of c i) rq
  end.
Definition match_route (c : config) (t : table) := match_route_with (wild_for t) c t.

Definition match_all (c : config) (t : table) (rq : request) : list route :=
  match find_vhost t (get_var rq var_host) with
  | None => []
  | Some i => all_routes (routes_of c i) rq
  end.

(* routersImpl.MatchRouteFromHeaderKV: the route recorded under key/value in the selected virtual host (not checked
   against the request) *)
Definition match_from_kv (c : config) (t : table) (rq : request) (k v : string) : option route :=
  match find_vhost t (get_var rq var_host) with
  | None => None
  | Some i => fast_lookup (routes_of c i) k v
  end.

(* ------------------------------------------------------------------ correspondence cases *)
Definition berr_code (e : berr) : nat :=
  match e with ENilConfig => 1 | ERoute => 2 | ENoVirtualHost => 3 | EDupVirtualHost => 4 | EDupHostPort => 5 | ENoVirtualHostPort => 6 end.

(* one lookup observed on the Go side: request, index of the virtual host the probe table selected (None = none),
   cluster of MatchRoute's answer (None = nil), clusters of MatchAllRoutes' answer, and for some (key, value) pairs the
   cluster of MatchRouteFromHeaderKV's answer *)
Definition kv_obs := (string * string * option string)%type.
Definition lookup_obs := (request * option nat * option string * list string * list kv_obs)%type.
(* configuration, error class of NewRouters (0 = accepted), lookups *)
Definition rt_case := (config * nat * list lookup_obs)%type.

Definition opt_nat_eqb (a b : option nat) : bool :=
  match a, b with Some x, Some y => Nat.eqb x y | None, None => true | _, _ => false end.
Definition opt_str_eqb (a b : option string) : bool :=
  match a, b with Some x, Some y => String.eqb x y | None, None => true | _, _ => false end.
Fixpoint strs_eqb (a b : list string) : bool :=
  match a, b with
  | [], [] => true
  | x :: a', y :: b' => andb (String.eqb x y) (strs_eqb a' b')
  | _, _ => false
  end.

Definition lookup_ok (c : config) (t : table) (o : lookup_obs) : bool :=
  match o with
  | (rq, vh, one, all, kvs) =>
      andb (opt_nat_eqb (find_vhost t (get_var rq var_host)) vh)
      (andb (opt_str_eqb (option_map r_cluster (match_route c t rq)) one)
      (andb (strs_eqb (map r_cluster (match_all c t rq)) all)
            (forallb (fun x => match x with (k, v, got) => opt_str_eqb (option_map r_cluster (match_from_kv c t rq k v)) got end) kvs)))
  end.

Definition rt_case_ok (k : rt_case) : bool :=
  match k with
  | (c, code, obs) =>
      match build c with
      | Err e => andb (Nat.eqb (berr_code e) code) (match obs with [] => true | _ => false end)
      | Ok t => andb (Nat.eqb code 0) (forallb (lookup_ok c t) obs)
      end
  end.

Fixpoint rt_mismatches_from (i : nat) (l : list rt_case) : list nat :=
  match l with
  | [] => []
  | k :: l' => if rt_case_ok k then rt_mismatches_from (S i) l' else i :: rt_mismatches_from (S i) l'
  end.
Definition rt_mismatches (l : list rt_case) : list nat := rt_mismatches_from 0 l.
