(* Model of the per-address store of health flag words (pkg/upstream/cluster/health.go healthStore,
   GetHealthFlagPointer) and of the host objects holding pointers into it.  ONLY executable definitions.

   healthStore : address -> *uint64, filled by GetHealthFlagPointer with sync.Map.LoadOrStore (an existing entry is
   returned, otherwise a fresh zero word is stored).  A host object (NewSimpleHost, the strict-DNS host, the hosts
   the cluster manager builds for UpdateClusterHosts / AppendClusterHosts) takes its pointer ONCE at creation - a handle.
   Which operations exist on the store is READ FROM THE SOURCE (Gen/HealthStoreOps.v hs_mode):
     StoreAppendOnly  : only LoadOrStore / Load are ever called on healthStore (entries are never deleted or replaced)
     StoreReleaseZero : some code also deletes the entry of an address whose word is 0 (a "release on host removal")
   Cells are numbered; mem holds the word of every cell ever allocated; handles are (address, cell) or dropped. *)
From Coq Require Import List NArith Arith Bool.
Import ListNotations.

Inductive store_mode := StoreAppendOnly | StoreReleaseZero.

Record hstore := mkHS {
  st_map : list (nat * nat);              (* address -> cell *)
  st_mem : list N;                        (* cell -> word *)
  st_handles : list (option (nat * nat))  (* host objects: (address, cell); None = garbage *)
}.
Definition hs_empty : hstore := mkHS [] [] [].

Fixpoint lookup_addr (a : nat) (m : list (nat * nat)) : option nat :=
  match m with [] => None | (a', c) :: m' => if Nat.eqb a a' then Some c else lookup_addr a m' end.
Fixpoint remove_addr (a : nat) (m : list (nat * nat)) : list (nat * nat) :=
  match m with [] => [] | (a', c) :: m' => if Nat.eqb a a' then remove_addr a m' else (a', c) :: remove_addr a m' end.
Fixpoint set_nth {A} (k : nat) (x : A) (l : list A) : list A :=
  match l, k with [], _ => [] | _ :: l', O => x :: l' | y :: l', S k' => y :: set_nth k' x l' end.

Inductive hsop :=
| ONew (a : nat)                        (* a host object for address a is created: GetHealthFlagPointer(a) *)
| OSet (i : nat) (m : N)                (* SetHealthFlag through host object i *)
| OClear (i : nat) (m : N)
| ODrop (i : nat)                       (* host object i becomes garbage (removed from a cluster / host set replaced) *)
| ORelease (a : nat).                   (* a host of address a was removed from a cluster (no store effect unless StoreReleaseZero) *)

Definition word_of (s : hstore) (c : nat) : N := nth c (st_mem s) 0%N.
Definition handle (s : hstore) (i : nat) : option (nat * nat) := nth i (st_handles s) None.

Definition hs_step (md : store_mode) (s : hstore) (o : hsop) : hstore :=
  match o with
  | ONew a =>
      match lookup_addr a (st_map s) with
      | Some c => mkHS (st_map s) (st_mem s) (st_handles s ++ [Some (a, c)])
      | None => let c := length (st_mem s) in
                mkHS ((a, c) :: st_map s) (st_mem s ++ [0%N]) (st_handles s ++ [Some (a, c)])
      end
  | OSet i m =>
      match handle s i with
      | Some (_, c) => mkHS (st_map s) (set_nth c (N.lor (word_of s c) m) (st_mem s)) (st_handles s)
      | None => s
      end
  | OClear i m =>
      match handle s i with
      | Some (_, c) => mkHS (st_map s) (set_nth c (N.ldiff (word_of s c) m) (st_mem s)) (st_handles s)
      | None => s
      end
  | ODrop i => mkHS (st_map s) (st_mem s) (set_nth i None (st_handles s))
  | ORelease a =>
      match md with
      | StoreAppendOnly => s
      | StoreReleaseZero =>
          match lookup_addr a (st_map s) with
          | Some c => if N.eqb (word_of s c) 0 then mkHS (remove_addr a (st_map s)) (st_mem s) (st_handles s) else s
          | None => s
          end
      end
  end.

Definition hs_run (md : store_mode) (ops : list hsop) : hstore := fold_left (hs_step md) ops hs_empty.

(* what a host object reports *)
Definition handle_word (s : hstore) (i : nat) : option N :=
  match handle s i with Some (_, c) => Some (word_of s c) | None => None end.

(* the statement: all live host objects of one address denote the same cell *)
Definition one_word_per_address (s : hstore) : Prop :=
  forall i j a ci cj, handle s i = Some (a, ci) -> handle s j = Some (a, cj) -> ci = cj.
Definition one_word_statement (md : store_mode) : Prop := forall ops, one_word_per_address (hs_run md ops).

(* --- correspondence: a history on the real cluster manager; observations = (host object, word it reports) ------- *)
Inductive hsitem := HOp (o : hsop) | HObs (obs : list (nat * N)).
Fixpoint hs_check (md : store_mode) (s : hstore) (l : list hsitem) : bool :=
  match l with
  | [] => true
  | HOp o :: l' => hs_check md (hs_step md s o) l'
  | HObs obs :: l' =>
      forallb (fun p => match handle_word s (fst p) with Some w => N.eqb w (snd p) | None => false end) obs
      && hs_check md s l'
  end.
Definition hs_case := list hsitem.
Fixpoint hs_mismatches_from (md : store_mode) (i : nat) (l : list hs_case) : list nat :=
  match l with
  | [] => []
  | x :: l' => if hs_check md hs_empty x then hs_mismatches_from md (S i) l' else i :: hs_mismatches_from md (S i) l'
  end.
Definition hs_mismatches (md : store_mode) (l : list hs_case) : list nat := hs_mismatches_from md 0 l.
