(* Model of the match criteria a request hands to the (subset) load balancer:
   pkg/proxy/downstream.go downStream.MetadataMatchCriteria + pkg/router/configutility.go MetadataMatchCriteriaImpl.
   ONLY executable definitions.

   The ROUTE holds one criteria object (RouteRuleImplBase.MetadataMatchCriteria returns the stored pointer), built
   from metadata_match and sorted by key.  A REQUEST may carry dynamic metadata (variable VarRouterMeta, a map).
     no request metadata  => the route's criteria object (nil if the route has none)
     request metadata m   => a criteria object over m plus the route pairs whose key m does not name, sorted by key
                             (the request value wins per key)
   HOW that object is produced is read from the source (Gen/CriteriaTokens.v crit_mode):
     CritFresh        : a NEW object is built (NewMetadataMatchCriteriaImpl); the route's object is not written
     CritMergeInPlace : routerMeta.MergeMatchCriteria(m): the merge is written INTO the route's object and that object
                        is returned
   Keys and values are numbered order-preservingly by the harness. *)
From Coq Require Import List Arith Bool.
From MV Require Import Model.Subset.
Import ListNotations.

Inductive crit_shape := CritFresh | CritMergeInPlace.

(* insert / overwrite a pair in a list sorted by key *)
Fixpoint put (k v : nat) (l : path) : path :=
  match l with
  | [] => [(k, v)]
  | (k', v') :: l' =>
      if Nat.ltb k k' then (k, v) :: l
      else if Nat.eqb k k' then (k, v) :: l'
      else (k', v') :: put k v l'
  end.
Definition merge_pairs (route : path) (m : list kv) : path := fold_left (fun acc p => put (fst p) (snd p) acc) m route.

(* the pure function: criteria of a request with metadata `req` on a route configured with `route` *)
Definition merge_criteria (route : option path) (req : option (list kv)) : option path :=
  match req with
  | None => route
  | Some m => Some (merge_pairs (match route with Some r => r | None => [] end) m)
  end.

(* one request through the route; state = the route's criteria object; returns (new state, criteria used) *)
Definition crit_step (md : crit_shape) (route : option path) (req : option (list kv)) : option path * option path :=
  match req with
  | None => (route, route)
  | Some m =>
      match md, route with
      | CritMergeInPlace, Some r => let r' := merge_pairs r m in (Some r', Some r')
      | _, _ => (route, merge_criteria route req)
      end
  end.

Fixpoint crit_run (md : crit_shape) (route : option path) (reqs : list (option (list kv))) : option path * list (option path) :=
  match reqs with
  | [] => (route, [])
  | q :: reqs' =>
      let (r1, c) := crit_step md route q in
      let (r2, cs) := crit_run md r1 reqs' in (r2, c :: cs)
  end.

Definition crit_independent_statement (md : crit_shape) : Prop :=
  forall route reqs,
    snd (crit_run md route reqs) = map (merge_criteria route) reqs /\ fst (crit_run md route reqs) = route.

(* --- correspondence: route metadata_match, the requests' metadata, the criteria the real downstream returned for each
       request and the route's own criteria after each request *)
Definition crit_case := (option path * list (option (list kv) * option path * option path))%type.
Fixpoint path_eqb (a b : path) : bool :=
  match a, b with
  | [], [] => true
  | (k, v) :: a', (k', v') :: b' => Nat.eqb k k' && Nat.eqb v v' && path_eqb a' b'
  | _, _ => false
  end.
Definition opath_eqb (a b : option path) : bool :=
  match a, b with None, None => true | Some x, Some y => path_eqb x y | _, _ => false end.
Fixpoint crit_check (md : crit_shape) (route : option path) (l : list (option (list kv) * option path * option path)) : bool :=
  match l with
  | [] => true
  | (q, used, after) :: l' =>
      let (r1, c) := crit_step md route q in
      opath_eqb c used && opath_eqb r1 after && crit_check md r1 l'
  end.
Definition crit_case_ok (md : crit_shape) (k : crit_case) : bool := crit_check md (fst k) (snd k).
Fixpoint crit_mismatches_from (md : crit_shape) (i : nat) (l : list crit_case) : list nat :=
  match l with
  | [] => []
  | x :: l' => if crit_case_ok md x then crit_mismatches_from md (S i) l' else i :: crit_mismatches_from md (S i) l'
  end.
Definition crit_mismatches (md : crit_shape) (l : list crit_case) : list nat := crit_mismatches_from md 0 l.
