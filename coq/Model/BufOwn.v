(* Model/BufOwn.v (codec) - ownership of the pooled frame copies (C08: malformed input is contained ALSO through shared pool
   state).  bolt / boltv2 Decode takes an IoBuffer from the process-wide pool for the copy of the frame and records it in
   the stream's buffer context (request.Data / response.Data); the context's Reset puts it back when the stream ends.
   The pool is the one of mosn.io/pkg/buffer: PutIoBuffer decrements the reference count and gives the object back when
   the count reaches 0 (a negative count is reported as "duplicate" and nothing else happens); GetIoBuffer re-issues ANY
   pooled object (sync.Pool: which one is not specified - the chooser `ch` below is arbitrary) or makes a new one.
   `early` = the decode error path releases the copy itself (the shape excluded by the switch decode_keeps_frame_copy). *)
From Coq Require Import List Arith ZArith Bool Lia.
Import ListNotations.

Inductive ev : Type :=
| Dec (s : nat) (err : bool)   (* a complete frame is decoded in the (fresh) buffer context of stream s; err: Decode returns (frame, error) *)
| End (s : nat).               (* stream s is finished: its buffer context is reset *)

Definition upd (f : nat -> Z) (x : nat) (v : Z) : nat -> Z := fun y => if Nat.eqb y x then v else f y.

Record pool := { free : list nat; cnt : nat -> Z; fresh : nat; dup : nat (* "PutIoBuffer duplicate" reports *) }.
Record st := { pl : pool; held : list (nat * nat) (* stream, the buffer its context refers to *) }.

Definition without (x : nat) (l : list nat) : list nat := filter (fun y => negb (Nat.eqb y x)) l.

Definition take (ch : list nat -> nat) (p : pool) : nat * pool :=
  match nth_error (free p) (ch (free p)) with
  | Some x => (x, {| free := without x (free p); cnt := upd (cnt p) x (cnt p x + 1)%Z; fresh := fresh p; dup := dup p |})
  | None => (fresh p, {| free := free p; cnt := upd (cnt p) (fresh p) 1%Z; fresh := S (fresh p); dup := dup p |})
  end.

Definition put (x : nat) (p : pool) : pool :=
  let c := (cnt p x - 1)%Z in
  {| free := if (c =? 0)%Z then x :: free p else free p; cnt := upd (cnt p) x c; fresh := fresh p;
     dup := if (c <? 0)%Z then S (dup p) else dup p |}.

Fixpoint lookup (s : nat) (h : list (nat * nat)) : option nat :=
  match h with [] => None | (s', x) :: r => if Nat.eqb s' s then Some x else lookup s r end.
Definition drop (s : nat) (h : list (nat * nat)) : list (nat * nat) := filter (fun e => negb (Nat.eqb (fst e) s)) h.

Definition step (early : bool) (ch : list nat -> nat) (s : st) (e : ev) : st :=
  match e with
  | Dec sid err =>
      match lookup sid (held s) with
      | Some _ => s                                   (* one frame copy per stream context *)
      | None => let (x, p1) := take ch (pl s) in
                {| pl := if err && early then put x p1 else p1; held := (sid, x) :: held s |}
      end
  | End sid =>
      match lookup sid (held s) with
      | Some x => {| pl := put x (pl s); held := drop sid (held s) |}
      | None => s
      end
  end.

Definition init : st := {| pl := {| free := []; cnt := fun _ => 0%Z; fresh := 0; dup := 0 |}; held := [] |}.
Definition run (early : bool) (ch : list nat -> nat) (evs : list ev) : st := fold_left (step early ch) evs init.

(* what "contained" means here: no two live streams refer to the same buffer, no buffer a live stream refers to is in the
   pool (where any other connection can take it), and the pool never had to report a duplicate put *)
Definition exclusive (s : st) : Prop :=
  NoDup (map snd (held s)) /\ (forall x, In x (map snd (held s)) -> ~ In x (free (pl s))) /\ NoDup (free (pl s)) /\ dup (pl s) = 0.
