(* EDF scheduler (pkg/upstream/cluster/edf.go) with weights that CHANGE while the scheduler runs.

   NextAndPush(weightFunc) asks weightFunc for the CURRENT weight of the entry it pops and re-queues the entry
   with deadline += 1/weight; nothing of an earlier weight is kept (edfEntry.weight is written, never read).
   So a pick is (position, period the weight function answered at that pick).  As in Model/Edf.v time is scaled
   by a common multiple D of all weights that occur: period = D / weight, all deadlines integers.
   ONLY executable definitions here. *)
From Coq Require Import List ZArith Bool.
From MV Require Import Model.Edf.
Import ListNotations.
Open Scope Z_scope.

(* pick position i while the weight function answers period p for it *)
Definition edf_pickw (s : edf) (i : nat) (p : Z) : option edf :=
  match nth_error (es s) i with
  | None => None
  | Some e =>
      if dl_minimal e (es s)
      then Some {| now := dl e; clock := clock s + 1;
                   es := upd (es s) i {| per := p; dl := dl e + p; qt := clock s + 1 |} |}
      else None
  end.

(* a history: Adds and picks, every pick with the period in force for the picked entry at that moment *)
Inductive wop := WAdd (p : Z) | WPick (i : nat) (p : Z).
Fixpoint edf_execw (s : edf) (ops : list wop) : option edf :=
  match ops with
  | [] => Some s
  | WAdd p :: ops' => edf_execw (edf_add s p) ops'
  | WPick i p :: ops' => match edf_pickw s i p with Some s' => edf_execw s' ops' | None => None end
  end.

(* a segment of picks during which the weight function is constant: position i has period P i *)
Fixpoint edf_runw (s : edf) (P : nat -> Z) (picks : list nat) : option edf :=
  match picks with
  | [] => Some s
  | i :: ps => match edf_pickw s i (P i) with Some s' => edf_runw s' P ps | None => None end
  end.

(* --- correspondence: the history as the harness observed it, with WEIGHTS ---------------------- *)
Inductive wopw := WAddW (w : Z) | WPickW (i : nat) (w : Z).
Definition weight_ok (D w : Z) : bool := (0 <? w) && (D mod w =? 0).
Fixpoint edf_execww (D : Z) (s : edf) (ops : list wopw) : bool :=
  match ops with
  | [] => true
  | WAddW w :: ops' => weight_ok D w && edf_execww D (edf_add s (D / w)) ops'
  | WPickW i w :: ops' => weight_ok D w &&
      match edf_pickw s i (D / w) with Some s' => edf_execww D s' ops' | None => false end
  end.
Definition edfw_case := (Z * list wopw)%type.
Definition edfw_case_ok (k : edfw_case) : bool := match k with (D, ops) => (0 <? D) && edf_execww D edf_init ops end.
Definition edfw_mismatches (l : list edfw_case) : list nat := mism edfw_case_ok 0 l.

(* --- the OTHER handling (refuted in Proofs/EdfVar.v): the period is cached in the entry and refreshed only
   when the weight differs from the weight remembered at Add time, which is never updated. *)
Record centry := { c_per : Z; c_w0 : Z; c_dl : Z }.
Record cedf := { c_now : Z; c_es : list centry }.
Definition cedf_add (D : Z) (s : cedf) (w : Z) : cedf :=
  {| c_now := c_now s; c_es := c_es s ++ [ {| c_per := D / w; c_w0 := w; c_dl := c_now s + D / w |} ] |}.
(* deterministic: the first deadline-minimal position *)
Fixpoint cargmin (l : list centry) (i best : nat) (bd : Z) : nat :=
  match l with
  | [] => best
  | e :: l' => if c_dl e <? bd then cargmin l' (S i) i (c_dl e) else cargmin l' (S i) best bd
  end.
Definition cedf_next (D : Z) (s : cedf) (wf : nat -> Z) : option (nat * cedf) :=
  match c_es s with
  | [] => None
  | e0 :: l =>
      let i := cargmin l 1 0 (c_dl e0) in
      match nth_error (c_es s) i with
      | None => None
      | Some e =>
          let p := if wf i =? c_w0 e then c_per e else D / wf i in
          Some (i, {| c_now := c_dl e; c_es := upd (c_es s) i {| c_per := p; c_w0 := c_w0 e; c_dl := c_dl e + p |} |})
      end
  end.
Fixpoint cedf_run (D : Z) (s : cedf) (wf : nat -> Z) (n : nat) : list nat * cedf :=
  match n with
  | O => ([], s)
  | S n' => match cedf_next D s wf with
            | None => ([], s)
            | Some (i, s') => let (l, s'') := cedf_run D s' wf n' in (i :: l, s'')
            end
  end.

(* --- the weighted round robin balancer with hosts whose weight changes -------------------------
   as in Model/Edf.v (wrr_case_ok): refresh Adds every host with its weight at that time and performs r < n
   unobservable pre-picks; the observed picks (each with the weight reported at that pick) follow. *)
Definition edfw_start (D : Z) (ws : list Z) : edf := fold_left (fun s w => edf_add s (D / w)) ws edf_init.
Definition wrrw_case := (Z * list Z * list wopw)%type.
Definition wrrw_case_ok (k : wrrw_case) : bool :=
  match k with (D, ws, ops) =>
    (0 <? D) && forallb (weight_ok D) ws &&
    existsb (fun r => existsb (fun s0 => edf_execww D s0 ops) (edf_reach (edfw_start D ws) r)) (seq 0 (length ws))
  end.
Definition wrrw_mismatches (l : list wrrw_case) : list nat := mism wrrw_case_ok 0 l.
