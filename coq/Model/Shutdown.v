(* Model of graceful shutdown / hot upgrade logic (property C11).  ONLY executable definitions.

   pkg/network/listener.go     listener state machine: Start / stopAccept / Close / Shutdown
   pkg/server/handler.go       activeListener.OnShutdown -> waitConnectionsClose(drainTime): polls the
                               request_active gauge of the listener
   pkg/proxy/downstream.go     the gauge is incremented when the downstream stream is created (request decoded)
                               and decremented when the stream is cleaned up (reply written)
   pkg/network/transfer.go     transfer messages between the old and the new process
   pkg/network/connection.go   startReadLoop -> transfer(): the read loop itself hands its read buffer over

   Signals, exec, fd passing over the unix socket are OS behaviour and are not modelled. *)
From Coq Require Import List NArith ZArith Arith Bool Lia.
From MV Require Import Lib.Bytes Lib.Seg.
Import ListNotations.
Open Scope nat_scope.

(* ------------------------------------------------------------------ 1. listener *)
Inductive lstate := LInited | LRunning | LStopped | LClosed.
(* the raw listening socket: not created yet / accepting / accept deadline in the past / closed *)
Inductive sock := SNone | SOpen | SDeadline | SClosed.

Record listener := mkL {
  l_bind : bool;       (* bind_port *)
  l_state : lstate;
  l_sock : sock;
  l_loop : bool;       (* an accept loop is running *)
  l_fd : nat;          (* identity of the listening socket (changes when listen() is called again) *)
  l_drains : nat       (* number of cb.OnShutdown() calls so far *)
}.

Definition l_init (bind inherited : bool) : listener :=
  mkL bind LInited (if inherited then SOpen else SNone) false 0 0.

Definition with_state (l : listener) st so lp fd := mkL (l_bind l) st so lp fd (l_drains l).

(* Start(lctx, restart) *)
Definition l_start (restart : bool) (l : listener) : listener :=
  if negb (l_bind l) then l else
  match l_state l with
  | LRunning => l
  | LStopped => with_state l LRunning (match l_sock l with SDeadline => SOpen | s => s end) true (l_fd l)
  | LClosed => if restart then with_state l LRunning SOpen true (S (l_fd l)) else l
  | LInited => match l_sock l with
               | SNone => with_state l LRunning SOpen true (S (l_fd l))
               | s => with_state l LRunning s true (l_fd l)
               end
  end.

(* stopAccept(): (listener, changed) *)
Definition l_stop_accept (l : listener) : listener * bool :=
  match l_state l with
  | LClosed | LStopped => (l, false)
  | _ => if negb (l_bind l) then (with_state l LStopped (l_sock l) (l_loop l) (l_fd l), true)
         else (with_state l LStopped (match l_sock l with SOpen => SDeadline | s => s end) false (l_fd l), true)
  end.

Definition l_close (l : listener) : listener :=
  match l_state l with
  | LClosed => l
  | _ => if negb (l_bind l) then with_state l LClosed (l_sock l) (l_loop l) (l_fd l)
         else with_state l LClosed (match l_sock l with SNone => SNone | _ => SClosed end) false (l_fd l)
  end.

Definition l_drain (l : listener) : listener :=
  mkL (l_bind l) (l_state l) (l_sock l) (l_loop l) (l_fd l) (S (l_drains l)).

(* Shutdown(): `upgrading` = stagemanager.GetState() == Upgrading *)
Definition l_shutdown (upgrading : bool) (l : listener) : listener :=
  if upgrading then
    let (l', changed) := l_stop_accept l in if changed then l_drain l' else l'
  else
    let l' := l_close l in if l_bind l then l_drain l' else l'.

(* does a connection attempt reach OnAccept in THIS process? *)
Definition l_accepts (l : listener) : bool :=
  andb (l_loop l) (match l_sock l with SOpen => true | _ => false end).

(* what a TCP connect to the listener's address meets: refused (no listening socket), left in the kernel backlog (socket
   listening, nobody accepts: the connection is established but never read), or accepted by this process *)
Inductive connect_result := CRefused | CBacklog | CAccepted.
Definition l_connect (l : listener) : connect_result :=
  match l_sock l with
  | SOpen => if l_loop l then CAccepted else CBacklog
  | SDeadline => CBacklog
  | SNone | SClosed => CRefused
  end.

(* the listener state at the moment Shutdown calls cb.OnShutdown() (the drain), if it calls it *)
Definition l_at_drain (upgrading : bool) (l : listener) : option listener :=
  if upgrading then
    let (l', changed) := l_stop_accept l in if changed then Some l' else None
  else
    if l_bind l then Some (l_close l) else None.

Inductive lop := OpStart (restart : bool) | OpShutdown (upgrading : bool) | OpClose | OpStopAccept.
Definition l_step (l : listener) (o : lop) : listener :=
  match o with
  | OpStart r => l_start r l
  | OpShutdown u => l_shutdown u l
  | OpClose => l_close l
  | OpStopAccept => fst (l_stop_accept l)
  end.
Definition l_run (l : listener) (ops : list lop) : listener := fold_left l_step ops l.

Definition is_start (o : lop) : bool := match o with OpStart _ => true | _ => false end.
Definition is_restart (o : lop) : bool := match o with OpStart true => true | _ => false end.

(* ------------------------------------------------------------------ 2. requests, gauge, drain loop *)
(* a request is a timed script: bytes start arriving at r_t0, the request is decoded (stream created, gauge +1)
   after r_recv, the upstream answers after r_up more, the reply is written (stream cleaned, gauge -1) after r_reply *)
Record request := mkR { r_t0 : nat; r_recv : nat; r_up : nat; r_reply : nat }.
Definition r_decoded (r : request) : nat := r_t0 r + r_recv r.
Definition r_done (r : request) : nat := r_t0 r + r_recv r + r_up r + r_reply r.
Definition r_active (r : request) (t : nat) : bool := andb (r_decoded r <=? t) (t <? r_done r).
Definition r_receiving (r : request) (t : nat) : bool := andb (r_t0 r <=? t) (t <? r_decoded r).

Definition gauge (rs : list request) (t : nat) : nat := length (filter (fun r => r_active r t) rs).

(* waitConnectionsClose(max): poll k happens at time pt k (pt 0 = the moment OnShutdown starts; the code sleeps 10ms
   between polls, any strictly increasing schedule is allowed here); the loop goes on while gauge > 0 and waited <= max.
   Result: the poll index at which the loop exits; None = fuel exhausted (proved unreachable). *)
Fixpoint drain_loop (g : nat -> nat) (pt : nat -> nat) (max : nat) (fuel k : nat) : option nat :=
  match fuel with
  | O => None
  | S f => if orb (g (pt k) =? 0) (max <? pt k - pt 0) then Some k else drain_loop g pt max f (S k)
  end.
Definition drain_exit (rs : list request) (pt : nat -> nat) (max : nat) : option nat :=
  drain_loop (gauge rs) pt max (max + 2) 0.

(* ------------------------------------------------------------------ 2b. a server = a LIST of listeners
   server/handler.go GracefulStopListeners: one goroutine per listener calls listener.Shutdown, the caller waits for all.
   `copy` (Gen/TransferTokens.v shutdown_goroutine_has_own_listener) = each goroutine works on ITS listener (a per-iteration
   copy `al := l`, or the listener passed as an argument); with go < 1.22 loop semantics and the range variable captured
   directly, the goroutines all see the variable's final value: the LAST listener (modelled as n calls on the last). *)
Definition shutdown_targets (copy : bool) (n : nat) : list nat := if copy then seq 0 n else repeat (n - 1) n.
Definition hits (tg : list nat) (i : nat) : nat := count_occ Nat.eq_dec tg i.

Fixpoint mapi_from {A B} (f : nat -> A -> B) (i : nat) (l : list A) : list B :=
  match l with [] => [] | x :: l' => f i x :: mapi_from f (S i) l' end.

Definition srv_shutdown (copy : bool) (ls : list listener) : list listener :=
  let tg := shutdown_targets copy (length ls) in
  mapi_from (fun i l => Nat.iter (hits tg i) (l_shutdown false) l) 0 ls.

(* the moment GracefulStopListeners returns: every goroutine has returned from the drain of ITS target *)
Fixpoint srv_return_from (tg : list nat) (rss : list (list request)) (pt : nat -> nat) (max : nat) (i : nat) : option nat :=
  match rss with
  | [] => Some (pt 0)
  | rs :: rest =>
      match srv_return_from tg rest pt max (S i) with
      | None => None
      | Some t =>
          if Nat.ltb 0 (hits tg i) then
            match drain_exit rs pt max with Some e => Some (Nat.max (pt e) t) | None => None end
          else Some t
      end
  end.
Definition srv_return (copy : bool) (rss : list (list request)) (pt : nat -> nat) (max : nat) : option nat :=
  srv_return_from (shutdown_targets copy (length rss)) rss pt max 0.

(* per protocol: the moment a request becomes a stream (request_active + 1).
   bolt (stream/xprotocol Dispatch) and HTTP/1.1 (stream/http serve: fasthttp ReadLimitBody, then NewStreamDetect) decode a
   request only when it has arrived completely; HTTP/2 (stream/http2 handleFrame) creates the stream on the HEADERS frame.
   An exchange is given by client-side times: first byte sent, part 1 (HEADERS) sent, whole request sent, reply complete. *)
Inductive proto := PBolt | PHttp1 | PHttp2.
Record exch := mkX { x_proto : proto; x_first : nat; x_hdr : nat; x_sent : nat; x_done : nat }.
Definition stream_at (x : exch) : nat := match x_proto x with PHttp2 => x_hdr x | _ => x_sent x end.
Definition req_of (x : exch) : request := mkR (x_first x) (stream_at x - x_first x) (x_done x - stream_at x) 0.
Definition x_wf (x : exch) : Prop := x_first x <= x_hdr x /\ x_hdr x <= x_sent x /\ x_sent x <= x_done x.
(* does the server tell an existing connection to go away on Shutdown?  HTTP/2: GOAWAY; HTTP/1: GoAway() is empty;
   bolt: the go-away frame is disabled in the default configuration *)
Definition announces (p : proto) : bool := match p with PHttp2 => true | _ => false end.

(* ------------------------------------------------------------------ 3. transfer codec *)
Open Scope N_scope.
Definition u32 (n : N) : N := n mod 4294967296.

(* transferBuildHead(uint32(s1), uint32(s2)) *)
Definition build_head (s1 s2 : N) : bytes := be_enc 4 (u32 s1) ++ be_enc 4 (u32 s2).
(* transferRecvHead: needs 8 bytes *)
Definition parse_head (b : bytes) : option (N * N) :=
  if blen b <? 8 then None else Some (be_dec (sub b 0 4), be_dec (sub b 4 8)).

(* transfer-read message: head(len data, len tls) ++ data ++ tls   (the TLS state is appended to the read buffer) *)
Definition build_read_msg (data tls : bytes) : bytes := build_head (blen data) (blen tls) ++ data ++ tls.
Inductive recv {A} := RecvOk (a : A) (rest : bytes) | RecvBlock.
Arguments recv A : clear implicits.
(* transferReadRecvData on the bytes available on the unix socket *)
Definition parse_read_msg (s : bytes) : recv (bytes * bytes) :=
  match parse_head s with
  | None => RecvBlock
  | Some (ds, ts) =>
      let body := dropN 8 s in
      if blen body <? ds + ts then RecvBlock
      else RecvOk (takeN ds body, sub body ds (ds + ts)) (dropN (ds + ts) body)
  end.

(* transfer-write message: head(len data, uint32(id)) ++ data *)
Definition build_write_msg (id : N) (data : bytes) : bytes := build_head (blen data) id ++ data.
Definition parse_write_msg (s : bytes) : recv (N * bytes) :=
  match parse_head s with
  | None => RecvBlock
  | Some (ds, id) =>
      let body := dropN 8 s in
      if blen body <? ds then RecvBlock else RecvOk (id, takeN ds body) (dropN ds body)
  end.

(* transferSendID / transferRecvID *)
Definition build_id (id : N) : bytes := be_enc 4 (u32 id).
Definition parse_id (s : bytes) : recv N :=
  if blen s <? 4 then RecvBlock else RecvOk (be_dec (takeN 4 s)) (dropN 4 s).
Close Scope N_scope.
Open Scope nat_scope.

(* ------------------------------------------------------------------ 4. handover of a connection *)
Section Handover.
Context {F : Type}.
Variable parse : bytes -> presult F.

(* the new process creates the connection with the transferred read buffer and an empty history *)
Definition fresh_with (b : bytes) : cstate F := {| buf := b; out := []; dead := false; stuck := false |}.

(* old process state s, TLS state bytes t: what the new process starts from after the message went through the codec *)
Definition handover (s : cstate F) (tls : bytes) : option (cstate F * bytes) :=
  match parse_read_msg (build_read_msg (buf s) tls) with
  | RecvOk (d, t) _ => Some (fresh_with d, t)
  | RecvBlock => None
  end.
End Handover.

(* connection.go NewServerConnection builds the read buffer of a handed-over connection from the transferred bytes.
   `has_room` (Gen/TransferTokens.v transfer_buffer_has_room) = the buffer is allocated larger than those bytes.
   Without room: buffer.GetIoBuffer(n) has capacity = the smallest pool size (powers of two from 64) >= n, so for n a pool
   size the buffer is FULL; IoBuffer.ReadOnce on a full buffer returns (0, nil) and connection.doRead takes that for EOF:
   the new process closes the connection it has just received. *)
Fixpoint is_pool_size_from (p : N) (n : N) (fuel : nat) : bool :=
  match fuel with
  | O => false
  | S f => if N.eqb n p then true else if N.ltb n p then false else is_pool_size_from (2 * p)%N n f
  end.
Definition is_pool_size (n : N) : bool := is_pool_size_from 64 n 40.
Definition handed_over_conn_survives (has_room : bool) (buffered : N) : bool :=
  orb has_room (negb (is_pool_size buffered)).
(* handler.go activeListener.OnAccept publishes the accept buffer of a handed-over connection (types.VariableAcceptBuffer);
   newServerConnection creates the read buffer from the PUBLISHED buffer only and, having passed the connection back to
   transferNewConn, reports it together with the length of its read buffer before the filter chain is created and the
   connection is started.  `always_published` (Gen/TransferTokens.v transfer_buffer_always_published) = the buffer is
   published whatever its length; published only when non-empty, an IDLE connection (nothing buffered at hand-over) has no
   read buffer at that point and the new side never starts it. *)
Definition handed_over_conn_started (always_published : bool) (buffered : N) : bool :=
  orb always_published (negb (N.eqb buffered 0)).
Definition handed_over_conn_served (has_room always_published : bool) (buffered : N) : bool :=
  andb (handed_over_conn_started always_published buffered) (handed_over_conn_survives has_room buffered).

(* ------------------------------------------------------------------ 4b. hand-over and the write lock
   connection.go: writeDirectly holds the connection's write lock (tryMutex) for the whole doWrite of a response.
   transfer() runs in the read loop: notifyTransfer() takes that lock (so it WAITS for a write in progress) and sets
   needTransfer - later writes are queued and forwarded through the write-path messages -, transferRead() sends the socket
   to the new process.  `lock_first` (Gen/TransferTokens.v transfer_takes_write_lock_first) = notifyTransfer precedes
   transferRead.
   The wire as the client sees it: w = the old side's write in progress when transfer() is called (k of its bytes already
   written), n = what the new side writes on the handed-over socket; j >= k = how many bytes of w are on the wire when the
   new side's write goes out (chosen by the scheduler / the reader's pace).  With the lock taken first the socket is given
   away only after the last byte of w. *)
Inductive actor := AOld | ATransfer | ANew.
(* h_old: bytes of the old side's write still to go out (the writer holds the lock while this is non-empty);
   h_tpc: program counter of transfer(); h_fd: the new process has the socket; h_new: bytes the new side still has to write *)
Record hst := mkH { h_old : bytes; h_tpc : nat; h_fd : bool; h_new : bytes; h_wire : bytes }.
Definition is_nil {A} (l : list A) : bool := match l with [] => true | _ => false end.

(* transfer(): lock_first: [take the write lock (blocks while a write is in progress); send the socket]
               otherwise:  [send the socket; take the write lock] *)
Definition t_step (lock_first : bool) (st : hst) : hst :=
  let acquire := if is_nil (h_old st) then mkH (h_old st) (S (h_tpc st)) (h_fd st) (h_new st) (h_wire st) else st in
  let sendfd := mkH (h_old st) (S (h_tpc st)) true (h_new st) (h_wire st) in
  match h_tpc st with
  | 0 => if lock_first then acquire else sendfd
  | 1 => if lock_first then sendfd else acquire
  | _ => st
  end.
Definition h_step (lock_first : bool) (st : hst) (a : actor) : hst :=
  match a with
  | AOld => match h_old st with
            | [] => st
            | x :: r => mkH r (h_tpc st) (h_fd st) (h_new st) (h_wire st ++ [x])
            end
  | ATransfer => t_step lock_first st
  | ANew => if h_fd st then
              match h_new st with
              | [] => st
              | x :: r => mkH (h_old st) (h_tpc st) (h_fd st) r (h_wire st ++ [x])
              end
            else st
  end.
(* the old write w has k bytes on the wire when transfer() is called; the new side will write n *)
Definition h_init (w : bytes) (k : nat) (n : bytes) : hst := mkH (skipn k w) 0 false n (firstn k w).
Definition h_run (lock_first : bool) (w : bytes) (k : nat) (n : bytes) (sched : list actor) : hst :=
  fold_left (h_step lock_first) sched (h_init w k n).

(* ------------------------------------------------------------------ 5. bolt request framing (length level)
   protocol/xprotocol/bolt: a request frame is 22 header bytes + class + header + content, the three lengths at
   offsets 14 (2 bytes), 16 (2 bytes), 18 (4 bytes).  Only the framing is needed for the hand-over. *)
Definition bolt_req_len (b : bytes) : N := (22 + be_dec (sub b 14 16) + be_dec (sub b 16 18) + be_dec (sub b 18 22))%N.
Definition bolt_req_parse (b : bytes) : presult bytes :=
  if (blen b <? 22)%N then PNeedMore
  else let n := bolt_req_len b in
       if (blen b <? n)%N then PNeedMore else POk (takeN n b) (N.to_nat n).

Definition count_frames {F} (evs : list (event F)) : nat :=
  length (filter (fun e => match e with EFrame _ => true | _ => false end) evs).

(* the frames one request yields when the connection is handed over after its first k bytes *)
Definition frames_with_handover (frame : bytes) (k : nat) : option nat :=
  let old := feed bolt_req_parse (@init bytes) (firstn k frame) in
  match handover old [] with
  | Some (nw, _) => Some (count_frames (out old ++ out (feed bolt_req_parse nw (skipn k frame))))
  | None => None
  end.

(* ------------------------------------------------------------------ correspondence cases *)
Fixpoint mismatches_from {A} (ok : A -> bool) (i : nat) (l : list A) : list nat :=
  match l with
  | [] => []
  | x :: l' => if ok x then mismatches_from ok (S i) l' else i :: mismatches_from ok (S i) l'
  end.

Definition bytes_eqb (a b : bytes) : bool := beq a b.

(* head: s1 s2 (as the Go ints passed in), bytes built by the real transferBuildHead, values parsed back by the real transferRecvHead logic *)
Definition head_case := (N * N * bytes * N * N)%type.
Definition head_case_ok (k : head_case) : bool :=
  match k with (s1, s2, built, p1, p2) =>
    andb (bytes_eqb (build_head s1 s2) built)
         (match parse_head built with Some (a, b) => andb (N.eqb a p1) (N.eqb b p2) | None => false end)
  end.
Definition head_mismatches (l : list head_case) : list nat := mismatches_from head_case_ok 0 l.

(* read message: data, tls, extra bytes following on the socket; what the real receiver returned (data', tls') *)
Definition rmsg_case := (bytes * bytes * bytes * bytes * bytes * bytes)%type.
Definition rmsg_case_ok (k : rmsg_case) : bool :=
  match k with (data, tls, wire, extra, d', t') =>
    andb (bytes_eqb (build_read_msg data tls) wire)
         (match parse_read_msg (wire ++ extra) with
          | RecvOk (d, t) rest => andb (andb (bytes_eqb d d') (bytes_eqb t t')) (bytes_eqb rest extra)
          | RecvBlock => false
          end)
  end.
Definition rmsg_mismatches (l : list rmsg_case) : list nat := mismatches_from rmsg_case_ok 0 l.

(* write message: id, data, wire, id', data' *)
Definition wmsg_case := (N * bytes * bytes * N * bytes)%type.
Definition wmsg_case_ok (k : wmsg_case) : bool :=
  match k with (id, data, wire, id', d') =>
    andb (bytes_eqb (build_write_msg id data) wire)
         (match parse_write_msg wire with
          | RecvOk (i, d) rest => andb (andb (N.eqb i id') (bytes_eqb d d')) (bytes_eqb rest [])
          | RecvBlock => false
          end)
  end.
Definition wmsg_mismatches (l : list wmsg_case) : list nat := mismatches_from wmsg_case_ok 0 l.

(* listener: bind, ops with the observation after each op: (op, accepted-by-this-process, OnShutdown calls so far,
   result of a connect made INSIDE the OnShutdown callback of this op: 0 refused, 1 established but not accepted,
   2 accepted, 9 OnShutdown was not called) *)
Definition connect_code (c : connect_result) : N := match c with CRefused => 0 | CBacklog => 1 | CAccepted => 2 end%N.
Definition drain_probe (l : listener) (o : lop) : N :=
  match o with
  | OpShutdown u => match l_at_drain u l with Some l' => connect_code (l_connect l') | None => 9%N end
  | _ => 9%N
  end.
(* stopAccept only sets an accept deadline: the accept loop may take ONE last connection that arrives before it notices
   (it is then served by the old process, which the property allows); so while Upgrading an observed "accepted" agrees with
   a modelled "backlog".  The graceful-stop branch closes the socket first and gets no such allowance. *)
Definition probe_agrees (o : lop) (expected observed : N) : bool :=
  orb (N.eqb expected observed)
      (match o with OpShutdown true => andb (N.eqb expected 1) (N.eqb observed 2) | _ => false end).
Definition lis_case := (bool * list (lop * bool * nat * N))%type.
Fixpoint lis_run_ok (l : listener) (tr : list (lop * bool * nat * N)) : bool :=
  match tr with
  | [] => true
  | (o, acc, dr, pr) :: tr' =>
      let l' := l_step l o in
      andb (andb (andb (Bool.eqb (l_accepts l') acc) (Nat.eqb (l_drains l') dr)) (probe_agrees o (drain_probe l o) pr)) (lis_run_ok l' tr')
  end.
Definition lis_case_ok (k : lis_case) : bool := match k with (b, tr) => lis_run_ok (l_init b false) tr end.
Definition lis_mismatches (l : list lis_case) : list nat := mismatches_from lis_case_ok 0 l.

(* drain: requests (times in ms relative to a common origin), signal time, drain max, tolerance;
   observed: time Shutdown returned, and per request whether its reply was complete by then.
   The model's exit time with polls every `tick` ms must agree within the tolerance, and each request that the model
   says is complete at the earliest possible exit must be observed complete. *)
Definition drain_case := (list exch * nat * nat * nat * nat * nat)%type.
Definition drain_case_ok (k : drain_case) : bool :=
  match k with (xs, s, max, tick, tol, exit_obs) =>
    match drain_exit (map req_of xs) (fun i => s + i * tick) max with
    | None => false
    | Some i => let e := s + i * tick in andb (e <=? exit_obs + tol) (exit_obs <=? e + tol)
    end
  end.
Definition drain_mismatches (l : list drain_case) : list nat := mismatches_from drain_case_ok 0 l.

(* hand-over at byte offset k of a request frame: replies the client received *)
Definition xfer_case := (bytes * nat * nat)%type.
Definition xfer_case_ok (has_room always_published : bool) (k : xfer_case) : bool :=
  match k with (frame, off, replies) =>
    if handed_over_conn_served has_room always_published (N.of_nat off) then
      match frames_with_handover frame off with Some n => Nat.eqb n replies | None => false end
    else Nat.eqb replies 0
  end.
Definition xfer_mismatches (has_room always_published : bool) (l : list xfer_case) : list nat :=
  mismatches_from (xfer_case_ok has_room always_published) 0 l.

(* multi-listener server: per listener its exchanges, signal, drain max, tick, tolerance, observed return of
   GracefulStopListeners, per listener whether a connect was still accepted / established afterwards *)
Definition srv_case := (list (list exch) * nat * nat * nat * nat * nat * list bool)%type.
Definition srv_case_ok (copy : bool) (k : srv_case) : bool :=
  match k with (xss, s, max, tick, tol, ret_obs, open_after) =>
    let n := length xss in
    let ls := srv_shutdown copy (repeat (l_run (l_init true false) [OpStart false]) n) in
    andb (match srv_return copy (map (map req_of) xss) (fun i => s + i * tick) max with
          | None => false
          | Some t => andb (t <=? ret_obs + tol) (ret_obs <=? t + tol)
          end)
         (andb (Nat.eqb (length open_after) n)
               (forallb (fun lo => Bool.eqb (negb (match l_connect (fst lo) with CRefused => true | _ => false end)) (snd lo))
                        (combine ls open_after)))
  end.
Definition srv_mismatches (copy : bool) (l : list srv_case) : list nat := mismatches_from (srv_case_ok copy) 0 l.

(* half-written response at hand-over: |response 1|, |response 2|, was the client stream exactly response 1 ++ response 2,
   offset at which response 2 was found in the client stream (-1: not found) *)
Definition hw_case := (N * N * bool * Z)%type.
Definition hw_case_ok (lock_first : bool) (k : hw_case) : bool :=
  match k with (l1, l2, intact, off) =>
    if lock_first then andb intact (Z.eqb off (Z.of_N l1)) else true
  end.
Definition hw_mismatches (lock_first : bool) (l : list hw_case) : list nat := mismatches_from (hw_case_ok lock_first) 0 l.

(* what an existing connection was told by the time Shutdown returned: protocol, announced? *)
Definition ann_case := (proto * bool)%type.
Definition ann_case_ok (k : ann_case) : bool := match k with (p, a) => Bool.eqb (announces p) a end.
Definition ann_mismatches (l : list ann_case) : list nat := mismatches_from ann_case_ok 0 l.
