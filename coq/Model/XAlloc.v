(* Request-id allocation by CONCURRENT goroutines on one connection counter (conn.go newClientStream ->
   protocol.GenerateRequestID(&clientStreamIDBase)), as an interleaving semantics over Lib/Interleave.v:
   a thread is "allocate a_todo more ids"; one micro-step is one sync/atomic call on the shared counter.
   ONLY executable definitions here; proofs are in Proofs/XAlloc.v.

   The shape of each protocol's GenerateRequestID is read from the source (Gen/XConnSrc.v):
     AtomicAdd g          return cast(atomic.AddUint64(streamID, 1))            - one atomic step (the code in the tree)
     AddThenReset limit   id := atomic.AddUint64(streamID, 1); if id > limit { atomic.StoreUint64(streamID, 1); id = 1 }
                          - two atomic steps (a shape a change could introduce; refuted in Props/C02.v) *)
From Coq Require Import List NArith Bool Arith.
From MV Require Import Lib.Interleave Model.XConn.
Import ListNotations.
Open Scope N_scope.

Inductive alloc_prog := AtomicAdd (g : genk) | AddThenReset (limit : N).

(* thread-local state: allocations still to do, the value read by a pending two-step allocation, ids obtained (newest first) *)
Record athread := mkAT { a_todo : nat; a_pend : option N; a_out : list N }.

Definition astep (pr : alloc_prog) (t : athread) (c : N) : athread * N :=
  match pr with
  | AtomicAdd g =>
    match a_todo t with
    | O => (t, c)
    | S n => let c' := next_ctr c in (mkAT n None (gen_id g c' :: a_out t), c')
    end
  | AddThenReset lim =>
    match a_pend t with
    | Some v => if lim <? v then (mkAT (a_todo t) None (1 :: a_out t), 1)     (* atomic.StoreUint64(streamID, 1); id = 1 *)
                else (mkAT (a_todo t) None (v :: a_out t), c)
    | None =>
      match a_todo t with
      | O => (t, c)
      | S n => let c' := next_ctr c in (mkAT n (Some c') (a_out t), c')       (* id := atomic.AddUint64(streamID, 1) *)
      end
    end
  end.

Definition athreads (todo : list nat) : list athread := map (fun n => mkAT n None []) todo.
Definition arun (pr : alloc_prog) (sched : list nat) (todo : list nat) (c0 : N) : list athread * N :=
  Interleave.run (astep pr) sched (athreads todo, c0).
(* every id handed out, over all threads *)
Definition all_ids (ts : list athread) : list N := flat_map a_out ts.
Fixpoint total_todo (ts : list athread) : nat := match ts with [] => O | t :: ts' => (a_todo t + total_todo ts')%nat end.
