(* Model of the full host update of the cluster manager (cluster_manager.go NewSimpleHostHandler: UpdateClusterHosts / EDS)
   with the ATTRIBUTES of the published host objects: labels (metadata), weight, hostname, tls flag.
   ONLY executable definitions.  Whether a published host object may be carried over from the previous host set is READ
   FROM THE SOURCE (Gen/HostUpdateTokens.v reuse_mode):
     ReuseNever          : every host object is built from the new config (NewSimpleHost)
     ReuseIfLabelsSubset : the object of an address is kept when hostname, weight and tls flag are equal and every label
                           of the CURRENT object is in the new config with the same value (no check the other way) *)
From Coq Require Import List Arith Bool.
From MV Require Import Model.Subset.
Import ListNotations.

Inductive reuse_shape := ReuseNever | ReuseIfLabelsSubset.

Record hostcfg := mkCfg { c_addr : nat; c_labels : list kv; c_weight : nat; c_hostname : nat; c_tls_disable : bool }.

Fixpoint find_addr (a : nat) (l : list hostcfg) : option hostcfg :=
  match l with [] => None | c :: l' => if Nat.eqb a (c_addr c) then Some c else find_addr a l' end.

Definition labels_subset (cur new : list kv) : bool :=
  forallb (fun p => match lookup (fst p) new with Some v => Nat.eqb v (snd p) | None => false end) cur.

Definition unchanged_shortcut (cur new : hostcfg) : bool :=
  Nat.eqb (c_hostname cur) (c_hostname new) && Nat.eqb (c_weight cur) (c_weight new) &&
  Bool.eqb (c_tls_disable cur) (c_tls_disable new) && labels_subset (c_labels cur) (c_labels new).

(* the attributes of the host objects after the handler built its list (before NewHostSet's de-duplication) *)
Definition build_hosts (md : reuse_shape) (published : list hostcfg) (cfgs : list hostcfg) : list hostcfg :=
  map (fun c => match md with
                | ReuseNever => c
                | ReuseIfLabelsSubset =>
                    match find_addr (c_addr c) published with
                    | Some cur => if unchanged_shortcut cur c then cur else c
                    | None => c
                    end
                end) cfgs.

Fixpoint dedup_cfg (seen : list nat) (l : list hostcfg) : list hostcfg :=
  match l with
  | [] => []
  | c :: l' => if existsb (Nat.eqb (c_addr c)) seen then dedup_cfg seen l' else c :: dedup_cfg (c_addr c :: seen) l'
  end.

Definition update_hosts (md : reuse_shape) (published : list hostcfg) (cfgs : list hostcfg) : list hostcfg :=
  dedup_cfg [] (build_hosts md published cfgs).

Definition run_updates (md : reuse_shape) (updates : list (list hostcfg)) : list hostcfg :=
  fold_left (update_hosts md) updates [].

(* every published host carries exactly the attributes of the config it was published from *)
Definition update_exact_statement (md : reuse_shape) : Prop :=
  forall published cfgs, update_hosts md published cfgs = dedup_cfg [] cfgs.
