(* Request accounting of the xprotocol pools (connpool_multiplex.go, connpool_pingpong.go, connpool_binding.go NewStream /
   OnDestroyStream) together with the client stream's life (stream.go endStream, conn.go Reset): host + cluster
   upstream_request_active and the cluster's Requests circuit-breaker resource.
   ONLY executable definitions here; proofs are in Proofs/PoolAcct.v.

   Per pool, read from the source (Gen/PoolSrc.v poolacct_src_<pool>):
     ap_listen_oneway   the pool registers itself as stream event listener on a one-way stream (receiver == nil)
                        - its OnDestroyStream decrements unconditionally
     ap_count_oneway    a one-way stream is counted (UpstreamRequestActive.Inc, Requests().Increase())
   and for the stream layer (poolacct_src_destroy_oneway): a one-way client stream is destroyed once it is written. *)
From Coq Require Import List ZArith Bool Arith.
From RecordUpdate Require Import RecordUpdate.
From MV Require Import Model.Pool.
Import ListNotations.
Open Scope Z_scope.

Record apolicy := mkAP { ap_listen_oneway : bool; ap_count_oneway : bool }.
Record acfg := mkACfg { ac_max_req : Z; ac_pol : apolicy; ac_destroy_oneway : bool }.

Record astream := mkAS { as_oneway : bool; as_conn : nat; as_listened : bool; as_counted : bool;
                         as_live : bool; as_sent : bool; as_incs : nat; as_decs : nat }.
Record acct := mkAcct { a_n : nat; a_st : nat -> astream; a_closed : nat -> bool; a_active : Z; a_req : Z }.
#[global] Instance eta_acct : Settable _ := settable! mkAcct <a_n; a_st; a_closed; a_active; a_req>.

Definition ainit : acct := mkAcct 0 (fun _ => mkAS false 0 false false false false 0 0) (fun _ => false) 0 0.

Definition acan_create (k : acfg) (a : acct) : bool := (ac_max_req k =? 0) || (a_req a <? 0) || (a_req a <? ac_max_req k).
(* Increase / Decrease always count (resource_manager.go since c8b45b4d7; pinned by Gen.PoolSrc poolres_src_counts_unlimited);
   max_requests = 0 only means that CanCreate accepts everything *)
Definition areq_add (k : acfg) (a : acct) (d : Z) : acct := a <| a_req := a_req a + d |>.

Inductive aop :=
| ANew (oneway : bool) (avail : option nat)  (* pool.NewStream; avail: the connection the pool can put the stream on (None: it has none) *)
| ASend (s : nat)                            (* the request of stream s is written (fails when its connection is closed) *)
| AResponse (s : nat)
| AReset (s : nat)                           (* the holder resets the stream: time-out, abort *)
| AConnClose (c : nat)                       (* connection c closes: the streams in its client stream table are reset *)
| ANop.                                      (* a pool operation without effect on the accounting (CheckAndInit, ...) *)

(* BaseStream.DestroyStream: listeners' OnDestroyStream once *)
Definition adestroy (k : acfg) (s : nat) (a : acct) : acct :=
  let x := a_st a s in
  if as_live x then
    let a1 := a <| a_st := upd (a_st a) s (mkAS (as_oneway x) (as_conn x) (as_listened x) (as_counted x) false (as_sent x)
                                                 (as_incs x) (if as_listened x then S (as_decs x) else as_decs x)) |> in
    if as_listened x then areq_add k (a1 <| a_active := a_active a1 - 1 |>) (-1) else a1
  else a.

Fixpoint aclose_streams (k : acfg) (c : nat) (n : nat) (a : acct) : acct :=
  match n with
  | O => a
  | S m => let a' := aclose_streams k c m a in
           let x := a_st a' m in
           (* only streams with a receiver are in the client stream table *)
           if as_live x && negb (as_oneway x) && Nat.eqb (as_conn x) c then adestroy k m a' else a'
  end.

Definition astep (k : acfg) (a : acct) (o : aop) : acct :=
  match o with
  | ANew oneway avail =>
    match avail with
    | Some c =>
      if acan_create k a then
        let listened := negb oneway || ap_listen_oneway (ac_pol k) in
        let counted := negb oneway || ap_count_oneway (ac_pol k) in
        let a1 := a <| a_st := upd (a_st a) (a_n a) (mkAS oneway c listened counted true false (if counted then 1 else 0)%nat 0) |>
                    <| a_n := S (a_n a) |> in
        if counted then areq_add k (a1 <| a_active := a_active a1 + 1 |>) 1 else a1
      else a
    | None => a
    end
  | ASend s =>
    let x := a_st a s in
    if Nat.ltb s (a_n a) && as_live x && negb (as_sent x) then
      if a_closed a (as_conn x) then adestroy k s a          (* write fails: ResetStream(ConnectionFailed) -> DestroyStream *)
      else
        let a1 := a <| a_st := upd (a_st a) s (mkAS (as_oneway x) (as_conn x) (as_listened x) (as_counted x) true true (as_incs x) (as_decs x)) |> in
        if as_oneway x && ac_destroy_oneway k then adestroy k s a1 else a1
    else a
  | AResponse s =>
    let x := a_st a s in
    if Nat.ltb s (a_n a) && as_live x && as_sent x && negb (as_oneway x) then adestroy k s a else a
  | AReset s => if Nat.ltb s (a_n a) then adestroy k s a else a
  | AConnClose c => aclose_streams k c (a_n a) (a <| a_closed := upd (a_closed a) c true |>)
  | ANop => a
  end.

Definition arun (k : acfg) (ops : list aop) (a : acct) : acct := fold_left (astep k) ops a.

(* observation: gauge, resource, per stream (live) *)
Definition aobs := (Z * Z * list bool)%type.
Definition aobserve (a : acct) : aobs := (a_active a, a_req a, map (fun s => as_live (a_st a s)) (seq 0 (a_n a))).
Definition aobs_eqb (x y : aobs) : bool :=
  match x, y with (g1, r1, l1), (g2, r2, l2) => (g1 =? g2) && (r1 =? r2) && list_eqb Bool.eqb l1 l2 end.
Fixpoint arun_check (k : acfg) (a : acct) (h : list (aop * aobs)) : bool :=
  match h with
  | [] => true
  | (o, ob) :: h' => let a' := astep k a o in aobs_eqb (aobserve a') ob && arun_check k a' h'
  end.
Definition acct_case := (apolicy * Z * list (aop * aobs))%type.
Definition acct_case_ok (destroy_oneway : bool) (c : acct_case) : bool :=
  match c with (pol, mr, h) => arun_check (mkACfg mr pol destroy_oneway) ainit h end.
Definition acct_mismatches (destroy_oneway : bool) (l : list acct_case) : list nat :=
  pool_mismatches_from (acct_case_ok destroy_oneway) 0 l.
