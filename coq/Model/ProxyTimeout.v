(* Model of pkg/proxy/util.go parseProxyTimeout (milliseconds): route values, overridden by the request's time-out headers,
   overridden by the protocol-supplied variables; global 0 -> default; per-try >= global -> disabled.  Executable only. *)
From Coq Require Import List ZArith Bool.
Import ListNotations.
Open Scope Z_scope.

Record tsrc := {
  t_route_g : Z; t_route_t : Z;                (* route: timeout / retry_policy.retry_timeout (0 = not configured) *)
  t_hdr_g : option Z; t_hdr_t : option Z;      (* request headers, when present and parsable as an integer *)
  t_var_g : option Z; t_var_t : option Z       (* protocol-supplied variables, when set and parsable *)
}.

Definition over (o : option Z) (v : Z) : Z := match o with Some x => x | None => v end.

Definition parse_timeout (dflt : Z) (x : tsrc) : Z * Z :=
  let t := t_route_t x in
  let g := t_route_g x in
  let t := over (t_hdr_t x) t in
  let g := over (t_hdr_g x) g in
  let t := over (t_var_t x) t in
  let g := over (t_var_g x) g in
  let g := if g =? 0 then dflt else g in
  let t := if g <=? t then 0 else t in
  (g, t).

(* correspondence: measured effective values (0 = no per-try expiry seen) *)
Definition tcase := (tsrc * Z * Z)%type.
Definition tcase_ok (dflt : Z) (k : tcase) : bool :=
  let '(x, g, t) := k in let '(g', t') := parse_timeout dflt x in (g =? g') && (t =? t').
Fixpoint tmism (dflt : Z) (i : nat) (l : list tcase) : list nat :=
  match l with [] => [] | k :: l' => if tcase_ok dflt k then tmism dflt (S i) l' else i :: tmism dflt (S i) l' end.
Definition timeout_mismatches (dflt : Z) (l : list tcase) : list nat := tmism dflt 0 l.
