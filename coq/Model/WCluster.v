(* Model of router/base_rule.go RouteRuleImplBase.ClusterName (weighted clusters).
   ONLY executable definitions here; proofs are in Proofs/WCluster.v.

   Go:   selectedValue := rand.Intn(total)
         for _, wc := range rri.weightedClusters {      // MAP iteration: any order
             selectedValue = selectedValue - int(wc.clusterWeight)
             if selectedValue OP 0 { return wc.clusterName }
         }
         return rri.defaultCluster.clusterName
   OP is read from the source by the translator (Gen/SrcTokens.v: wc_cmp). *)
From Coq Require Import List ZArith String Bool.
Import ListNotations.
Open Scope Z_scope.

Definition wcluster := (string * Z)%type.

Fixpoint pick (cmp : Z -> bool) (cs : list wcluster) (v : Z) (dflt : string) : string :=
  match cs with
  | [] => dflt
  | (c, w) :: cs' => let v' := v - w in if cmp v' then c else pick cmp cs' v' dflt
  end.

Fixpoint total (cs : list wcluster) : Z :=
  match cs with [] => 0 | (_, w) :: cs' => w + total cs' end.

(* sum of the weights configured under name c (the Go map has one entry per name) *)
Fixpoint weight_of (c : string) (cs : list wcluster) : Z :=
  match cs with
  | [] => 0
  | (c', w) :: cs' => (if String.eqb c' c then w else 0) + weight_of c cs'
  end.

(* number of v in [lo, lo+n) with f v *)
Fixpoint count_range (f : Z -> bool) (lo : Z) (n : nat) : Z :=
  match n with
  | O => 0
  | S n' => (if f lo then 1 else 0) + count_range f (lo + 1) n'
  end.

(* how many of the draws 0..total-1 select cluster c, for storage order cs *)
Definition hits (cmp : Z -> bool) (cs : list wcluster) (c : string) : Z :=
  count_range (fun v => String.eqb (pick cmp cs v "") c) 0 (Z.to_nat (total cs)).

(* --- for the correspondence check: all storage orders of a (small) map ---------- *)
Fixpoint insert_all {A} (x : A) (l : list A) : list (list A) :=
  match l with
  | [] => [[x]]
  | y :: l' => (x :: l) :: map (cons y) (insert_all x l')
  end.
Fixpoint perms {A} (l : list A) : list (list A) :=
  match l with
  | [] => [[]]
  | x :: l' => flat_map (insert_all x) (perms l')
  end.

(* the set of clusters the model allows for draw v over all storage orders *)
Definition possible (cmp : Z -> bool) (cs : list wcluster) (v : Z) (dflt : string) : list string :=
  map (fun p => pick cmp p v dflt) (perms cs).

(* one correspondence case: configured clusters (any order), draw, default, cluster the Go code returned *)
Definition wc_case := (list wcluster * Z * string * string)%type.
Definition wc_case_ok (cmp : Z -> bool) (k : wc_case) : bool :=
  match k with (cs, v, d, got) => existsb (String.eqb got) (possible cmp cs v d) end.
Fixpoint mismatches_from {A} (ok : A -> bool) (i : nat) (l : list A) : list nat :=
  match l with
  | [] => []
  | x :: l' => if ok x then mismatches_from ok (S i) l' else i :: mismatches_from ok (S i) l'
  end.
Definition wc_mismatches (cmp : Z -> bool) (l : list wc_case) : list nat :=
  mismatches_from (wc_case_ok cmp) 0 l.

(* --- duplicate names in the configured list: getWeightedClusterEntry stores the entries in a MAP, so the
   LAST occurrence of a name wins; the draw bound must be the sum of the STORED weights. --- *)
Definition dedup_last (cfg : list wcluster) : list wcluster :=
  fold_right (fun x acc => if existsb (fun y => String.eqb (fst y) (fst x)) acc then acc else x :: acc) [] cfg.

(* a case with the configured list (duplicates allowed) and the draw bound the code really uses *)
Definition wc_case2 := (list wcluster * Z * Z * string * string)%type.  (* configured, go draw bound, draw, default, got *)
Definition wc_case2_ok (cmp : Z -> bool) (k : wc_case2) : bool :=
  match k with (cfg, bound, v, d, got) =>
    let cs := dedup_last cfg in
    Z.eqb bound (total cs) && existsb (String.eqb got) (possible cmp cs v d) end.
Definition wc_mismatches2 (cmp : Z -> bool) (l : list wc_case2) : list nat :=
  mismatches_from (wc_case2_ok cmp) 0 l.
