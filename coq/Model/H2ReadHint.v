(* Model/H2ReadHint.v (group h2): what goes wrong when a frame reader carries a "bytes needed" hint across frames
   (the shape of seed C07-g: MFramer.readNeed set when a read ends inside a frame, cleared when a frame is consumed
   normally but NOT when a stream-error frame is skipped).  Abstract frames: [payload length; kind; payload...], kind 1 = a
   frame that is a stream error for its own stream.  The model of the real reader (Model/H2Frame.v feed_gen) has no such
   state: Gen h2_framer_no_cross_frame_state.  Definitions only. *)
From Coq Require Import List NArith Bool.
From MV Require Import Lib.HBits.
Import ListNotations.
Open Scope N_scope.

Inductive hev := HvFrame (p : bytes) | HvStreamErr.
Record hst := mkHst { h_need : N; h_buf : bytes; h_out : list hev }.

(* clear_on_skip: the hint is reset on the stream-error skip path too *)
Fixpoint hint_loop (clear_on_skip : bool) (fuel : nat) (s : hst) : hst :=
  match fuel with
  | O => s
  | S f =>
    if len (h_buf s) <? h_need s then s                       (* "still inside the frame the previous read left unfinished" *)
    else match h_buf s with
         | l :: k :: rest =>
             if len rest <? l then mkHst (2 + l) (h_buf s) (h_out s)
             else if k =? 1
                  then hint_loop clear_on_skip f (mkHst (if clear_on_skip then 0 else h_need s) (skipn (N.to_nat l) rest) (h_out s ++ [HvStreamErr]))
                  else hint_loop clear_on_skip f (mkHst 0 (skipn (N.to_nat l) rest) (h_out s ++ [HvFrame (firstn (N.to_nat l) rest)]))
         | _ => s
         end
  end.

Definition hint_feed (clear_on_skip : bool) (s : hst) (chunk : bytes) : hst :=
  let b := h_buf s ++ chunk in hint_loop clear_on_skip (S (length b)) (mkHst (h_need s) b (h_out s)).

Definition hint_run (clear_on_skip : bool) (chunks : list bytes) : hst := fold_left (hint_feed clear_on_skip) chunks (mkHst 0 [] []).
