(* Executable specification vocabulary for the proxy properties (C03, C10, C14, C17): a summary ("ghost") of the output trace
   that is updated output by output, and the predicates the theorems are stated with.  No proofs here. *)
From Coq Require Import List ZArith Bool Arith.
From RecordUpdate Require Import RecordSet.
From MV Require Import Model.Proxy.
Import ListNotations RecordSetNotations.
Open Scope Z_scope.

Definition sat_succ (cap n : nat) : nat := if (n <? cap)%nat then S n else n.

(* summary of a trace prefix *)
Record gs := {
  g_hdr : nat;            (* ODownHdr count, saturating at 2 *)
  g_started : bool;       (* a reply header was sent *)
  g_ended : bool;         (* the end-of-stream call of the reply was made *)
  g_bad : bool;           (* a second header, data/trailers before the header, or any reply call after the end *)
  g_clean : nat;          (* executions of cleanStream's effects (gauge decrement), saturating at 2 *)
  g_log : nat;            (* access-log writes, saturating at 2 *)
  g_destroy : nat;        (* filter-destroy rounds, saturating at 2 *)
  g_new : nat;            (* ConnectionPool.NewStream calls *)
  g_choose : nat;         (* host selections *)
  g_new_unchosen : bool;  (* a NewStream call not preceded by a fresh host selection since the previous NewStream *)
  g_fresh : bool;         (* a host selection happened since the last NewStream *)
  g_new_after_start : bool; (* NewStream after a reply header was sent downstream *)
  g_denied : bool;        (* a receive filter hijacked / sent a direct response / terminated *)
  g_new_after_deny : bool;(* NewStream after that *)
  g_term : bool;          (* a filter returned termination *)
  g_gauge : Z;            (* sum of gauge deltas (the +1 of stream creation is not an output) *)
  g_res : Z;              (* sum of Retries resource deltas *)
  g_res_min : Z;          (* minimum over prefixes of that sum *)
  g_panic : bool;
  g_leak : bool;          (* a new attempt was started while the previous attempt's upstream stream was still open *)
  g_fin_bad : bool;
  g_mixed : bool;         (* the client was sent a body that does not belong to the response whose headers it got *)       (* an attempt was sent request headers on which the route actions had not run exactly once *)
  g_reply_kind : option (rkind * Z)  (* kind and status of the reply header *)
}.

#[export] Instance eta_gs : Settable _ := settable! Build_gs
  <g_hdr; g_started; g_ended; g_bad; g_clean; g_log; g_destroy; g_new; g_choose; g_new_unchosen; g_fresh; g_new_after_start;
   g_denied; g_new_after_deny; g_term; g_gauge; g_res; g_res_min; g_panic; g_leak; g_fin_bad; g_mixed; g_reply_kind>.

Definition gs0 : gs :=
  {| g_hdr := 0; g_started := false; g_ended := false; g_bad := false; g_clean := 0; g_log := 0; g_destroy := 0; g_new := 0;
     g_choose := 0; g_new_unchosen := false; g_fresh := false; g_new_after_start := false; g_denied := false;
     g_new_after_deny := false; g_term := false; g_gauge := 0; g_res := 0; g_res_min := 0; g_panic := false; g_leak := false; g_fin_bad := false; g_mixed := false; g_reply_kind := None |}.

Definition is_deny (v : verdict) : bool :=
  match v with VTerm | VHijack | VHijackCont | VDirect => true | _ => false end.

Definition gs_out (g : gs) (o : out) : gs :=
  match o with
  | ODownHdr e k c =>
    g <| g_hdr := sat_succ 2 (g_hdr g) |> <| g_bad := g_bad g || g_started g || g_ended g |> <| g_started := true |>
      <| g_ended := g_ended g || e |> <| g_reply_kind := match g_reply_kind g with None => Some (k, c) | x => x end |>
  | ODownData e owner =>
    g <| g_bad := g_bad g || negb (g_started g) || g_ended g |> <| g_ended := g_ended g || e |>
      <| g_mixed := g_mixed g || match g_reply_kind g with Some (k, _) => negb (rkind_eqb k owner) | None => true end |>
  | ODownTrl => g <| g_bad := g_bad g || negb (g_started g) || g_ended g |> <| g_ended := true |>
  | ODownReset => g
  | OChoose => g <| g_choose := S (g_choose g) |> <| g_fresh := true |>
  | OUpNew _ _ =>
    g <| g_new := S (g_new g) |> <| g_new_unchosen := g_new_unchosen g || negb (g_fresh g) |> <| g_fresh := false |>
      <| g_new_after_start := g_new_after_start g || g_started g |> <| g_new_after_deny := g_new_after_deny g || g_denied g |>
  | OUpHdr _ _ n => g <| g_fin_bad := g_fin_bad g || negb (n =? 1)%nat |>
  | OLeak _ => g <| g_leak := true |>
  | OUpData _ _ | OUpTrl _ | OUpReset _ => g
  | ORes d => let r := g_res g + d in g <| g_res := r |> <| g_res_min := Z.min (g_res_min g) r |>
  | OGauge d => g <| g_gauge := g_gauge g + d |> <| g_clean := sat_succ 2 (g_clean g) |>
  | OFilterRecv _ _ v => g <| g_denied := g_denied g || is_deny v |> <| g_term := g_term g || match v with VTerm => true | _ => false end |>
  | OFilterSend _ v => g <| g_term := g_term g || match v with VTerm => true | _ => false end |>
  | ODestroy => g <| g_destroy := sat_succ 2 (g_destroy g) |>
  | OLog => g <| g_log := sat_succ 2 (g_log g) |>
  | OPanic => g <| g_panic := true |>
  end.
Definition gs_outs (g : gs) (l : list out) : gs := fold_left gs_out l g.

(* the environment part of a schedule that the statements mention *)
Definition is_down_reset (x : step) : bool := match x with Env (EvDownReset _) => true | _ => false end.
Definition is_terminate (x : step) : bool := match x with Env (EvTerminate _) => true | _ => false end.

(* nothing is left to happen without a new environment event: the worker cannot step, is not sleeping, no timer is armed *)
Definition quiescent (s : st) : bool :=
  negb (worker_enabled s) && negb (sleeping s) && negb (global_armed s) && match try_armed s with None => true | Some _ => false end.

(* the reply stream handed to the client is well formed: at most one header, nothing before it, nothing after its end *)
Definition reply_wf (g : gs) : bool := (g_hdr g <=? 1)%nat && negb (g_bad g).
