(* Model/Redact.v (cfg, C20) - the admin config-dump redactor (pkg/configmanager/redact.go, effectiveconfig.go
   DumpJSON / HandleMOSNConfig, admin/server/apis.go ConfigDump) over the GENERATED configuration type graph
   (Gen/CfgTypes.v).  ONLY executable definitions; proofs are in Proofs/Redact.v.

   - [taint]: marks (VSecret / JSecret) the PrivateKey of every v2.TLSConfig position of a configuration value,
     following the type graph through every Go-level field (json:"-" ones included, because marshal hooks copy
     them) and, inside the raw JSON of an extension config, through the types of the registered parsers.
   - [prune]: positions the effective-config setters leave nil (SetMosnConfig resets them).
   - [rprog]: the redactor as the list of paths it blanks, with its copy-before-write discipline; [redact] runs a
     program on a value, allocates the fresh storage the Go code allocates and LOGS THE REGION OF EVERY WRITE.
   - [dump_endpoint]: what each query variant of /api/v1/config_dump serialises.
   The shape of the two defect sites is read from the source (src_* switches of Gen/CfgTypes.v). *)
From Coq Require Import List String Bool ZArith NArith Ascii.
From MV Require Import Lib.GoJson Gen.CfgTypes.
Import ListNotations.
Open Scope string_scope.

Definition tls_struct := "v2.TLSConfig".
Definition tls_key_go := "PrivateKey".
Definition tls_key_json := "private_key".
Definition ext_struct := "v2.ExtendConfig".
Definition placeholder := "***REDACTED***".

Definition ok_secret (s : string) : Prop := s = "" \/ s = placeholder.
Definition ok_secretb (s : string) : bool := (String.eqb s "" || String.eqb s placeholder)%bool.

Definition is_tls_key (n : string) (fd : field) : bool :=
  (String.eqb n tls_struct && String.eqb (f_go fd) tls_key_go)%bool.

(* ------------------------------------------------------------------------------------------ raw JSON *)
Definition strip_ptr (t : ty) : ty := match t with TPtr t' => t' | _ => t end.

Fixpoint find_json_field (fs : list field) (k : string) : option field :=
  match fs with
  | [] => None
  | fd :: fs' => if (negb (f_skip fd) && key_eq (f_json fd) k)%bool then Some fd else find_json_field fs' k
  end.

(* mark the private keys inside a JSON document that a registered parser decodes into type t *)
Fixpoint taint_json_ty (T : table) (t : ty) (j : json) {struct j} : json :=
  match strip_ptr t, j with
  | TNamed n, JObj kvs =>
    match find_struct T n with
    | None => j
    | Some sd =>
      JObj ((fix go (kvs : list (string * json)) : list (string * json) :=
               match kvs with
               | [] => []
               | (k, x) :: kvs' =>
                 (k, match find_json_field (s_fields sd) k with
                     | Some fd => if is_tls_key n fd
                                  then match x with JStr s => JSecret s | _ => x end
                                  else taint_json_ty T (f_ty fd) x
                     | None => x
                     end) :: go kvs'
               end) kvs)
    end
  | TSlice t', JArr l =>
    JArr ((fix go (l : list json) : list json := match l with [] => [] | x :: l' => taint_json_ty T t' x :: go l' end) l)
  | TMap t', JObj kvs =>
    JObj ((fix go (kvs : list (string * json)) : list (string * json) :=
             match kvs with [] => [] | (k, x) :: kvs' => (k, taint_json_ty T t' x) :: go kvs' end) kvs)
  | _, _ => j
  end.


(* key-based marking: every string member named "private_key" (any case), at any depth.  The raw JSON of an extension
   config is marked this way whatever its registered parser is (a list of agents each with its own tls_context ...) *)
Fixpoint taint_keys (j : json) : json :=
  match j with
  | JArr l => JArr ((fix go (l : list json) : list json := match l with [] => [] | x :: l' => taint_keys x :: go l' end) l)
  | JObj kvs =>
    JObj ((fix go (kvs : list (string * json)) : list (string * json) :=
             match kvs with
             | [] => []
             | (k, x) :: kvs' =>
               (k, if key_eq k tls_key_json
                   then match x with JStr s => JSecret s | _ => taint_keys x end
                   else taint_keys x) :: go kvs'
             end) kvs)
  | _ => j
  end.

(* pseudo-type standing for "mark by key" in a list of interpretations *)
Definition keys_ty : ty := TOpaque "json:private_key-members".
Definition is_keys_ty (t : ty) : bool := match t with TOpaque n => String.eqb n "json:private_key-members" | _ => false end.
Definition taint_json (T : table) (t : ty) (j : json) : json :=
  if is_keys_ty t then taint_keys j else taint_json_ty T t j.

(* the JSON-level redaction: every string member whose key is "private_key" (any case) *)
Fixpoint blank_json_keys (j : json) : json :=
  match j with
  | JArr l => JArr ((fix go (l : list json) : list json := match l with [] => [] | x :: l' => blank_json_keys x :: go l' end) l)
  | JObj kvs =>
    JObj ((fix go (kvs : list (string * json)) : list (string * json) :=
             match kvs with
             | [] => []
             | (k, x) :: kvs' =>
               (k, if key_eq k tls_key_json
                   then match x with
                        | JStr s => if String.eqb s "" then x else JStr placeholder
                        | JSecret s => if String.eqb s "" then x else JSecret placeholder
                        | _ => blank_json_keys x
                        end
                   else blank_json_keys x) :: go kvs'
             end) kvs)
  | _ => j
  end.

(* types the registered extension parsers decode the raw config of extension `e` into *)
Definition ext_interps (e : string) : list ty :=
  map (fun p => TNamed (snd p)) (filter (fun p => String.eqb (fst p) e) cfg_ext_tls).

Definition raw_interps (n : string) (sd : sdesc) (vs : list val) : list ty :=
  if String.eqb n ext_struct then
    (match field_index (s_fields sd) "Type" 0 with
     | Some (i, _) => match nth_error vs i with Some (VStr e) => ext_interps e | _ => [] end
     | None => []
     end ++ [keys_ty])%list
  else [].

(* ----------------------------------------------------------------------------------- traversal helpers *)
(* fields of a struct value zipped with the field descriptions (values beyond the description are kept) *)
(* (f is bound outside the fix so that the guard checker can see through these helpers) *)
Definition zipf (f : field -> val -> val) : list field -> list val -> list val :=
  fix go (fds : list field) (vs : list val) {struct vs} : list val :=
    match vs, fds with
    | x :: vs', fd :: fds' => f fd x :: go fds' vs'
    | _, _ => vs
    end.
Definition map_es (f : val -> val) : list (string * val) -> list (string * val) :=
  fix go (es : list (string * val)) : list (string * val) :=
    match es with
    | [] => []
    | (k, e) :: es' => (k, f e) :: go es'
    end.

(* ------------------------------------------------------------------------------------------ taint *)
Fixpoint taint (T : table) (t : ty) (v : val) {struct v} : val :=
  match v with
  | VStruct vs =>
    match t with
    | TNamed n =>
      match find_struct T n with
      | None => v
      | Some sd =>
        let interps := raw_interps n sd vs in
        VStruct (zipf (fun fd x =>
                         if is_tls_key n fd then match x with VStr s => VSecret s | _ => x end
                         else match f_ty fd, x with
                              | TRaw, VJson j => VJson (fold_left (fun j t' => taint_json T t' j) interps j)
                              | _, _ => taint T (f_ty fd) x
                              end) (s_fields sd) vs)
      end
    | _ => v
    end
  | VRef r es =>
    match t with
    | TPtr t' | TSlice t' | TMap t' => VRef r (map_es (fun e => taint T t' e) es)
    | _ => v
    end
  | _ => v
  end.

(* ------------------------------------------------------------------------------------------ prune *)
Fixpoint path_eqb (a b : list string) : bool :=
  match a, b with
  | [], [] => true
  | x :: a', y :: b' => (String.eqb x y && path_eqb a' b')%bool
  | _, _ => false
  end.
Definition path_mem (p : list string) (l : list (list string)) : bool := existsb (path_eqb p) l.

Fixpoint prune (T : table) (pruned : list (list string)) (path : list string) (t : ty) (v : val) {struct v} : val :=
  match v with
  | VStruct vs =>
    match t with
    | TNamed n =>
      match find_struct T n with
      | None => v
      | Some sd =>
        VStruct (zipf (fun fd x =>
                         if path_mem (path ++ [f_go fd]) pruned then VNil
                         else prune T pruned (path ++ [f_go fd]) (f_ty fd) x) (s_fields sd) vs)
      end
    | _ => v
    end
  | VRef r es =>
    match t with
    | TPtr t' | TSlice t' | TMap t' => VRef r (map_es (fun e => prune T pruned path t' e) es)
    | _ => v
    end
  | _ => v
  end.

(* ---------------------------------------------------------------------------------- redactor programs *)
Inductive cmode :=
| InPlace       (* for i := range x { ... &x[i] ... }              no new storage *)
| CopyNonNil    (* if x == nil {return nil}; make + copy / tls := *p; p = &tls *)
| CopyLenPos    (* if len(x) > 0 { make + copy }                              *)
| CopyMake.     (* make(len(x)) + copy, unconditionally (nil becomes empty)   *)

Inductive rprog :=
| RNone
| RFields (l : list (string * rprog))
| REach (m : cmode) (p : rprog)
| RBlankKey       (* redactTLSConfig(&x) *)
| RJsonKeys.      (* re-marshal the raw JSON with every "private_key" string blanked *)

Fixpoint assoc_prog (l : list (string * rprog)) (f : string) : rprog :=
  match l with
  | [] => RNone
  | (k, p) :: l' => if String.eqb k f then p else assoc_prog l' f
  end.
Definition sub_prog (p : rprog) (f : string) : rprog := match p with RFields l => assoc_prog l f | _ => RNone end.
Definition elem_prog (p : rprog) : rprog := match p with REach _ p' => p' | _ => RNone end.
Definition mode_of (p : rprog) : cmode := match p with REach m _ => m | _ => InPlace end.
Definition elem_ty (t : ty) : option ty := match t with TPtr t' | TSlice t' | TMap t' => Some t' | _ => None end.

Definition blank_val (x : val) : val * bool :=
  match x with
  | VStr s => if String.eqb s "" then (x, false) else (VStr placeholder, true)
  | VSecret s => if String.eqb s "" then (x, false) else (VSecret placeholder, true)
  | _ => (x, false)
  end.

(* result: redacted value, next unused region id, regions written (in order) *)
Definition rres := (val * N * list N)%type.

Definition zipf_st (f : field -> val -> N -> rres) : list field -> list val -> N -> list val * N * list N :=
  fix go (fds : list field) (vs : list val) (next : N) {struct vs} : list val * N * list N :=
    match vs, fds with
    | x :: vs', fd :: fds' =>
      let '(x', n1, w1) := f fd x next in
      let '(r, n2, w2) := go fds' vs' n1 in
      (x' :: r, n2, (w1 ++ w2)%list)
    | _, _ => (vs, next, [])
    end.
Definition map_es_st (f : val -> N -> rres) : list (string * val) -> N -> list (string * val) * N * list N :=
  fix go (es : list (string * val)) (next : N) {struct es} : list (string * val) * N * list N :=
    match es with
    | [] => ([], next, [])
    | (k, e) :: es' =>
      let '(e', n1, w1) := f e next in
      let '(rs, n2, w2) := go es' n1 in
      ((k, e') :: rs, n2, (w1 ++ w2)%list)
    end.

Definition copies (m : cmode) (es : list (string * val)) : bool :=
  match m with
  | InPlace => false
  | CopyLenPos => match es with [] => false | _ => true end
  | _ => true
  end.

Fixpoint redact (T : table) (t : ty) (p : rprog) (cur next : N) (v : val) {struct v} : rres :=
  match v with
  | VStruct vs =>
    match t with
    | TNamed n =>
      match find_struct T n with
      | None => (v, next, [])
      | Some sd =>
        let '(vs', next', w) :=
          zipf_st (fun fd x next =>
                     match p with
                     | RBlankKey =>
                       if String.eqb (f_go fd) tls_key_go
                       then let '(y, ch) := blank_val x in (y, next, if ch then [cur] else [])
                       else redact T (f_ty fd) RNone cur next x
                     | _ => redact T (f_ty fd) (sub_prog p (f_go fd)) cur next x
                     end) (s_fields sd) vs next in
        (VStruct vs', next', w)
      end
    | _ => (v, next, [])
    end
  | VRef r es =>
    match elem_ty t with
    | Some t' =>
      let copy := copies (mode_of p) es in
      let r' := if copy then next else r in
      let next1 := if copy then N.succ next else next in
      let '(es', n2, w) := map_es_st (fun e next => redact T t' (elem_prog p) r' next e) es next1 in
      (VRef r' es', n2, ((if copy then [cur] else []) ++ w)%list)
    | None => (v, next, [])
    end
  | VNil =>
    match mode_of p, elem_ty t with
    | CopyMake, Some _ => (VRef next [], N.succ next, [cur])
    | _, _ => (v, next, [])
    end
  | VJson j =>
    match p with
    | RJsonKeys => (VJson (blank_json_keys j), N.succ next, [cur])
    | _ => (v, next, [])
    end
  | _ => (v, next, [])
  end.

Definition rval (r : rres) : val := fst (fst r).
Definition rlog (r : rres) : list N := snd r.

(* copy-before-write discipline, syntactically *)
Fixpoint can_write (p : rprog) : bool :=
  match p with
  | RNone => false
  | RFields l => (fix go (l : list (string * rprog)) : bool :=
                    match l with [] => false | (_, q) :: l' => (can_write q || go l')%bool end) l
  | REach InPlace q => can_write q
  | REach _ _ => true
  | RBlankKey => true
  | RJsonKeys => true
  end.
Fixpoint safe (p : rprog) : bool :=
  match p with
  | RFields l => (fix go (l : list (string * rprog)) : bool :=
                    match l with [] => true | (_, q) :: l' => (safe q && go l')%bool end) l
  | REach InPlace q => negb (can_write q)
  | REach _ q => safe q
  | _ => true
  end.

(* ------------------------------------------------------------------------- the programs of redact.go *)
Definition p_tls := RBlankKey.

(* redactListener *)
Definition p_listener :=
  RFields [("ListenerConfig",
            RFields [("FilterChains",
                      REach CopyMake
                        (RFields [("TLSContexts", REach CopyLenPos p_tls);
                                  ("FilterChainConfig",
                                   RFields [("TLSConfig", REach CopyNonNil p_tls);
                                            ("TLSConfigs", REach CopyLenPos p_tls)])]))])].

(* redactedMosnConfig; the copy of dst.Servers / dst.Servers[i].Listeners is the defect site read from the source *)
Definition servers_mode := if src_redact_copies_servers then CopyMake else InPlace.
Definition p_mosn_with (m : cmode) :=
  RFields [("ClusterManager", RFields [("ClusterManagerConfigJson", RFields [("TLSContext", p_tls)])]);
           ("Servers", REach m (RFields [("Listeners", REach m p_listener)]))].
Definition p_mosn := p_mosn_with servers_mode.

Definition p_listeners := REach CopyNonNil p_listener.                       (* redactedListeners *)
Definition p_clusters := REach CopyNonNil (RFields [("TLS", p_tls)]).         (* redactedClusters *)
Definition p_extends := REach CopyNonNil (RFields [("Config", RJsonKeys)]).   (* redactedExtends (the repair) *)

Definition p_root_with (m : cmode) (ext : bool) :=
  RFields ([("MosnConfig", p_mosn_with m); ("Listener", p_listeners); ("Cluster", p_clusters)]
           ++ (if ext then [("ExtendConfigs", p_extends)] else []))%list.
Definition p_root := p_root_with servers_mode src_redact_handles_extends.

(* ------------------------------------------------------------------------------------------ endpoints *)
Inductive endpoint :=
| EFull                                   (* /api/v1/config_dump                  DumpJSON        *)
| EMosn                                   (* ?mosnconfig                          CfgTypeMOSN     *)
| EAllRouters | EAllClusters | EAllListeners
| ERouter (n : string) | ECluster (n : string) | EListener (n : string)
| EBad.                                   (* any other key: 500 "internal error"; more than one key: 400 *)

Definition root_ty := TNamed cfg_root.
Definition root_field (c : val) (f : string) : ty * val :=
  match vget cfg_structs root_ty c [f] with Some tv => tv | None => (TOpaque "missing", VNil) end.

(* fields the setters of effectiveconfig.go keep nil (SetMosnConfig rebuilds ClusterManager from the TLS context only
   and clears Extends) - relative to the root *)
Definition pruned_root : list (list string) :=
  [["MosnConfig"; "ClusterManager"; "Clusters"];
   ["MosnConfig"; "ClusterManager"; "ClusterManagerConfigJson"; "ClustersJson"];
   ["MosnConfig"; "Extends"]].
Definition live (c : val) : val := prune cfg_structs pruned_root [] root_ty c.

(* (type, program, value selected from the live config) *)
Definition endpoint_part (e : endpoint) (c : val) : ty * rprog * val :=
  match e with
  | EFull => (root_ty, p_root, c)
  | EMosn => let '(t, v) := root_field c "MosnConfig" in (t, p_mosn, v)
  | EAllRouters | ERouter _ => let '(t, v) := root_field c "Routers" in (t, RNone, v)
  | EAllClusters | ECluster _ => let '(t, v) := root_field c "Cluster" in (t, p_clusters, v)
  | EAllListeners | EListener _ => let '(t, v) := root_field c "Listener" in (t, p_listeners, v)
  | EBad => (TOpaque "none", RNone, VNil)
  end.

Fixpoint assoc_val (es : list (string * val)) (k : string) : option val :=
  match es with [] => None | (k', x) :: es' => if String.eqb k' k then Some x else assoc_val es' k end.

(* single-object queries index the redacted map; a missing name yields the zero value (no secrets) *)
Definition select (e : endpoint) (t : ty) (v : val) : ty * val :=
  match e with
  | ERouter n | ECluster n | EListener n =>
    match elem_ty t, v with
    | Some t', VRef _ es => match assoc_val es n with Some x => (t', x) | None => (TOpaque "zero", VNil) end
    | Some t', _ => (TOpaque "zero", VNil)
    | None, _ => (TOpaque "zero", VNil)
    end
  | _ => (t, v)
  end.

(* the redacted Go value an endpoint hands to json.Marshal, and the write log of producing it.
   next0: first region id not used by the live configuration; the local copy `dst` lives in region next0. *)
Definition dump_value (e : endpoint) (next0 : N) (c : val) : ty * val * list N :=
  let '(t, p, v) := endpoint_part e c in
  let r := redact cfg_structs t p next0 (N.succ next0) v in
  let '(t2, v2) := select e t (rval r) in
  (t2, v2, rlog r).

(* the serialized dump is passed through the JSON-level redaction once more (RedactDumpJSON in DumpJSON and in the
   admin handler): it reaches what the typed copy cannot see - filter configs and every other opaque blob *)
Definition dump_endpoint_with (scrub : bool) (fuel : nat) (e : endpoint) (next0 : N) (c : val) : json :=
  match e with
  | EBad => JObj [("error", JStr "internal error")]
  | _ => let '(t, v, _) := dump_value e next0 c in
         let j := encode cfg_structs fuel t v in
         if scrub then blank_json_keys j else j
  end.
Definition dump_endpoint := dump_endpoint_with src_dump_scrubs_output.
Definition dump_log (e : endpoint) (next0 : N) (c : val) : list N :=
  let '(_, _, w) := dump_value e next0 c in w.

(* the same serialisation WITHOUT redaction (what json.Marshal(conf) would print): used by the correspondence
   to validate taint / encode against the real types *)
Definition raw_endpoint (fuel : nat) (c : val) : json := encode cfg_structs fuel root_ty c.

(* ------------------------------------------------------------------------------- coverage of the graph *)
Definition filter_positions_ok : bool := match cfg_filter_tls with [] => true | _ => false end.
Definition ext_has_tls : bool := match cfg_ext_tls with [] => false | _ => true end.

Definition prog_eq_blank (p : rprog) : bool := match p with RBlankKey => true | _ => false end.
Definition prog_eq_json (p : rprog) : bool := match p with RJsonKeys => true | _ => false end.

(* covers fuel pruned path t p: every position below a value of type t at which a TLSConfig (or raw JSON with a
   TLS-bearing registered interpretation) can occur is blanked by p.  fuel bounds the depth of the type graph;
   running out answers false. *)
Fixpoint covers (T : table) (fuel : nat) (pruned : list (list string)) (path : list string) (t : ty) (p : rprog) : bool :=
  match fuel with
  | O => false
  | S f =>
    match t with
    | TNamed n =>
      match find_struct T n with
      | None => false
      | Some sd =>
        if String.eqb n tls_struct then
          (prog_eq_blank p
           && existsb (fun fd => (String.eqb (f_go fd) tls_key_go && key_eq (f_json fd) tls_key_json)%bool) (s_fields sd)
           && forallb (fun fd => (String.eqb (f_go fd) tls_key_go || covers T f pruned (path ++ [f_go fd]) (f_ty fd) RNone)%bool)
                      (s_fields sd))%bool
        else
          (negb (prog_eq_blank p) &&
          forallb (fun fd =>
                     (path_mem (path ++ [f_go fd]) pruned
                      || match f_ty fd with
                         | TRaw => if String.eqb n ext_struct then prog_eq_json (sub_prog p (f_go fd)) else true
                         | _ => covers T f pruned (path ++ [f_go fd]) (f_ty fd) (sub_prog p (f_go fd))
                         end)%bool) (s_fields sd))%bool
      end
    | TPtr t' | TSlice t' | TMap t' => covers T f pruned path t' (elem_prog p)
    | TAny => filter_positions_ok
    | _ => true
    end
  end.

Definition graph_fuel : nat := 64.

(* where an endpoint's value sits in the live configuration *)
Definition endpoint_path (e : endpoint) : list string :=
  match e with
  | EFull | EBad => []
  | EMosn => ["MosnConfig"]
  | EAllRouters | ERouter _ => ["Routers"]
  | EAllClusters | ECluster _ => ["Cluster"]
  | EAllListeners | EListener _ => ["Listener"]
  end.
Definition endpoint_ty (e : endpoint) : ty :=
  match e with
  | EFull => root_ty
  | EMosn => TNamed "v2.MOSNConfig"
  | EAllRouters | ERouter _ => TMap (TNamed "v2.RouterConfiguration")
  | EAllClusters | ECluster _ => TMap (TNamed "v2.Cluster")
  | EAllListeners | EListener _ => TMap (TNamed "v2.Listener")
  | EBad => TOpaque "none"
  end.
Definition endpoint_prog (e : endpoint) : rprog := let '(_, p, _) := endpoint_part e VNil in p.

Definition covers_endpoint (e : endpoint) : bool :=
  covers cfg_structs graph_fuel pruned_root (endpoint_path e) (endpoint_ty e) (endpoint_prog e).

Definition all_endpoint_kinds : list endpoint :=
  [EFull; EMosn; EAllRouters; EAllClusters; EAllListeners; ERouter ""; ECluster ""; EListener ""; EBad].

(* the types of the graph agree with what endpoint_part finds by field name *)
Definition endpoint_types_ok : bool :=
  forallb (fun e => match endpoint_path e with
                    | [f] => match find_struct cfg_structs cfg_root with
                             | Some sd => match field_index (s_fields sd) f 0 with
                                          | Some (_, fd) => (negb (f_skip fd) && match f_ty fd, endpoint_ty e with
                                                             | TNamed a, TNamed b => String.eqb a b
                                                             | TMap (TNamed a), TMap (TNamed b) => String.eqb a b
                                                             | _, _ => false
                                                             end)%bool
                                          | None => false
                                          end
                             | None => false
                             end
                    | _ => true
                    end) all_endpoint_kinds.

(* the PrivateKey field of v2.TLSConfig is the JSON member "private_key" (what the raw-JSON redaction looks for) *)
Definition tls_key_named_b (T : table) : bool :=
  match find_struct T tls_struct with
  | Some sd => forallb (fun fd => (negb (String.eqb (f_go fd) tls_key_go) || key_eq (f_json fd) tls_key_json)%bool) (s_fields sd)
  | None => false
  end.

(* no unknown / unattributed TLS-bearing configuration type anywhere in the tree *)
Definition no_unknown_tls_types : bool :=
  match cfg_unknown_tls, cfg_unattributed_tls with [], [] => true | _, _ => false end.

(* the opaque positions of the graph (cfg_blob_positions: filter configs, per-filter configs, health-check session
   configs, extend-verify maps, sds configs, raw xDS resources, ...): the typed program has no rule for any of them.
   They are accounted for by the output scrub, whatever their number; without it, only an empty list would do. *)
Definition blob_positions_ok : bool :=
  (src_dump_scrubs_output || match cfg_blob_positions with [] => true | _ => false end)%bool.

(* json-tagged string fields anywhere in the repository whose name suggests a secret, as looked at one by one.
   Only v2.TLSConfig.private_key is configuration that holds key material: the scrub (and the typed program) look for that
   member name.  A field that is not in this list makes c20_covers false until it has been looked at. *)
Definition reviewed_keylike : list (string * string * string) :=
  [("pkg/config/v2#TLSConfig", "private_key", "key material: blanked by the typed program and by the scrub");
   ("pkg/config/v2#HeaderHashPolicy", "key", "header name");
   ("pkg/config/v2#HeaderValue", "key", "header name");
   ("pkg/filter/stream/headertometadata#KVPair", "key", "metadata key name");
   ("pkg/filter/network/tunnel#AgentBootstrapConfig", "credential_policy", "name of a registered credential getter");
   ("pkg/filter/network/tunnel#ConnectionConfig", "credential_policy", "name of a registered credential getter");
   ("pkg/filter/network/tunnel#ConnectionInitInfo", "credential_policy", "wire message, not configuration");
   ("pkg/filter/network/tunnel#ConnectionInitInfo", "credential", "wire message filled at run time from the getter, not configuration");
   ("pkg/networkextention/l7/stream/filter/metadata#MetaDataer", "meta_data_key", "metadata key name");
   ("pkg/networkextention/l7/stream/filter/metadata/unit#UnitConfig", "unit_key", "metadata key name");
   ("pkg/upstream/servicediscovery/dubbod#pubReq.Registry", "password", "body of a request to the dubbod HTTP API, not in the effective config");
   ("pkg/upstream/servicediscovery/dubbod#subReq.Registry", "password", "body of a request to the dubbod HTTP API, not in the effective config")].
Definition keylike_ok : bool :=
  forallb (fun p => existsb (fun q => String.eqb (fst p) (fst (fst q)) && String.eqb (snd p) (snd (fst q)))%bool reviewed_keylike)
          cfg_keylike_fields.

Definition covers_all : bool :=
  (forallb covers_endpoint all_endpoint_kinds && endpoint_types_ok && tls_key_named_b cfg_structs
   && no_unknown_tls_types && blob_positions_ok && keylike_ok && CfgTypes_translator_ok)%bool.

(* ------------------------------------------------------------------------------------ witness values *)
Definition zero_of (n : string) : val := zero_val cfg_structs 16 (TNamed n).
Definition set_in (n : string) (v : val) (p : list string) (x : val) : val := vset cfg_structs (TNamed n) v p x.

(* a configuration with one key at every kind of position; regions 1..9 are its storage *)
Definition w_tls (k : string) : val := set_in tls_struct (zero_of tls_struct) [tls_key_go] (VStr k).
Definition w_chain : val :=
  set_in "v2.FilterChain"
    (set_in "v2.FilterChain" (zero_of "v2.FilterChain") ["TLSContexts"] (VRef 1 [("", w_tls "KEY-CONTEXTS")]))
    ["FilterChainConfig"; "TLSConfig"] (VRef 2 [("", w_tls "KEY-SINGLE")]).
Definition w_listener : val :=
  set_in "v2.Listener" (zero_of "v2.Listener") ["ListenerConfig"; "FilterChains"] (VRef 3 [("", w_chain)]).
Definition w_cluster : val := set_in "v2.Cluster" (zero_of "v2.Cluster") ["TLS"] (w_tls "KEY-CLUSTER").
Definition w_server : val := set_in "v2.ServerConfig" (zero_of "v2.ServerConfig") ["Listeners"] (VRef 4 [("", w_listener)]).
Definition w_ext : val :=
  VStruct [VStr "tunnel_agent";
           VJson (JObj [("enable", JBool false); ("tls_context", JObj [("status", JBool true); ("Private_Key", JStr "KEY-EXT")])])].
Definition w_mosn : val :=
  set_in "v2.MOSNConfig"
    (set_in "v2.MOSNConfig" (zero_of "v2.MOSNConfig") ["Servers"] (VRef 5 [("", w_server)]))
    ["ClusterManager"; "ClusterManagerConfigJson"; "TLSContext"] (w_tls "KEY-CM").
Definition w_conf : val :=
  set_in cfg_root (set_in cfg_root (set_in cfg_root (set_in cfg_root (zero_of cfg_root)
    ["MosnConfig"] w_mosn)
    ["Listener"] (VRef 6 [("l1", w_listener)]))
    ["Cluster"] (VRef 7 [("c1", w_cluster)]))
    ["ExtendConfigs"] (VRef 8 [("", w_ext)]).
Definition w_next0 : N := 10%N.

(* a listener whose stream filter configuration (map[string]interface{}) carries TLS material: directly as a member of
   the map and nested in a blob *)
Definition w_filter : val :=
  VStruct [VStr "some_filter"; VNil;
           VRef 11 [("private_key", VJson (JStr "KEY-FILTER-TOP"));
                    ("upstream", VJson (JObj [("tls_context", JObj [("status", JBool true); ("private_key", JStr "KEY-FILTER-NESTED")])]))]].
Definition w_listener_blob : val :=
  set_in "v2.Listener" w_listener ["ListenerConfig"; "StreamFilters"] (VRef 12 [("", w_filter)]).
Definition w_conf_blob : val := set_in cfg_root w_conf ["Listener"] (VRef 6 [("l1", w_listener_blob)]).
Definition w_next0_blob : N := 20%N.

(* the dump with an explicitly chosen redactor shape (m: how Servers/Listeners are treated; ext: extension configs handled) *)
Definition dump_full_with (m : cmode) (ext : bool) (fuel : nat) (next0 : N) (c : val) : json * list N :=
  let r := redact cfg_structs root_ty (p_root_with m ext) next0 (N.succ next0) c in
  (encode cfg_structs fuel root_ty (rval r), rlog r).

(* ------------------------------------------------------------------- correspondence (evaluated on shards) *)
(* one case: live config value (as printed by the harness from the real conf), endpoint, first free region,
   markers found in the UNREDACTED marshal of the real conf, and per endpoint: markers found in the real response
   body, whether the deep print (with storage addresses) of the live config changed across the call. *)
Record c20_case := mkCase {
  k_conf : val; k_next0 : N; k_raw_markers : list string;
  k_eps : list (endpoint * list string * bool) }.

Fixpoint sort_insert (s : string) (l : list string) : list string :=
  match l with
  | [] => [s]
  | x :: l' => match String.compare s x with
               | Lt => s :: l
               | Eq => l
               | Gt => x :: sort_insert s l'
               end
  end.
Definition sort_set (l : list string) : list string := fold_right sort_insert [] l.
Fixpoint list_eqb (a b : list string) : bool :=
  match a, b with
  | [], [] => true
  | x :: a', y :: b' => (String.eqb x y && list_eqb a' b')%bool
  | _, _ => false
  end.

Definition leaked (l : list string) : list string := filter (fun s => negb (ok_secretb s)) l.

(* every string found directly under a member named "private_key" (any case), at any depth *)
Fixpoint key_strings (j : json) : list string :=
  match j with
  | JArr l => (fix go (l : list json) : list string := match l with [] => [] | x :: l' => (key_strings x ++ go l')%list end) l
  | JObj kvs =>
    (fix go (kvs : list (string * json)) : list string :=
       match kvs with
       | [] => []
       | (k, x) :: kvs' =>
         ((if key_eq k tls_key_json then match x with JStr s | JSecret s => [s] | _ => [] end else [])
            ++ key_strings x ++ go kvs')%list
       end) kvs
  | _ => []
  end.

(* the positions the model prunes are nil in the real state *)
Definition pruned_are_nil (c : val) : bool :=
  forallb (fun p => match vget cfg_structs root_ty c p with Some (_, VNil) => true | None => true | _ => false end) pruned_root.

Definition c20_case_ok (k : c20_case) : bool :=
  let c := taint cfg_structs root_ty (k_conf k) in
  let marks := fun j => leaked (jsecrets j ++ key_strings j)%list in
  let raw := marks (raw_endpoint 64 c) in
  (pruned_are_nil (k_conf k) && list_eqb (sort_set raw) (sort_set (k_raw_markers k))
   && forallb (fun x =>
                 match x with
                 | (e, body_markers, live_written) =>
                   let body := marks (dump_endpoint 64 e (k_next0 k) c) in
                   let live_w := existsb (fun r => N.ltb r (k_next0 k)) (dump_log e (k_next0 k) c) in
                   (list_eqb (sort_set body) (sort_set body_markers) && Bool.eqb live_w live_written)%bool
                 end) (k_eps k))%bool.

Fixpoint mismatches_from {A} (ok : A -> bool) (i : nat) (l : list A) : list nat :=
  match l with
  | [] => []
  | x :: l' => if ok x then mismatches_from ok (S i) l' else i :: mismatches_from ok (S i) l'
  end.
Definition c20_mismatches (l : list c20_case) : list nat := mismatches_from c20_case_ok 0 l.

(* ------------------------------------------------------------------ the JSON-level redactor, on its own *)
(* b is a, except possibly for the strings directly under a "private_key" member *)
Fixpoint same_but_keys (a b : json) {struct a} : Prop :=
  match a, b with
  | JArr l, JArr m =>
    (fix go (l m : list json) {struct l} : Prop :=
       match l, m with
       | [], [] => True
       | x :: l', y :: m' => same_but_keys x y /\ go l' m'
       | _, _ => False
       end) l m
  | JObj l, JObj m =>
    (fix go (l : list (string * json)) (m : list (string * json)) {struct l} : Prop :=
       match l, m with
       | [], [] => True
       | (k, x) :: l', (k', y) :: m' =>
         k = k' /\
         (if key_eq k tls_key_json
          then match x, y with
               | JStr _, JStr _ => True
               | JSecret _, JSecret _ => True
               | JStr _, _ | JSecret _, _ => False
               | _, _ => same_but_keys x y
               end
          else same_but_keys x y) /\ go l' m'
       | _, _ => False
       end) l m
  | _, _ => a = b
  end.

(* correspondence: (extension JSON as stored, the JSON the real redactedCopy holds for it) *)
Definition ext_json_case := (json * json)%type.
Definition ext_json_case_ok (k : ext_json_case) : bool := json_eqb (blank_json_keys (fst k)) (snd k).
Definition ext_json_mismatches (l : list ext_json_case) : list nat := mismatches_from ext_json_case_ok 0 l.

(* ---------------------------------------------------------------- the redaction of a TEXT, whatever its spelling *)
(* RedactDumpJSON works on the value the text DECODES to: member names are compared after unescaping (private\u005fkey,
   \u0050rivate_key ... are private_key to every JSON decoder), ignoring case as encoding/json matches field names.
   sjson: a JSON document with member names and strings as SPELLED in the text (the literal bodies between the quotes). *)
Local Open Scope N_scope.
(* hex_val, utf8, unescape (the meaning of a JSON string literal body): Lib/GoJson.v *)

Inductive sjson :=
| SNull | SBool (b : bool) | SNum (lit : string) | SStr (lit : string)
| SArr (l : list sjson) | SObj (kvs : list (string * sjson)).

Fixpoint sdecode (s : sjson) : option json :=
  match s with
  | SNull => Some JNull
  | SBool b => Some (JBool b)
  | SNum l => Some (JNum l)
  | SStr lit => option_map JStr (unescape lit)
  | SArr l =>
    option_map JArr ((fix go (l : list sjson) : option (list json) :=
                        match l with
                        | [] => Some []
                        | x :: l' => match sdecode x, go l' with Some a, Some b => Some (a :: b) | _, _ => None end
                        end) l)
  | SObj kvs =>
    option_map JObj ((fix go (kvs : list (string * sjson)) : option (list (string * json)) :=
                        match kvs with
                        | [] => Some []
                        | (k, x) :: r => match unescape k, sdecode x, go r with
                                         | Some k', Some a, Some b => Some ((k', a) :: b)
                                         | _, _, _ => None
                                         end
                        end) kvs)
  end.

(* the redaction of a text: of the value it decodes to *)
Definition redact_text (s : sjson) : option json := option_map blank_json_keys (sdecode s).

(* the text itself (compact), for the variant below *)
Fixpoint sprint (s : sjson) : string :=
  match s with
  | SNull => "null" | SBool true => "true" | SBool false => "false" | SNum l => l
  | SStr lit => String """" (lit ++ String """" "")
  | SArr l => String "[" ((fix go (l : list sjson) : string :=
                             match l with [] => "" | [x] => sprint x | x :: l' => sprint x ++ String "," (go l') end) l ++ "]")
  | SObj kvs => String "{" ((fix go (kvs : list (string * sjson)) : string :=
                               match kvs with
                               | [] => ""
                               | [(k, x)] => String """" (k ++ String """" (String ":" (sprint x)))
                               | (k, x) :: r => String """" (k ++ String """" (String ":" (sprint x))) ++ String "," (go r)
                               end) kvs ++ "}")
  end.
Definition lower_ascii (c : ascii) : ascii :=
  let n := N_of_ascii c in if (N.leb 65 n && N.leb n 90)%bool then ascii_of_N (n + 32) else c.
Fixpoint lower (s : string) : string := match s with String c r => String (lower_ascii c) (lower r) | EmptyString => EmptyString end.
Fixpoint contains (needle hay : string) : bool :=
  match hay with
  | EmptyString => match needle with EmptyString => true | _ => false end
  | String _ r => (String.prefix needle hay || contains needle r)%bool
  end.
(* a defective variant: decode and redact only when the lower-cased TEXT contains the name *)
Definition redact_text_prefiltered (s : sjson) : option json :=
  if contains tls_key_json (lower (sprint s)) then redact_text s else sdecode s.

(* correspondence: (stored text as spelled, members sorted by decoded name; the value the real RedactDumpJSON's output decodes to) *)
Definition spelled_case := (sjson * json)%type.
Definition spelled_case_ok (k : spelled_case) : bool :=
  match redact_text (fst k) with Some j => json_eqb j (snd k) | None => false end.
Definition spelled_mismatches (l : list spelled_case) : list nat := mismatches_from spelled_case_ok 0 l.

(* ------------------------------------------------------- opaque values held BY REFERENCE (any depth) *)
(* A decoded JSON value in a Go interface{}: objects are maps and arrays are slices - storage regions that a copy of the
   enclosing struct (or a one-level copy of the top map) still shares.  RedactDumpJSON / redactRawJSON redact what they
   DECODED themselves (all regions fresh); the typed redactor never writes below an opaque position. *)
Inductive rjson :=
| RScalar (j : json)                       (* null, booleans, numbers *)
| RStr (s : string)
| RArr (r : N) (l : list rjson)
| RObj (r : N) (kvs : list (string * rjson)).

(* the in-place JSON redactor (redactJSONValue): the regions it writes, in order *)
Fixpoint blank_inplace (j : rjson) : list N :=
  match j with
  | RArr _ l => (fix go (l : list rjson) : list N := match l with [] => [] | x :: l' => (blank_inplace x ++ go l')%list end) l
  | RObj r kvs =>
    (fix go (kvs : list (string * rjson)) : list N :=
       match kvs with
       | [] => []
       | (k, x) :: kvs' =>
         ((if key_eq k tls_key_json
           then match x with
                | RStr s => if (String.eqb s "" || String.eqb s placeholder)%bool then [] else [r]
                | _ => blank_inplace x
                end
           else blank_inplace x) ++ go kvs')%list
       end) kvs
  | _ => []
  end.

(* a copy whose every region is new: what decoding a serialisation gives (region r of the original becomes f r) *)
Fixpoint relabel (f : N -> N) (j : rjson) : rjson :=
  match j with
  | RArr r l => RArr (f r) ((fix go (l : list rjson) : list rjson := match l with [] => [] | x :: l' => relabel f x :: go l' end) l)
  | RObj r kvs => RObj (f r) ((fix go (kvs : list (string * rjson)) : list (string * rjson) :=
                                 match kvs with [] => [] | (k, x) :: kvs' => (k, relabel f x) :: go kvs' end) kvs)
  | _ => j
  end.
Definition copy_deep (next : N) (j : rjson) : rjson := relabel (fun r => next + r) j.
(* a copy of the top map only: a new map holding the SAME element values *)
Definition copy_top (next : N) (j : rjson) : rjson :=
  match j with RObj _ kvs => RObj next kvs | RArr _ l => RArr next l | _ => j end.

(* a live extend_verify map (regions 1..3 < 10) with a key two levels down, and one with the key at the top *)
Definition w_ev_nested : rjson :=
  RObj 1 [("verify", RObj 2 [("tls_context", RObj 3 [("status", RScalar (JBool true)); ("private_key", RStr "KEY-EV")])])].
Definition w_ev_top : rjson := RObj 1 [("private_key", RStr "KEY-EV"); ("mode", RStr "x")].
