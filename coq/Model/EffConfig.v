(* Model/EffConfig.v (cfg, C19 / dump side of C12) - the effective configuration as a small state machine:
   the setters of pkg/configmanager/effectiveconfig.go as functions on configuration values, and transferConfig
   (dump_action.go) which reassembles the v2.MOSNConfig that is persisted.  ONLY executable definitions.
   Maps are association lists kept sorted by key (the harness prints Go maps with sorted keys; transferConfig ranges
   over Go maps in arbitrary order - the model emits the name-keyed lists sorted by name and the comparison sorts the
   real ones the same way). *)
From Coq Require Import List String Bool ZArith NArith Ascii.
From MV Require Import Lib.GoJson Gen.CfgTypes Model.ConfigRT.
Import ListNotations.
Open Scope string_scope.

(* field indices of the generated graph, by name *)
Definition ix (sname fname : string) : nat :=
  match find_struct cfg_structs sname with
  | Some sd => match fidx (s_fields sd) fname with Some i => i | None => 999 end
  | None => 999
  end.
Definition i_servers := Eval vm_compute in ix "v2.MOSNConfig" "Servers".
Definition i_cm := Eval vm_compute in ix "v2.MOSNConfig" "ClusterManager".
Definition i_extends := Eval vm_compute in ix "v2.MOSNConfig" "Extends".
Definition i_listeners := Eval vm_compute in ix "v2.ServerConfig" "Listeners".
Definition i_routers := Eval vm_compute in ix "v2.ServerConfig" "Routers".
Definition i_cmjson := Eval vm_compute in ix "v2.ClusterManagerConfig" "ClusterManagerConfigJson".
Definition i_clusters := Eval vm_compute in ix "v2.ClusterManagerConfig" "Clusters".
Definition i_cm_tls := Eval vm_compute in ix "v2.ClusterManagerConfigJson" "TLSContext".
Definition i_cm_pool := Eval vm_compute in ix "v2.ClusterManagerConfigJson" "ClusterPoolEnable".
Definition i_cm_path := Eval vm_compute in ix "v2.ClusterManagerConfigJson" "ClusterConfigPath".
Definition i_l_cfg := Eval vm_compute in ix "v2.Listener" "ListenerConfig".
Definition i_l_name := Eval vm_compute in ix "v2.ListenerConfig" "Name".
Definition i_c_name := Eval vm_compute in ix "v2.Cluster" "Name".
Definition i_c_hosts := Eval vm_compute in ix "v2.Cluster" "Hosts".
Definition i_r_cfg := Eval vm_compute in ix "v2.RouterConfiguration" "RouterConfigurationConfig".
Definition i_r_name := Eval vm_compute in ix "v2.RouterConfigurationConfig" "RouterConfigName".
Definition i_r_path := Eval vm_compute in ix "v2.RouterConfigurationConfig" "RouterConfigPath".
Definition indices_ok : bool :=
  forallb (fun i => Nat.ltb i 999)
          [i_servers; i_cm; i_extends; i_listeners; i_routers; i_cmjson; i_clusters; i_cm_tls; i_cm_pool; i_cm_path;
           i_l_cfg; i_l_name; i_c_name; i_c_hosts; i_r_cfg; i_r_name; i_r_path].

Definition t_mosn := TNamed "v2.MOSNConfig".
Definition zero_of_ty (n : string) : val := zero_val cfg_structs 16 (TNamed n).

(* sorted association lists *)
Fixpoint aset {A} (k : string) (x : A) (l : list (string * A)) : list (string * A) :=
  match l with
  | [] => [(k, x)]
  | (k', y) :: l' =>
    match String.compare k k' with
    | Lt => (k, x) :: l
    | Eq => (k, x) :: l'
    | Gt => (k', y) :: aset k x l'
    end
  end.
Fixpoint adel {A} (k : string) (l : list (string * A)) : list (string * A) :=
  match l with
  | [] => []
  | (k', y) :: l' => if String.eqb k k' then l' else (k', y) :: adel k l'
  end.
Fixpoint aget {A} (k : string) (l : list (string * A)) : option A :=
  match l with
  | [] => None
  | (k', y) :: l' => if String.eqb k k' then Some y else aget k l'
  end.

Record eff := mkEff {
  e_mosn : val;                              (* conf.MosnConfig *)
  e_listeners : list (string * val);         (* conf.Listener *)
  e_clusters : list (string * val);          (* conf.Cluster *)
  e_routers : list (string * val);           (* conf.Routers *)
  e_extends : list (string * val);           (* conf.ExtendConfigs, in order: (type, raw config) *)
  e_cpath : val;                             (* conf.clusterConfigPath *)
  e_rpaths : list (string * val) }.          (* conf.routerConfigPath *)

Definition eff_init : eff := mkEff (zero_of_ty "v2.MOSNConfig") [] [] [] [] (VStr "") [].

Inductive eff_op :=
| OSetMosn (cfg : val)
| OSetListener (l : val)
| OSetCluster (c : val)
| ORemoveCluster (n : string)
| OSetHosts (n : string) (hosts : val)
| OSetRouter (r : val)
| OSetExtend (typ : string) (cfg : val)
| OSetCMTLS (tls : val)
| OReset.

Definition str_of (v : val) : string := match v with VStr s => s | _ => "" end.

(* SetMosnConfig: only the cluster manager's TLS context and pool switch survive; listeners, routers, clusters and
   extensions are tracked by the other setters; only one server *)
Definition set_mosn (cfg : val) (st : eff) : eff :=
  let newcm := iset [i_cmjson; i_cm_tls] (iget_d [i_cm; i_cmjson; i_cm_tls] cfg)
                    (iset [i_cmjson; i_cm_pool] (iget_d [i_cm; i_cmjson; i_cm_pool] cfg) (zero_of_ty "v2.ClusterManagerConfig")) in
  let server0 := match iget [i_servers] cfg with
                 | Some (VRef _ ((_, s) :: _)) => s
                 | _ => zero_of_ty "v2.ServerConfig"
                 end in
  let server' := iset [i_listeners] VNil (iset [i_routers] VNil server0) in
  let mosn' := iset [i_servers] (VRef 0 [("", server')]) (iset [i_extends] VNil (iset [i_cm] newcm cfg)) in
  mkEff mosn' (e_listeners st) (e_clusters st) (e_routers st) (e_extends st)
        (iget_d [i_cm; i_cmjson; i_cm_path] cfg) (e_rpaths st).

Fixpoint set_extend (typ : string) (cfg : val) (l : list (string * val)) : list (string * val) :=
  match l with
  | [] => [(typ, cfg)]
  | (t, c) :: l' => if String.eqb t typ then (t, cfg) :: l' else (t, c) :: set_extend typ cfg l'
  end.

Definition eff_step (st : eff) (o : eff_op) : eff :=
  match o with
  | OSetMosn cfg => set_mosn cfg st
  | OSetListener l =>
    mkEff (e_mosn st) (aset (str_of (iget_d [i_l_cfg; i_l_name] l)) l (e_listeners st)) (e_clusters st) (e_routers st) (e_extends st) (e_cpath st) (e_rpaths st)
  | OSetCluster c =>
    mkEff (e_mosn st) (e_listeners st) (aset (str_of (iget_d [i_c_name] c)) c (e_clusters st)) (e_routers st) (e_extends st) (e_cpath st) (e_rpaths st)
  | ORemoveCluster n =>
    mkEff (e_mosn st) (e_listeners st) (adel n (e_clusters st)) (e_routers st) (e_extends st) (e_cpath st) (e_rpaths st)
  | OSetHosts n hosts =>
    match aget n (e_clusters st) with
    | Some c => mkEff (e_mosn st) (e_listeners st) (aset n (iset [i_c_hosts] hosts c) (e_clusters st)) (e_routers st) (e_extends st) (e_cpath st) (e_rpaths st)
    | None => st
    end
  | OSetRouter r =>
    let n := str_of (iget_d [i_r_cfg; i_r_name] r) in
    mkEff (e_mosn st) (e_listeners st) (e_clusters st)
          (aset n (iset [i_r_cfg; i_r_path] (VStr "") r) (e_routers st)) (e_extends st) (e_cpath st)
          (aset n (iget_d [i_r_cfg; i_r_path] r) (e_rpaths st))
  | OSetExtend typ cfg =>
    mkEff (e_mosn st) (e_listeners st) (e_clusters st) (e_routers st) (set_extend typ cfg (e_extends st)) (e_cpath st) (e_rpaths st)
  | OSetCMTLS tls =>
    mkEff (iset [i_cm; i_cmjson; i_cm_tls] tls (e_mosn st)) (e_listeners st) (e_clusters st) (e_routers st) (e_extends st) (e_cpath st) (e_rpaths st)
  | OReset => mkEff (e_mosn eff_init) [] [] [] [] (e_cpath st) []      (* Reset() does not clear clusterConfigPath *)
  end.
Definition eff_run (ops : list eff_op) (st : eff) : eff := fold_left eff_step ops st.

(* the state as the value the harness prints from the real `conf` *)
Definition ext_val (e : string * val) : val := VStruct [VStr (fst e); snd e].
Definition eff_to_val (st : eff) : val :=
  VStruct [e_mosn st; VRef 0 (e_listeners st); VRef 0 (e_clusters st); VRef 0 (e_routers st);
           VRef 0 (map (fun e => ("", ext_val e)) (e_extends st)); e_cpath st; VRef 0 (e_rpaths st)].

(* transferConfig *)
Definition transfer (st : eff) : val :=
  let w := e_mosn st in
  let servers := match iget [i_servers] w with
                 | Some (VRef _ (s :: rest)) => s :: rest
                 | _ => [("", zero_of_ty "v2.ServerConfig")]
                 end in
  let listeners := VRef 0 (map (fun kv => ("", snd kv)) (e_listeners st)) in
  let clusters := VRef 0 (map (fun kv => ("", snd kv)) (e_clusters st)) in
  let routers := VRef 0 (map (fun kv => ("", VRef 0 [("", iset [i_r_cfg; i_r_path]
                                                             (match aget (fst kv) (e_rpaths st) with Some p => p | None => VStr "" end)
                                                             (snd kv))]))
                             (e_routers st)) in
  let extends := VRef 0 (map (fun e => ("", ext_val e)) (e_extends st)) in
  let servers' := match servers with
                  | (k, s0) :: rest => (k, iset [i_routers] routers (iset [i_listeners] listeners s0)) :: rest
                  | [] => []
                  end in
  iset [i_extends] extends
       (iset [i_cm; i_cmjson; i_cm_path] (e_cpath st)
             (iset [i_cm; i_clusters] clusters
                   (iset [i_servers] (VRef 0 servers') w))).

Definition eff_dump (st : eff) : json := encode cfg_structs 64 t_mosn (transfer st).

(* correspondence: a history of real setter calls (arguments as printed), the real state and the real transferConfig
   output (name-keyed lists sorted by name by the harness) *)
(* ec_wf: the history is the initialisation of a loaded configuration (inline mode): the reassembled MOSNConfig must then
   satisfy the premise of c19_roundtrip_full, and the model's dump / load / dump must be stable on it *)
Record eff_case := mkEffCase { ec_ops : list eff_op; ec_state : val; ec_dump : json; ec_wf : bool }.
Definition eff_case_ok (k : eff_case) : bool :=
  let st := eff_run (ec_ops k) eff_init in
  (indices_ok && val_eqb (eff_to_val st) (ec_state k) && json_eqb (eff_dump st) (ec_dump k)
   && (negb (ec_wf k) || (wfb cfg_structs 64 t_mosn (transfer st) && stable_case_ok (t_mosn, transfer st))))%bool.
Definition eff_mismatches (l : list eff_case) : list nat := mismatches_from eff_case_ok 0 l.
