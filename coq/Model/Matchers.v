(* Model/Matchers.v (codec) - the protocol matchers consulted by automatic protocol detection
   (xprotocol/<proto>/matcher.go, stream/http/stream.go ProtocolMatch, stream/http2/stream.go ProtocolMatch) and
   protocol/api.go SelectStreamFactoryProtocol.  ONLY executable definitions. *)
From Coq Require Import List NArith Bool.
From MV Require Import Lib.Bytes Model.CodecParams.
Import ListNotations.
Open Scope N_scope.

Inductive mres := MAgain | MSuccess | MFailed.
Definition mres_eqb (a b : mres) : bool :=
  match a, b with MAgain, MAgain | MSuccess, MSuccess | MFailed, MFailed => true | _, _ => false end.

Definition byte_at (b : bytes) (i : N) : N := nth (N.to_nat i) b 0.

(* boltMatcher / boltv2Matcher: the first byte *)
Definition bolt_match (code : N) (b : bytes) : mres :=
  match b with [] => MAgain | x :: _ => if x =? code then MSuccess else MFailed end.

(* dubboMatcher: 16 bytes, magic 0xdabb *)
Definition dubbo_match (b : bytes) : mres :=
  if blen b <? dubbo_HeaderLen then MAgain
  else if (byte_at b 0 =? dubbo_Magic0) && (byte_at b 1 =? dubbo_Magic1) then MSuccess else MFailed.

(* thriftMatcher: 6 bytes; [first byte of the length prefix zero - the repaired matcher, switch from the source];
   magic 0xdabc behind the length prefix *)
Definition thrift_match_sw (first_zero : bool) (b : bytes) : mres :=
  if blen b <? thrift_MessageLenSize + thrift_MagicLen then MAgain
  else if first_zero && negb (byte_at b 0 =? 0) then MFailed
  else if (byte_at b 4 =? thrift_Magic0) && (byte_at b 5 =? thrift_Magic1) then MSuccess else MFailed.
Definition thrift_match : bytes -> mres := thrift_match_sw thrift_match_first_zero.

(* tarsMatcher: 6 bytes; data[4] == 16 && data[5] in {1,3}; then TarsRequest: LESS -> Again, ERROR -> Failed, FULL -> Success *)
Definition tars_match (b : bytes) : mres :=
  if blen b <? tars_MessageSizeLen + tars_IVersionLen then MAgain
  else if (byte_at b tars_IVersionHeaderIdx =? 16) && ((byte_at b 5 =? 1) || (byte_at b 5 =? 3)) then
    let n := be_decw (sub b 0 4) in
    if (n <? 4) || (tars_MaxPackageLength <? n) then MFailed
    else if blen b <? n then MAgain else MSuccess
  else MFailed.

(* HTTP/1: a method name is a prefix *)
Fixpoint is_prefix (p b : bytes) : bool :=
  match p, b with
  | [], _ => true
  | x :: p', y :: b' => (x =? y) && is_prefix p' b'
  | _ :: _, [] => false
  end.
Definition http1_match (b : bytes) : mres :=
  if blen b <? http_min_method then MAgain
  else if existsb (fun m => is_prefix m b) http_methods then MSuccess
  else if blen b <? http_max_method then MAgain else MFailed.

(* HTTP/2: the client preface *)
Definition http2_match (b : bytes) : mres :=
  if blen h2_preface <=? blen b then (if is_prefix h2_preface b then MSuccess else MFailed)
  else (if is_prefix b h2_preface then MAgain else MFailed).

Inductive proto := PBolt | PBoltV2 | PDubbo | PThrift | PTars | PHttp1 | PHttp2.
Definition proto_eqb (a b : proto) : bool :=
  match a, b with
  | PBolt, PBolt | PBoltV2, PBoltV2 | PDubbo, PDubbo | PThrift, PThrift | PTars, PTars | PHttp1, PHttp1 | PHttp2, PHttp2 => true
  | _, _ => false
  end.
Definition all_protos : list proto := [PBolt; PBoltV2; PDubbo; PThrift; PTars; PHttp1; PHttp2].
Definition matcher (p : proto) : bytes -> mres :=
  match p with
  | PBolt => bolt_match bolt_ProtocolCode | PBoltV2 => bolt_match boltv2_ProtocolCode | PDubbo => dubbo_match
  | PThrift => thrift_match | PTars => tars_match | PHttp1 => http1_match | PHttp2 => http2_match
  end.

(* SelectStreamFactoryProtocol over the factories in iteration order `order` (a Go map: any order):
   the first Success wins; otherwise EAGAIN if some matcher said Again; otherwise FAILED *)
Inductive sel := SelProto (p : proto) | SelAgain | SelFailed.
Fixpoint select_from (order : list proto) (b : bytes) (again : bool) : sel :=
  match order with
  | [] => if again then SelAgain else SelFailed
  | p :: r => match matcher p b with
              | MSuccess => SelProto p
              | MAgain => select_from r b true
              | MFailed => select_from r b again
              end
  end.
Definition select (order : list proto) (b : bytes) : sel := select_from order b false.

Definition successes (b : bytes) : list proto := filter (fun p => mres_eqb (matcher p b) MSuccess) all_protos.

(* correspondence: (prefix, results of the seven real matchers in the order of all_protos) *)
Definition mcode (r : mres) : N := match r with MAgain => 0 | MSuccess => 1 | MFailed => 2 end.
Definition match_case := (bytes * list N)%type.
Fixpoint nl_eqb (a b : list N) : bool :=
  match a, b with [], [] => true | x :: a', y :: b' => (x =? y) && nl_eqb a' b' | _, _ => false end.
Definition match_case_ok (k : match_case) : bool :=
  nl_eqb (map (fun p => mcode (matcher p (fst k))) all_protos) (snd k).
Fixpoint mmism (i : nat) (l : list match_case) : list nat :=
  match l with [] => [] | x :: r => if match_case_ok x then mmism (S i) r else i :: mmism (S i) r end.
Definition match_mismatches (l : list match_case) : list nat := mmism 0 l.

(* correspondence with the REAL SelectStreamFactoryProtocol over all registered factories (Go map order):
   verdict code 0 = EAGAIN, 1 = FAILED, 10+i = the i-th protocol of all_protos.  When exactly the matchers in
   `successes b` accept, the real verdict must be one of them; when none accepts, it is the model's Again/Failed. *)
Fixpoint proto_index (p : proto) (l : list proto) (i : N) : N :=
  match l with [] => 99 | q :: r => if proto_eqb p q then i else proto_index p r (i + 1) end.
Definition sel_case := (bytes * N)%type.
Definition sel_case_ok (k : sel_case) : bool :=
  let (b, code) := k in
  match successes b with
  | [] => code =? (match select all_protos b with SelAgain => 0 | SelFailed => 1 | SelProto _ => 99 end)
  | l => existsb (fun p => code =? 10 + proto_index p all_protos 0) l
  end.
Fixpoint smism (i : nat) (l : list sel_case) : list nat :=
  match l with [] => [] | x :: r => if sel_case_ok x then smism (S i) r else i :: smism (S i) r end.
Definition sel_mismatches (l : list sel_case) : list nat := smism 0 l.
