(* Model/PoolAdmit.v with the limit and the number of callers as parameters: the same micro-steps, `adstepN 1` IS `adstep`
   (Proofs/PoolAdmitN.v: adstepN_one).  ONLY executable definitions. *)
From Coq Require Import List ZArith Bool Arith.
From MV Require Import Lib.Interleave Model.Pool Model.PoolAdmit.
Import ListNotations.
Open Scope Z_scope.

Definition adstepN (mx : Z) (t : list ainstr) (s : ashared) : list ainstr * ashared :=
  match t with
  | [] => (t, s)
  | ALock :: r => if ad_mu s then (t, s) else (r, mkASh true (ad_cur s) (ad_entered s) (ad_total s) (ad_conns s))
  | AUnlock :: r => (r, mkASh false (ad_cur s) (ad_entered s) (ad_total s) (ad_conns s))
  | ACheckReq :: r => if ad_cur s <? mx then (r, s) else ([], s)
  | AIncReq :: r => (r, mkASh (ad_mu s) (ad_cur s + 1) (ad_entered s + 1) (ad_total s) (ad_conns s))
  | ATest :: r => if ad_total s <? mx then (r, s) else ([AUnlock], s)
  | ATestInc :: r => if ad_total s <? mx then (r, mkASh (ad_mu s) (ad_cur s) (ad_entered s) (ad_total s + 1) (ad_conns s))
                     else ([AUnlock], s)
  | ADial :: r => (r, mkASh (ad_mu s) (ad_cur s) (ad_entered s) (ad_total s) (ad_conns s + 1))
  | AIncConn :: r => (r, mkASh (ad_mu s) (ad_cur s) (ad_entered s) (ad_total s + 1) (ad_conns s))
  end.

Definition conn_cfgN (n : nat) : adcfg := (repeat (conn_prog true) n, ad0).
Definition adrunN (mx : Z) (sched : list nat) (c : adcfg) : adcfg := Interleave.run (adstepN mx) sched c.

(* a caller between its counted test and its dial: it holds one unit of the count that is not yet a connection *)
Definition pendingN (t : list ainstr) : Z :=
  match t with
  | [AUnlock; ADial] | [ADial] => 1
  | _ => 0
  end.
Definition validN (t : list ainstr) : bool :=
  match t with
  | [ALock; ATestInc; AUnlock; ADial] | [ATestInc; AUnlock; ADial] | [AUnlock; ADial] | [ADial] | [] | [AUnlock] => true
  | _ => false
  end.
Fixpoint sumN (l : list (list ainstr)) : Z := match l with [] => 0 | t :: r => pendingN t + sumN r end.

(* n callers of the Requests admission (CanCreate ... Increase) and the schedule on which every one of them runs its
   test before any of them counts: callers 0..n-1 test, then callers 0..n-1 increase *)
Definition req_cfgN (n : nat) : adcfg := (repeat req_prog n, ad0).
Definition all_test_then_all_count (n : nat) : list nat := seq 0 n ++ seq 0 n.
