(* Server side of an xprotocol stream (conn.go newServerStream / handleRequest, stream.go AppendHeaders / buildHijackResp /
   endStream) together with the proxy's forwarding of the request: which request id goes out on the wire in EVERY kind of
   reply.  The request frame is ONE object: the proxy hands the very frame it received to the upstream client stream, whose
   endStream overwrites the frame's id field with the upstream stream id (aliasing made explicit: fr_id is mutable state).
   ONLY executable definitions here; proofs are in Proofs/XReply.v.

   Read from the source (Gen/XConnSrc.v): where the server stream stamps its own id on the outgoing frame
     RestampEnd        in endStream, on every frame the server stream writes (the code in the tree)
     RestampNonHijack  only on frames that did not come out of the codec's Hijack
   and what id each codec's Hijack puts into the reply (HjZero: 0, "overwritten by the stream layer"; HjCopy: the request's). *)
From Coq Require Import List NArith Bool.
Import ListNotations.
Open Scope N_scope.

Inductive restamp := RestampEnd | RestampNonHijack.
Inductive hijack_id := HjZero | HjCopy | HjNone.   (* HjNone: the codec has no hijack (tars): nothing is written *)

Record rstate := mkRS { fr_id : N;      (* id field of the shared request frame object *)
                        srv_id : N }.    (* xStream.id of the server stream = the downstream request's id *)

(* conn.go newServerStream: serverStream.id = frame.GetRequestId() *)
Definition rinit (d : N) : rstate := mkRS d d.

(* the proxy forwards the frame through a client stream with id u (a retry forwards it again): endStream of the CLIENT stream
   does frame.SetRequestId(u) on the shared object *)
Definition rforward (s : rstate) (u : N) : rstate := mkRS u (srv_id s).

Inductive reply_kind :=
| KUpstream (resp_id : N)   (* the upstream's response frame (its id is the upstream id) handed to the server stream *)
| KHijack                   (* local reply: the request frame itself is handed to the server stream, the codec builds the reply *)
| KHeartbeat                (* heartbeat request answered by conn.go handleRequest with protocol.Reply, no stream involved *)
| KOneway.                  (* one-way request: there is no sender, nothing is written *)

(* id on the wire downstream; None = nothing written *)
Definition wire_id (rs : restamp) (hj : hijack_id) (s : rstate) (k : reply_kind) : option N :=
  match k with
  | KUpstream _ => Some (srv_id s)                       (* not a hijack: stamped in either variant *)
  | KHijack =>
    match hj with
    | HjNone => None
    | HjZero => Some (match rs with RestampEnd => srv_id s | RestampNonHijack => 0 end)
    | HjCopy => Some (match rs with RestampEnd => srv_id s | RestampNonHijack => fr_id s end)
    end
  | KHeartbeat => Some (srv_id s)                        (* Reply(request) copies the heartbeat's own id; never forwarded *)
  | KOneway => None
  end.

Definition rrun (d : N) (forwards : list N) : rstate := fold_left rforward forwards (rinit d).

(* correspondence case: downstream id, upstream ids of the forwards (in order), reply kind, codec's hijack policy, wire id seen *)
Definition xreply_case := (N * list N * reply_kind * hijack_id * option N)%type.
Definition optN_eqb (a b : option N) : bool :=
  match a, b with None, None => true | Some x, Some y => x =? y | _, _ => false end.
Definition xreply_case_ok (rs : restamp) (c : xreply_case) : bool :=
  match c with (d, us, k, hj, got) => optN_eqb (wire_id rs hj (rrun d us) k) got end.
Fixpoint xreply_mismatches_from (rs : restamp) (i : nat) (l : list xreply_case) : list nat :=
  match l with
  | [] => []
  | c :: l' => if xreply_case_ok rs c then xreply_mismatches_from rs (S i) l' else i :: xreply_mismatches_from rs (S i) l'
  end.
Definition xreply_mismatches (rs : restamp) (l : list xreply_case) : list nat := xreply_mismatches_from rs 0 l.
