(* Model of the ping-pong upstream connection pools
     pkg/stream/http/connpool.go                (kind Http1)
     pkg/stream/xprotocol/connpool_pingpong.go  (kind PingPong)
   together with the part of pkg/stream/stream.go (BaseStream reset/destroy CAS), pkg/stream/client.go
   (destroy-on-first-OnReceive wrapper) and the stream layers that decides WHEN the pool's listener
   callbacks (OnResetStream / OnDestroyStream / OnEvent / OnGoAway) fire.
   ONLY executable definitions here; proofs are in Proofs/Pool.v.

   The pool operations are atomic in the model (in Go: clientMux, and every callback below runs to
   completion on one goroutine before the harness issues the next operation).

   Four spots of the Go code are read from the source on every run by the translator (Gen/PoolSrc.v):
     sw_http_check_first     http NewStream tests Requests().CanCreate() BEFORE it takes/creates a client
                             (false = the client taken is dropped on refusal: leak)
     sw_http_reset_any       http OnResetStream marks closeConn for every reset reason
                             (false = only for StreamLocalReset)
     sw_pp_close_on_destroy  ping-pong OnDestroyStream reads shouldCloseConn and closes the connection
                             (false = flag written, never read)
     sw_pp_reset_any         ping-pong OnResetStream marks shouldCloseConn for every reset reason          *)
From Coq Require Import List ZArith Bool Arith.
From RecordUpdate Require Import RecordUpdate.
Import ListNotations.
Open Scope Z_scope.

Inductive kind := Http1 | PingPong.

Record switches := mkSw {
  sw_http_check_first : bool;
  sw_http_reset_any : bool;
  sw_pp_close_on_destroy : bool;
  sw_pp_reset_any : bool }.

Record cfg := mkCfg { k_kind : kind; k_max_conn : Z; k_max_req : Z; k_sw : switches }.

(* types.StreamResetReason values that reach the pool's listener *)
Inductive reason := RsLocal | RsRemote | RsTerm | RsFailed | RsUpstream.
Definition reason_code (r : reason) : nat :=
  match r with RsLocal => 1 | RsRemote => 2 | RsTerm => 3 | RsFailed => 4 | RsUpstream => 5 end%nat.
Definition is_local (r : reason) : bool := match r with RsLocal => true | _ => false end.

(* activeClient / activeClientPingPong: closed, closeConn / shouldCloseConn *)
Record client := mkClient { c_closed : bool; c_cconn : bool }.
(* one stream handed out by NewStream: its client, BaseStream alive (state == reset-able), request written,
   responses delivered to the receiver, OnDestroyStream calls seen, first reset reason (0 = none) *)
Record stream := mkStream { s_cli : nat; s_live : bool; s_sent : bool; s_recv : nat; s_destroys : nat; s_reset : nat }.

Record pool := mkPool {
  nclients : nat;          (* clients are numbered in order of successful connect *)
  cl : nat -> client;
  nstreams : nat;          (* streams are numbered in order of successful NewStream *)
  st : nat -> stream;
  idle : list nat;         (* availableClients / idleClients, in slice order *)
  total : Z;               (* totalClientCount (uint64 in Go; the invariant total >= 0 is proved) *)
  req : Z;                 (* cluster ResourceManager().Requests() current value (int64) *)
  ext : Z }.               (* ghost: how much of req is held by others (other pools of the cluster) *)
#[global] Instance eta_pool : Settable _ := settable! mkPool <nclients; cl; nstreams; st; idle; total; req; ext>.

Definition closed (p : pool) (c : nat) : bool := c_closed (cl p c).
Definition cconn (p : pool) (c : nat) : bool := c_cconn (cl p c).
Definition live (p : pool) (s : nat) : bool := s_live (st p s).
Definition sent (p : pool) (s : nat) : bool := s_sent (st p s).
Definition scli (p : pool) (s : nat) : nat := s_cli (st p s).

Definition init : pool :=
  mkPool 0 (fun _ => mkClient true false) 0 (fun _ => mkStream 0 false false 0 0 0) [] 0 0 0.

Definition upd {A} (f : nat -> A) (i : nat) (v : A) : nat -> A := fun j => if Nat.eqb j i then v else f j.

Definition set_closed (p : pool) (c : nat) : pool := p <| cl := upd (cl p) c (mkClient true (cconn p c)) |>.
Definition set_cconn (p : pool) (c : nat) : pool := p <| cl := upd (cl p) c (mkClient (closed p c) true) |>.

(* resource.CanCreate / Increase / Decrease (resource_manager.go): a limit of 0 means "not counted" *)
Definition can_create (k : cfg) (p : pool) : bool :=
  (k_max_req k =? 0) || (req p <? 0) || (req p <? k_max_req k).
(* Increase / Decrease always count (resource_manager.go since c8b45b4d7, pinned by Gen.PoolSrc poolres_src_counts_unlimited);
   max_requests = 0 only means that CanCreate accepts everything *)
Definition req_inc (k : cfg) (p : pool) : pool := p <| req := req p + 1 |>.
Definition req_dec (k : cfg) (p : pool) : pool := p <| req := req p - 1 |>.

(* http onConnectionEvent: delete the first match, order kept *)
Fixpoint remove1 (c : nat) (l : list nat) : list nat :=
  match l with
  | [] => []
  | x :: l' => if Nat.eqb x c then l' else x :: remove1 c l'
  end.
(* ping-pong removeFromPool: swap with the last element, drop the last *)
Fixpoint swap_remove (c : nat) (l : list nat) : list nat :=
  match l with
  | [] => []
  | x :: l' => if Nat.eqb x c then (match l' with [] => [] | _ => last l' 0%nat :: removelast l' end)
               else x :: swap_remove c l'
  end.
Definition idle_remove (k : cfg) (c : nat) (l : list nat) : list nat :=
  match k_kind k with Http1 => remove1 c l | PingPong => swap_remove c l end.

(* connection close event at the pool (onConnectionEvent IsClose / removeFromPool); a connection closes once *)
Definition close_client (k : cfg) (c : nat) (p : pool) : pool :=
  if closed p c then p
  else (set_closed p c) <| total := total p - 1 |> <| idle := idle_remove k c (idle p) |>.

(* OnDestroyStream of stream s (called once: BaseStream.DestroyStream CAS) *)
Definition closes_on_destroy (k : cfg) (p : pool) (c : nat) : bool :=
  negb (closed p c) && cconn p c &&
  match k_kind k with Http1 => true | PingPong => sw_pp_close_on_destroy (k_sw k) end.

Definition mark_dead (p : pool) (s : nat) : pool :=
  let x := st p s in
  p <| st := upd (st p) s (mkStream (s_cli x) false (s_sent x) (s_recv x) (S (s_destroys x)) (s_reset x)) |>.

Definition destroy (k : cfg) (s : nat) (p : pool) : pool :=
  let c := scli p s in
  let p1 := mark_dead p s in
  let p2 := if closes_on_destroy k p1 c then close_client k c p1 else p1 in
  let p3 := req_dec k p2 in
  if closed p3 c then p3 else p3 <| idle := idle p3 ++ [c] |>.

(* BaseStream.ResetStream: OnResetStream(r) then DestroyStream; no-op unless the stream is still alive.
   The first reset reason is recorded after the destroy effects - inside this atomic step the order of the
   two record updates is not observable. *)
Definition reset_marks (k : cfg) (r : reason) : bool :=
  is_local r || match k_kind k with Http1 => sw_http_reset_any (k_sw k) | PingPong => sw_pp_reset_any (k_sw k) end.

Definition note_reset (p : pool) (s : nat) (r : reason) : pool :=
  let x := st p s in
  p <| st := upd (st p) s (mkStream (s_cli x) (s_live x) (s_sent x) (s_recv x) (s_destroys x)
                                     (if Nat.eqb (s_reset x) 0 then reason_code r else s_reset x)) |>.

Definition reset_stream (k : cfg) (s : nat) (r : reason) (p : pool) : pool :=
  if live p s then
    let c := scli p s in
    let p1 := if reset_marks k r && negb (closed p c) then set_cconn p c else p in
    note_reset (destroy k s p1) s r
  else p.

(* api.ConnectionEvent kinds with IsClose() = true *)
Inductive close_ev := EvRemote | EvLocal | EvReadErr | EvWriteErr | EvWriteTimeout.
(* outcome of the dial of a new connection: connected / api.ConnectFailed / api.ConnectTimeout *)
Inductive dial := DialOk | DialRefused | DialTimeout.
Definition dial_ok (d : dial) : bool := match d with DialOk => true | _ => false end.

(* operations *)
Inductive op :=
| NewStream (d : dial) (send : bool)            (* pool.NewStream; d: what a dial would do; send: the request is written at once *)
| Send (s : nat)                                (* the lessee writes the request of stream s (AppendHeaders endStream) *)
| Response (s : nat) (conn_close : bool)        (* upstream answers stream s; conn_close: HTTP "Connection: close" *)
| LocalReset (s : nat)                          (* lessee resets s: timeout, downstream abort *)
| RemoteReset (s : nat)                         (* StreamRemoteReset on s (http: malformed response) *)
| ConnClose (c : nat) (ev : close_ev)           (* the connection of client c closes, reported with close event ev *)
| GoAway (c : nat)                              (* xprotocol go-away frame arrives on c *)
| Shutdown                                      (* pool.Shutdown() *)
| ExtReq (inc : bool).                          (* another holder of the cluster's Requests resource *)

Inductive res := RN | RL (c : nat) | RO | RF | RX.

Definition new_client (p : pool) : pool :=
  let c := nclients p in
  p <| cl := upd (cl p) c (mkClient false false) |> <| nclients := S c |> <| total := total p + 1 |>.

(* getAvailableClient / GetActiveClient after the Requests check: Some c = client obtained *)
Definition take_client (k : cfg) (ok : bool) (p : pool) : pool * option nat * res :=
  let mc := k_max_conn k in
  match idle p with
  | [] =>
    let room := match k_kind k with
                | Http1 => (mc =? 0) || (total p + 1 <=? mc)
                | PingPong => (mc =? 0) || (total p <? mc)
                end in
    if room then (if ok then (new_client p, Some (nclients p), RN) else (p, None, RF))
    else (p, None, RO)
  | _ :: _ =>
    let used := total p - Z.of_nat (length (idle p)) + 1 in
    if negb (mc =? 0) && (mc <? used) then (p, None, RO)
    else (p <| idle := removelast (idle p) |>, Some (last (idle p) 0%nat), RN)
  end.

Definition lease (k : cfg) (c : nat) (send : bool) (p : pool) : pool :=
  let s := nstreams p in
  (req_inc k p) <| st := upd (st p) s (mkStream c true send 0 0 0) |> <| nstreams := S s |>.

Definition new_stream (k : cfg) (ok send : bool) (p : pool) : pool * res :=
  let check_first := match k_kind k with Http1 => sw_http_check_first (k_sw k) | PingPong => true end in
  if check_first && negb (can_create k p) then (p, RO)
  else
    match take_client k ok p with
    | (p1, Some c, _) =>
      if can_create k p1 then (lease k c send p1, RL c)
      else (p1, RO)                       (* http before the fix: p1 has lost the client *)
    | (p1, None, r) => (p1, r)
    end.

(* the live stream of client c (the latest one: http clientStreamConnection.stream is a single pointer that
   NewStream overwrites; the xprotocol client stream table of a ping-pong connection holds the live streams -
   under the exclusive-lease invariant, which is proved, there is at most one) *)
Fixpoint find_live (p : pool) (c : nat) (n : nat) : option nat :=
  match n with
  | O => None
  | S m => if live p m && Nat.eqb (scli p m) c then Some m else find_live p c m
  end.

(* CheckReasonError: http distinguishes RemoteClose (UpstreamReset) from the other close events *)
Definition close_reason (k : cfg) (ev : close_ev) : reason :=
  match k_kind k with
  | Http1 => match ev with EvRemote => RsUpstream | _ => RsTerm end
  | PingPong => RsFailed   (* stream.client is created after Connect(): ConnectedFlag is never set *)
  end.

(* connection close with ANY close event kind (both pools test event.IsClose()): the pool's listener runs
   (close_client), the stream layer resets the stream in flight
   (http: only if the request was written - the response reader resets it; an unsent stream stays with its lessee) *)
Definition conn_close (k : cfg) (c : nat) (ev : close_ev) (p : pool) : pool :=
  if Nat.ltb c (nclients p) && negb (closed p c) then
    let p1 := close_client k c p in
    match find_live p c (nstreams p) with
    | Some s => if match k_kind k with Http1 => sent p s | PingPong => true end
                then reset_stream k s (close_reason k ev) p1 else p1
    | None => p1
    end
  else p.

Definition deliver (p : pool) (s : nat) : pool :=
  let x := st p s in
  p <| st := upd (st p) s (mkStream (s_cli x) (s_live x) (s_sent x) (S (s_recv x)) (s_destroys x) (s_reset x)) |>.

Definition set_sent (p : pool) (s : nat) : pool :=
  let x := st p s in
  p <| st := upd (st p) s (mkStream (s_cli x) (s_live x) true (s_recv x) (s_destroys x) (s_reset x)) |>.

Definition step (k : cfg) (p : pool) (o : op) : pool * res :=
  match o with
  | NewStream d send => new_stream k (dial_ok d) send p
  | Send s =>
    if Nat.ltb s (nstreams p) && live p s && negb (sent p s) then
      (* a write on a closed connection fails: the stream resets itself with StreamConnectionFailed *)
      (if closed p (scli p s) then reset_stream k s RsFailed p else set_sent p s, RN)
    else (p, RN)
  | Response s cc =>
    if Nat.ltb s (nstreams p) && live p s && sent p s then
      let c := scli p s in
      let p1 := match k_kind k with Http1 => if cc then set_cconn p c else p | PingPong => p end in
      (deliver (destroy k s p1) s, RN)   (* client.go wrapper: DestroyStream first, then OnReceive *)
    else (p, RN)
  | LocalReset s => if Nat.ltb s (nstreams p) then (reset_stream k s RsLocal p, RN) else (p, RN)
  | RemoteReset s =>
    if Nat.ltb s (nstreams p) && match k_kind k with Http1 => sent p s | PingPong => true end
    then (reset_stream k s RsRemote p, RN) else (p, RN)
  | ConnClose c ev => (conn_close k c ev p, RN)
  | GoAway c =>
    match k_kind k with
    | PingPong => if Nat.ltb c (nclients p) then (set_cconn p c, RN) else (p, RN)
    | Http1 => (p, RN)
    end
  | Shutdown => (fold_left set_cconn (idle p) p, RN)
  | ExtReq inc =>
    if inc then (p <| req := req p + 1 |> <| ext := ext p + 1 |>, RN)
    else if 0 <? ext p then (p <| req := req p - 1 |> <| ext := ext p - 1 |>, RN)
    else (p, RN)
  end.

Definition run (k : cfg) (ops : list op) (p : pool) : pool := fold_left (fun q o => fst (step k q o)) ops p.

(* ---- observations, for the correspondence check ---------------------------------------------- *)
Definition sobs := (bool * nat * nat * nat)%type.          (* live, recv, destroys, reset code *)
Definition obs := (res * Z * list (nat * bool) * Z * list bool * list sobs)%type.

Definition observe (p : pool) (r : res) : obs :=
  (r, total p, map (fun c => (c, cconn p c)) (idle p), req p,
   map (closed p) (seq 0 (nclients p)),
   map (fun s => let x := st p s in (s_live x, s_recv x, s_destroys x, s_reset x)) (seq 0 (nstreams p))).

Definition res_eqb (a b : res) : bool :=
  match a, b with
  | RN, RN | RO, RO | RF, RF => true
  | RL x, RL y => Nat.eqb x y
  | _, _ => false
  end.
Fixpoint list_eqb {A} (e : A -> A -> bool) (a b : list A) : bool :=
  match a, b with
  | [], [] => true
  | x :: a', y :: b' => e x y && list_eqb e a' b'
  | _, _ => false
  end.
Definition sobs_eqb (a b : sobs) : bool :=
  match a, b with (l1, r1, d1, x1), (l2, r2, d2, x2) => Bool.eqb l1 l2 && Nat.eqb r1 r2 && Nat.eqb d1 d2 && Nat.eqb x1 x2 end.
Definition obs_eqb (a b : obs) : bool :=
  match a, b with
  | (r1, t1, i1, q1, c1, s1), (r2, t2, i2, q2, c2, s2) =>
    res_eqb r1 r2 && (t1 =? t2) && list_eqb (fun x y => Nat.eqb (fst x) (fst y) && Bool.eqb (snd x) (snd y)) i1 i2
    && (q1 =? q2) && list_eqb Bool.eqb c1 c2 && list_eqb sobs_eqb s1 s2
  end.

(* one harness step may stand for several model operations in a row (e.g. a NewStream whose fresh connection is closed
   by the upstream while it is being dialled = NewStream, ConnClose, Send); the result is that of the first one that has one *)
Fixpoint step_multi (k : cfg) (p : pool) (os : list op) : pool * res :=
  match os with
  | [] => (p, RN)
  | o :: os' => let (p1, r1) := step k p o in let (p2, r2) := step_multi k p1 os' in
                (p2, match r1 with RN => r2 | _ => r1 end)
  end.

Fixpoint run_check (k : cfg) (p : pool) (h : list (list op * obs)) : bool :=
  match h with
  | [] => true
  | (os, ob) :: h' => let (p', r) := step_multi k p os in obs_eqb (observe p' r) ob && run_check k p' h'
  end.

Definition pool_case := (kind * Z * Z * list (list op * obs))%type.
Definition pool_case_ok (sw : switches) (c : pool_case) : bool :=
  match c with (kd, mc, mr, h) => run_check (mkCfg kd mc mr sw) init h end.
Fixpoint pool_mismatches_from {A} (ok : A -> bool) (i : nat) (l : list A) : list nat :=
  match l with
  | [] => []
  | x :: l' => if ok x then pool_mismatches_from ok (S i) l' else i :: pool_mismatches_from ok (S i) l'
  end.
Definition pool_mismatches (sw : switches) (l : list pool_case) : list nat := pool_mismatches_from (pool_case_ok sw) 0 l.

(* the repaired code *)
Definition sw_fixed : switches := mkSw true true true true.
