(* Connection accounting of the HTTP/2 pool (pkg/stream/http2/connpool.go): host + cluster upstream_connection_active, the
   shared client p.activeClient, GOAWAY and close events.  ONLY executable definitions; proofs in Proofs/PoolH2.v.

   Read from the source (Gen/PoolSrc.v, poolh2_src_switches):
     h2_identity     deleteActiveClient clears p.activeClient only when it IS the client whose connection closed
                     (false: p.activeClient = nil whoever it is)
     h2_skip_goaway  the close handler returns early for a client that received GOAWAY (no decrement, no clearing)
     h2_dec_on_drop  NewStream decrements upstream_connection_active when it gives up a GOAWAY'd current client
                     (false: it only stops sharing it; the connection stays counted until its close event)
   The repaired code is  identity, not skip_goaway, not dec_on_drop  (h2_fixed); the code before the repair was
   not identity, skip_goaway, dec_on_drop.  Whether NewStream dials while holding the pool mutex is a separate switch
   (poolh2_src_dial_locked) used by the interleaving model Model/PoolH2Race.v; here operations are atomic. *)
From Coq Require Import List ZArith Bool Arith.
From RecordUpdate Require Import RecordUpdate.
From MV Require Import Model.Pool.
Import ListNotations.
Open Scope Z_scope.

Record h2client := mkH2C { h_closed : bool; h_goaway : bool; h_decs : nat }.
Record h2pool := mkH2P { h_n : nat; h_cl : nat -> h2client; h_cur : option nat; h_active : Z }.
#[global] Instance eta_h2pool : Settable _ := settable! mkH2P <h_n; h_cl; h_cur; h_active>.

Definition h2init : h2pool := mkH2P 0 (fun _ => mkH2C true false 0) None 0.

Inductive h2op :=
| HNew (d : dial)          (* pool.NewStream (the stream itself does not touch the connection accounting) *)
| HGoAway (c : nat)        (* a GOAWAY frame arrives on connection c *)
| HClose (c : nat)         (* connection c closes (any close event kind) *)
| HPoolClose.              (* pool.Close(): closes the current client's connection *)

Inductive h2res := H2N | H2L (c : nat) | H2F.

Record h2sw := mkH2Sw { h2_identity : bool; h2_skip_goaway : bool; h2_dec_on_drop : bool }.
Definition h2_fixed (sw : h2sw) : bool := h2_identity sw && negb (h2_skip_goaway sw) && negb (h2_dec_on_drop sw).
Definition h2sw_fixed : h2sw := mkH2Sw true false false.
Definition h2sw_old : h2sw := mkH2Sw false true true.

Definition h2_set (p : h2pool) (c : nat) (v : h2client) : h2pool := p <| h_cl := upd (h_cl p) c v |>.

Definition h2_close (sw : h2sw) (c : nat) (p : h2pool) : h2pool :=
  let e := h_cl p c in
  if Nat.ltb c (h_n p) && negb (h_closed e) then
    if h2_skip_goaway sw && h_goaway e then h2_set p c (mkH2C true true (h_decs e))
    else
      (h2_set p c (mkH2C true (h_goaway e) (S (h_decs e))))
        <| h_cur := if h2_identity sw
                    then match h_cur p with Some c' => if Nat.eqb c' c then None else Some c' | None => None end
                    else None |>
        <| h_active := h_active p - 1 |>
  else p.

Definition h2step (sw : h2sw) (p : h2pool) (o : h2op) : h2pool * h2res :=
  match o with
  | HNew d =>
    (* a GOAWAY'd current client is given up *)
    let p1 := match h_cur p with
              | Some c => if h_goaway (h_cl p c)
                          then if negb (h2_dec_on_drop sw) then p <| h_cur := None |>
                               else (h2_set p c (mkH2C (h_closed (h_cl p c)) true (S (h_decs (h_cl p c))))) <| h_cur := None |> <| h_active := h_active p - 1 |>
                          else p
              | None => p end in
    match h_cur p1 with
    | Some c => (p1, H2L c)
    | None =>
      if dial_ok d then
        let n := h_n p1 in
        (p1 <| h_cl := upd (h_cl p1) n (mkH2C false false 0) |> <| h_n := S n |> <| h_cur := Some n |> <| h_active := h_active p1 + 1 |>, H2L n)
      else (p1, H2F)
    end
  | HGoAway c =>
    if Nat.ltb c (h_n p) then (h2_set p c (mkH2C (h_closed (h_cl p c)) true (h_decs (h_cl p c))), H2N) else (p, H2N)
  | HClose c => (h2_close sw c p, H2N)
  | HPoolClose => (match h_cur p with Some c => h2_close sw c p | None => p end, H2N)
  end.

Fixpoint h2step_multi (sw : h2sw) (p : h2pool) (os : list h2op) : h2pool * h2res :=
  match os with
  | [] => (p, H2N)
  | o :: os' => let (p1, r1) := h2step sw p o in let (p2, r2) := h2step_multi sw p1 os' in
                (p2, match r1 with H2N => r2 | _ => r1 end)
  end.
Definition h2run (sw : h2sw) (ops : list h2op) (p : h2pool) : h2pool := fold_left (fun q o => fst (h2step sw q o)) ops p.

(* observation: gauge, current client, closed flags *)
Definition h2obs := (Z * option nat * list bool)%type.
Definition h2observe (p : h2pool) : h2obs := (h_active p, h_cur p, map (fun c => h_closed (h_cl p c)) (seq 0 (h_n p))).
Definition h2obs_eqb (a b : h2obs) : bool :=
  match a, b with (g1, c1, l1), (g2, c2, l2) =>
    (g1 =? g2) && match c1, c2 with None, None => true | Some x, Some y => Nat.eqb x y | _, _ => false end && list_eqb Bool.eqb l1 l2 end.
Fixpoint h2run_check (sw : h2sw) (p : h2pool) (h : list (list h2op * h2obs)) : bool :=
  match h with
  | [] => true
  | (os, ob) :: h' => let (p', _) := h2step_multi sw p os in h2obs_eqb (h2observe p') ob && h2run_check sw p' h'
  end.
Definition h2_case := list (list h2op * h2obs).
Definition h2_mismatches (sw : h2sw) (l : list h2_case) : list nat := pool_mismatches_from (h2run_check sw h2init) 0 l.
