(* Model of pkg/upstream/cluster/edfheap.go (array binary heap with hole-based sift) and of
   edf.go's scheduler running ON that heap.  Array = list with default-based access; indices,
   loop structure and comparisons are those of the Go code.  ONLY executable definitions. *)
From Coq Require Import List ZArith Bool Arith.
Import ListNotations.
Open Scope Z_scope.

Record hentry := { hid : nat; hper : Z; hdl : Z; hqt : Z }.
Definition hdummy : hentry := {| hid := 0; hper := 0; hdl := 0; hqt := 0 |}.

(* edfEntryLess *)
Definition hless (a b : hentry) : bool :=
  if hdl a =? hdl b then hqt a <? hqt b else hdl a <? hdl b.

Definition hget (a : list hentry) (i : nat) : hentry := nth i a hdummy.
Fixpoint hupd (a : list hentry) (i : nat) (x : hentry) : list hentry :=
  match a, i with
  | [], _ => []
  | _ :: a', O => x :: a'
  | y :: a', S i' => y :: hupd a' i' x
  end.

(* fixUp: the loop `for element = a[i]; i > 0; i = parent { parent = (i-1)/2; if less(element,a[parent]) {a[i]=a[parent]} else break }` *)
Fixpoint up_loop (fuel : nat) (a : list hentry) (el : hentry) (i : nat) : list hentry * nat :=
  match fuel with
  | O => (a, i)
  | S f =>
      match i with
      | O => (a, i)
      | S _ => let p := Nat.div (i - 1) 2 in
               if hless el (hget a p) then up_loop f (hupd a i (hget a p)) el p else (a, i)
      end
  end.
Definition fix_up (a : list hentry) (i : nat) : list hentry * bool :=
  let el := hget a i in
  let '(a', j) := up_loop (S i) a el i in
  if Nat.eqb j i then (a, false) else (hupd a' j el, true).

(* fixDown(i, n) *)
Fixpoint down_loop (fuel : nat) (a : list hentry) (el : hentry) (i n : nat) : list hentry * nat :=
  match fuel with
  | O => (a, i)
  | S f =>
      let c := (2 * i + 1)%nat in
      if Nat.ltb c n then
        let c' := if Nat.ltb (c + 1) n && hless (hget a (c + 1)) (hget a c) then (c + 1)%nat else c in
        if hless (hget a c') el then down_loop f (hupd a i (hget a c')) el c' n else (a, i)
      else (a, i)
  end.
Definition fix_down (a : list hentry) (i n : nat) : list hentry * bool :=
  let el := hget a i in
  let '(a', j) := down_loop n a el i n in
  if Nat.eqb j i then (a, false) else (hupd a' j el, true).

(* Fix(i): if !fixDown(i, size) { fixUp(i) } *)
Definition heap_fix (a : list hentry) (i : nat) : list hentry :=
  let '(a1, moved) := fix_down a i (length a) in
  if moved then a1 else fst (fix_up a1 i).

(* Push: elements[n] = e; size++; fixUp(n).  (The Go array is pre-allocated; only the first `size`
   cells are modelled.) *)
Definition heap_push (a : list hentry) (e : hentry) : list hentry :=
  fst (fix_up (a ++ [e]) (length a)).

(* the scheduler on the heap *)
Record hsched := { hnow : Z; hclock : Z; harr : list hentry; hcount : nat }.
Definition hs_init : hsched := {| hnow := 0; hclock := 0; harr := []; hcount := 0 |}.
Definition hs_add (s : hsched) (p : Z) : hsched :=
  {| hnow := hnow s; hclock := hclock s + 1;
     harr := heap_push (harr s) {| hid := hcount s; hper := p; hdl := hnow s + p; hqt := hclock s + 1 |};
     hcount := S (hcount s) |}.
Definition hs_next (s : hsched) : option (nat * hsched) :=
  match harr s with
  | [] => None
  | e :: _ =>
      let e' := {| hid := hid e; hper := hper e; hdl := hdl e + hper e; hqt := hclock s + 1 |} in
      Some (hid e, {| hnow := hdl e; hclock := hclock s + 1;
                      harr := heap_fix (hupd (harr s) 0 e') 0; hcount := hcount s |})
  end.

(* --- correspondence: after Adds with the given periods, n picks; observable = pick ids and,
       after every pick, the ids in array order --- *)
Fixpoint hs_run (s : hsched) (n : nat) : list (nat * list nat) :=
  match n with
  | O => []
  | S n' => match hs_next s with
            | None => []
            | Some (i, s') => (i, map hid (harr s')) :: hs_run s' n'
            end
  end.
Definition hs_of_periods (ps : list Z) : hsched := fold_left hs_add ps hs_init.
Definition prodz (ws : list Z) : Z := fold_right Z.mul 1 ws.
Definition hs_of_weights (ws : list Z) : hsched := hs_of_periods (map (fun w => prodz ws / w) ws).
Definition heap_case := (list Z * list nat * list (nat * list nat))%type.  (* weights, layout after the Adds, (pick, layout) per step *)
Definition heap_case_ok (k : heap_case) : bool :=
  match k with (ws, lay0, steps) =>
    let s := hs_of_weights ws in
    let same := fix same (x y : list (nat * list nat)) : bool :=
      match x, y with
      | [], [] => true
      | (i, l) :: x', (j, m) :: y' => Nat.eqb i j && (if list_eq_dec Nat.eq_dec l m then true else false) && same x' y'
      | _, _ => false
      end in
    (if list_eq_dec Nat.eq_dec (map hid (harr s)) lay0 then true else false) && same (hs_run s (length steps)) steps
  end.
Fixpoint hmism {A} (ok : A -> bool) (i : nat) (l : list A) : list nat :=
  match l with
  | [] => []
  | x :: l' => if ok x then hmism ok (S i) l' else i :: hmism ok (S i) l'
  end.
Definition heap_mismatches (l : list heap_case) : list nat := hmism heap_case_ok 0 l.
