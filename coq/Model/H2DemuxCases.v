(* Model/H2DemuxCases.v (group h2): comparison function of the C02 (HTTP/2) correspondence shards. *)
From Coq Require Import List NArith Bool.
From MV Require Import Lib.HBits Lib.HCaseIO Gen.H2Src Model.H2Demux.
Import ListNotations.
Open Scope N_scope.

Definition obs3 := (N * bytes * bytes)%type.
Definition obs3_eqb (a b : obs3) : bool :=
  (fst (fst a) =? fst (fst b)) && bytes_eqb (snd (fst a)) (snd (fst b)) && bytes_eqb (snd a) (snd b).

(* (streams opened, reads, what each receiver holds at the END of the history: (stream id, header token, body bytes)) *)
Definition demux_case := (list N * list (list dframe) * list obs3)%type.
Definition demux_check (c : demux_case) : bool :=
  let '(opens, reads, expected) := c in
  let final := run_reads (negb h2_stream_data_copied) opens reads in
  let seen := map (observe (dc_buf final)) (dc_out final) in
  forallb (fun sid =>
             list_eqb obs3_eqb (filter (fun o => fst (fst o) =? sid) seen)
                               (filter (fun o => fst (fst o) =? sid) expected)) opens
  && Nat.eqb (length seen) (length expected).
Definition demux_mismatches := mismatches demux_check.
