(* Model of the xprotocol multiplex pool, pkg/stream/xprotocol/connpool_multiplex.go, with one slot
   (activeClients has max_connections entries, default 1; the slots are independent), together with the
   part of the stream layer that decides when its callbacks fire (as in Model/Pool.v).
   ONLY executable definitions here; proofs are in Proofs/PoolMx.v.

   Source-driven switches (Gen/PoolSrc.v):
     sw_mx_goaway_flag     OnDestroyStream decides "drained go-away connection: close it" from a flag of its own
                           (false: from the state word, which CheckAndInit overwrites with Connecting)
     sw_mx_delete_own      onConnectionEvent empties the slot only if the slot still holds THIS client
                           (false: whenever the client's state word is not GoAway - by key, whoever is stored) *)
From Coq Require Import List ZArith Bool Arith.
From RecordUpdate Require Import RecordUpdate.
From MV Require Import Model.Pool.
Import ListNotations.
Open Scope Z_scope.

Record mx_switches := mkMxSw { sw_mx_goaway_flag : bool; sw_mx_delete_own : bool }.
Record mcfg := mkMCfg { mk_max_req : Z; mk_sw : mx_switches }.

(* state word of activeClientMultiplex *)
Definition st_connecting : nat := 1.
Definition st_connected : nat := 2.
Definition st_goaway : nat := 3.

Record mclient := mkMClient { mc_closed : bool; mc_state : nat; mc_goaway : bool }.
Record mstream := mkMStream { ms_cli : nat; ms_live : bool; ms_recv : nat; ms_destroys : nat; ms_reset : nat }.

(* the sync.Map entry of the slot: nothing, the placeholder client (state Connecting), or a real client *)
Inductive slot := SEmpty | SFake | SClient (c : nat).

Record mpool := mkMPool {
  mnclients : nat; mcl : nat -> mclient;
  mnstreams : nat; mst : nat -> mstream;
  mslot : slot;
  mreq : Z; mext : Z;
  mshut : bool }.
#[global] Instance eta_mpool : Settable _ := settable! mkMPool <mnclients; mcl; mnstreams; mst; mslot; mreq; mext; mshut>.

Definition minit : mpool :=
  mkMPool 0 (fun _ => mkMClient true 0 false) 0 (fun _ => mkMStream 0 false 0 0 0) SEmpty 0 0 false.

Definition mclosed (p : mpool) (c : nat) : bool := mc_closed (mcl p c).
Definition mlive (p : mpool) (s : nat) : bool := ms_live (mst p s).
Definition mscli (p : mpool) (s : nat) : nat := ms_cli (mst p s).

(* number of live streams on client c = ActiveRequestsNum() at a quiescent point *)
Fixpoint mcount (f : nat -> bool) (n : nat) : nat :=
  match n with O => O | S m => ((if f m then 1 else 0) + mcount f m)%nat end.
Definition mactive (p : mpool) (c : nat) : nat := mcount (fun s => mlive p s && Nat.eqb (mscli p s) c) (mnstreams p).

Definition mcan_create (k : mcfg) (p : mpool) : bool := (mk_max_req k =? 0) || (mreq p <? 0) || (mreq p <? mk_max_req k).
(* Increase / Decrease always count (resource_manager.go since c8b45b4d7, pinned by Gen.PoolSrc poolres_src_counts_unlimited) *)
Definition mreq_inc (k : mcfg) (p : mpool) : mpool := p <| mreq := mreq p + 1 |>.
Definition mreq_dec (k : mcfg) (p : mpool) : mpool := p <| mreq := mreq p - 1 |>.

Definition mset_client (p : mpool) (c : nat) (v : mclient) : mpool := p <| mcl := upd (mcl p) c v |>.

(* onConnectionEvent, IsClose branch (a connection closes once) *)
Definition mclose_event (k : mcfg) (c : nat) (p : mpool) : mpool :=
  if mclosed p c then p else
  let e := mcl p c in
  let p1 := mset_client p c (mkMClient true (mc_state e) (mc_goaway e)) in
  let empty :=
    if sw_mx_delete_own (mk_sw k)
    then match mslot p with SClient c' => Nat.eqb c' c | _ => false end
    else negb (Nat.eqb (mc_state e) st_goaway) in
  if empty then p1 <| mslot := SEmpty |> else p1.

(* "this go-away connection has drained" test of OnDestroyStream *)
Definition mdrain_test (k : mcfg) (p : mpool) (c : nat) : bool :=
  if sw_mx_goaway_flag (mk_sw k) then mc_goaway (mcl p c) else Nat.eqb (mc_state (mcl p c)) st_goaway.

(* OnDestroyStream of live stream s *)
Definition mdestroy (k : mcfg) (s : nat) (p : mpool) : mpool :=
  let c := mscli p s in
  let x := mst p s in
  let p1 := p <| mst := upd (mst p) s (mkMStream (ms_cli x) false (ms_recv x) (S (ms_destroys x)) (ms_reset x)) |> in
  let p2 := mreq_dec k p1 in
  if mdrain_test k p2 c && Nat.eqb (mactive p2 c) 0 && negb (mclosed p2 c) then mclose_event k c p2 else p2.

Definition mnote_reset (p : mpool) (s : nat) (code : nat) : mpool :=
  let x := mst p s in
  p <| mst := upd (mst p) s (mkMStream (ms_cli x) (ms_live x) (ms_recv x) (ms_destroys x)
                                       (if Nat.eqb (ms_reset x) 0 then code else ms_reset x)) |>.

Definition mreset_stream (k : mcfg) (s : nat) (code : nat) (p : mpool) : mpool :=
  if mlive p s then mnote_reset (mdestroy k s p) s code else p.

Inductive mop :=
| MInit (d : dial)                  (* pool.CheckAndInit and, if it starts one, the init goroutine run to completion *)
| MNew                              (* pool.NewStream (request written at once) *)
| MResponse (s : nat)
| MReset (s : nat)                  (* local reset / time-out *)
| MConnClose (c : nat) (ev : close_ev)
| MGoAway (c : nat)
| MShutdown
| MExtReq (inc : bool).

Inductive mres := MRN | MRL (c : nat) | MRO | MRF | MRReady (b : bool) | MRX.

(* the init goroutine (pool.init): nothing after Shutdown; else dial; success stores a Connected client, failure empties the slot *)
Definition minit_run (k : mcfg) (d : dial) (p : mpool) : mpool :=
  if mshut p then p
  else if dial_ok d then
    let c := mnclients p in
    p <| mcl := upd (mcl p) c (mkMClient false st_connected false) |> <| mnclients := S c |> <| mslot := SClient c |>
  else p <| mslot := SEmpty |>.

(* streams of a closing connection are all reset (multiplex: every stream in the client stream table) *)
Fixpoint mreset_all (k : mcfg) (c : nat) (code : nat) (n : nat) (p : mpool) : mpool :=
  match n with
  | O => p
  | S m => let p' := mreset_all k c code m p in
           if mlive p' m && Nat.eqb (mscli p' m) c then mreset_stream k m code p' else p'
  end.

Definition mstep (k : mcfg) (p : mpool) (o : mop) : mpool * mres :=
  match o with
  | MInit d =>
    match mslot p with
    | SEmpty => (minit_run k d (p <| mslot := SFake |>), MRReady false)  (* LoadOrStore placeholder; CAS Init -> Connecting; init *)
    | SFake => (p, MRReady false)
    | SClient c =>
      let e := mcl p c in
      if Nat.eqb (mc_state e) st_connected then (p, MRReady true)
      else if Nat.eqb (mc_state e) st_goaway then
        (* CAS GoAway -> Connecting on the OLD client object, then init *)
        (minit_run k d (mset_client p c (mkMClient (mc_closed e) st_connecting (mc_goaway e))), MRReady false)
      else (p, MRReady false)
    end
  | MNew =>
    match mslot p with
    | SClient c =>
      if Nat.eqb (mc_state (mcl p c)) st_connected then
        if mcan_create k p then
          let s := mnstreams p in
          ((mreq_inc k p) <| mst := upd (mst p) s (mkMStream c true 0 0 0) |> <| mnstreams := S s |>, MRL c)
        else (p, MRO)
      else (p, MRF)
    | _ => (p, MRF)
    end
  | MResponse s =>
    if Nat.ltb s (mnstreams p) && mlive p s then
      let p1 := mdestroy k s p in
      let x := mst p1 s in
      (p1 <| mst := upd (mst p1) s (mkMStream (ms_cli x) (ms_live x) (S (ms_recv x)) (ms_destroys x) (ms_reset x)) |>, MRN)
    else (p, MRN)
  | MReset s => if Nat.ltb s (mnstreams p) then (mreset_stream k s 1 p, MRN) else (p, MRN)
  | MConnClose c ev =>
    if Nat.ltb c (mnclients p) && negb (mclosed p c) then
      (* the stream client resets the streams (connected: StreamConnectionTermination), the pool's listener runs *)
      (mclose_event k c (mreset_all k c 3 (mnstreams p) p), MRN)
    else (p, MRN)
  | MGoAway c =>
    if Nat.ltb c (mnclients p) && negb (mclosed p c) then
      let e := mcl p c in
      let p1 := mset_client p c (mkMClient (mc_closed e) st_goaway true) in
      (if Nat.eqb (mactive p1 c) 0 then mclose_event k c p1 else p1, MRN)
    else (p, MRN)
  | MShutdown => (p <| mshut := true |>, MRN)
  | MExtReq inc =>
    if inc then (p <| mreq := mreq p + 1 |> <| mext := mext p + 1 |>, MRN)
    else if 0 <? mext p then (p <| mreq := mreq p - 1 |> <| mext := mext p - 1 |>, MRN)
    else (p, MRN)
  end.

Definition mrun (k : mcfg) (ops : list mop) (p : mpool) : mpool := fold_left (fun q o => fst (mstep k q o)) ops p.

(* ---- observations ------------------------------------------------------------------------------ *)
Definition mobs := (mres * Z * option nat * Z * list bool * list sobs)%type.
(* slot as seen through the accessor: state word of the stored entry (-1 empty; placeholder: Connecting), held client *)
Definition mslot_obs (p : mpool) : Z * option nat :=
  match mslot p with
  | SEmpty => (-1, None)
  | SFake => (1, None)
  | SClient c => (Z.of_nat (mc_state (mcl p c)), Some c)
  end.
Definition mobserve (p : mpool) (r : mres) : mobs :=
  (r, fst (mslot_obs p), snd (mslot_obs p), mreq p,
   map (mclosed p) (seq 0 (mnclients p)),
   map (fun s => let x := mst p s in (ms_live x, ms_recv x, ms_destroys x, ms_reset x)) (seq 0 (mnstreams p))).

Definition mres_eqb (a b : mres) : bool :=
  match a, b with
  | MRN, MRN | MRO, MRO | MRF, MRF => true
  | MRL x, MRL y => Nat.eqb x y
  | MRReady x, MRReady y => Bool.eqb x y
  | _, _ => false
  end.
Definition optnat_eqb (a b : option nat) : bool :=
  match a, b with None, None => true | Some x, Some y => Nat.eqb x y | _, _ => false end.
Definition mobs_eqb (a b : mobs) : bool :=
  match a, b with
  | (r1, s1, c1, q1, l1, t1), (r2, s2, c2, q2, l2, t2) =>
    mres_eqb r1 r2 && (s1 =? s2) && optnat_eqb c1 c2 && (q1 =? q2) && list_eqb Bool.eqb l1 l2 && list_eqb sobs_eqb t1 t2
  end.
Fixpoint mstep_multi (k : mcfg) (p : mpool) (os : list mop) : mpool * mres :=
  match os with
  | [] => (p, MRN)
  | o :: os' => let (p1, r1) := mstep k p o in let (p2, r2) := mstep_multi k p1 os' in
                (p2, match r1 with MRN => r2 | _ => r1 end)
  end.
Fixpoint mrun_check (k : mcfg) (p : mpool) (h : list (list mop * mobs)) : bool :=
  match h with
  | [] => true
  | (os, ob) :: h' => let (p', r) := mstep_multi k p os in mobs_eqb (mobserve p' r) ob && mrun_check k p' h'
  end.
Definition mx_case := (Z * list (list mop * mobs))%type.
Definition mx_case_ok (sw : mx_switches) (c : mx_case) : bool :=
  match c with (mr, h) => mrun_check (mkMCfg mr sw) minit h end.
Definition mx_mismatches (sw : mx_switches) (l : list mx_case) : list nat := pool_mismatches_from (mx_case_ok sw) 0 l.

Definition mx_sw_fixed : mx_switches := mkMxSw true true.
