(* Model of the route actions of pkg/router: header_parser.go (evaluateHeaders), headerformatter.go, utility.go
   (getHeaderParser / getHeaderPair), base_rule.go (finalizeRequestHeaders, FinalizeResponseHeaders, finalizePathHeader,
   the redirect / direct response part of NewRouteRuleImplBase), virtualhost.go (FinalizeRequestHeaders / Response),
   the per-rule-kind FinalizeRequestHeaders of http_rule.go / rpc_rule.go / variable_rule.go / dsl_rule.go, and the
   redirect URL assembly of proxy/downstream.go chooseHost.
   ONLY executable definitions; proofs are in Proofs/RouteAction.v.
   The header map has the semantics of protocol.CommonHeader (case-sensitive keys, one value per key).
   regexp.ReplaceAllString and url.URL.String are Go library functions: their results come with the request. *)
From Coq Require Import List String Ascii Bool Arith.
From MV Require Import Model.Router.
Import ListNotations.
Local Open Scope string_scope.

(* ------------------------------------------------------------------ header map: Get / Set / Del *)
Definition hmap := list (string * string).

Definition hget (k : string) (m : hmap) : option string := assoc k m.

Fixpoint hset (k v : string) (m : hmap) : hmap :=
  match m with
  | [] => [(k, v)]
  | (k', v') :: m' => if String.eqb k' k then (k, v) :: m' else (k', v') :: hset k v m'
  end.

Fixpoint hdel (k : string) (m : hmap) : hmap :=
  match m with
  | [] => []
  | (k', v') :: m' => if String.eqb k' k then hdel k m' else (k', v') :: hdel k m'
  end.

(* ------------------------------------------------------------------ header parser *)
(* v2.HeaderValueOption: Append is *bool, nil means true *)
Record hadd := { ha_key : string; ha_value : string; ha_append : option bool }.
Record hparser := { hp_add : list hadd; hp_remove : list string }.
Definition no_parser : hparser := {| hp_add := []; hp_remove := [] |}.

(* strings.Trim(value, "%") *)
Fixpoint trim_left_pct (s : string) : string :=
  match s with
  | String c s' => if Ascii.eqb c "%" then trim_left_pct s' else s
  | EmptyString => EmptyString
  end.
Fixpoint trim_right_pct (s : string) : string :=
  match s with
  | EmptyString => EmptyString
  | String c s' =>
      match trim_right_pct s' with
      | EmptyString => if Ascii.eqb c "%" then EmptyString else String c EmptyString
      | r => String c r
      end
  end.
Definition trim_pct (s : string) : string := trim_right_pct (trim_left_pct s).

(* getHeaderFormatter: "%name%" with a defined variable name is a variable formatter; known = names for which
   variable.Check succeeds *)
Definition is_var_format (known : list string) (v : string) : bool :=
  andb (Nat.ltb 2 (String.length v))
  (andb (String.prefix "%" v)
  (andb (is_suffix "%" v)
        (existsb (String.eqb (trim_pct v)) known))).

Definition format_value (known : list string) (vars : list (string * string)) (v : string) : string :=
  if is_var_format known v then
    match assoc (trim_pct v) vars with Some s => s | None => "" end
  else v.

Definition append_flag (a : hadd) : bool := match ha_append a with Some b => b | None => true end.

(* one element of headersToAdd *)
Definition apply_add (known : list string) (vars : list (string * string)) (m : hmap) (a : hadd) : hmap :=
  let key := lower (ha_key a) in
  let value := format_value known vars (ha_value a) in
  let value' := match hget key m with
                | Some v => if andb (negb (String.eqb v "")) (append_flag a) then v ++ "," ++ value else value
                | None => value
                end in
  hset key value' m.

(* headerParser.evaluateHeaders: all additions in order, then all removals *)
Definition evaluate (known : list string) (vars : list (string * string)) (p : hparser) (m : hmap) : hmap :=
  fold_left (fun m k => hdel (lower k) m) (hp_remove p)
            (fold_left (apply_add known vars) (hp_add p) m).

(* ------------------------------------------------------------------ route actions *)
Inductive rkind := RKPrefix (p : string) | RKPath (p : string) | RKRegex (re : string) | RKRpc | RKVar | RKDsl.

Record raction := {
  ra_kind : rkind;
  ra_prefix_rewrite : string;
  ra_regex_rewrite : option string;       (* RegexRewrite.Pattern.Regex when RegexRewrite != nil (any length) *)
  ra_host_rewrite : string;
  ra_auto_host_header : string;
  ra_auto_host : bool;
  ra_req : hparser; ra_resp : hparser;     (* route level *)
  ra_vh_req : hparser; ra_vh_resp : hparser;     (* virtual host level *)
  ra_gl_req : hparser; ra_gl_resp : hparser }.   (* router configuration level *)

(* NewRouteRuleImplBase keeps the regex rewrite only if the pattern is longer than one byte and no prefix rewrite is set *)
Definition regex_rewrite_active (a : raction) : bool :=
  match ra_regex_rewrite a with
  | Some re => andb (Nat.ltb 1 (String.length re)) (String.eqb (ra_prefix_rewrite a) "")
  | None => false
  end.

Definition var_authority := "authority".
Definition hdr_original_path := "x-mosn-original-path".

(* the part of a request the route actions read and write *)
Record renv := {
  e_vars : list (string * string);        (* variables set in the context *)
  e_hdrs : hmap;
  e_known : list string;                  (* variable names that are defined *)
  e_replaced : string;                    (* regexPattern.ReplaceAllString(path, substitution) for this route and path *)
  e_dns_host : option string }.           (* Some hostname: the route's cluster exists, is STRICT_DNS, and this upstream host was chosen *)

Definition with_vars (e : renv) (v : list (string * string)) : renv :=
  {| e_vars := v; e_hdrs := e_hdrs e; e_known := e_known e; e_replaced := e_replaced e; e_dns_host := e_dns_host e |}.
Definition with_hdrs (e : renv) (h : hmap) : renv :=
  {| e_vars := e_vars e; e_hdrs := h; e_known := e_known e; e_replaced := e_replaced e; e_dns_host := e_dns_host e |}.

(* the three levels, in the order of finalizeRequestHeaders / FinalizeResponseHeaders *)
Definition three_levels (known : list string) (vars : list (string * string)) (p1 p2 p3 : hparser) (m : hmap) : hmap :=
  evaluate known vars p3 (evaluate known vars p2 (evaluate known vars p1 m)).

(* RouteRuleImplBase.finalizeRequestHeaders *)
Definition finalize_base (a : raction) (e : renv) : renv :=
  let h := three_levels (e_known e) (e_vars e) (ra_req a) (ra_vh_req a) (ra_gl_req a) (e_hdrs e) in
  let e1 := with_hdrs e h in
  if negb (String.eqb (ra_host_rewrite a) "") then with_vars e1 (hset var_authority (ra_host_rewrite a) (e_vars e))
  else if negb (String.eqb (ra_auto_host_header a) "") then
    match hget (ra_auto_host_header a) h with
    | Some v => with_vars e1 (hset var_authority v (e_vars e))
    | None => e1
    end
  else if ra_auto_host a then
    match e_dns_host e with
    | Some hn => with_vars e1 (hset var_authority hn (e_vars e))
    | None => e1
    end
  else e1.

(* RouteRuleImplBase.finalizePathHeader *)
Definition finalize_path (a : raction) (matched : string) (e : renv) : renv :=
  if andb (String.eqb (ra_prefix_rewrite a) "") (negb (regex_rewrite_active a)) then e
  else match assoc var_path (e_vars e) with
       | None => e
       | Some path =>
           if String.eqb path "" then e
           else if negb (String.eqb (ra_prefix_rewrite a) "") then
             if String.prefix matched path then
               with_vars (with_hdrs e (hset hdr_original_path path (e_hdrs e)))
                         (hset var_path (ra_prefix_rewrite a ++ drop (String.length matched) path) (e_vars e))
             else e
           else
             if String.eqb (e_replaced e) path then e
             else with_vars (with_hdrs e (hset hdr_original_path path (e_hdrs e)))
                            (hset var_path (e_replaced e) (e_vars e))
       end.

(* RouteRule.FinalizeRequestHeaders for each rule kind.  var_finalizes / dsl_finalizes say whether the variable / DSL
   rule kinds run the base implementation (read from the source by the translator: Gen/RouteSrc.v) *)
Definition finalize_request (var_finalizes dsl_finalizes : bool) (a : raction) (e : renv) : renv :=
  match ra_kind a with
  | RKPrefix p => finalize_path a p (finalize_base a e)
  | RKPath p => finalize_path a p (finalize_base a e)
  | RKRegex re => finalize_path a re (finalize_base a e)
  | RKRpc => finalize_base a e
  | RKVar => if var_finalizes then finalize_base a e else e
  | RKDsl => if dsl_finalizes then finalize_base a e else e
  end.

(* RouteRuleImplBase.FinalizeResponseHeaders (not overridden by any rule kind) *)
Definition finalize_response (a : raction) (known : list string) (vars : list (string * string)) (m : hmap) : hmap :=
  three_levels known vars (ra_resp a) (ra_vh_resp a) (ra_gl_resp a) m.

(* ------------------------------------------------------------------ direct response / redirect *)
(* v2.RedirectAction and what NewRouteRuleImplBase makes of it *)
Record redirect_cfg := { rd_code : nat; rd_path : string; rd_host : string; rd_scheme : string }.
Record redirect_rule := { rr_code : nat; rr_path : string; rr_host : string; rr_scheme : string }.

Definition code_supported (c : nat) : bool :=
  existsb (Nat.eqb c) [301; 302; 303; 307; 308].

(* scheme_ok = schemeValidator ("^[a-z][a-z0-9.+-]*$") on the lower-cased scheme *)
Definition is_lower_alpha (c : ascii) : bool := let n := nat_of_ascii c in andb (Nat.leb 97 n) (Nat.leb n 122).
Definition is_scheme_char (c : ascii) : bool :=
  let n := nat_of_ascii c in
  orb (is_lower_alpha c) (orb (andb (Nat.leb 48 n) (Nat.leb n 57)) (orb (Nat.eqb n 46) (orb (Nat.eqb n 43) (Nat.eqb n 45)))).
Fixpoint all_chars (f : ascii -> bool) (s : string) : bool :=
  match s with EmptyString => true | String c s' => andb (f c) (all_chars f s') end.
Definition scheme_valid (s : string) : bool :=
  match s with
  | EmptyString => false
  | String c s' => andb (is_lower_alpha c) (all_chars is_scheme_char s')
  end.

(* None: NewRouteRuleImplBase returns an error *)
Definition make_redirect (r : redirect_cfg) : option redirect_rule :=
  let scheme := lower (rd_scheme r) in
  if andb (negb (String.eqb scheme "")) (negb (scheme_valid scheme)) then None
  else if Nat.eqb (rd_code r) 0 then Some {| rr_code := 301; rr_path := rd_path r; rr_host := rd_host r; rr_scheme := scheme |}
  else if code_supported (rd_code r) then Some {| rr_code := rd_code r; rr_path := rd_path r; rr_host := rd_host r; rr_scheme := scheme |}
  else None.

Definition or_else (s d : string) : string := if String.eqb s "" then d else s.   (* getStringOr *)

(* chooseHost: the url.URL before String().  strip = (new scheme, port) pairs whose port is dropped when the scheme changes
   (Gen/RouteSrc.v reads them from the source: [("http","443"); ("https","80")]) *)
Record url_parts := { u_scheme : string; u_host : string; u_path : string; u_query : string }.

Definition pair_in (a b : string) (l : list (string * string)) : bool :=
  existsb (fun p => andb (String.eqb (fst p) a) (String.eqb (snd p) b)) l.

Definition redirect_url (strip : list (string * string)) (r : redirect_rule)
           (cur_scheme cur_host cur_path cur_query : string) : url_parts :=
  let scheme := or_else (rr_scheme r) cur_scheme in
  let host := or_else (rr_host r) cur_host in
  let host' :=
    if String.eqb scheme cur_scheme then host
    else match split_host_port host with
         | SplitOk h p => if pair_in scheme p strip then h else host
         | _ => host
         end in
  {| u_scheme := scheme; u_host := host'; u_path := or_else (rr_path r) cur_path; u_query := cur_query |}.

(* url.URL.String for a URL with a scheme, whose path is empty or starts with "/" and needs no escaping *)
Definition url_string (u : url_parts) : string :=
  u_scheme u ++ ":" ++ (if andb (String.eqb (u_host u) "") (String.eqb (u_path u) "") then "" else "//") ++
  u_host u ++ u_path u ++ (if String.eqb (u_query u) "" then "" else "?" ++ u_query u).

(* ------------------------------------------------------------------ correspondence cases *)
Fixpoint hmap_sub (a b : hmap) : bool :=
  match a with
  | [] => true
  | (k, v) :: a' => andb (match hget k b with Some v' => String.eqb v v' | None => false end) (hmap_sub a' b)
  end.
(* same finite map (keys are unique on both sides) *)
Definition hmap_eqb (a b : hmap) : bool := andb (Nat.eqb (List.length a) (List.length b)) (andb (hmap_sub a b) (hmap_sub b a)).

(* request finalisation: action, environment, then the Go results: headers, x-mosn-path (None = unset), authority *)
Definition fin_case := (raction * renv * (hmap * option string * option string))%type.
Definition fin_case_ok (vf df : bool) (k : fin_case) : bool :=
  match k with
  | (a, e, (h, p, au)) =>
      let e' := finalize_request vf df a e in
      andb (hmap_eqb (e_hdrs e') h)
      (andb (opt_str_eqb (assoc var_path (e_vars e')) p) (opt_str_eqb (assoc var_authority (e_vars e')) au))
  end.

(* response finalisation: action, known, vars, headers, Go result *)
Definition resp_case := (raction * list string * list (string * string) * hmap * hmap)%type.
Definition resp_case_ok (k : resp_case) : bool :=
  match k with (a, known, vars, m, out) => hmap_eqb (finalize_response a known vars m) out end.

(* redirect rule construction: config, Go result (None = error) as (code, path, host, scheme) *)
Definition rdr_case := (redirect_cfg * option (nat * string * string * string))%type.
Definition rdr_case_ok (k : rdr_case) : bool :=
  match k with
  | (cfg, got) =>
      match make_redirect cfg, got with
      | None, None => true
      | Some r, Some (c, p, h, s) =>
          andb (Nat.eqb (rr_code r) c) (andb (String.eqb (rr_path r) p) (andb (String.eqb (rr_host r) h) (String.eqb (rr_scheme r) s)))
      | _, _ => false
      end
  end.

(* the local reply chooseHost prepares for a redirect route: configuration, current scheme / host / path / query, then
   the Go results: status code and location header *)
Definition url_case := (redirect_cfg * (string * string * string * string) * (nat * string))%type.
Definition url_case_ok (strip : list (string * string)) (k : url_case) : bool :=
  match k with
  | (cfg, (cs, ch, cp, cq), (status, location)) =>
      match make_redirect cfg with
      | None => false
      | Some r => andb (Nat.eqb (rr_code r) status) (String.eqb (url_string (redirect_url strip r cs ch cp cq)) location)
      end
  end.

Inductive ra_case := CFin (k : fin_case) | CResp (k : resp_case) | CRdr (k : rdr_case) | CUrl (k : url_case).
Definition ra_case_ok (vf df : bool) (strip : list (string * string)) (k : ra_case) : bool :=
  match k with
  | CFin k => fin_case_ok vf df k | CResp k => resp_case_ok k | CRdr k => rdr_case_ok k | CUrl k => url_case_ok strip k
  end.

Fixpoint ra_mismatches_from (vf df : bool) (strip : list (string * string)) (i : nat) (l : list ra_case) : list nat :=
  match l with
  | [] => []
  | k :: l' => if ra_case_ok vf df strip k then ra_mismatches_from vf df strip (S i) l'
               else i :: ra_mismatches_from vf df strip (S i) l'
  end.
Definition ra_mismatches (vf df : bool) (strip : list (string * string)) (l : list ra_case) : list nat :=
  ra_mismatches_from vf df strip 0 l.
