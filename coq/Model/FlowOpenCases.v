(* Model/FlowOpenCases.v (group h2): comparison function of the stream-open race shards (C18). *)
From Coq Require Import List ZArith Bool.
From MV Require Import Lib.HCaseIO Lib.Interleave Gen.H2Src Model.FlowOpen.
Import ListNotations.
Open Scope Z_scope.

(* (initial window in force, the peer frame processed while the HEADERS of stream 1 are being written, body length,
    observed: stream window once both have finished, DATA bytes sent afterwards) *)
Definition fopen_case := (Z * pframe * Z * (Z * Z))%type.

(* the schedule the harness forces: with one critical section the frame can only be handled after the registration;
   with cc.mu released in between it is handled between the HEADERS write and the registration *)
Definition fopen_sched (atomic : bool) (sends : nat) : list nat * list nat :=
  if atomic then ([0; 1]%nat, repeat 0%nat sends) else ([0; 0; 1; 0]%nat, repeat 0%nat sends).

Definition fopen_check (c : fopen_case) : bool :=
  let '(init, fr, body, (win, sent)) := c in
  let sc := fopen_sched h2_client_open_atomic 4 in
  let c1 := orun h2_client_open_atomic (fst sc) ([TOpen 1 0 body; TReader [fr]], mkSh init []) in
  let c2 := orun h2_client_open_atomic (snd sc) c1 in
  (win_of 1 (sh_streams (snd c1)) =? win) &&
  (match sh_streams (snd c2) with s :: _ => os_sent s =? sent | [] => false end).
Definition fopen_mismatches := mismatches fopen_check.
