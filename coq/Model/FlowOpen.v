(* Model/FlowOpen.v (group h2): opening a client stream concurrently with the read side of the connection
   (mhttp2.go MClientConn.WriteHeaders / newStream vs processSettings / processWindowUpdate), as micro-steps over
   Lib/Interleave.  Threads: openers (one per request: newStream - window := current initial window -, write HEADERS,
   register in cc.streams, then the DATA sender) and the reader (the peer's SETTINGS / WINDOW_UPDATE frames in order).
   `atomic` (Gen h2_client_open_atomic): newStream, the HEADERS write and the registration happen in ONE cc.mu critical
   section (true) or cc.mu is released in between (false).  Windows are exact integers here; the int32 arithmetic of
   flow.add is the subject of Model/Flow.v.  Definitions only. *)
From Coq Require Import List ZArith Bool.
From MV Require Import Lib.Interleave.
Import ListNotations.
Open Scope Z_scope.

Record ostream := mkOs {
  os_id : Z;
  os_win : Z;        (* cs.flow.n *)
  os_sent : Z;       (* DATA bytes put on the stream *)
  os_wu : Z;         (* ghost: WINDOW_UPDATE increments the peer has granted to the stream *)
  os_hdr : bool;     (* HEADERS handed to the connection: the peer knows the stream *)
  os_reg : bool;     (* present in cc.streams *)
  os_over : bool }.  (* ghost: some DATA exceeded initial window (as acknowledged at that time) + increments *)

Record oshared := mkSh {
  sh_init : Z;                 (* cc.initialWindowSize = the last SETTINGS_INITIAL_WINDOW_SIZE processed (and acknowledged) *)
  sh_streams : list ostream }.

Inductive pframe := PSettings (v : Z) | PWinUpd (sid inc : Z).

Inductive othread :=
| TOpen (sid : Z) (pc : nat) (remaining : Z)     (* pc 0: not started, 1: newStream done, 2: HEADERS written, 3: registered (sender) *)
| TReader (script : list pframe).

Definition upd (sid : Z) (f : ostream -> ostream) (l : list ostream) : list ostream :=
  map (fun s => if os_id s =? sid then f s else s) l.

Definition has_hdr (sid : Z) (l : list ostream) : bool := existsb (fun s => (os_id s =? sid) && os_hdr s) l.

(* the window the sender of sid sees *)
Definition win_of (sid : Z) (l : list ostream) : Z :=
  match find (fun s => os_id s =? sid) l with Some s => os_win s | None => 0 end.

Definition ostep (atomic : bool) (t : othread) (sh : oshared) : othread * oshared :=
  match t with
  | TOpen sid pc rem =>
    match pc with
    | O => if atomic
           then (TOpen sid 3 rem, mkSh (sh_init sh) (sh_streams sh ++ [mkOs sid (sh_init sh) 0 0 true true false]))
           else (TOpen sid 1 rem, mkSh (sh_init sh) (sh_streams sh ++ [mkOs sid (sh_init sh) 0 0 false false false]))
    | 1%nat => (TOpen sid 2 rem, mkSh (sh_init sh) (upd sid (fun s => mkOs (os_id s) (os_win s) (os_sent s) (os_wu s) true (os_reg s) (os_over s)) (sh_streams sh)))
    | 2%nat => (TOpen sid 3 rem, mkSh (sh_init sh) (upd sid (fun s => mkOs (os_id s) (os_win s) (os_sent s) (os_wu s) (os_hdr s) true (os_over s)) (sh_streams sh)))
    | _ => (* awaitFlowControl + writeData: take what the stream window allows *)
      let take := Z.min (win_of sid (sh_streams sh)) rem in
      if 0 <? take
      then (TOpen sid 3 (rem - take),
            mkSh (sh_init sh)
                 (upd sid (fun s => if take <=? os_win s   (* ids are unique (allocated under cc.mu): this is the stream win_of read *)
                                    then mkOs (os_id s) (os_win s - take) (os_sent s + take) (os_wu s) (os_hdr s) (os_reg s)
                                              (os_over s || (sh_init sh + os_wu s <? os_sent s + take))
                                    else s) (sh_streams sh)))
      else (t, sh)
    end
  | TReader [] => (t, sh)
  | TReader (PSettings v :: r) =>
      (* processSettings: every stream found in cc.streams gets the delta; the SETTINGS is acknowledged *)
      let delta := v - sh_init sh in
      (TReader r, mkSh v (map (fun s => if os_reg s then mkOs (os_id s) (os_win s + delta) (os_sent s) (os_wu s) (os_hdr s) (os_reg s) (os_over s) else s) (sh_streams sh)))
  | TReader (PWinUpd sid inc :: r) =>
      (* the peer can only update a stream it has seen; streamByID finds registered streams only *)
      if has_hdr sid (sh_streams sh)
      then (TReader r, mkSh (sh_init sh)
                            (upd sid (fun s => mkOs (os_id s) (if os_reg s then os_win s + inc else os_win s) (os_sent s) (os_wu s + inc) (os_hdr s) (os_reg s) (os_over s)) (sh_streams sh)))
      else (t, sh)
  end.

Definition orun (atomic : bool) (sched : list nat) (c : list othread * oshared) : list othread * oshared :=
  run (ostep atomic) sched c.

(* RFC 7540 6.9.2: the send window of every stream the peer knows is acknowledged initial window - sent + increments,
   and no DATA ever exceeded the acknowledged credit *)
Definition os_ok (init : Z) (s : ostream) : Prop :=
  os_hdr s = true /\ os_reg s = true /\ os_win s = init - os_sent s + os_wu s /\ os_over s = false.

Definition os_okb (init : Z) (s : ostream) : bool :=
  os_hdr s && os_reg s && (os_win s =? init - os_sent s + os_wu s) && negb (os_over s).
