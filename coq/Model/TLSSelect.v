(* Model of MOSN's TLS policy layer (property C13).  ONLY executable definitions; proofs in Proofs/TLSSelect.v.

   pkg/mtls/tls_context.go
     buildMatch:          ONE set `matches` holding the certificate CN (if non-empty), its DNS SANs,
                          the ALPN protocols of the tls.Config (NextProtos) and server_name (even if "").
                          `lk` says whether the keys are lower-cased on insertion (read from the source
                          by the translator: Gen/TLSTokens.v tls_keys_lowered).
     MatchedServerName:   name := ToLower(sni); strip trailing '.'; exact lookup; then
                          labels := Split(name, "."); for i in 0..len-2: "*" + labels[i+1:] joined.
     MatchedALPN:         any ToLower(client proto) in the set.
     tlsConfigTemplate:   NextProtos = the configured ALPN tokens whose lower-case form is whitelisted.
   pkg/mtls/tls_context_manager.go
     GetConfigForClient:  one pass over the providers (see select_go).
     Conn:                not a TCP conn or no ready provider -> raw conn; inspector off -> TLS;
                          inspector on -> first byte 0x16 -> TLS, anything else -> plaintext.
   pkg/mtls/confighook.go GetClientAuth, tls_context.go SetClientConfig.

   Strings are Coq `string`s of bytes; ToLower is modelled on ASCII only (Go maps non-ASCII runes through
   Unicode tables; the generators stay within ASCII and the notes say so). *)
From Coq Require Import List String Ascii Bool Arith NArith.
Import ListNotations.
Open Scope string_scope.

(* ---------- strings ---------- *)
Definition lower_ascii (c : ascii) : ascii :=
  let n := nat_of_ascii c in
  if andb (Nat.leb 65 n) (Nat.leb n 90) then ascii_of_nat (n + 32) else c.

Fixpoint lower (s : string) : string :=
  match s with
  | EmptyString => EmptyString
  | String c s' => String (lower_ascii c) (lower s')
  end.

Definition is_empty (s : string) : bool := match s with EmptyString => true | _ => false end.

(* for len(name) > 0 && name[len(name)-1] == '.' { name = name[:len(name)-1] } *)
Fixpoint strip_dots (s : string) : string :=
  match s with
  | EmptyString => EmptyString
  | String c s' =>
      let r := strip_dots s' in
      if andb (is_empty r) (Ascii.eqb c ".") then EmptyString else String c r
  end.

Definition normalize (sni : string) : string := strip_dots (lower sni).

(* strings.Split(s, ".") *)
Fixpoint split_dot (s : string) : list string :=
  match s with
  | EmptyString => [EmptyString]
  | String c s' =>
      if Ascii.eqb c "." then EmptyString :: split_dot s'
      else match split_dot s' with
           | [] => [String c EmptyString]
           | l :: ls => String c l :: ls
           end
  end.

(* strings.Join(ls, ".") *)
Fixpoint join_dot (ls : list string) : string :=
  match ls with
  | [] => EmptyString
  | l :: ls' => match ls' with [] => l | _ => l ++ "." ++ join_dot ls' end
  end.

(* the candidates tried after the exact name: i = 0 .. len-2, "*" followed by labels[i+1:] *)
Fixpoint wild_candidates (labels : list string) : list string :=
  match labels with
  | [] => []
  | _ :: rest => match rest with
                 | [] => []
                 | _ => join_dot ("*" :: rest) :: wild_candidates rest
                 end
  end.

Definition mem (x : string) (l : list string) : bool := existsb (String.eqb x) l.

(* every key MatchedServerName looks up, in order *)
Definition lookup_keys (sni : string) : list string :=
  let n := normalize sni in n :: wild_candidates (split_dot n).

Definition matched_server_name (set : list string) (sni : string) : bool :=
  existsb (fun k => mem k set) (lookup_keys sni).

Definition matched_alpn (set : list string) (protos : list string) : bool :=
  existsb (fun q => mem (lower q) set) protos.

(* ---------- providers ---------- *)
Record provider := mkP {
  p_ready : bool;          (* types.TLSProvider.Ready(): static -> true, SDS -> secret received *)
  p_cn : string;           (* Subject.CommonName of the leaf *)
  p_sans : list string;    (* DNS SANs of the leaf *)
  p_alpn_cfg : list string;(* the configured "alpn" string split at "," ([] when the string is empty) *)
  p_sname : string;        (* server_name ("" when not configured) *)
  p_require : bool;        (* require_client_cert *)
  p_verify : bool          (* verify_client *)
}.

(* tlsConfigTemplate: keep the token (as written) when its lower-case form is whitelisted *)
Definition next_protos (white : list string) (p : provider) : list string :=
  filter (fun t => mem (lower t) white) (p_alpn_cfg p).

Definition cert_names (p : provider) : list string :=
  (if is_empty (p_cn p) then [] else [p_cn p]) ++ p_sans p.

Definition key (lk : bool) (s : string) : string := if lk then lower s else s.

(* buildMatch: the ONE mixed set (`mixed` = true, the code in the tree: Gen/TLSTokens.v tls_one_mixed_set);
   with `mixed` = false names and protocols would be kept in two sets (the shape of the repair of the listed finding) *)
Definition match_set (lk : bool) (white : list string) (p : provider) : list string :=
  map (key lk) (cert_names p ++ next_protos white p ++ [p_sname p]).
Definition name_set (lk : bool) (p : provider) : list string := map (key lk) (cert_names p ++ [p_sname p]).
Definition alpn_set (lk : bool) (white : list string) (p : provider) : list string := map (key lk) (next_protos white p).

Definition code_name_match (lk mixed : bool) white p sni :=
  matched_server_name (if mixed then match_set lk white p else name_set lk p) sni.
Definition code_alpn_match (lk mixed : bool) white p protos :=
  matched_alpn (if mixed then match_set lk white p else alpn_set lk white p) protos.

(* GetConfigForClient, written as the code: one pass, two remembered candidates.
   Result: index of the chosen provider; None = ErrorNoCertConfigure. *)
Fixpoint select_go (nm am : provider -> bool) (ps : list provider) (i : nat)
         (dflt first_alpn : option nat) : option nat :=
  match ps with
  | [] => match first_alpn with Some a => Some a | None => dflt end
  | p :: ps' =>
      if negb (p_ready p) then select_go nm am ps' (S i) dflt first_alpn
      else
        let dflt' := match dflt with None => Some i | Some _ => dflt end in
        if nm p then Some i
        else
          let fa' := match first_alpn with
                     | None => if am p then Some i else None
                     | Some _ => first_alpn
                     end in
          select_go nm am ps' (S i) dflt' fa'
  end.

Definition select (lk mixed : bool) (white : list string) (ps : list provider) (sni : string) (protos : list string) : option nat :=
  select_go (fun p => code_name_match lk mixed white p sni) (fun p => code_alpn_match lk mixed white p protos) ps 0 None None.

(* ---------- the documented precedence ---------- *)
Fixpoint find_index {A} (f : A -> bool) (l : list A) (i : nat) : option nat :=
  match l with
  | [] => None
  | x :: l' => if f x then Some i else find_index f l' (S i)
  end.

(* first ready provider satisfying nm, else first ready provider satisfying am, else first ready provider *)
Definition precedence (nm am : provider -> bool) (ps : list provider) : option nat :=
  match find_index (fun p => andb (p_ready p) (nm p)) ps 0 with
  | Some i => Some i
  | None => match find_index (fun p => andb (p_ready p) (am p)) ps 0 with
            | Some i => Some i
            | None => find_index p_ready ps 0
            end
  end.

(* names and ALPN kept apart.  `lit` = the literal reading of an absent SNI / unset server_name:
   both are the empty string and match each other; with lit = false an unset server_name is no name. *)
Definition spec_names (lit : bool) (p : provider) : list string :=
  map lower (cert_names p ++ (if andb (negb lit) (is_empty (p_sname p)) then [] else [p_sname p])).
Definition spec_alpn (white : list string) (p : provider) : list string := map lower (next_protos white p).

Definition spec_name_match lit p sni := matched_server_name (spec_names lit p) sni.
Definition spec_alpn_match white p protos := matched_alpn (spec_alpn white p) protos.

Definition spec_select (lit : bool) (white : list string) (ps : list provider) (sni : string) (protos : list string) : option nat :=
  precedence (fun p => spec_name_match lit p sni) (fun p => spec_alpn_match white p protos) ps.

(* the side condition: on every ready provider, no key looked up for the SNI is there only because it is an ALPN
   token, and no client protocol is there only because it is a name *)
Definition no_clash_p (white : list string) (sni : string) (protos : list string) (p : provider) : bool :=
  andb (forallb (fun k => implb (mem k (spec_alpn white p)) (mem k (spec_names true p))) (lookup_keys sni))
       (forallb (fun q => implb (mem (lower q) (spec_names true p)) (mem (lower q) (spec_alpn white p))) protos).
Definition no_clash white ps sni protos : bool :=
  forallb (fun p => implb (p_ready p) (no_clash_p white sni protos p)) ps.

(* ---------- client authentication ---------- *)
Inductive auth_mode := NoClientCert | RequestClientCert | VerifyClientCertIfGiven | RequireAndVerifyClientCert.

(* confighook.go GetClientAuth(require_client_cert, verify_client) *)
Definition client_auth (require verify : bool) : auth_mode :=
  if andb require verify then RequireAndVerifyClientCert
  else if verify then VerifyClientCertIfGiven
  else if require then RequestClientCert
  else NoClientCert.

(* relation between the certificate the peer presents and the configured CA *)
Inductive peer_rel := PeerNone | PeerSelfSigned | PeerOtherCA | PeerRightCA | PeerExpired.

(* SPECIFICATION of crypto/tls (trusted, validated by real handshakes): does a server in this mode complete the handshake? *)
Definition accepts (m : auth_mode) (r : peer_rel) : bool :=
  match m with
  | NoClientCert => true
  | RequestClientCert => true
  | VerifyClientCertIfGiven => match r with PeerNone | PeerRightCA => true | _ => false end
  | RequireAndVerifyClientCert => match r with PeerRightCA => true | _ => false end
  end.

(* upstream side: tls_context.go SetClientConfig with the default hooks.
   insecure_skip -> InsecureSkipVerify; otherwise the chain must verify against ca_cert and the
   certificate must be valid for server_name. *)
Definition upstream_accepts (insecure_skip : bool) (r : peer_rel) (name_ok : bool) : bool :=
  orb insecure_skip (andb (match r with PeerRightCA => true | _ => false end) name_ok).

(* the CA an upstream (cluster) TLS config trusts, and who issued the certificate the upstream presents.
   CaNone: no ca_cert; CaSdsNoValidation: SDS secret without a validation context.  In both cases the x509 pool is nil,
   which for crypto/tls means the HOST's root set - the certificates of a test CA never chain to it. *)
Inductive ca_cfg := CaRight | CaOther | CaNone | CaSdsNoValidation.
Inductive issuer := IssRight | IssOther | IssSelf.
Inductive name_cfg := NameMatches | NameDiffers | NameUnset.

Definition issued_by_configured_ca (ca : ca_cfg) (i : issuer) : bool :=
  match ca, i with CaRight, IssRight => true | CaOther, IssOther => true | _, _ => false end.

(* relation of the presented certificate to the configured CA *)
Definition peer_rel_of (ca : ca_cfg) (i : issuer) (expired : bool) : peer_rel :=
  match i with
  | IssSelf => PeerSelfSigned
  | _ => if issued_by_configured_ca ca i then (if expired then PeerExpired else PeerRightCA) else PeerOtherCA
  end.

(* SetClientConfig with the default hooks, every dimension: without insecure_skip the handshake completes only for a valid
   chain to the configured CA AND a configured server_name the certificate is valid for (an unset server_name makes
   crypto/tls refuse the config: "either ServerName or InsecureSkipVerify must be specified") *)
Definition upstream_handshake (insecure_skip : bool) (ca : ca_cfg) (i : issuer) (expired : bool) (n : name_cfg) : bool :=
  upstream_accepts insecure_skip (peer_rel_of ca i expired) (match n with NameMatches => true | _ => false end).

(* ---------- Conn(): TLS or plaintext ---------- *)
Inductive conn_mode := ModeRaw | ModeTLS | ModePlain.
Definition conn_mode_of (is_tcp any_ready inspector : bool) (first_byte : N) : conn_mode :=
  if negb is_tcp then ModeRaw
  else if negb any_ready then ModeRaw
  else if negb inspector then ModeTLS
  else if N.eqb first_byte 22 then ModeTLS else ModePlain.
Definition serves_plain (m : conn_mode) : bool := match m with ModeTLS => false | _ => true end.

(* ---------- the manager of a listener over a history of configurations ----------
   A listener (one name) is configured again and again (LDS updates): each configuration = (TLS contexts as an opaque
   token list, inspector).  NewTLSServerContextManager is called for each; the manager IN FORCE is the last one returned.
   `cached` (Gen/TLSTokens.v tls_manager_cached) = the constructor may return an earlier manager of the same listener
   when the contexts are unchanged (the code in the tree builds a fresh manager on every call: cached = false). *)
Definition lcfg := (list nat * bool)%type.           (* contexts, inspector *)
Definition built (c : lcfg) : lcfg := c.              (* what a manager remembers: the contexts and the inspector flag it was built with *)
Definition nat_list_eqb (a b : list nat) : bool :=
  andb (Nat.eqb (List.length a) (List.length b)) (forallb (fun xy => Nat.eqb (fst xy) (snd xy)) (combine a b)).
Definition next_manager (cached : bool) (cur : option lcfg) (c : lcfg) : lcfg :=
  match cur with
  | Some m => if andb cached (nat_list_eqb (fst m) (fst c)) then m else built c
  | None => built c
  end.
Fixpoint manager_after (cached : bool) (cur : option lcfg) (h : list lcfg) : option lcfg :=
  match h with
  | [] => cur
  | c :: h' => manager_after cached (Some (next_manager cached cur c)) h'
  end.
(* what a connection meets on the listener after the history h (a context list [] = no ready provider) *)
Definition mode_after (cached : bool) (h : list lcfg) (first_byte : N) : option conn_mode :=
  match manager_after cached None h with
  | Some (ctxs, insp) => Some (conn_mode_of true (negb (match ctxs with [] => true | _ => false end)) insp first_byte)
  | None => None
  end.

(* ---------- the manager of a RUNNING listener over a history of AddOrUpdateListener calls ----------
   pkg/server/handler.go connHandler.AddOrUpdateListener: the first call adds the listener (manager built from the request);
   later calls take the update branch: fields of the running listener's rawConfig are assigned from the request one by one
   and the manager is rebuilt by mtls.NewTLSServerContextManager(rawConfig).  Switches (Gen/TLSTokens.v
   tls_update_ctxs_before_manager, tls_update_insp_before_manager): the TLS contexts / the inspector flag of rawConfig are
   assigned BEFORE that call; with a switch off the field reaches rawConfig only afterwards, so the manager is built with the
   value of the PREVIOUS update while the stored config already shows the new one. *)
Record lrun := mkLR { lr_mgr : lcfg; lr_raw : lcfg }.
Definition lis_update (cb ib : bool) (cur : option lrun) (c : lcfg) : lrun :=
  match cur with
  | None => mkLR (built c) c
  | Some s => mkLR (built (if cb then fst c else fst (lr_raw s), if ib then snd c else snd (lr_raw s))) c
  end.
Fixpoint lis_after (cb ib : bool) (cur : option lrun) (h : list lcfg) : option lrun :=
  match h with
  | [] => cur
  | c :: h' => lis_after cb ib (Some (lis_update cb ib cur c)) h'
  end.
Definition lis_mode_after (cb ib : bool) (h : list lcfg) (first_byte : N) : option conn_mode :=
  match lis_after cb ib None h with
  | Some s => Some (conn_mode_of true (negb (match fst (lr_mgr s) with [] => true | _ => false end)) (snd (lr_mgr s)) first_byte)
  | None => None
  end.
(* what clients see after the history: is a plaintext client (first byte 'p') served; the certificate a TLS client gets
   (the first context; 0 = no TLS handshake possible) *)
Definition lis_observe (cb ib : bool) (h : list lcfg) : option (bool * nat) :=
  match lis_after cb ib None h, lis_mode_after cb ib h 112, lis_mode_after cb ib h 22 with
  | Some s, Some mp, Some mt => Some (serves_plain mp, match mt with ModeTLS => hd 0%nat (fst (lr_mgr s)) | _ => 0%nat end)
  | _, _, _ => None
  end.

(* ---------- the context of an SDS provider over a history of pushes and config updates ----------
   secret_manager.go: the certificate secret, the validation (CA) secret and the TLSConfig of an SDS provider arrive
   separately and repeatedly; each arrival ends in sdsProvider.update(), which - once certificate and CA are present -
   builds a context from the CURRENT secret + config and installs it.  `always` (Gen/TLSTokens.v
   sds_update_always_installs) = nothing between building and installing can keep the old context; with always = false the
   model keeps the old context when the new one has the same hash (GenerateHashValue covers the certificate, ALPN and the
   client-auth mode only - not server_name, the CA, insecure_skip). *)
Record scfg := mkSC { sc_sname : nat; sc_alpn : nat; sc_require : bool; sc_verify : bool; sc_skip : bool }.
Record sctx := mkSX { sx_cert : nat; sx_ca : nat; sx_cfg : scfg }.
Record sprov := mkSP { sp_cert : option nat; sp_ca : option nat; sp_cfg : scfg; sp_ctx : option sctx }.
Inductive sev := EvCert (c : nat) | EvCA (a : nat) | EvCfg (c : scfg).

Definition sx_hash (x : sctx) : nat * nat * bool * bool :=
  (sx_cert x, sc_alpn (sx_cfg x), sc_require (sx_cfg x), sc_verify (sx_cfg x)).
Definition hash_eqb (a b : nat * nat * bool * bool) : bool :=
  match a, b with (a1, a2, a3, a4), (b1, b2, b3, b4) =>
    andb (andb (Nat.eqb a1 b1) (Nat.eqb a2 b2)) (andb (Bool.eqb a3 b3) (Bool.eqb a4 b4)) end.

Definition sp_update (always : bool) (p : sprov) : sprov :=
  match sp_cert p, sp_ca p with
  | Some c, Some a =>
      let nw := mkSX c a (sp_cfg p) in
      match sp_ctx p with
      | Some old => if andb (negb always) (hash_eqb (sx_hash old) (sx_hash nw)) then p
                    else mkSP (sp_cert p) (sp_ca p) (sp_cfg p) (Some nw)
      | None => mkSP (sp_cert p) (sp_ca p) (sp_cfg p) (Some nw)
      end
  | _, _ => p
  end.
Definition sp_step (always : bool) (p : sprov) (e : sev) : sprov :=
  sp_update always
    match e with
    | EvCert c => mkSP (Some c) (sp_ca p) (sp_cfg p) (sp_ctx p)
    | EvCA a => mkSP (sp_cert p) (Some a) (sp_cfg p) (sp_ctx p)
    | EvCfg c => mkSP (sp_cert p) (sp_ca p) c (sp_ctx p)
    end.
Definition provider_after (always : bool) (cfg0 : scfg) (h : list sev) : sprov :=
  fold_left (sp_step always) h (sp_update always (mkSP None None cfg0 None)).

(* ---------- file-backed material over a history of configuration applications ----------
   A TLS config may name FILES (ca_cert, cert_chain, private_key paths).  Every application of a configuration (listener
   add/update -> NewTLSServerContextManager, cluster add/update -> NewTLSClientContextManager) reads the files as they are AT
   THAT MOMENT.  An application = (path of the CA file, path of the certificate file, snapshot of the file contents then);
   contents are opaque tokens.  `cached` (Gen/TLSTokens.v tls_ca_pool_cached) = GetX509Pool keeps parsed pools in a
   process-wide table keyed by the path (the tree reads the file on every call: cached = false). *)
Definition fsnap := list (nat * nat).
Fixpoint fget (fs : fsnap) (p : nat) : nat :=
  match fs with [] => 0 | (q, c) :: r => if Nat.eqb q p then c else fget r p end.
Fixpoint ffind (fs : fsnap) (p : nat) : option nat :=
  match fs with [] => None | (q, c) :: r => if Nat.eqb q p then Some c else ffind r p end.
Record fapply := mkFA { fa_ca : nat; fa_cert : nat; fa_files : fsnap }.
(* the policy in force: whose certificates are trusted (content of the CA file), which certificate is presented *)
Definition fpolicy := (nat * nat)%type.
Definition apply_cfg (cached : bool) (cache : fsnap) (a : fapply) : fpolicy * fsnap :=
  let now := fget (fa_files a) (fa_ca a) in
  let ca := if cached then match ffind cache (fa_ca a) with Some c => c | None => now end else now in
  ((ca, fget (fa_files a) (fa_cert a)), if cached then (match ffind cache (fa_ca a) with Some _ => cache | None => (fa_ca a, now) :: cache end) else cache).
Fixpoint policy_from (cached : bool) (cache : fsnap) (cur : option fpolicy) (h : list fapply) : option fpolicy :=
  match h with
  | [] => cur
  | a :: h' => let (p, cache') := apply_cfg cached cache a in policy_from cached cache' (Some p) h'
  end.
Definition policy_after (cached : bool) (h : list fapply) : option fpolicy := policy_from cached [] None h.

(* ---------- correspondence cases ---------- *)
Fixpoint mismatches_from {A} (ok : A -> bool) (i : nat) (l : list A) : list nat :=
  match l with
  | [] => []
  | x :: l' => if ok x then mismatches_from ok (S i) l' else i :: mismatches_from ok (S i) l'
  end.

Definition opt_nat_eqb (a b : option nat) : bool :=
  match a, b with Some x, Some y => Nat.eqb x y | None, None => true | _, _ => false end.

(* tls.ClientAuthType values *)
Definition auth_code (m : auth_mode) : N :=
  match m with NoClientCert => 0 | RequestClientCert => 1 | VerifyClientCertIfGiven => 3 | RequireAndVerifyClientCert => 4 end.

(* what the tls.Config handed to crypto/tls for provider p carries: ClientAuth and NextProtos *)
Definition effective (white : list string) (p : provider) : N * list string :=
  (auth_code (client_auth (p_require p) (p_verify p)), next_protos white p).

Definition str_list_eqb (a b : list string) : bool :=
  andb (Nat.eqb (List.length a) (List.length b)) (forallb (fun xy => String.eqb (fst xy) (snd xy)) (combine a b)).

(* providers, sni, client protos, index the real GetConfigForClient chose, ClientAuth and NextProtos of the returned config *)
Definition sel_case := (list provider * string * list string * option nat * N * list string)%type.
Definition sel_case_ok lk mixed white (k : sel_case) : bool :=
  match k with (ps, sni, protos, got, gauth, gprotos) =>
    andb (opt_nat_eqb (select lk mixed white ps sni protos) got)
         (match got with
          | None => true
          | Some i => match nth_error ps i with
                      | None => false
                      | Some p => andb (N.eqb (fst (effective white p)) gauth) (str_list_eqb (snd (effective white p)) gprotos)
                      end
          end)
  end.
Definition sel_mismatches lk mixed white (l : list sel_case) : list nat := mismatches_from (sel_case_ok lk mixed white) 0 l.

(* one provider, a string, the real MatchedServerName answer, a proto list, the real MatchedALPN answer *)
Definition match_case := (provider * string * bool * list string * bool)%type.
Definition match_case_ok lk mixed white (k : match_case) : bool :=
  match k with (p, sni, gn, protos, ga) =>
    andb (Bool.eqb (code_name_match lk mixed white p sni) gn) (Bool.eqb (code_alpn_match lk mixed white p protos) ga) end.
Definition match_mismatches lk mixed white (l : list match_case) : list nat := mismatches_from (match_case_ok lk mixed white) 0 l.

(* server handshake: require, verify, relation, accepted by the real server *)
Definition auth_case := (bool * bool * peer_rel * bool)%type.
Definition auth_case_ok (k : auth_case) : bool :=
  match k with (rq, vf, r, got) => Bool.eqb (accepts (client_auth rq vf) r) got end.
Definition auth_mismatches (l : list auth_case) : list nat := mismatches_from auth_case_ok 0 l.

(* upstream handshake: insecure_skip, relation, name_ok, accepted by the real MOSN client *)
Definition up_case := (bool * ca_cfg * issuer * bool * name_cfg * bool)%type.
Definition up_case_ok (k : up_case) : bool :=
  match k with (sk, ca, i, ex, n, got) => Bool.eqb (upstream_handshake sk ca i ex n) got end.
Definition up_mismatches (l : list up_case) : list nat := mismatches_from up_case_ok 0 l.

(* Conn(): any_ready, inspector, first byte, observed: 0 raw, 1 tls, 2 plain *)
Definition mode_code (m : conn_mode) : N := match m with ModeRaw => 0 | ModeTLS => 1 | ModePlain => 2 end.
Definition insp_case := (bool * bool * N * N)%type.
Definition insp_case_ok (k : insp_case) : bool :=
  match k with (ar, insp, b, got) => N.eqb (mode_code (conn_mode_of true ar insp b)) got end.
Definition insp_mismatches (l : list insp_case) : list nat := mismatches_from insp_case_ok 0 l.

(* file-backed history: applications, observed (CA whose clients the server accepts, certificate the server presents, CA
   whose upstreams the client side accepts); 0 = none, 3 = both *)
Definition file_case := (list fapply * (nat * nat * nat))%type.
Definition file_case_ok (cached : bool) (k : file_case) : bool :=
  match k with (h, (sca, cert, cca)) =>
    match policy_after cached h with
    | Some (ca, ce) => andb (andb (Nat.eqb ca sca) (Nat.eqb ca cca)) (Nat.eqb ce cert)
    | None => false
    end end.
Definition file_mismatches (cached : bool) (l : list file_case) : list nat := mismatches_from (file_case_ok cached) 0 l.

(* SDS provider: initial config, history, observed context in force: None = not ready, else
   (certificate, CA trusted, server_name that selects it, ALPN, ClientAuth code, insecure_skip of the client side) *)
Definition sds_case := (scfg * list sev * option (nat * nat * nat * nat * N * bool))%type.
Definition sds_case_ok (always : bool) (k : sds_case) : bool :=
  match k with (c0, h, got) =>
    match sp_ctx (provider_after always c0 h), got with
    | None, None => true
    | Some x, Some (gc, ga, gs, gal, gau, gsk) =>
        let c := sx_cfg x in
        andb (andb (andb (Nat.eqb (sx_cert x) gc) (Nat.eqb (sx_ca x) ga)) (andb (Nat.eqb (sc_sname c) gs) (Nat.eqb (sc_alpn c) gal)))
             (andb (N.eqb (auth_code (client_auth (sc_require c) (sc_verify c))) gau) (Bool.eqb (sc_skip c) gsk))
    | _, _ => false
    end
  end.
Definition sds_mismatches (always : bool) (l : list sds_case) : list nat := mismatches_from (sds_case_ok always) 0 l.

(* AddOrUpdateListener history of one running listener, plaintext client served?, certificate seen by a TLS client *)
Definition lis_case := (list lcfg * bool * nat)%type.
Definition lis_case_ok (cb ib : bool) (k : lis_case) : bool :=
  match k with (h, plain, cert) =>
    match lis_observe cb ib h with Some (p, c) => andb (Bool.eqb p plain) (Nat.eqb c cert) | None => false end end.
Definition lis_mismatches (cb ib : bool) (l : list lis_case) : list nat := mismatches_from (lis_case_ok cb ib) 0 l.

(* update history of one listener name, first byte of a client, observed mode (0 raw, 1 tls, 2 plain) *)
Definition upd_case := (list lcfg * N * N)%type.
Definition upd_case_ok (cached : bool) (k : upd_case) : bool :=
  match k with (h, b, got) =>
    match mode_after cached h b with Some m => N.eqb (mode_code m) got | None => false end end.
Definition upd_mismatches (cached : bool) (l : list upd_case) : list nat := mismatches_from (upd_case_ok cached) 0 l.
