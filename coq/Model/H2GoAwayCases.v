(* Model/H2GoAwayCases.v (group h2): comparison functions of the C11 (HTTP/2) correspondence shards. *)
From Coq Require Import List NArith Bool.
From MV Require Import Lib.HBits Lib.HCaseIO Model.H2GoAway.
Import ListNotations.
Open Scope N_scope.

Definition optN_eqb (a b : option N) : bool :=
  match a, b with Some x, Some y => x =? y | None, None => true | _, _ => false end.

(* (history of one server connection, last-stream-id of the GOAWAY read back (None: no GOAWAY), streams answered in order,
   connection closed by the server) *)
Definition gsrv_case := (list gev * option N * list N * bool)%type.
Definition gsrv_check (c : gsrv_case) : bool :=
  let '(h, ga, answers, closed) := c in
  let x := gsrv_run gsw_src h in
  let gas := flat_map (fun f => match f with SGoAway l => [l] | _ => [] end) (snd x) in
  let ans := flat_map (fun f => match f with SResp id => [id] | _ => [] end) (snd x) in
  optN_eqb (match rev gas with l :: _ => Some l | [] => None end) ga
  && Nat.leb (length gas) 1
  && list_eqb N.eqb ans answers
  && Bool.eqb (s_closed (fst x)) closed.
Definition gsrv_mismatches := mismatches gsrv_check.

(* (streams opened: 1, 3, .. 2n-1; last-stream-id of the GOAWAY(NO_ERROR) received; streams answered afterwards;
   (stream, class) when the connection goes away; OnGoAway reached the connection's listener) *)
Definition gcli_case := (N * N * list N * list (N * N) * bool)%type.
Definition gcli_check (c : gcli_case) : bool :=
  let '(n, last, resps, classes, notified) := c in
  let ids := map (fun k => 2 * N.of_nat k + 1) (seq 0 (N.to_nat n)) in
  let c0 := mkCli (2 * n + 1) ids [] None [] 0 in
  let c1 := fold_left (cli_read gsw_src) (SGoAway last :: map SResp resps) c0 in
  list_eqb (fun a b => (fst a =? fst b) && (snd a =? snd b)) (map (fun id => (id, cli_class c1 id)) ids) classes
  && Bool.eqb (match c_ga c1 with Some _ => true | None => false end) notified.
Definition gcli_mismatches := mismatches gcli_check.
