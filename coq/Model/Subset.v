(* Model of pkg/upstream/cluster/subset_loadbalancer.go (filtering builder, findSubset, ChooseHost / HostNum /
   IsExistsHosts, fallback policies) and subset_loadbalancer_builder.go (pre-indexed builder).
   ONLY executable definitions; proofs are in Proofs/Subset.v.

   Metadata keys and values are numbered (order-preserving numbering of the strings, done by the harness);
   host metadata is an association list with unique keys (a Go map).  Selector key lists are the ones produced
   by GenerateSubsetKeys (sorted, de-duplicated); criteria are the list held by the MetadataMatchCriteria.
   The trie key -> value -> entry is a tree whose edges are (key, value) pairs; an entry holds the host list of
   its load balancer when it has one (Initialized()).
   The inner balancer is a parameter `inner : list shost -> option shost` (C05 is about it).
   Abstracted: the intsets.Sparse inverted index of the pre-indexed builder is modelled by its meaning
   (filterHosts kvs = the hosts, in host-set order, whose metadata contain all pairs). *)
From Coq Require Import List Arith Bool.
Import ListNotations.

Definition kv := (nat * nat)%type.
Definition path := list kv.
Record shost := mkSH { sid : nat; smeta : list kv; shealthy : bool }.

Fixpoint lookup (k : nat) (m : list kv) : option nat :=
  match m with
  | [] => None
  | (k', v) :: m' => if Nat.eqb k k' then Some v else lookup k m'
  end.

(* HostMatches *)
Definition pair_ok (m : list kv) (p : kv) : bool :=
  match lookup (fst p) m with Some v => Nat.eqb v (snd p) | None => false end.
Definition host_matches (kvs : path) (h : shost) : bool := forallb (pair_ok (smeta h)) kvs.

(* ExtractSubsetMetadata: all keys must be present, else the empty list *)
Fixpoint extract (keys : list nat) (m : list kv) : option path :=
  match keys with
  | [] => Some []
  | k :: ks => match lookup k m, extract ks m with
               | Some v, Some r => Some ((k, v) :: r)
               | _, _ => None
               end
  end.
Definition extract_kvs (keys : list nat) (m : list kv) : path :=
  match extract keys m with Some r => r | None => [] end.

(* setFinalHost: distinct by address, first occurrence kept *)
Fixpoint dedup_ids (seen : list nat) (hs : list shost) : list shost :=
  match hs with
  | [] => []
  | h :: hs' => if existsb (Nat.eqb (sid h)) seen then dedup_ids seen hs' else h :: dedup_ids (sid h :: seen) hs'
  end.
(* CreateSubset (filtering builder) / filterHosts (pre-indexed builder) *)
Definition create_subset (hs : list shost) (kvs : path) : list shost := dedup_ids [] (filter (host_matches kvs) hs).
Definition filter_hosts (hs : list shost) (kvs : path) : list shost := filter (host_matches kvs) hs.

(* ---------------- the trie ---------------- *)
Inductive trie := TNode (lb : option (list shost)) (kids : list (kv * trie)).
Definition empty_trie : trie := TNode None [].

Definition kv_eqb (a b : kv) : bool := Nat.eqb (fst a) (fst b) && Nat.eqb (snd a) (snd b).
Fixpoint assoc {A} (k : kv) (l : list (kv * A)) : option A :=
  match l with
  | [] => None
  | (k', a) :: l' => if kv_eqb k k' then Some a else assoc k l'
  end.
Fixpoint upd {A} (k : kv) (f : option A -> A) (l : list (kv * A)) : list (kv * A) :=
  match l with
  | [] => [(k, f None)]
  | (k', a) :: l' => if kv_eqb k k' then (k', f (Some a)) :: l' else (k', a) :: upd k f l'
  end.

(* findOrCreateSubset along kvs, then `f` applied to the load balancer slot of the entry reached *)
Fixpoint insert (q : path) (f : option (list shost) -> option (list shost)) (t : trie) : trie :=
  match q with
  | [] => match t with TNode lb kids => TNode (f lb) kids end
  | e :: rest =>
      match t with
      | TNode lb kids =>
          TNode lb (upd e (fun o => insert rest f (match o with Some s => s | None => empty_trie end)) kids)
      end
  end.

Fixpoint find (p : path) (t : trie) : option trie :=
  match p with
  | [] => Some t
  | e :: rest => match t with TNode _ kids => match assoc e kids with Some s => find rest s | None => None end end
  end.

(* findSubset: nil for empty criteria (the Go loop body never runs) *)
Definition find_subset (criteria : path) (root : trie) : option trie :=
  match criteria with [] => None | _ => find criteria root end.

(* entry != nil && entry.Active(): the hosts of an initialised entry with at least one host *)
Definition active_entry (criteria : path) (root : trie) : option (list shost) :=
  match find_subset criteria root with
  | Some (TNode (Some l) _) => match l with [] => None | _ => Some l end
  | _ => None
  end.

(* ---------------- builder 1: subset_loadbalancer.go createSubsets ---------------- *)
Definition init_if_none (l : list shost) (o : option (list shost)) : option (list shost) :=
  match o with Some x => Some x | None => Some l end.

Definition b1_host (hs : list shost) (selectors : list (list nat)) (t : trie) (h : shost) : trie :=
  fold_left (fun t keys =>
               match extract_kvs keys (smeta h) with
               | [] => t
               | kvs => insert kvs (init_if_none (create_subset hs kvs)) t
               end) selectors t.
Definition build1 (hs : list shost) (selectors : list (list nat)) : trie :=
  fold_left (b1_host hs selectors) hs empty_trie.

(* ---------------- builder 2: subset_loadbalancer_builder.go ---------------- *)
Fixpoint nodup_nat (l : list nat) : list nat :=
  match l with
  | [] => []
  | x :: l' => if existsb (Nat.eqb x) l' then nodup_nat l' else x :: nodup_nat l'
  end.
(* the values of the inverted index for a key (any order: Go map iteration) *)
Definition values (hs : list shost) (k : nat) : list nat :=
  nodup_nat (flat_map (fun h => match lookup k (smeta h) with Some v => [v] | None => [] end) hs).
(* metadataCombinations: cartesian product of the values seen for each key *)
Fixpoint combos (hs : list shost) (keys : list nat) : list path :=
  match keys with
  | [] => [[]]
  | k :: ks => flat_map (fun v => map (cons (k, v)) (combos hs ks)) (values hs k)
  end.
Definition set_if_nonempty (l : list shost) (o : option (list shost)) : option (list shost) :=
  match l with [] => o | _ => Some l end.
(* a selector without keys is skipped (the guard added by the repair; before it keys[0] panicked) *)
Definition b2_selector (hs : list shost) (t : trie) (keys : list nat) : trie :=
  match keys with
  | [] => t
  | _ => fold_left (fun t kvs => insert kvs (set_if_nonempty (filter_hosts hs kvs)) t) (combos hs keys) t
  end.
Definition build2 (hs : list shost) (selectors : list (list nat)) : trie :=
  fold_left (b2_selector hs) selectors empty_trie.

(* ---------------- filterHosts of the pre-indexed builder, shape read from the source (Gen/SubsetTokens.v) --------
   The inverted index maps a (key, value) pair to the set of positions of the hosts carrying it; a pair is KNOWN when
   that set exists, i.e. when some host carries the pair.  filterHosts(kvs):
     FHAllPairs    : no pairs => all hosts; a pair that is not known => no host; otherwise the intersection of the
                     sets of ALL pairs (hosts, in host-set order, carrying every pair)
     FHSkipUnknown : pairs that are not known are skipped; no known pair => no host; otherwise the intersection of
                     the sets of the known pairs only
   (the Sparse sets themselves are modelled by their meaning) *)
Inductive fh_shape := FHAllPairs | FHSkipUnknown.
Definition pair_known (hs : list shost) (p : kv) : bool := existsb (fun h => pair_ok (smeta h) p) hs.
Definition filter_hosts_ix (m : fh_shape) (hs : list shost) (kvs : path) : list shost :=
  match kvs with
  | [] => hs
  | _ =>
      match m with
      | FHAllPairs => if forallb (pair_known hs) kvs then filter (host_matches kvs) hs else []
      | FHSkipUnknown =>
          match filter (pair_known hs) kvs with
          | [] => []
          | ks => filter (host_matches ks) hs
          end
      end
  end.
Definition b2x_selector (m : fh_shape) (hs : list shost) (t : trie) (keys : list nat) : trie :=
  match keys with
  | [] => t
  | _ => fold_left (fun t kvs => insert kvs (set_if_nonempty (filter_hosts_ix m hs kvs)) t) (combos hs keys) t
  end.
Definition build2x (m : fh_shape) (hs : list shost) (selectors : list (list nat)) : trie :=
  fold_left (b2x_selector m hs) selectors empty_trie.

(* ---------------- fallback ---------------- *)
Inductive fallback_policy := NoFallBack | AnyEndPoint | DefaultSubset.
Definition fallback1 (hs : list shost) (pol : fallback_policy) (dflt : path) : option (list shost) :=
  match pol with NoFallBack => None | AnyEndPoint => Some hs | DefaultSubset => Some (create_subset hs dflt) end.
Definition fallback2 (hs : list shost) (pol : fallback_policy) (dflt : path) : option (list shost) :=
  match pol with NoFallBack => None | AnyEndPoint => Some hs | DefaultSubset => Some (filter_hosts hs dflt) end.

(* ---------------- selector normalisation: types.InitSet + GenerateSubsetKeys ----------------
   InitSet: the keys of one configured selector, de-duplicated and sorted (the model inserts each key into a
   strictly sorted list - same result as "drop repeats, then sort").  GenerateSubsetKeys: the normalised selectors
   in configuration order, a selector being dropped only when an EQUAL key list is already present
   (reflect.DeepEqual on the sorted key lists). *)
Fixpoint insert_uniq (x : nat) (l : list nat) : list nat :=
  match l with
  | [] => [x]
  | y :: l' => if Nat.ltb x y then x :: l else if Nat.eqb x y then l else y :: insert_uniq x l'
  end.
Definition init_set (keys : list nat) : list nat := fold_right insert_uniq [] keys.
Fixpoint keys_eqb (a b : list nat) : bool :=
  match a, b with [], [] => true | x :: a', y :: b' => Nat.eqb x y && keys_eqb a' b' | _, _ => false end.
Definition generate_subset_keys (cfg : list (list nat)) : list (list nat) :=
  fold_left (fun acc keys => let s := init_set keys in if existsb (keys_eqb s) acc then acc else acc ++ [s]) cfg [].

(* ---------------- the balancer: (all hosts, trie, fallback hosts) ---------------- *)
Record sslb := mkS { s_hosts : list shost; s_trie : trie; s_fallback : option (list shost) }.
Definition make1 hs selectors pol dflt := mkS hs (build1 hs selectors) (fallback1 hs pol dflt).
Definition make2 hs selectors pol dflt := mkS hs (build2 hs selectors) (fallback2 hs pol dflt).
Definition fallback2x (m : fh_shape) (hs : list shost) (pol : fallback_policy) (dflt : path) : option (list shost) :=
  match pol with NoFallBack => None | AnyEndPoint => Some hs | DefaultSubset => Some (filter_hosts_ix m hs dflt) end.
Definition make2x m hs selectors pol dflt := mkS hs (build2x m hs selectors) (fallback2x m hs pol dflt).

(* criteria: None = nil MetadataMatchCriteria *)
Definition first_try (b : sslb) (criteria : option path) : option (list shost) :=
  match criteria with None => Some (s_hosts b) | Some c => active_entry c (s_trie b) end.

Definition choose_host (inner : list shost -> option shost) (b : sslb) (criteria : option path) : option shost :=
  match match first_try b criteria with Some l => inner l | None => None end with
  | Some h => Some h
  | None => match s_fallback b with Some fl => inner fl | None => None end
  end.

Definition host_num (b : sslb) (criteria : option path) : nat :=
  match criteria with
  | None => length (s_hosts b)
  | Some c => match active_entry c (s_trie b) with
              | Some l => length l
              | None => match s_fallback b with Some fl => length fl | None => 0 end
              end
  end.
Definition is_exists (b : sslb) (criteria : option path) : bool :=
  match criteria with
  | None => negb (Nat.eqb (length (s_hosts b)) 0)
  | Some c => match active_entry c (s_trie b) with
              | Some _ => true
              | None => match s_fallback b with Some fl => negb (Nat.eqb (length fl) 0) | None => false end
              end
  end.

(* ---------------- correspondence ---------------- *)
(* the set of hosts ChooseHost can return with an inner balancer that returns every healthy host of its set *)
Definition healthy_ids (l : list shost) : list nat := map sid (filter shealthy l).
Definition choose_set (b : sslb) (criteria : option path) : list nat :=
  match match first_try b criteria with Some l => healthy_ids l | None => [] end with
  | [] => match s_fallback b with Some fl => healthy_ids fl | None => [] end
  | ids => ids
  end.

Fixpoint insert_sorted (x : nat) (l : list nat) : list nat :=
  match l with [] => [x] | y :: l' => if Nat.leb x y then x :: l else y :: insert_sorted x l' end.
Definition sort_ids (l : list nat) : list nat := fold_right insert_sorted [] l.
Fixpoint nat_list_eqb (a b : list nat) : bool :=
  match a, b with [], [] => true | x :: a', y :: b' => Nat.eqb x y && nat_list_eqb a' b' | _, _ => false end.

(* one query: criteria, (HostNum, IsExistsHosts, sorted ids ChooseHost returned) for each builder *)
Definition ss_obs := (nat * bool * list nat)%type.
Definition ss_query := (option path * ss_obs * ss_obs)%type.
(* hosts, CONFIGURED selectors, the selector list GenerateSubsetKeys produced, policy, default subset, queries *)
Definition ss_case := (list shost * list (list nat) * list (list nat) * fallback_policy * path * list ss_query)%type.
Fixpoint sels_eqb (a b : list (list nat)) : bool :=
  match a, b with [], [] => true | x :: a', y :: b' => keys_eqb x y && sels_eqb a' b' | _, _ => false end.
Definition obs_ok (b : sslb) (c : option path) (o : ss_obs) : bool :=
  match o with (n, e, ids) =>
    Nat.eqb (host_num b c) n && Bool.eqb (is_exists b c) e && nat_list_eqb (sort_ids (choose_set b c)) ids end.
Definition ss_case_ok (m : fh_shape) (k : ss_case) : bool :=
  match k with
  | (hs, cfg, observed, pol, dflt, qs) =>
      let selectors := generate_subset_keys cfg in
      let b1 := make1 hs selectors pol dflt in
      let b2 := make2x m hs selectors pol dflt in
      sels_eqb selectors observed &&
      forallb (fun q => match q with (c, o1, o2) => obs_ok b1 c o1 && obs_ok b2 c o2 end) qs
  end.
Fixpoint ss_mismatches_from (m : fh_shape) (i : nat) (l : list ss_case) : list nat :=
  match l with
  | [] => []
  | x :: l' => if ss_case_ok m x then ss_mismatches_from m (S i) l' else i :: ss_mismatches_from m (S i) l'
  end.
Definition ss_mismatches (m : fh_shape) (l : list ss_case) : list nat := ss_mismatches_from m 0 l.
