(* Model of the HTTP/1 request-URI rebuild (C01): pkg/stream/http/stream.go buildUrlFromCtxVar, together with what
   injectCtxVarFromProtocolHeaders stores for a received request (fasthttp URI.parse of an origin-form target).
   ONLY executable definitions; proofs are in Proofs/UrlBuild.v.

   Go:  path, pathOriginal, queryString := VarPath, VarPathOriginal, VarQueryString      ("" when unset)
        unescapedPath, err := url.PathUnescape(pathOriginal)
        if (err == nil && path == unescapedPath) || path == string(fasthttpPath(pathOriginal)) { res = pathOriginal }
        else if path == "*" { res = "*" } else { res = (&url.URL{Path: path}).RequestURI() }
        if res == "" { res = "/" }
        if queryString != "" { res += "?" + queryString }
   The three library functions are Section parameters; the theorems need NO fact about them: for a request whose
   path the route did not rewrite, VarPath is fasthttp's normalisation of VarPathOriginal, which is literally the
   second disjunct (fasthttpPath = URI.SetPath + URI.Path = the same normalizePath URI.parse applies).  That
   VarPath = fasthttpPath(VarPathOriginal) holds for what the server stream stores is checked on the real fasthttp
   parser by the harness for every generated target. *)
From Coq Require Import List NArith Bool.
Import ListNotations.
Open Scope N_scope.

Fixpoint beqb (a b : list N) : bool :=
  match a, b with
  | [], [] => true
  | x :: a', y :: b' => N.eqb x y && beqb a' b'
  | _, _ => false
  end.
Definition nilb (l : list N) : bool := match l with [] => true | _ => false end.

Definition c_slash : N := 47.  (* '/' *)
Definition c_qmark : N := 63.  (* '?' *)
Definition c_hash : N := 35.   (* '#' *)
Definition c_star : N := 42.   (* '*' *)

Section UrlBuild.
  Variable path_unescape : list N -> option (list N).   (* url.PathUnescape: None = error *)
  Variable norm : list N -> list N.                     (* fasthttp: (&URI{}).SetPath(p); .Path()  = normalizePath *)
  Variable request_uri : list N -> list N.              (* (&url.URL{Path: p}).RequestURI() *)

  Definition build_url (path po query : list N) : list N :=
    let same := match path_unescape po with Some u => beqb path u | None => false end || beqb path (norm po) in
    let res := if same then po else if beqb path [c_star] then [c_star] else request_uri path in
    let res := if nilb res then [c_slash] else res in
    if nilb query then res else res ++ c_qmark :: query.

  (* fasthttp URI.parse on an origin-form request target (Host present, no "://" in the target):
     the first '#' starts the fragment, the first '?' before it starts the query *)
  Fixpoint break_at (c : N) (l : list N) : list N * option (list N) :=
    match l with
    | [] => ([], None)
    | x :: r => if N.eqb x c then ([], Some r)
                else let (a, b) := break_at c r in (x :: a, b)
    end.

  Record target := mkTarget { t_po : list N; t_query : option (list N); t_hash : option (list N) }.

  Definition split_target (t : list N) : target :=
    let (bf, fr) := break_at c_hash t in
    let (po, q) := break_at c_qmark bf in mkTarget po q fr.

  (* injectCtxVarFromProtocolHeaders: VarPath = uri.Path(), VarPathOriginal = uri.PathOriginal(),
     VarQueryString = uri.QueryString() only if non-empty (unset reads as "") *)
  Definition var_query (tg : target) : list N := match t_query tg with Some q => q | None => [] end.

  (* the request URI sent upstream for a received target when nothing rewrote the path *)
  Definition rebuild (t : list N) : list N :=
    let tg := split_target t in build_url (norm (t_po tg)) (t_po tg) (var_query tg).

  (* the targets that come back byte for byte *)
  Definition reproducible (t : list N) : Prop :=
    let tg := split_target t in t_hash tg = None /\ t_po tg <> [] /\ t_query tg <> Some [].
End UrlBuild.

(* --- correspondence cases ------------------------------------------------------------------------------- *)
(* kind 0: the real buildUrlFromCtxVar on arbitrary (path, pathOriginal, query); the values of the three library
           functions at the points the code evaluates them are part of the case.
   kind 1: the real fasthttp parser + injectCtxVarFromProtocolHeaders + buildUrlFromCtxVar on a request target:
           pathOriginal / query / hash compared with split_target, the rebuilt URI with `rebuild`
           (norm instantiated by the observed uri.Path()). *)
Record url_case := mkUrl {
  u_path : list N; u_po : list N; u_query : list N;
  u_unesc : option (list N); u_norm : list N; u_requri : list N;
  u_got : list N
}.
Definition url_case_ok (k : url_case) : bool :=
  beqb (build_url (fun _ => u_unesc k) (fun _ => u_norm k) (fun _ => u_requri k) (u_path k) (u_po k) (u_query k)) (u_got k).

Record tgt_case := mkTgt {
  g_target : list N;
  g_po : list N; g_query : list N; g_hash : list N;   (* uri.PathOriginal(), QueryString(), Hash() *)
  g_path : list N;                                    (* uri.Path() *)
  g_norm_po : list N;                                 (* fasthttpPath(uri.PathOriginal()) *)
  g_unesc : option (list N);
  g_got : list N                                      (* buildUrlFromCtxVar after injectCtxVarFromProtocolHeaders *)
}.
Definition opt_or_nil (o : option (list N)) : list N := match o with Some l => l | None => [] end.
Definition tgt_case_ok (k : tgt_case) : bool :=
  let tg := split_target (g_target k) in
  beqb (t_po tg) (g_po k) && beqb (var_query tg) (g_query k) && beqb (opt_or_nil (t_hash tg)) (g_hash k) &&
  beqb (g_path k) (g_norm_po k) &&
  beqb (rebuild (fun _ => g_unesc k) (fun _ => g_path k) (fun p => p) (g_target k)) (g_got k).

Fixpoint mm_from {A} (ok : A -> bool) (i : nat) (l : list A) : list nat :=
  match l with
  | [] => []
  | x :: l' => if ok x then mm_from ok (S i) l' else i :: mm_from ok (S i) l'
  end.
Definition url_mismatches (l : list url_case) : list nat := mm_from url_case_ok 0 l.
Definition tgt_mismatches (l : list tgt_case) : list nat := mm_from tgt_case_ok 0 l.
