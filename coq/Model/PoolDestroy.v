(* The end of a stream on a ping-pong connection that must not be reused (closeConn / shouldCloseConn set: local reset,
   time-out, remote reset, "Connection: close", go-away), split into micro-steps and interleaved (Lib/Interleave.v) with a
   CONCURRENT NewStream on the same pool:
     destroy thread   close the connection (Close() runs the pool's close handler under clientMux in the same goroutine:
                      totalClientCount-1, remove from the idle list, closed flag)   and
                      onStreamDestroy / putClientToPoolLocked under clientMux: append to the idle list unless closed
                      - in the ORDER READ FROM THE SOURCE (Gen/PoolSrc.v pooldestroy_src_http_close_first; the xprotocol
                      ping-pong pool returns right after the close and never reaches the append)
     lease thread     NewStream: under clientMux, if the idle list holds the connection, take it (LIFO lease)
   ONLY executable definitions here; proofs are in Proofs/PoolDestroy.v. *)
From Coq Require Import List Bool Arith.
From MV Require Import Lib.Interleave.
Import ListNotations.

Inductive dinstr :=
| DLock | DUnlock
| DCloseConn        (* connection.Close(): the connection is closed at the network level *)
| DEvHandle         (* pool close handler: remove from idle, closed flag := true *)
| DAppendIfOpen     (* if !client.closed { idle = append(idle, client) } *)
| DLease.           (* concurrent NewStream: if the client is in the idle list, pop it: leased *)

Record dshared := mkDSh { d_mu : bool; d_netclosed : bool; d_cflag : bool; d_inidle : bool; d_leased : bool }.

Definition dstep (t : list dinstr) (s : dshared) : list dinstr * dshared :=
  match t with
  | [] => (t, s)
  | DLock :: r => if d_mu s then (t, s) else (r, mkDSh true (d_netclosed s) (d_cflag s) (d_inidle s) (d_leased s))
  | DUnlock :: r => (r, mkDSh false (d_netclosed s) (d_cflag s) (d_inidle s) (d_leased s))
  | DCloseConn :: r => (r, mkDSh (d_mu s) true (d_cflag s) (d_inidle s) (d_leased s))
  | DEvHandle :: r => (r, mkDSh (d_mu s) (d_netclosed s) true false (d_leased s))
  | DAppendIfOpen :: r => (r, mkDSh (d_mu s) (d_netclosed s) (d_cflag s) (if d_cflag s then d_inidle s else true) (d_leased s))
  | DLease :: r => if d_inidle s then (r, mkDSh (d_mu s) (d_netclosed s) (d_cflag s) false true) else (r, s)
  end.

Definition dcfg := (list (list dinstr) * dshared)%type.

Definition close_part : list dinstr := [DCloseConn; DLock; DEvHandle; DUnlock].
Definition append_part : list dinstr := [DLock; DAppendIfOpen; DUnlock].
(* http activeClient.OnDestroyStream with closeConn set *)
Definition http_destroy_prog (close_first : bool) : list dinstr :=
  if close_first then close_part ++ append_part else append_part ++ close_part.
(* xprotocol activeClientPingPong.OnDestroyStream with shouldCloseConn set: close and return *)
Definition pp_destroy_prog : list dinstr := close_part.
Definition lease_prog : list dinstr := [DLock; DLease; DUnlock].

Definition destroy_cfg (prog : list dinstr) : dcfg := ([prog; lease_prog], mkDSh false false false false false).
Definition drun (sched : list nat) (c : dcfg) : dcfg := Interleave.run dstep sched c.

(* the connection that is being blown away is never handed to the concurrent NewStream, and ends up out of the idle list *)
Definition destroy_good (c : dcfg) : bool :=
  negb (d_leased (snd c)) &&
  match fst c with [[]; _] => negb (d_inidle (snd c)) && d_cflag (snd c) | _ => true end.

(* ---- finite reachable set ---- *)
Definition dinstr_eqb (a b : dinstr) : bool :=
  match a, b with
  | DLock, DLock | DUnlock, DUnlock | DCloseConn, DCloseConn | DEvHandle, DEvHandle | DAppendIfOpen, DAppendIfOpen | DLease, DLease => true
  | _, _ => false
  end.
Fixpoint dleqb {A} (e : A -> A -> bool) (a b : list A) : bool :=
  match a, b with [], [] => true | x :: a', y :: b' => e x y && dleqb e a' b' | _, _ => false end.
Definition dsh_eqb (a b : dshared) : bool :=
  Bool.eqb (d_mu a) (d_mu b) && Bool.eqb (d_netclosed a) (d_netclosed b) && Bool.eqb (d_cflag a) (d_cflag b) &&
  Bool.eqb (d_inidle a) (d_inidle b) && Bool.eqb (d_leased a) (d_leased b).
Definition dcfg_eqb (a b : dcfg) : bool := dleqb (dleqb dinstr_eqb) (fst a) (fst b) && dsh_eqb (snd a) (snd b).
Definition dmem (c : dcfg) (l : list dcfg) : bool := existsb (dcfg_eqb c) l.
Definition dsucc (c : dcfg) : list dcfg := [sched_step dstep c 0; sched_step dstep c 1].
Fixpoint dreach (fuel : nat) (frontier visited : list dcfg) : list dcfg :=
  match fuel with
  | O => visited
  | S f => match frontier with
           | [] => visited
           | c :: rest => if dmem c visited then dreach f rest visited else dreach f (dsucc c ++ rest) (c :: visited)
           end
  end.
Definition dreachable (c0 : dcfg) : list dcfg := dreach 4000 [c0] [].
Definition dclosed_check (c0 : dcfg) (R : list dcfg) : bool :=
  dmem c0 R && forallb (fun c => Nat.eqb (length (fst c)) 2 && forallb (fun d => dmem d R) (dsucc c)) R.
