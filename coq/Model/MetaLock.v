(* Model/MetaLock.v (codec) - C08: lock discipline of the process-wide dubbo service metadata (DubboPubMetadata /
   DubboSubMetadata, a sync.RWMutex).  Find / Contains run on the decode path of every connection of an ingress_dubbo /
   egress_dubbo listener with peer-supplied arguments; Register / Clear are the pub/sub events.  The functions unlock by
   hand.  `leaky` = some exit path of Find returns without the unlock (the shape excluded by the source switch
   dubbo_meta_unlock_every_exit); `Find true` is a call that takes such an exit.
   sync.RWMutex: RLock waits while a writer is pending, Lock waits while a reader holds the lock; a leaked read lock is
   never released, so whoever waits on it waits for ever (Blocked).  A call that completes has released what it took. *)
From Coq Require Import List Arith Bool.
Import ListNotations.

Inductive op : Type := Find (takes_odd_exit : bool) | Write.
Inductive res : Type := Done | Blocked.
Record lk := { readers : nat (* read locks held for ever *); wpending : bool (* a writer waits *) }.

Definition step (leaky : bool) (s : lk) (o : op) : lk * res :=
  match o with
  | Find ex => if wpending s then (s, Blocked)
               else ({| readers := readers s + (if leaky && ex then 1 else 0); wpending := false |}, Done)
  | Write => if readers s =? 0 then (s, Done) else ({| readers := readers s; wpending := true |}, Blocked)
  end.

Fixpoint runl (leaky : bool) (s : lk) (ops : list op) : list res :=
  match ops with [] => [] | o :: r => let (s', x) := step leaky s o in x :: runl leaky s' r end.
Definition lk0 : lk := {| readers := 0; wpending := false |}.
