(* Model/FlowCases.v (group h2): executable comparison functions used by the flow-control correspondence shards
   (run Model/Flow.v on the inputs the real code was run on, compare canonical observables). *)
From Coq Require Import List ZArith Bool.
From MV Require Import Lib.HCaseIO Gen.H2Src Model.Flow.
Import ListNotations.
Open Scope Z_scope.

(* ------------------------------------------------------------------ flow.go, function level (http2.VerifFlow) *)
Inductive fop :=
| FAddS (n : Z)     (* stream.add(n) *)
| FAddC (n : Z)     (* conn.add(n) *)
| FTake (n : Z)     (* stream.take(n) *)
| FAvail.           (* stream.available() *)

Inductive fobs :=
| OBool (b : bool)  (* result of add *)
| OZ (z : Z)        (* result of available *)
| ODone             (* take returned *)
| OPanic.           (* take panicked "internal error: took too much" *)

Definition fobs_eqb (a b : fobs) : bool :=
  match a, b with
  | OBool x, OBool y => Bool.eqb x y
  | OZ x, OZ y => x =? y
  | ODone, ODone => true
  | OPanic, OPanic => true
  | _, _ => false
  end.

(* state: (stream window, connection window) *)
Definition run_fop (st : Z * Z) (o : fop) : (Z * Z) * fobs :=
  let '(sw, cw) := st in
  match o with
  | FAddS n => let a := flow_add sw n in ((fst a, cw), OBool (snd a))
  | FAddC n => let a := flow_add cw n in ((sw, fst a), OBool (snd a))
  | FTake n => match flow_take sw cw n with
               | Some w => (w, ODone)
               | None => (st, OPanic)
               end
  | FAvail => (st, OZ (flow_available sw cw))
  end.

Fixpoint run_fops (st : Z * Z) (ops : list fop) : (Z * Z) * list fobs :=
  match ops with
  | [] => (st, [])
  | o :: r => let x := run_fop st o in let y := run_fops (fst x) r in (fst y, snd x :: snd y)
  end.

(* (ops, observation per op, final (stream.n, conn.n)) *)
Definition flowfn_case := (list fop * list fobs * (Z * Z))%type.
Definition flowfn_check (c : flowfn_case) : bool :=
  let '(ops, obs, fin) := c in
  let r := run_fops (0, 0) ops in
  list_eqb fobs_eqb (snd r) obs && (fst (fst r) =? fst fin) && (snd (fst r) =? snd fin).
Definition flowfn_mismatches := mismatches flowfn_check.

(* ------------------------------------------------------------------ connection level *)
Definition cfg_of (sd : side) : cfg :=
  mkCfg sd h2_client_settings_wakes h2_winupd_wakes_always h2_client_settings_validated h2_write_chunk.

Definition zz_eqb (a b : Z * Z) : bool := (fst a =? fst b) && (snd a =? snd b).

(* a case: the side, and groups (events, DATA frames (stream, length) MOSN wrote while they were handled, in
   order).  A group is one frame of the peer (or the opening of a stream) followed by the sender iterations it
   enables; the harness waits for quiescence between groups, so the trace is deterministic for a single sender. *)
(* the third component: (stream, its send window, the connection send window) read from MOSN (VerifSendWindow)
   after the group, if the harness looked *)
Definition flow_group := (list event * list (Z * Z) * option (Z * Z * Z))%type.
Definition flow_case := (side * list flow_group)%type.

Definition windows_ok (c : conn) (w : option (Z * Z * Z)) : bool :=
  match w with
  | None => true
  | Some (sid, sw, cw) =>
      match find_s sid (c_strs c) with
      | Some s => (s_win s =? sw) && (c_win c =? cw)
      | None => false
      end
  end.

Fixpoint flow_groups_ok (g : cfg) (c : conn) (gs : list flow_group) : bool :=
  match gs with
  | [] => negb (c_panic c)
  | (evs, want, win) :: r =>
      let x := run g c evs in
      list_eqb zz_eqb (map (fun f => (f_sid f, f_len f)) (snd x)) want && windows_ok (fst x) win &&
      flow_groups_ok g (fst x) r
  end.
Definition flow_check (c : flow_case) : bool := flow_groups_ok (cfg_of (fst c)) conn_default (snd c).
Definition flow_mismatches := mismatches flow_check.

(* several concurrent senders: which sender gets the connection window first is a scheduling race, but the number
   of DATA bytes written until quiescence is not; groups carry that total only *)
Definition flow_tgroup := (list event * Z)%type.
Definition flow_tcase := (side * list flow_tgroup)%type.
Fixpoint flow_tgroups_ok (g : cfg) (c : conn) (gs : list flow_tgroup) : bool :=
  match gs with
  | [] => negb (c_panic c)
  | (evs, want) :: r =>
      let x := run g c evs in (sent_total (snd x) =? want) && flow_tgroups_ok g (fst x) r
  end.
Definition flow_tcheck (c : flow_tcase) : bool := flow_tgroups_ok (cfg_of (fst c)) conn_default (snd c).
Definition flow_tmismatches := mismatches flow_tcheck.
