(* Model/H2GoAway.v (group h2): C11 for HTTP/2 - the graceful GOAWAY of a draining server connection
   (pkg/module/http2/mhttp2.go MServerConn.goAway / GracefulShutdown / HandleFrame / processHeaders / processData /
   processResetStream; pkg/stream/http2/stream.go serverStreamConnection.GoAway, clientStreamConnection.handleFrame,
   clientStream.ResetStream), as micro-steps over Lib/Interleave.
   Threads: the client (opens streams, completes them, reads what the server wrote), the server's reader (one frame of the
   connection per step), the shutdown event (api.OnShutdown -> GoAway()), the workers answering complete requests.
   Two FIFO wires connect the sides: a frame the client sent BEFORE it read the GOAWAY may arrive AFTER the GOAWAY was written.
   Switches (Gen/H2Src.v): g_last_is_max - the GOAWAY carries sc.maxClientStreamID; g_old_continue - trailers of a stream
   accepted before the GOAWAY are processed; g_late_discarded - DATA / RST_STREAM of a refused stream are discarded instead
   of running into the idle-stream rule (connection error: the stream layer closes the connection); g_client_zero - the
   client acts on a GOAWAY whose last-stream-id is 0.  Definitions only. *)
From Coq Require Import List NArith Bool.
From MV Require Import Lib.Interleave Gen.H2Src.
Import ListNotations.
Open Scope N_scope.

Inductive cframe := CHead (id : N) (es : bool) | CData (id : N) (es : bool) | CTrail (id : N) | CRst (id : N).
Inductive sframe := SGoAway (last : N) | SResp (id : N).

Record gsw := mkGsw { g_last_is_max : bool; g_old_continue : bool; g_late_discarded : bool; g_client_zero : bool }.
Definition gsw_ok : gsw := mkGsw true true true true.
Definition gsw_src : gsw := mkGsw h2_goaway_last_is_max h2_goaway_old_continue h2_goaway_late_discarded h2_client_goaway_zero.

Definition max_id : N := 2147483647.

(* ---------------------------------------------------------------- the server connection *)
Record srv := mkSrv {
  s_max : N;                (* sc.maxClientStreamID *)
  s_ga : option N;          (* inGoAway (NO_ERROR) and the last-stream-id that was written *)
  s_open : list N;          (* accepted, request not complete yet *)
  s_ready : list N;         (* request complete, handed to the proxy, not answered yet *)
  s_done : list N;          (* answered *)
  s_cancelled : list N;     (* reset by the client itself *)
  s_acc : list N;           (* ghost: every stream accepted, in order *)
  s_dropped : list N;       (* ghost: new streams whose HEADERS were ignored *)
  s_closed : bool }.        (* the stream layer closed the connection (connection error) *)

Definition srv0 : srv := mkSrv 0 None [] [] [] [] [] [] false.

Definition mem (x : N) (l : list N) : bool := existsb (N.eqb x) l.
Definition rm (x : N) (l : list N) : list N := filter (fun y => negb (y =? x)) l.

Definition in_goaway (s : srv) : bool := match s_ga s with Some _ => true | None => false end.
(* a frame of a stream above the last-stream-id of the GOAWAY *)
Definition late (s : srv) (id : N) : bool := in_goaway s && (s_max s <? id).

Definition s_close (s : srv) : srv :=
  mkSrv (s_max s) (s_ga s) (s_open s) (s_ready s) (s_done s) (s_cancelled s) (s_acc s) (s_dropped s) true.
Definition s_to_ready (s : srv) (id : N) : srv :=
  mkSrv (s_max s) (s_ga s) (rm id (s_open s)) (s_ready s ++ [id]) (s_done s) (s_cancelled s) (s_acc s) (s_dropped s) (s_closed s).

(* HandleFrame for one frame of the client *)
Definition srv_frame (sw : gsw) (s : srv) (f : cframe) : srv :=
  if s_closed s then s
  else match f with
  | CHead id es =>
      if in_goaway s
      then (if s_max s <? id
            then mkSrv (s_max s) (s_ga s) (s_open s) (s_ready s) (s_done s) (s_cancelled s) (s_acc s) (s_dropped s ++ [id]) false
            else s)
      else if id <=? s_max s then s_close s           (* stream id not increasing: PROTOCOL_ERROR *)
      else mkSrv id (s_ga s) (if es then s_open s else s_open s ++ [id]) (if es then s_ready s ++ [id] else s_ready s)
                 (s_done s) (s_cancelled s) (s_acc s ++ [id]) (s_dropped s) false
  | CData id es =>
      if late s id then (if g_late_discarded sw then s else s_close s)
      else if es && mem id (s_open s) then s_to_ready s id else s
  | CTrail id =>
      if late s id then s                               (* HEADERS of a refused stream: ignored *)
      else if in_goaway s && negb (g_old_continue sw) then s
      else if mem id (s_open s) then s_to_ready s id else s
  | CRst id =>
      if late s id then (if g_late_discarded sw then s else s_close s)
      else if mem id (s_open s) || mem id (s_ready s)
           then mkSrv (s_max s) (s_ga s) (rm id (s_open s)) (rm id (s_ready s)) (s_done s) (s_cancelled s ++ [id]) (s_acc s) (s_dropped s) false
           else s
  end.

(* GracefulShutdown: goAway(NO_ERROR) once *)
Definition srv_shutdown (sw : gsw) (s : srv) : srv * list sframe :=
  if s_closed s then (s, [])
  else match s_ga s with
       | Some _ => (s, [])
       | None => let l := if g_last_is_max sw then s_max s else max_id in
                 (mkSrv (s_max s) (Some l) (s_open s) (s_ready s) (s_done s) (s_cancelled s) (s_acc s) (s_dropped s) false, [SGoAway l])
       end.

(* a worker answers the oldest complete request *)
Definition srv_answer (s : srv) : srv * list sframe :=
  if s_closed s then (s, [])
  else match s_ready s with
       | [] => (s, [])
       | id :: r => (mkSrv (s_max s) (s_ga s) (s_open s) r (s_done s ++ [id]) (s_cancelled s) (s_acc s) (s_dropped s) false, [SResp id])
       end.

(* ---------------------------------------------------------------- one connection seen from the server: a history *)
Inductive gev := GFrame (f : cframe) | GShutdown | GAnswer.     (* GAnswer: every complete request is answered *)

Fixpoint answer_all (fuel : nat) (s : srv) : srv * list sframe :=
  match fuel with
  | O => (s, [])
  | S k => match s_ready s with
           | [] => (s, [])
           | _ => let x := srv_answer s in let y := answer_all k (fst x) in (fst y, snd x ++ snd y)
           end
  end.

Definition gsrv_step (sw : gsw) (c : srv * list sframe) (e : gev) : srv * list sframe :=
  match e with
  | GFrame f => (srv_frame sw (fst c) f, snd c)
  | GShutdown => let x := srv_shutdown sw (fst c) in (fst x, snd c ++ snd x)
  | GAnswer => let x := answer_all (length (s_ready (fst c))) (fst c) in (fst x, snd c ++ snd x)
  end.
Definition gsrv_run (sw : gsw) (h : list gev) : srv * list sframe := fold_left (gsrv_step sw) h (srv0, []).

(* ---------------------------------------------------------------- the client *)
Inductive fkind := FData | FTrail | FRst.
Definition fin_frame (id : N) (k : fkind) : cframe :=
  match k with FData => CData id true | FTrail => CTrail id | FRst => CRst id end.

Record cli := mkCli {
  c_next : N;                       (* next stream id *)
  c_sent : list N;                  (* streams opened on this connection *)
  c_pending : list (N * fkind);     (* requests whose last frame is still to be sent *)
  c_ga : option N;                  (* last-stream-id of the GOAWAY it has read *)
  c_answered : list N;
  c_diverted : nat }.               (* requests sent on another connection because the GOAWAY was seen *)

Definition cli0 : cli := mkCli 1 [] [] None [] 0.

Inductive cact :=
| AOpen (k : option fkind)          (* a new request: HEADERS (+END_STREAM if None) *)
| AData (n : nat)                   (* a DATA frame without END_STREAM for the n-th pending request *)
| AFinish (n : nat)                 (* the last frame of the n-th pending request *)
| ARead.                            (* read one frame the server wrote *)

Fixpoint drop_nth {A} (n : nat) (l : list A) : list A :=
  match l, n with
  | [], _ => []
  | _ :: r, O => r
  | x :: r, S k => x :: drop_nth k r
  end.

(* what the client does with a frame it reads *)
Definition cli_read (sw : gsw) (c : cli) (f : sframe) : cli :=
  match f with
  | SGoAway l =>
      if (l =? 0) && negb (g_client_zero sw) then c
      else mkCli (c_next c) (c_sent c) (c_pending c) (Some l) (c_answered c) (c_diverted c)
  | SResp id => mkCli (c_next c) (c_sent c) (c_pending c) (c_ga c) (c_answered c ++ [id]) (c_diverted c)
  end.

(* when the connection goes away: answered (1), retriable - above the last-stream-id it knows (2), failed (0) *)
Definition cli_class (c : cli) (id : N) : N :=
  if mem id (c_answered c) then 1
  else match c_ga c with Some l => if l <? id then 2 else 0 | None => 0 end.

(* ---------------------------------------------------------------- the interleaving *)
Record gsh := mkGsh { w_cs : list cframe; w_sc : list sframe; g_srv : srv; g_cli : cli }.
Definition gsh0 : gsh := mkGsh [] [] srv0 cli0.

Inductive gthread := TClient (script : list cact) | TReader | TShutdown | TWorker.

Definition gstep (sw : gsw) (t : gthread) (sh : gsh) : gthread * gsh :=
  let c := g_cli sh in
  match t with
  | TClient [] => (t, sh)
  | TClient (a :: rest) =>
    match a with
    | AOpen k =>
        match c_ga c with
        | Some _ => (TClient rest, mkGsh (w_cs sh) (w_sc sh) (g_srv sh)
                                         (mkCli (c_next c) (c_sent c) (c_pending c) (c_ga c) (c_answered c) (S (c_diverted c))))
        | None =>
          let id := c_next c in
          (TClient rest,
           mkGsh (w_cs sh ++ [CHead id (match k with None => true | Some _ => false end)]) (w_sc sh) (g_srv sh)
                 (mkCli (id + 2) (c_sent c ++ [id]) (match k with None => c_pending c | Some fk => c_pending c ++ [(id, fk)] end)
                        (c_ga c) (c_answered c) (c_diverted c)))
        end
    | AData n =>
        match nth_error (c_pending c) n with
        | Some (id, _) => (TClient rest, mkGsh (w_cs sh ++ [CData id false]) (w_sc sh) (g_srv sh) c)
        | None => (TClient rest, sh)
        end
    | AFinish n =>
        match nth_error (c_pending c) n with
        | Some (id, fk) =>
            (TClient rest, mkGsh (w_cs sh ++ [fin_frame id fk]) (w_sc sh) (g_srv sh)
                                 (mkCli (c_next c) (c_sent c) (drop_nth n (c_pending c)) (c_ga c) (c_answered c) (c_diverted c)))
        | None => (TClient rest, sh)
        end
    | ARead =>
        match w_sc sh with
        | [] => (t, sh)                                   (* nothing to read yet *)
        | f :: r => (TClient rest, mkGsh (w_cs sh) r (g_srv sh) (cli_read sw c f))
        end
    end
  | TReader =>
      match w_cs sh with
      | [] => (t, sh)
      | f :: r => (t, mkGsh r (w_sc sh) (srv_frame sw (g_srv sh) f) c)
      end
  | TShutdown => let x := srv_shutdown sw (g_srv sh) in (t, mkGsh (w_cs sh) (w_sc sh ++ snd x) (fst x) c)
  | TWorker => let x := srv_answer (g_srv sh) in (t, mkGsh (w_cs sh) (w_sc sh ++ snd x) (fst x) c)
  end.

Definition grun (sw : gsw) (sched : list nat) (c : list gthread * gsh) : list gthread * gsh := run (gstep sw) sched c.
