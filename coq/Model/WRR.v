(* The weighted round robin balancer at the ChooseHost level: Model/LB.v's EdfLoadBalancer.ChooseHost
   (up to `total` scheduler picks, the first healthy one is returned, else the round-robin fallback) driven by
   the scheduler of Model/Edf.v instead of an arbitrary pick order.  ONLY executable definitions.
   A call is described by the scheduler picks it consumed (positions in the host list, in order). *)
From Coq Require Import List ZArith NArith Bool.
From MV Require Import Model.LB Model.Edf.
Import ListNotations.

Definition pick_fn (c : list nat) : nat -> Z := fun i => Z.of_nat (nth i c 0%nat).

Inductive call_kind := CHit (h : host) | CMiss | CBad.
(* CHit h : the call consumed exactly the picks c and returned h = the host of the last pick (a healthy one);
   CMiss  : the call consumed exactly the picks c (= `total` picks), all unhealthy, and went on to the fallback;
   CBad   : c is not the pick list of one call *)
Definition classify (hs : list host) (c : list nat) : call_kind :=
  match edf_try hs (pick_fn c) (length hs) 0 with
  | (Some h, k) => if Nat.eqb k (length c) then CHit h else CBad
  | (None, k) => if Nat.eqb k (length c) && Nat.eqb k (length hs) then CMiss else CBad
  end.

(* positions returned by the scheduler path, in call order *)
Definition hit_positions (hs : list host) (calls : list (list nat)) : list nat :=
  flat_map (fun c => match classify hs c with CHit _ => [last c 0%nat] | _ => [] end) calls.
Definition calls_ok (hs : list host) (calls : list (list nat)) : bool :=
  forallb (fun c => match classify hs c with CBad => false | _ => true end) calls.

(* --- correspondence: a sequence of ChooseHost calls on ONE real WRR balancer (some hosts unhealthy):
   hosts, effective weights, the picks each call consumed (observed), the positions the scheduler path returned.
   The picks, concatenated, must be a scheduler run from a state reachable by r < n pre-picks (refresh). *)
Definition wrrseq_case := (list host * list Z * list (list nat) * list nat)%type.
Fixpoint nat_list_eqb (a b : list nat) : bool :=
  match a, b with [], [] => true | x :: a', y :: b' => Nat.eqb x y && nat_list_eqb a' b' | _, _ => false end.
Definition wrrseq_case_ok (k : wrrseq_case) : bool :=
  match k with
  | (hs, ws, calls, hits) =>
      calls_ok hs calls && nat_list_eqb (hit_positions hs calls) hits && wrr_case_ok (ws, concat calls)
  end.
Definition wrrseq_mismatches (l : list wrrseq_case) : list nat := mism wrrseq_case_ok 0 l.
