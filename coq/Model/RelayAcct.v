(* Model of the CONNECTION-level accounting of the L4 stream proxy (C10): pkg/filter/network/streamproxy/streamproxy.go
   initializeUpstreamConnection / onUpstreamEvent / finalizeUpstreamConnectionStats / onUpstreamEventStats,
   pkg/upstream/cluster/resource_manager.go (resource.CanCreate / Increase / Decrease), and the listener's connection
   count pkg/server/handler.go (numConnections: +1 in OnNewConnection, -1 in removeConnection on the close event).
   ONLY executable definitions; proofs are in Proofs/RelayAcct.v.

   Go (abridged), initializeUpstreamConnection:
       if !Connections().CanCreate() { onInitFailure; return }            // D.Close(NoFlush, LocalClose)
       retryTime := min(HostNum, 3)
       for i := 0; i < retryTime; i++ {
           connectionData := TCPConnForCluster(...) ; if connectionData.Connection == nil { continue }
           add listeners; p.upstreamConnection = c
     [B]   if err := c.Connect(); err != nil { [E] ; UpstreamConnectionRetry++ ; continue }
           connected = true; break }
       if !connected { onInitFailure; return }
     [A]   Connections().Increase(); SetUpstreamHost(host); host.UpstreamConnectionActive++ ; cluster.UpstreamConnectionActive++
   onUpstreamEvent: RemoteClose|OnWriteTimeout|OnWriteErrClose|LocalClose|OnReadErrClose -> finalize; close D
                    ConnectTimeout -> [T] finalize; closeUpstreamConnection      ConnectFailed -> (flag only)
   finalizeUpstreamConnectionStats: if an upstream host is set { Connections().Decrease() }
   onUpstreamEventStats(close event): cluster.UpstreamConnectionActive-- ; if an upstream host is set { host.UpstreamConnectionActive-- }
   resource: Increase/Decrease are no-ops when max == 0; CanCreate = max == 0 || cur < 0 || cur < max.

   (the listing above is the shape BEFORE the repair fix: "close event before Connect returns"; since the repair
   SetUpstreamHost, Increase and the two UpstreamConnectionActive++ stand at [B], their inverses and
   SetUpstreamHost(nil) at [E], and [T] does not finalize.)
   WHERE the accounting sits relative to Connect is read from the source on every run (Gen/RelayAcctSrc.v):
     acct_before       Increase + SetUpstreamHost stand at [B] (before Connect) instead of [A]
     gauges_before     the two UpstreamConnectionActive++ stand at [B] instead of [A]
     err_decreases     a Decrease stands at [E]
     err_undoes_gauges the two UpstreamConnectionActive-- stand at [E]
     err_unsets_host   SetUpstreamHost(nil) stands at [E]
     timeout_finalizes the ConnectTimeout case calls finalize at [T]
     counts_unlimited  resource_manager.go: Increase/Decrease are unguarded (since fix c8b45b4d7; before: no-ops while max == 0,
                       although a cluster update keeps the counter and replaces only max)
   The limit is part of the STATE (g_max): a cluster update changes it at run time (event SetMax).
   Connect() starts the upstream read loop before it returns, so a close event of the upstream connection can be
   handled (on the read loop goroutine) BEFORE the accounting at [A]: outcome ConnOkEarly.

   Every Increase/Decrease/Inc/Dec call is attributed to the session (downstream connection) that makes it: a session
   record carries what it currently HOLDS of each counter; the global counters move by the same amounts. *)
From Coq Require Import List ZArith Bool.
Import ListNotations.
Open Scope Z_scope.

Record sw := mkSw { acct_before : bool; gauges_before : bool; err_decreases : bool; err_undoes_gauges : bool;
                    err_unsets_host : bool; timeout_finalizes : bool;
                    counts_unlimited : bool   (* resource.Increase/Decrease count also while max == 0 *) }.

(* one Connect attempt *)
Inductive outcome :=
| NoHost        (* the balancer returned no connection: `continue` *)
| Refused       (* Connect failed: ConnectFailed event *)
| TimedOut      (* Connect timed out: ConnectTimeout event *)
| ConnOk        (* connected; the accounting at [A] ran before any close event *)
| ConnOkEarly.  (* connected; a close event of the upstream connection was handled before Connect returned *)

Inductive phase := Accepted | Dialing (left : nat) | Live | Done.

Record sess := mkS {
  ph : phase;
  hs : bool;       (* an upstream host is set on the downstream connection's filter manager *)
  h_res : Z;       (* held units of the cluster's Connections resource *)
  h_host : Z;      (* held units of the host's upstream_connection_active *)
  h_clu : Z;       (* ... of the cluster's upstream_connection_active *)
  h_down : Z       (* ... of the listener handler's connection count *)
}.

Inductive event :=
| Accept                       (* a new downstream connection: OnNewConnection up to InitializeReadFilters *)
| Admit (i : nat)              (* initializeUpstreamConnection up to the CanCreate test *)
| Dial (i : nat) (o : outcome) (* one iteration of the connect loop (the last one includes what follows the loop) *)
| UpClose (i : nat)            (* a close event of the upstream connection while relaying (peer close, idle/local close, read error, write time-out) *)
| SetMax (n : Z)               (* a cluster update replaces max_connections (updateResourceValue: the counter is kept) *)
| DownClose (i : nat).         (* the downstream connection's own close (peer close, idle, read error); also: an accepted connection
                                  without upstream (L7 listener) closes *)

Record cfg := mkCfg { maxc : Z; tries : nat }.   (* the INITIAL max_connections (0 = unlimited); min(#hosts, 3) *)

Record gst := mkG {
  res : Z; g_host : Z; g_clu : Z; g_down : Z;
  ss : list sess;
  overflows : nat;       (* admissions refused by the breaker *)
  g_max : Z              (* the current max_connections *)
}.

Definition g0 (c : cfg) := mkG 0 0 0 0 [] 0 (maxc c).

(* resource.Increase / Decrease (mx = the limit at the time of the call) *)
Definition bump (w : sw) (mx : Z) (v d : Z) : Z := if counts_unlimited w then v + d else if mx =? 0 then v else v + d.
(* resource.CanCreate *)
Definition can_create (mx : Z) (cur : Z) : bool := (mx =? 0) || (cur <? 0) || (cur <? mx).

Definition close_d (s : sess) : sess := mkS Done (hs s) (h_res s) (h_host s) (h_clu s) (h_down s - 1).

(* the session-level effect of one Connect attempt, Dialing (S k) *)
Definition set_res (s : sess) (v : Z) : sess := mkS (ph s) (hs s) v (h_host s) (h_clu s) (h_down s).
Definition set_hs (s : sess) (b : bool) : sess := mkS (ph s) b (h_res s) (h_host s) (h_clu s) (h_down s).
Definition add_gauges (s : sess) (d : Z) : sess := mkS (ph s) (hs s) (h_res s) (h_host s + d) (h_clu s + d) (h_down s).
Definition set_ph (s : sess) (p : phase) : sess := mkS p (hs s) (h_res s) (h_host s) (h_clu s) (h_down s).

(* [E]: what the Connect error branch gives back *)
Definition undo (w : sw) (c : Z) (s : sess) : sess :=
  let s := if err_decreases w then set_res s (bump w c (h_res s) (-1)) else s in
  let s := if err_undoes_gauges w then add_gauges s (-1) else s in
  if err_unsets_host w then set_hs s false else s.

Definition dial (w : sw) (c : Z) (s : sess) (k : nat) (o : outcome) : sess :=
  let next (s : sess) := match k with O => close_d s | S _ => set_ph s (Dialing k) end in
  match o with
  | NoHost => next s
  | _ =>
    (* [B] *)
    let s := if acct_before w then set_res (set_hs s true) (bump w c (h_res s) 1) else s in
    let s := if gauges_before w then add_gauges s 1 else s in
    match o with
    | Refused => next (undo w c s)
    | TimedOut =>
        let s := if timeout_finalizes w && hs s then set_res s (bump w c (h_res s) (-1)) else s in
        next (undo w c s)
    | ConnOk =>
        let s := if acct_before w then s else set_res (set_hs s true) (bump w c (h_res s) 1) in
        let s := if gauges_before w then s else add_gauges s 1 in
        set_ph s Live
    | ConnOkEarly =>
        (* the close event first: finalize, close D, event stats ... *)
        let s := mkS (ph s) (hs s) (if hs s then bump w c (h_res s) (-1) else h_res s)
                     (if hs s then h_host s - 1 else h_host s) (h_clu s - 1) (h_down s - 1) in
        (* ... then the accounting at [A] *)
        let s := if acct_before w then s else set_res (set_hs s true) (bump w c (h_res s) 1) in
        let s := if gauges_before w then s else add_gauges s 1 in
        set_ph s Done
    | NoHost => s
    end
  end.

(* a close event while relaying: exactly one close event of the upstream connection is handled (its own, or the
   LocalClose the proxy gives it when the downstream connection closes), and the downstream connection closes *)
Definition finish (w : sw) (c : Z) (s : sess) : sess :=
  mkS Done (hs s) (if hs s then bump w c (h_res s) (-1) else h_res s)
      (if hs s then h_host s - 1 else h_host s) (h_clu s - 1) (h_down s - 1).

Fixpoint upd {A} (l : list A) (i : nat) (x : A) : list A :=
  match l, i with
  | [], _ => []
  | _ :: r, O => x :: r
  | y :: r, S i' => y :: upd r i' x
  end.

(* apply a session-level change and move the global counters by the same amounts *)
Definition commit (g : gst) (i : nat) (old new : sess) (ovf : nat) : gst :=
  mkG (res g + (h_res new - h_res old)) (g_host g + (h_host new - h_host old))
      (g_clu g + (h_clu new - h_clu old)) (g_down g + (h_down new - h_down old))
      (upd (ss g) i new) (overflows g + ovf) (g_max g).

Definition step (w : sw) (c : cfg) (g : gst) (e : event) : gst :=
  match e with
  | Accept => mkG (res g) (g_host g) (g_clu g) (g_down g + 1) (ss g ++ [mkS Accepted false 0 0 0 1]) (overflows g) (g_max g)
  | SetMax n => mkG (res g) (g_host g) (g_clu g) (g_down g) (ss g) (overflows g) (Z.max 0 n)
  | Admit i =>
      match nth_error (ss g) i with
      | Some s =>
          match ph s with
          | Accepted =>
              if can_create (g_max g) (res g) then
                match tries c with
                | O => commit g i s (close_d s) 0
                | S _ => commit g i s (set_ph s (Dialing (tries c))) 0
                end
              else commit g i s (close_d s) 1
          | _ => g
          end
      | None => g
      end
  | Dial i o =>
      match nth_error (ss g) i with
      | Some s => match ph s with Dialing (S k) => commit g i s (dial w (g_max g) s k o) 0 | _ => g end
      | None => g
      end
  | UpClose i | DownClose i =>
      match nth_error (ss g) i with
      | Some s =>
          match ph s with
          | Live => commit g i s (finish w (g_max g) s) 0
          | Accepted => match e with DownClose _ => commit g i s (close_d s) 0 | _ => g end
          | _ => g
          end
      | None => g
      end
  end.

Definition run (w : sw) (c : cfg) (evs : list event) : gst := fold_left (step w c) evs (g0 c).

Definition is_setmax (e : event) : bool := match e with SetMax _ => true | _ => false end.
Definition no_setmax (evs : list event) : bool := forallb (fun e => negb (is_setmax e)) evs.

Definition is_early (e : event) : bool := match e with Dial _ ConnOkEarly => true | _ => false end.
Definition no_early (evs : list event) : bool := forallb (fun e => negb (is_early e)) evs.

Definition is_done (s : sess) : bool := match ph s with Done => true | _ => false end.
Definition is_live (s : sess) : bool := match ph s with Live => true | _ => false end.
Definition is_dialing (s : sess) : bool := match ph s with Dialing _ => true | _ => false end.
Fixpoint sumf (f : sess -> Z) (l : list sess) : Z := match l with [] => 0 | s :: r => f s + sumf f r end.
Definition count (f : sess -> bool) (l : list sess) : Z := sumf (fun s => if f s then 1 else 0) l.

(* admissions are serialised: no Admit while another session is between its CanCreate test and the end of its connect loop *)
Fixpoint serial_from (w : sw) (c : cfg) (g : gst) (evs : list event) : bool :=
  match evs with
  | [] => true
  | e :: r =>
      (match e with Admit _ => count is_dialing (ss g) =? 0 | _ => true end) && serial_from w c (step w c g e) r
  end.

(* the accounting before the repair (fix: close event before Connect returns) and after it *)
Definition sw_old := mkSw false false false false false true false.
Definition sw_repaired := mkSw true true true true true false true.
(* the repaired accounting on the resource manager as it was before fix c8b45b4d7 (no counting while max == 0) *)
Definition sw_nocount := mkSw true true true true true false false.

(* --- correspondence case ---------------------------------------------------------------------------------- *)
(* a history in groups; after each group the real counters were read: Connections().Cur(), the host's and the
   cluster's upstream_connection_active, the handler's connection count (minus its value before the history) *)
Record acct_obs := mkObs { o_res : Z; o_host : Z; o_clu : Z; o_down : Z; o_overflows : nat }.
Record acct_case := mkAcct {
  a_cfg : cfg;
  a_groups : list (list event * acct_obs)
}.
Definition obs_ok (g : gst) (o : acct_obs) : bool :=
  (res g =? o_res o) && (g_host g =? o_host o) && (g_clu g =? o_clu o) && (g_down g =? o_down o) &&
  Nat.eqb (overflows g) (o_overflows o).
Fixpoint groups_ok (w : sw) (c : cfg) (g : gst) (l : list (list event * acct_obs)) : bool :=
  match l with
  | [] => true
  | (evs, o) :: r => let g' := fold_left (step w c) evs g in obs_ok g' o && groups_ok w c g' r
  end.
Definition acct_case_ok (w : sw) (k : acct_case) : bool := groups_ok w (a_cfg k) (g0 (a_cfg k)) (a_groups k).
Fixpoint acct_mm_from (w : sw) (i : nat) (l : list acct_case) : list nat :=
  match l with
  | [] => []
  | k :: l' => if acct_case_ok w k then acct_mm_from w (S i) l' else i :: acct_mm_from w (S i) l'
  end.
Definition acct_mismatches (w : sw) (l : list acct_case) : list nat := acct_mm_from w 0 l.
