(* C07 (HTTP/2 part) - message extraction is independent of how TCP segments the byte stream.
   Only statements; proofs by `exact`.  Reader = MFramer.ReadFrame as configured by the source switches
   of Gen/H2Src.v; read loop = stream/http2 Dispatch over codec Decode. *)
From Coq Require Import List NArith Bool.
From MV Require Import Lib.HBits Lib.HSeg Gen.H2Src Model.Hpack Model.H2Frame Model.H2ReadHint Proofs.H2FrameStable.
(* the comparison functions of the correspondence shards are built together with this file *)
From MV Require Model.HpackCases Model.H2FrameCases.
Import ListNotations.
Open Scope N_scope.

(* the translator recognised the repaired shapes in mhttp2.go / stream.go *)
Theorem c07_h2_translator_ok : H2Src_translator_ok = true.
Proof. exact (eq_refl true). Qed.

(* Prefix stability, for EVERY reader state (HPACK table, CONTINUATION expectation, limits), every buffer
   and every extension: a frame, a stream error or a connection error, once reported, is reported
   identically (same frame, same byte count, same new state) when more bytes have arrived. *)
Theorem c07_h2_prefix_stable : forall st b e,
  read_frame st b <> RAgain -> read_frame st (b ++ e) = read_frame st b.
Proof. exact (read_frame_src_stable (eq_refl true)). Qed.
Print Assumptions c07_h2_prefix_stable.

(* ... hence "need more" on a buffer implies "need more" on every prefix of it *)
Theorem c07_h2_incomplete_antimonotone : forall st b e,
  read_frame st (b ++ e) = RAgain -> read_frame st b = RAgain.
Proof. exact (read_frame_src_again (eq_refl true)). Qed.
Print Assumptions c07_h2_incomplete_antimonotone.

(* what a frame consumes is non-empty and lies within the received bytes *)
Theorem c07_h2_consumes_within : forall st b,
  match read_frame st b with
  | ROk _ n _ | RStream n _ => 0 < n <= len b
  | _ => True
  end.
Proof. exact (read_frame_src_consumes (eq_refl true) (eq_refl true)). Qed.
Print Assumptions c07_h2_consumes_within.

(* an incomplete frame consumes nothing and changes nothing *)
Theorem c07_h2_incomplete_consumes_nothing : forall s chunk, c_dead s = false ->
  read_frame (c_fs s) (c_buf s ++ chunk) = RAgain ->
  feed s chunk = mkC (c_buf s ++ chunk) (c_fs s) (c_out s) false.
Proof. exact feed_src_incomplete. Qed.
Print Assumptions c07_h2_incomplete_consumes_nothing.

(* Segmentation independence: for EVERY list of chunks, on a fresh connection, feeding the chunks one
   read event at a time yields the same events (frames, stream errors, connection error) in the same
   order, each once, the same liveness, and - while alive - the same reader state and unconsumed residue
   as feeding their concatenation in one read. *)
Theorem c07_h2_segmentation_independent : forall chunks,
  obs _ _ _ (to_cst (fold_left feed chunks c_init)) = obs _ _ _ (to_cst (feed c_init (concat chunks))).
Proof. exact (feed_src_segmentation (eq_refl true) (eq_refl true) (eq_refl true)). Qed.
Print Assumptions c07_h2_segmentation_independent.

(* non-vacuity: a PING and a WINDOW_UPDATE, cut inside the first header, inside the second payload, and whole *)
Example c07_h2_example :
  let ping := ser_frame (APing false [1;2;3;4;5;6;7;8]) in
  let wu := ser_frame (AWinUpd 3 1000) in
  let s := ping ++ wu in
  length (c_out (fold_left feed [firstn 4 s; firstn 20 (skipn 4 s); skipn 24 s] c_init)) = 2%nat /\
  c_out (fold_left feed [firstn 4 s; firstn 20 (skipn 4 s); skipn 24 s] c_init) = c_out (feed c_init s) /\
  c_buf (feed c_init (firstn 29 s)) = firstn 12 wu.
Proof. cbn zeta. repeat split; vm_compute; reflexivity. Qed.

(* Between two frames the real reader carries nothing but the buffer (read from mhttp2.go on every run: type MFramer has
   no field of its own and ReadFrame / readMetaFrame assign only errDetail, lastFrame, lastHeaderStream) - which is what
   the reader the theorems above are about (read_frame / feed) does: its state is the framer state of Model/H2Frame.v. *)
Theorem c07_h2_framer_carries_only_the_buffer : h2_framer_no_cross_frame_state = true.
Proof. exact (eq_refl true). Qed.

(* a reader that keeps a "bytes needed" hint across frames and does not reset it when it SKIPS a stream-error frame (the
   shape of seed C07-g) is not segmentation independent: a 6-byte stream-error frame [4;1;...] followed by the complete
   3-byte frame [1;0;9] - in one read both come out; with the first read ending inside the first frame the second frame
   stays in the buffer; resetting the hint on the skip path too gives the whole-delivery result *)
Example c07_h2_stale_hint_refuted :
  let s := [4; 1; 7; 7; 7; 7; 1; 0; 9] in
  h_out (hint_run false [s]) = [HvStreamErr; HvFrame [9]] /\ h_buf (hint_run false [s]) = [] /\
  h_out (hint_run false [firstn 3 s; skipn 3 s]) = [HvStreamErr] /\ h_buf (hint_run false [firstn 3 s; skipn 3 s]) = [1; 0; 9] /\
  h_out (hint_run true [firstn 3 s; skipn 3 s]) = [HvStreamErr; HvFrame [9]] /\ h_buf (hint_run true [firstn 3 s; skipn 3 s]) = [].
Proof. vm_compute. repeat split; reflexivity. Qed.
