(* C01 (TCP relay clause) - "A plain TCP proxy listener relays the byte stream unchanged and in order in both
   directions, including the bytes a peer sent immediately before closing."  Only statements; proofs by `exact`.
   Model: Model/Relay.v (connection.go read loop / write path / Close + streamproxy.go), proofs: Proofs/RelayInv.v,
   Proofs/Relay.v. *)
From Coq Require Import List NArith Bool.
From MV Require Import Model.Relay Proofs.RelayInv Proofs.Relay.
Import ListNotations.
Open Scope N_scope.

(* For EVERY event history (any interleaving of the two read loops; every Read result: bytes, bytes together with
   io.EOF, io.EOF alone, (0,nil), time-outs, other errors; the upstream connecting late or not at all; every raw
   write completing, timing out or failing after k bytes):
   1. the bytes written to each socket are a prefix of the bytes read from the other socket (unchanged, in order,
      nothing duplicated or invented);
   2. once a peer's close has been processed (the connection's only close event is RemoteClose) and no raw write
      towards the other socket failed, every byte read from that peer - including the bytes that arrived in the
      same Read as io.EOF - has been written to the other socket, whose connection was then closed after the flush
      (LocalClose);
   3. with no failed write on either socket, the other connection IS closed that way (nothing is left open or
      unflushed). *)
Theorem c01_relay_identity : forall evs,
  let s := run evs in
  prefix (c_out (s_u s)) (c_in (s_d s)) /\ prefix (c_out (s_d s)) (c_in (s_u s)) /\
  (forall x, let cx := get s x in let cy := get s (other x) in
     closes (c_trace cx) = [RemoteClose] ->
     (c_werr cy = false -> closes (c_trace cy) = [LocalClose] -> c_out cy = c_in cx) /\
     (c_werr cx = false -> c_werr cy = false ->
        closes (c_trace cy) = [LocalClose] /\ c_closed cy = true /\ c_out cy = c_in cx)).
Proof. exact relay_identity. Qed.
Print Assumptions c01_relay_identity.

(* non-vacuity: the last 3 bytes arrive in the same Read as io.EOF; the upstream socket gets all 5 bytes and the
   upstream connection is then closed locally; a response travelled the other way before *)
Example c01_relay_example :
  let s := run [EvConnect true; EvRead D [1; 2] RNone []; EvRead U [9] RNone []; EvRead D [3; 4; 5] REOF []] in
  closes (c_trace (s_d s)) = [RemoteClose] /\ c_werr (s_u s) = false /\ c_werr (s_d s) = false /\
  c_out (s_u s) = [1; 2; 3; 4; 5] /\ c_in (s_d s) = [1; 2; 3; 4; 5] /\ c_out (s_d s) = [9] /\
  closes (c_trace (s_u s)) = [LocalClose] /\
  c_trace (s_d s) = [TData [1; 2]; TData [3; 4; 5]; TClose RemoteClose].
Proof. vm_compute. repeat split; reflexivity. Qed.

(* the hypotheses of clause 2 are needed: writes that fail after k bytes without a time-out (here the data write and the flush) leave the connection
   open with the rest queued (connection.go: "other write errs not close connection"); the model shows the loss *)
Example c01_relay_write_error_example :
  let s := run [EvConnect true; EvRead D [1; 2; 3] REOF [WErr 1%nat; WErr 0%nat]] in
  closes (c_trace (s_d s)) = [RemoteClose] /\ c_out (s_u s) = [1] /\ c_pend (s_u s) = [2; 3] /\
  c_werr (s_u s) = true /\ c_closed (s_u s) = false.
Proof. vm_compute. repeat split; reflexivity. Qed.

(* doRead level.  For every history and each connection: the bytes its raw Reads returned are exactly the bytes
   handed to the filter chain (OnData), in order, followed by what still sits in the read buffer; no OnData happens
   after a close event; and the read buffer of an open connection is empty (the tcp_proxy filter drains it). *)
Theorem c01_read_delivered : forall evs x,
  let c := get (run evs) x in
  c_in c = fdata (c_trace c) ++ c_rbuf c /\ dbc (c_trace c) = true /\ (c_closed c = false -> c_rbuf c = []).
Proof. exact read_delivered. Qed.
Print Assumptions c01_read_delivered.

(* One iteration of the read loop of an open, read-enabled connection whose Read returns bytes together with
   io.EOF: the filter chain gets the buffered bytes plus these bytes, THEN a close event follows. *)
Theorem c01_read_eof_delivers : forall x y bytes wo,
  c_closed x = false -> c_ren x = true -> c_rbuf x ++ bytes <> [] ->
  exists ev, c_trace (fst (rd x y bytes REOF wo)) = c_trace x ++ [TData (c_rbuf x ++ bytes); TClose ev].
Proof. exact rd_eof_delivers. Qed.
Print Assumptions c01_read_eof_delivers.

Example c01_read_eof_example :
  c_trace (fst (rd (conn0 true) (conn0 true) [7; 8] REOF [])) = [TData [7; 8]; TClose RemoteClose].
Proof. vm_compute. reflexivity. Qed.
