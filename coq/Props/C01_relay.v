(* C01 (TCP relay clause) - "A plain TCP proxy listener relays the byte stream unchanged and in order in both
   directions, including the bytes a peer sent immediately before closing."  Only statements; proofs by `exact`.
   Model: Model/Relay.v (connection.go read loop / write path / Close + streamproxy.go), proofs: Proofs/RelayInv.v,
   Proofs/Relay.v. *)
From Coq Require Import List NArith Bool.
From MV Require Import Model.Relay Gen.RelaySrc Proofs.RelayInv Proofs.Relay Model.UrlBuild Proofs.UrlBuild.
From MV Require Model.RelayHttp Gen.RelayHttpSrc Proofs.RelayHttp.
From MV Require Model.RelayDeadline Proofs.RelayDeadline.
Import ListNotations.
Open Scope N_scope.

(* Tie to the source, re-read on every run (harness/cmd/relay/gen.go -> Gen/RelaySrc.v): the returns inside the
   `if err != nil` block of connection.go doRead are exactly the three the model has (closed connection; time-out
   without bytes; error other than io.EOF / time-out) and onRead(bytesRead) follows the block - so a Read returning
   n > 0 together with io.EOF reaches onRead; the proxy's reaction to each close event of either connection (flush
   and close the other side / close it without flush), as generated from the two switch statements, IS the table
   the model's `flushes` was verified against (comparison by conversion; nothing in Proofs depends on Gen). *)
Theorem c01_relay_source_is_verified_source :
  RelaySrc_translator_ok = true /\ doread_eof_delivers = true /\ up_reaction = reaction_table /\ down_reaction = reaction_table /\
  write_deadline_fresh = true.
Proof. exact (conj eq_refl (conj eq_refl (conj eq_refl (conj eq_refl eq_refl)))). Qed.
Theorem c01_relay_reaction_table : forall ev, reaction_table ev = Some (flushes ev).
Proof. exact reaction_table_is_flushes. Qed.

(* For EVERY event history (any interleaving of the two read loops; every Read result: bytes, bytes together with
   io.EOF, io.EOF alone, (0,nil), time-outs, other errors; the upstream connecting late or not at all; every raw
   write completing, timing out or failing after k bytes):
   1. the bytes written to each socket are a prefix of the bytes read from the other socket (unchanged, in order,
      nothing duplicated or invented);
   2. once a peer's close has been processed (the connection's only close event is RemoteClose) and no raw write
      towards the other socket failed, every byte read from that peer - including the bytes that arrived in the
      same Read as io.EOF - has been written to the other socket, whose connection was then closed after the flush
      (LocalClose);
   3. with no failed write on either socket, the other connection IS closed that way (nothing is left open or
      unflushed). *)
Theorem c01_relay_identity : forall evs,
  let s := run evs in
  prefix (c_out (s_u s)) (c_in (s_d s)) /\ prefix (c_out (s_d s)) (c_in (s_u s)) /\
  (forall x, let cx := get s x in let cy := get s (other x) in
     closes (c_trace cx) = [RemoteClose] ->
     (c_werr cy = false -> closes (c_trace cy) = [LocalClose] -> c_out cy = c_in cx) /\
     (c_werr cx = false -> c_werr cy = false ->
        closes (c_trace cy) = [LocalClose] /\ c_closed cy = true /\ c_out cy = c_in cx)).
Proof. exact relay_identity. Qed.
(* assumptions: printed once for c01_relay_identity and c01_read_delivered together (c01_relay_closed below): each
   Print Assumptions walks the proof terms of the 25 case lemmas of rd_inv, ~4-12 s *)

(* non-vacuity: the last 3 bytes arrive in the same Read as io.EOF; the upstream socket gets all 5 bytes and the
   upstream connection is then closed locally; a response travelled the other way before *)
Example c01_relay_example :
  let s := run [EvConnect true; EvRead D [1; 2] RNone []; EvRead U [9] RNone []; EvRead D [3; 4; 5] REOF []] in
  closes (c_trace (s_d s)) = [RemoteClose] /\ c_werr (s_u s) = false /\ c_werr (s_d s) = false /\
  c_out (s_u s) = [1; 2; 3; 4; 5] /\ c_in (s_d s) = [1; 2; 3; 4; 5] /\ c_out (s_d s) = [9] /\
  closes (c_trace (s_u s)) = [LocalClose] /\
  c_trace (s_d s) = [TData [1; 2]; TData [3; 4; 5]; TClose RemoteClose].
Proof. vm_compute. repeat split; reflexivity. Qed.

(* the hypotheses of clause 2 are needed: writes that fail after k bytes without a time-out (here the data write and the flush) leave the connection
   open with the rest queued (connection.go: "other write errs not close connection"); the model shows the loss *)
Example c01_relay_write_error_example :
  let s := run [EvConnect true; EvRead D [1; 2; 3] REOF [WErr 1%nat; WErr 0%nat]] in
  closes (c_trace (s_d s)) = [RemoteClose] /\ c_out (s_u s) = [1] /\ c_pend (s_u s) = [2; 3] /\
  c_werr (s_u s) = true /\ c_closed (s_u s) = false.
Proof. vm_compute. repeat split; reflexivity. Qed.

(* doRead level.  For every history and each connection: the bytes its raw Reads returned are exactly the bytes
   handed to the filter chain (OnData), in order, followed by what still sits in the read buffer; no OnData happens
   after a close event; and the read buffer of an open connection is empty (the tcp_proxy filter drains it). *)
Theorem c01_read_delivered : forall evs x,
  let c := get (run evs) x in
  c_in c = fdata (c_trace c) ++ c_rbuf c /\ dbc (c_trace c) = true /\ (c_closed c = false -> c_rbuf c = []).
Proof. exact read_delivered. Qed.

Theorem c01_relay_closed :
  (forall evs, let s := run evs in prefix (c_out (s_u s)) (c_in (s_d s)) /\ prefix (c_out (s_d s)) (c_in (s_u s))) /\
  (forall evs x, let c := get (run evs) x in c_in c = fdata (c_trace c) ++ c_rbuf c).
Proof. exact (conj (fun evs => conj (proj1 (c01_relay_identity evs)) (proj1 (proj2 (c01_relay_identity evs))))
                   (fun evs x => proj1 (c01_read_delivered evs x))). Qed.
Print Assumptions c01_relay_closed.

(* One iteration of the read loop of an open, read-enabled connection whose Read returns bytes together with
   io.EOF: the filter chain gets the buffered bytes plus these bytes, THEN a close event follows. *)
Theorem c01_read_eof_delivers : forall x y bytes wo,
  c_closed x = false -> c_ren x = true -> c_rbuf x ++ bytes <> [] ->
  exists ev, c_trace (fst (rd x y bytes REOF wo)) = c_trace x ++ [TData (c_rbuf x ++ bytes); TClose ev].
Proof. exact rd_eof_delivers. Qed.
Print Assumptions c01_read_eof_delivers.

Example c01_read_eof_example :
  c_trace (fst (rd (conn0 true) (conn0 true) [7; 8] REOF [])) = [TData [7; 8]; TClose RemoteClose].
Proof. vm_compute. reflexivity. Qed.

(* ======================================================================================================== *)
(* C01 (HTTP/1 request URI clause) - "...reaches the other side with the same ... request URI (path and query
   byte-for-byte)".  Model: Model/UrlBuild.v (buildUrlFromCtxVar + what the server stream stores for a received
   target); the Go library functions url.PathUnescape, fasthttp's path normalisation and url.URL.RequestURI are
   universally quantified: the statements hold whatever they compute. *)

(* If the route did not rewrite the path (VarPath is still fasthttp's normalisation of VarPathOriginal), the rebuilt
   request URI is VarPathOriginal - every escaped byte, '//', '/../', '*' as received - ("/" if it is empty),
   followed by '?' and the query string iff the query string is non-empty. *)
Theorem c01_url_identity :
  forall (path_unescape : list N -> option (list N)) (norm request_uri : list N -> list N) po query,
  build_url path_unescape norm request_uri (norm po) po query =
  (if nilb po then [c_slash] else po) ++ (if nilb query then [] else c_qmark :: query).
Proof. exact build_url_unrewritten. Qed.
Print Assumptions c01_url_identity.

(* "/a//b/../%2F%41?x=%20" as (pathOriginal, query), with a normalisation that changes the path *)
Example c01_url_example :
  build_url (fun _ => None) (fun _ => [47; 97]) (fun p => p) [47; 97]
            [47; 97; 47; 47; 98; 47; 46; 46; 47; 37; 50; 70; 37; 52; 49] [120; 61; 37; 50; 48] =
  [47; 97; 47; 47; 98; 47; 46; 46; 47; 37; 50; 70; 37; 52; 49; 63; 120; 61; 37; 50; 48].
Proof. vm_compute. reflexivity. Qed.

(* The full statement for received request targets: every origin-form target (starts with '/', no '#') is sent
   upstream byte for byte.  It is FALSE for the code in the tree: a '?' followed by an empty query is dropped
   ("/a?" is forwarded as "/a": injectCtxVarFromProtocolHeaders stores the query string only if it is non-empty
   and buildUrlFromCtxVar appends '?' only for a non-empty query string). *)
Definition c01_url_target_statement : Prop :=
  forall (path_unescape : list N -> option (list N)) (norm request_uri : list N -> list N) t,
  (exists r, t = c_slash :: r) -> ~ In c_hash t -> rebuild path_unescape norm request_uri t = t.

Theorem c01_url_target_refuted : ~ c01_url_target_statement.
Proof. exact url_target_refuted. Qed.
Print Assumptions c01_url_target_refuted.

(* The strongest true statement: exactly the targets with a non-empty path part, no fragment, and no '?' that is
   followed by nothing come back byte for byte - whatever bytes the path and the query consist of. *)
Theorem c01_url_target_partial :
  forall (path_unescape : list N -> option (list N)) (norm request_uri : list N -> list N) t,
  rebuild path_unescape norm request_uri t = t <-> reproducible t.
Proof. exact rebuild_identity_iff. Qed.
Print Assumptions c01_url_target_partial.

(* and what happens to the others with a '?': the '?' is dropped, path unchanged *)
Theorem c01_url_empty_query_dropped :
  forall (path_unescape : list N -> option (list N)) (norm request_uri : list N -> list N) po,
  po <> [] -> ~ In c_qmark po -> ~ In c_hash po ->
  rebuild path_unescape norm request_uri (po ++ [c_qmark]) = po.
Proof. exact rebuild_empty_query. Qed.
Print Assumptions c01_url_empty_query_dropped.

Example c01_url_target_example : (* "/a//b/../%2F?x=%20&y" and "*" are reproducible, "/a?" and "/a#f" are not *)
  reproducible [47; 97; 47; 47; 98; 47; 46; 46; 47; 37; 50; 70; 63; 120; 61; 37; 50; 48; 38; 121] /\
  reproducible [42] /\ ~ reproducible [47; 97; 63] /\ ~ reproducible [47; 97; 35; 102].
Proof.
  unfold reproducible. cbn. repeat split; try discriminate.
  - intros (_ & _ & H). now apply H.
  - intros (H & _). discriminate H.
Qed.

(* ======================================================================================================== *)
(* C01 (HTTP/1 header fields and body) - "...reaches the other side with the same method, request URI, header fields
   and body".  Model: Model/RelayHttp.v (fasthttp's header parser and writer + MOSN's HTTP/1 stream layer); a message is
   (method / status, ordered list of (lower-cased name, value bytes), body bytes); the framing fields content-length,
   transfer-encoding and trailer are hop-level (the proxy buffers the body and re-frames it with Content-Length) and
   are not part of a message. *)
Module Http1.
Import MV.Model.RelayHttp MV.Gen.RelayHttpSrc MV.Proofs.RelayHttp String.
Open Scope string_scope.
Open Scope list_scope.

(* the stream layer in the tree has the shape the statements are instantiated for (comparison by conversion):
   headers copied with fasthttp's CopyTo (raw fields, cookies not collected), fasthttp's default Content-Type
   switched off for proxied requests and responses, no multipart pre-parse *)
Theorem c01_http1_source_is_verified_source :
  RelayHttpSrc_translator_ok = true /\ http_shape_ok = true /\ src_hsw = hsw_verified.
Proof. exact (conj eq_refl (conj eq_refl eq_refl)). Qed.

(* THE STATEMENT.  For every request and response (any fields, any values, any multiplicity and order, any body), with
   no route action:
   - the method / status arrives unchanged;
   - every header field whose name is NOT in the explicit exception list arrives with the same values, the same
     multiplicity and the same relative order of the same-name fields (names compared case-insensitively: they are
     lower-cased in the model);
   - the body bytes arrive unchanged (a response to HEAD has none).
   Exceptions, request:  connection (hop-by-hop, RFC 7230 6.1), expect (100-continue is answered by the proxy, RFC 7231
     5.1.1), host / user-agent / content-type (single-valued fields: see c01_http1_request_single_valued).
   Exceptions, response: connection (hop-by-hop), server / content-type / content-encoding (single-valued: the last one
     arrives), date (REPLACED by the proxy's clock: c01_http1_date_refuted, listed finding). *)
Theorem c01_http1_headers_identity :
  (forall mp q,
     q_method (fwd_req src_hsw mp q) = q_method q /\
     q_body (fwd_req src_hsw mp q) = q_body q /\
     forall n, ~ In n ["host"; "user-agent"; "content-type"; "connection"; "expect"] ->
       named n (q_fields (fwd_req src_hsw mp q)) = named n (q_fields q)) /\
  (forall head closing now p,
     p_status (fwd_resp src_hsw head closing now p) = p_status p /\
     p_body (fwd_resp src_hsw head closing now p) = (if head then [] else p_body p) /\
     forall n, ~ In n ["server"; "content-type"; "content-encoding"; "connection"; "date"] ->
       named n (p_fields (fwd_resp src_hsw head closing now p)) = named n (p_fields p)).
Proof.
  exact (conj (fun mp q => conj (fwd_req_method hsw_verified mp q)
                          (conj (fwd_req_body hsw_verified mp q eq_refl) (fwd_req_generic hsw_verified mp q)))
              (fun head closing now p => conj (fwd_resp_status hsw_verified head closing now p)
                          (conj (fwd_resp_body hsw_verified head closing now p) (fwd_resp_generic hsw_verified head closing now p)))).
Qed.
Print Assumptions c01_http1_headers_identity.

(* the single-valued request fields: exactly the LAST occurrence arrives (if its value is non-empty); Host lower-cased
   (host names are case-insensitive); no Content-Type is invented *)
Theorem c01_http1_request_single_valued : forall mp q n, In n ["host"; "user-agent"; "content-type"] ->
  named n (q_fields (fwd_req src_hsw mp q)) =
  named n (one "user-agent" (nonempty (last_value "user-agent" (q_fields q))) ++
           one "host" (option_map lowerb (last_value "host" (q_fields q))) ++
           one "content-type" (nonempty (last_value "content-type" (q_fields q)))).
Proof.
  exact (fun mp q n H => eq_trans (generic_no_special hsw_verified mp q n H) (single_valued_verified q n)).
Qed.

Example c01_http1_example : (* two Cookie lines, a repeated Accept, an empty value, mixed hop-by-hop fields *)
  let q := mkReq "POST" [("cookie", bytes_of "a=1;b=2"); ("accept", bytes_of "text/html"); ("host", bytes_of "Test.Local");
                         ("cookie", bytes_of "pref=""x y"";"); ("accept", bytes_of "*/*"); ("x-empty", []);
                         ("connection", bytes_of "close")] [1; 2; 3]%N in
  q_fields (fwd_req src_hsw (fun b => b) q) =
    [("host", bytes_of "test.local"); ("cookie", bytes_of "a=1;b=2"); ("accept", bytes_of "text/html");
     ("cookie", bytes_of "pref=""x y"";"); ("accept", bytes_of "*/*"); ("x-empty", [])] /\
  q_body (fwd_req src_hsw (fun b => b) q) = [1; 2; 3]%N.
Proof. vm_compute. split; reflexivity. Qed.

(* "the origin's Date arrives unchanged" is FALSE for the code in the tree: fasthttp's response writer always writes its
   own clock and drops the received Date field (no public switch in the vendored version). *)
Definition c01_http1_date_statement : Prop :=
  forall w head closing now p, named "date" (p_fields (fwd_resp w head closing now p)) = named "date" (p_fields p).
Theorem c01_http1_date_refuted : ~ c01_http1_date_statement.
Proof. exact date_statement_refuted. Qed.
Theorem c01_http1_date_is_proxy_clock : forall w head closing now p,
  named "date" (p_fields (fwd_resp w head closing now p)) = [("date", now)].
Proof. exact fwd_resp_date. Qed.
Print Assumptions c01_http1_date_refuted.

(* the stream layer as it stood before the repairs (hsw_old): a Content-Type appeared from nowhere in both directions, and
   the body of a multipart/form-data request was whatever fasthttp's form parser + writer made of it *)
Theorem c01_http1_old_shape_refuted :
  named "content-type" (q_fields (fwd_req hsw_old (fun b => b) (mkReq "POST" [("host", [104%N])] [1%N]))) = [("content-type", default_req_ct)] /\
  named "content-type" (p_fields (fwd_resp hsw_old false false [] (mkResp 200 [] [1%N] 0 false))) = [("content-type", default_resp_ct)] /\
  ~ (forall mp q, q_body (fwd_req hsw_old mp q) = q_body q).
Proof. exact (conj old_request_content_type_invented (conj old_response_content_type_invented old_body_statement_refuted)). Qed.
End Http1.

(* ======================================================================================================== *)
(* C01 (TCP relay): nothing is cut off by a write time-out the receiver did not cause.  A raw write that does not
   complete before the deadline in force fails, the connection is closed with OnWriteTimeout and the peer sees a clean
   end after a truncated stream - so which deadline is in force during a write matters.  The source arms
   now + DefaultConnWriteTimeout in front of EVERY raw write (write_deadline_fresh above, read from setWriteDeadline and
   the call sites of doWrite on every run).  Model: Model/RelayDeadline.v. *)
Module WriteDeadline.
Import MV.Model.RelayDeadline MV.Proofs.RelayDeadline ZArith.
Open Scope Z_scope.

(* For every history of writes of one connection (any gaps, any stalls of the receiver): the deadline in force during a
   write is its own start + W; a write times out ONLY IF the receiver kept THAT write blocked for at least W; and if
   every stall is shorter than W every write completes. *)
Theorem c01_relay_write_deadline : forall W, 0 < W ->
  (forall s l w res start d, In (w, res, start, d) (writes true W s l) -> d = start + W) /\
  (forall s l w dl start d, In (w, TimedOut dl, start, d) (writes true W s l) -> W <= stall w) /\
  (forall l, Forall (fun w => stall w < W) l -> forall s, length (writes true W s l) = length l /\
     Forall (fun x => match x with (_, Done _, _, _) => True | _ => False end) (writes true W s l)).
Proof.
  exact (fun W HW => conj (fun s l => fresh_deadline W s l)
                   (conj (fun s l => fresh_timeout_needs_stall W s l HW) (fun l => fresh_all_done W l HW))).
Qed.
Print Assumptions c01_relay_write_deadline.

(* The variant that keeps the deadline armed by an earlier write while it is still ahead does NOT have this property:
   a small write at 0, then at 0.6 W a write the receiver blocks for 0.65 W - it times out at W. *)
Theorem c01_relay_cached_deadline_refuted :
  ~ (forall W s l, 0 < W -> forall w dl start d, In (w, TimedOut dl, start, d) (writes false W s l) -> W <= stall w).
Proof. exact cached_refuted. Qed.

Example c01_relay_write_deadline_example :
  map (fun x => snd (fst (fst x))) (writes true 1000 d0 [mkWr 0 0; mkWr 600 650]) = [Done 0; Done 1250] /\
  map (fun x => snd (fst (fst x))) (writes false 1000 d0 [mkWr 0 0; mkWr 600 650]) = [Done 0; TimedOut 1000].
Proof. vm_compute. split; reflexivity. Qed.
End WriteDeadline.
