(* C20 - The admin config dump never leaks TLS private keys, and producing it never alters the live / persisted
   configuration.  Only statements here; proofs by `exact`.

   Objects (Model/Redact.v over the GENERATED type graph Gen/CfgTypes.v, regenerated from /repo on every run):
     cfg_structs        the configuration type graph (reflect walk of configmanager.effectiveConfig, v2.*, and the
                        config types of registered extension parsers that hold a v2.TLSConfig) + marshal hooks (go/ast)
     taint              marks the PrivateKey of EVERY v2.TLSConfig position of a value (Go-level fields incl. json:"-",
                        and inside extension raw JSON through the registered parser types) as a secret leaf
     live c             c with the positions the effective-config setters keep nil set to nil
     dump_endpoint e    the JSON a query variant of /api/v1/config_dump serialises (redactor program of redact.go, then
                        the model of encoding/json with the custom MarshalJSON hooks, then the JSON-level redaction of
                        the serialized text: RedactDumpJSON)
     dump_log e         the storage regions the redactor writes while producing it *)
From Coq Require Import List String Bool ZArith NArith Ascii.
From MV Require Import Lib.GoJson Lib.GoJsonFacts Lib.CfgStore Gen.CfgTypes Model.Redact Proofs.Redact.
Import ListNotations.
Open Scope string_scope.

(* the translator recognised the source (type graph, hooks, defect sites) *)
Theorem c20_translator_ok : CfgTypes_translator_ok = true.
Proof. exact (eq_refl true). Qed.

(* the redactor in the tree has the repaired shape at both defect sites (read from redact.go / dump_action.go by
   go/ast): Servers/Listeners are copied before being written, extension configs are redacted, transferConfig does
   not write through the live Servers slice.  A regression flips a switch and this obligation fails. *)
Theorem c20_source_shape :
  (src_redact_copies_servers && src_redact_handles_extends && src_transfer_copies_servers)%bool = true.
Proof. exact (eq_refl true). Qed.

(* COVERAGE.  Every position of the generated graph at which a TLSConfig can occur - or raw JSON that a registered
   TLS-bearing parser decodes - and that is reachable from a dump endpoint is on a redacted path; there is no
   TLS-bearing JSON config type in the tree that the graph does not know; PrivateKey is the member "private_key".
   Finite check on the graph of THIS tree (vm_compute): a TLS-bearing field added anywhere makes it fail. *)
Theorem c20_covers : covers_all = true.
Proof. exact covers_all_true. Qed.
Print Assumptions c20_covers.
(* c20_covers also accounts for what the typed program has NO rule for.  (1) Every opaque position of the graph
   (cfg_blob_positions, enumerated by the translator: filter / per-filter / health-check / extend-verify / sds / codec
   configs typed map[string]interface{} or interface{}, raw xDS resources typed json.RawMessage): covered because every
   serialisation of the dump goes through the JSON-level redaction (src_dump_scrubs_output, read from DumpJSON and the
   admin handler by go/ast) - or else there must be no such position.  (2) Every json-tagged string field in the tree
   whose name suggests a secret has been looked at (reviewed_keylike): a registered filter/extension factory that starts
   decoding key material under another member name shows up in cfg_keylike_fields and makes c20_covers false. *)
Theorem c20_covers_blobs : blob_positions_ok = true /\ keylike_ok = true.
Proof. exact (covers_all_blobs covers_all_true). Qed.
Theorem c20_source_scrubs_output : src_dump_scrubs_output = true.
Proof. exact (eq_refl true). Qed.

(* NO LEAK.  For EVERY configuration value c (any list lengths, map sizes, nesting; `vsecrets c = []` only says the
   input carries none of the model's secret markings yet), every endpoint and parameter, every amount of encoder
   fuel (running out of fuel counts as printing everything that was left): every private key of a TLS context that
   occurs in the response is the empty string (omitted by omitempty) or the placeholder. *)
Theorem c20_no_leak : forall fuel e next0 c, vsecrets c = [] ->
  Forall ok_secret (jsecrets (dump_endpoint fuel e next0 (taint cfg_structs root_ty (live c)))).
Proof. exact (no_leak graph_ok_holds). Qed.
Print Assumptions c20_no_leak.

(* NO LEAK, OPAQUE BLOBS AND ANYTHING ELSE.  For EVERY configuration value c - no premise at all: typed or opaque
   positions, marked or not, whatever the typed program did - every endpoint, parameter and amount of fuel: in the
   response every string member named "private_key" (any case), at any depth, is empty or the placeholder.  This is what
   covers a network/stream filter configuration (map[string]interface{}) that embeds a TLS context, a per-filter
   config, a health-check session config, a raw xDS resource ... *)
Theorem c20_no_leak_any_private_key : forall fuel e next0 c,
  Forall ok_secret (key_strings (dump_endpoint fuel e next0 c)).
Proof. exact dump_no_key_strings. Qed.
Print Assumptions c20_no_leak_any_private_key.
(* ... and that pass changes nothing else in the response *)
Theorem c20_scrub_only_keys : forall fuel e next0 c,
  same_but_keys (dump_endpoint_with false fuel e next0 c) (dump_endpoint_with true fuel e next0 c).
Proof. exact dump_scrub_only_keys. Qed.

(* PURE.  For every configuration value, endpoint and first free region next0 (the live configuration occupies
   regions < next0): every write of the redactor targets a region >= next0, i.e. storage it allocated itself ... *)
Theorem c20_pure : forall e next0 c, Forall (fun r => (next0 <= r)%N) (dump_log e next0 c).
Proof. exact (pure_log all_safe_true). Qed.
Print Assumptions c20_pure.

(* ... hence, whatever is written there, every live region - and anything computed from the live regions only, such
   as the live configuration itself or the file transferConfig persists - reads as before. *)
Theorem c20_pure_store : forall (A X : Type) (read : store A -> X) e next0 c (contents : list A) (st : store A),
  (forall st st', (forall r, (r < next0)%N -> st r = st' r) -> read st = read st') ->
  read (commit A st (combine (dump_log e next0 c) contents)) = read st.
Proof.
  exact (fun A X read e next0 c contents st Hread =>
    read_below A X read next0 Hread (combine (dump_log e next0 c) contents) st
      (proj2 (Forall_forall _ _) (fun w Hin =>
         proj1 (Forall_forall _ _) (pure_log all_safe_true e next0 c) (fst w) (in_combine_l _ _ _ _ (eq_ind _ (fun x => In x _) Hin _ (surjective_pairing w)))))).
Qed.
Print Assumptions c20_pure_store.

(* THE JSON-LEVEL REDACTOR (redactRawJSON / redactJSONValue: the walk over an extension config's raw JSON), on its own.
   For EVERY JSON value j - any depth, any number of TLS contexts, in arrays, as sibling members, nested in each other,
   the key spelled in any case, private_key members that are not strings - after the redaction every string directly
   under a member named "private_key" is empty or the placeholder ... *)
Theorem c20_extend_json_no_leak : forall j, Forall ok_secret (key_strings (blank_json_keys j)).
Proof. exact blank_key_strings. Qed.
Print Assumptions c20_extend_json_no_leak.
(* ... and the output is otherwise the input: same shape, same members in the same order, same leaves; a document
   without such members is returned as it is *)
Theorem c20_extend_json_only_keys : forall j, same_but_keys j (blank_json_keys j).
Proof. exact blank_same_but_keys. Qed.
Theorem c20_extend_json_identity : forall j, key_strings j = [] -> blank_json_keys j = j.
Proof. exact blank_no_keys_id. Qed.
Print Assumptions c20_extend_json_only_keys.
(* (c20_no_leak marks the raw JSON of EVERY extension config by key, whatever parser is registered for it, so it covers
   these documents too.)  Non-vacuity: four contexts - top, two array elements, nested - and a non-string private_key *)
Example c20_extend_json_example :
  let j := JObj [("agents", JArr [JObj [("tls_context", JObj [("private_key", JStr "K1")])];
                                  JObj [("tls_context", JObj [("Private_Key", JStr "K2");
                                                              ("inner", JObj [("tls_context", JObj [("PRIVATE_KEY", JStr "K3")])])])]]);
                 ("n", JNum "12345678901234567");
                 ("private_key", JObj [("private_key", JStr "K4")]);
                 ("tls_context", JObj [("private_key", JStr ""); ("status", JBool true)])] in
  key_strings j = ["K1"; "K2"; "K3"; "K4"; ""] /\
  key_strings (blank_json_keys j) = [placeholder; placeholder; placeholder; placeholder; ""].
Proof. split; vm_compute; reflexivity. Qed.

(* THE OUTPUT IS A VALUE.  dump_endpoint is a function to a JSON value: what an endpoint hands out is determined at the
   moment it returns and nothing that runs later can change it.  In the implementation the bytes must therefore be fresh
   (src_dump_fresh_bytes, read from DumpJSON by go/ast: the lock pair, redactedCopy, json.Marshal and RedactDumpJSON are the
   only calls, the unlock the only deferred one - no pooled buffer, nothing released that the result may alias), and on every
   run the bytes every dump API returned are RETAINED BY REFERENCE while the other serializers run (transferConfig,
   InheritMosnconfig, DumpConfig, further dumps), re-compared with the copy taken at return time and re-scanned for the
   planted keys; the handler is also read in 48-byte pieces with the persist path running in between. *)
Theorem c20_source_dump_fresh_bytes : src_dump_fresh_bytes = true.
Proof. exact (eq_refl true). Qed.
(* (e) an output handed out BY REFERENCE to a storage region that is recycled is refuted in the region model: after the
   next serializer writes its (unredacted) document to that region, reading the response gives that document *)
Theorem c20_output_by_reference_refuted : forall (A : Type) (st : store A) (r : N) (unredacted : A),
  commit A st [(r, unredacted)] r = unredacted.
Proof. exact output_by_reference_overwritten. Qed.

(* OPAQUE VALUES, ANY DEPTH.  A decoded JSON value held in an interface{} (extend_verify, filter / per-filter configs,
   health-check and codec configs, metadata ...) is a tree of maps and slices held BY REFERENCE: a copy of the enclosing
   struct, or a one-level copy of the top map, still shares every nested map.  The typed redactor writes nothing below such
   a position (src_redact_tls_shallow: redactTLSConfig only assigns the PrivateKey field of its argument - no call, no loop;
   the opaque positions are redacted on the serialized text, which RedactDumpJSON decodes itself).  In the reference model
   rjson (objects / arrays carry their storage region): for EVERY opaque value and every next, the in-place JSON redactor
   run on a DEEP copy (all regions new: what decoding a serialisation gives) writes only regions >= next - none of the
   live configuration, at any depth ... *)
Theorem c20_opaque_deep_copy_pure : forall next j, Forall (fun r => (next <= r)%N) (blank_inplace (copy_deep next j)).
Proof. exact deep_copy_redaction_pure. Qed.
Print Assumptions c20_opaque_deep_copy_pure.
Theorem c20_source_redact_tls_shallow : src_redact_tls_shallow = true.
Proof. exact (eq_refl true). Qed.
(* (f) ... while a ONE-LEVEL copy of the map is refuted: the private_key two levels down in a live extend_verify (regions
   1..3, next = 10) is written in live region 3; only a key at the top of the map lands in the copy (region 10) *)
Theorem c20_pure_refuted_with_one_level_copy :
  blank_inplace (copy_top 10 w_ev_nested) = [3%N] /\ blank_inplace (copy_top 10 w_ev_top) = [10%N] /\
  blank_inplace (copy_deep 10 w_ev_nested) = [13%N].
Proof. exact top_copy_redaction_refuted. Qed.

(* THE TEXT, WHATEVER ITS SPELLING.  RedactDumpJSON is given a TEXT; the same member can be spelled in many ways in it
   (private\u005fkey, \u0050rivate_key, Private\u005FKey ... are the member private_key to every JSON decoder, and the tunnel_agent
   parser reads its TLS context from it).  The redaction is specified on the value the text DECODES to: sjson is a document
   with member names and strings as spelled (literal bodies), unescape the meaning of a literal (validated against
   encoding/json on every run through the spelled_case shards), sdecode the decoded document, redact_text its redaction.
   For EVERY text that decodes at all, no string member whose decoded name is private_key (any case) survives ... *)
Theorem c20_redact_text_no_leak : forall s j, redact_text s = Some j -> Forall ok_secret (key_strings j).
Proof. exact redact_text_no_leak. Qed.
Print Assumptions c20_redact_text_no_leak.
(* ... the redaction is defined whenever the text decodes, and a string member is blanked however its name and its
   value are spelled: *)
Theorem c20_redact_text_defined : forall s j0, sdecode s = Some j0 -> redact_text s = Some (blank_json_keys j0).
Proof. exact redact_text_defined. Qed.
Theorem c20_spelled_member_blanked : forall k lit rest k' v jr,
  unescape k = Some k' -> key_eq k' tls_key_json = true -> unescape lit = Some v ->
  sdecode (SObj rest) = Some (JObj jr) ->
  exists jr', redact_text (SObj ((k, SStr lit) :: rest)) = Some (JObj ((k', JStr (if String.eqb v "" then v else placeholder)) :: jr')).
Proof. exact spelled_member_blanked. Qed.
(* (d) a textual pre-filter (decode and redact only when the lower-cased text contains the name) is refuted: w_spelled spells
   its two members with escapes, its text does not contain the name, every decoder reads two private keys from it, the
   redaction blanks both, the pre-filtered variant returns both *)
Theorem c20_no_leak_refuted_with_text_prefilter :
  contains tls_key_json (lower (sprint w_spelled)) = false /\
  option_map key_strings (sdecode w_spelled) = Some ["KEY-ESC"; "KEY-2"] /\
  option_map key_strings (redact_text w_spelled) = Some [placeholder; placeholder] /\
  option_map (fun j => leaked (key_strings j)) (redact_text_prefiltered w_spelled) = Some ["KEY-ESC"; "KEY-2"].
Proof. exact spelled_witness. Qed.

(* non-vacuity: a configuration with a key at the cluster-manager, filter-chain (both shapes), listener-map, cluster
   and extension positions; without redaction the keys are visible, the dump shows none, the redactor does write
   (so c20_pure is not about an empty log) and none of its writes is below next0 *)
Example c20_example :
  vsecrets w_conf = [] /\
  leaked (jsecrets (raw_endpoint 64 (taint cfg_structs root_ty (live w_conf)))) =
    ["KEY-CONTEXTS"; "KEY-CM"; "KEY-CONTEXTS"; "KEY-CLUSTER"; "KEY-EXT"] /\
  leaked (jsecrets (dump_endpoint 64 EFull w_next0 (taint cfg_structs root_ty (live w_conf)))) = [] /\
  existsb (fun r => N.ltb r w_next0) (dump_log EFull w_next0 (taint cfg_structs root_ty (live w_conf))) = false /\
  dump_log EFull w_next0 (taint cfg_structs root_ty (live w_conf)) <> [].
Proof. exact witness_visible. Qed.

(* The two defects this tree had (repaired by `fix:` commits; see known_findings.d/cfg.json) as theorems about the
   model with the source switch in the defective position - the full statements above are FALSE for those shapes: *)
(* (a) extension configs not redacted: the graph is not covered and the tunnel_agent key is printed *)
Theorem c20_covers_refuted_without_extends :
  covers cfg_structs graph_fuel pruned_root [] root_ty (p_root_with CopyMake false) = false.
Proof. exact covers_without_extends_false. Qed.
Theorem c20_no_leak_refuted_without_extends :
  vsecrets w_conf = [] /\
  leaked (jsecrets (fst (dump_full_with CopyMake false 64 w_next0 (taint cfg_structs root_ty (live w_conf))))) = ["KEY-EXT"].
Proof. exact leak_without_extends. Qed.
(* (b) Servers / Listeners redacted in place: a write lands in a live region *)
Theorem c20_pure_refuted_in_place :
  existsb (fun r => N.ltb r w_next0) (snd (dump_full_with InPlace true 64 w_next0 (taint cfg_structs root_ty (live w_conf)))) = true.
Proof. exact live_write_in_place. Qed.
(* (c) no scrub of the serialized dump (typed program only, the tree before 658458423): the key of a stream filter
   configuration - a direct member of the map and one nested in a blob - is printed by the listener and full endpoints;
   with the scrub none is, and the response still has its 7 private_key members *)
Theorem c20_no_leak_refuted_without_scrub :
  vsecrets w_conf_blob = [] /\
  leaked (key_strings (dump_endpoint_with false 64 EAllListeners w_next0_blob (taint cfg_structs root_ty (live w_conf_blob))))
    = ["KEY-FILTER-TOP"; "KEY-FILTER-NESTED"] /\
  leaked (key_strings (dump_endpoint_with false 64 EFull w_next0_blob (taint cfg_structs root_ty (live w_conf_blob))))
    = ["KEY-FILTER-TOP"; "KEY-FILTER-NESTED"] /\
  leaked (key_strings (dump_endpoint 64 EAllListeners w_next0_blob (taint cfg_structs root_ty (live w_conf_blob)))) = [] /\
  leaked (key_strings (dump_endpoint 64 EFull w_next0_blob (taint cfg_structs root_ty (live w_conf_blob)))) = [] /\
  List.length (key_strings (dump_endpoint 64 EFull w_next0_blob (taint cfg_structs root_ty (live w_conf_blob)))) = 7.
Proof. exact blob_leak_without_scrub. Qed.
