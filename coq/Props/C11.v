(* C11 - Graceful shutdown and hot upgrade lose no requests.  Only statements here; proofs by `exact`.
   The logic on both sides of the OS boundary: listener stop/close, drain loop, transfer message codec, byte-stream
   continuity of a handed-over connection.  Signals, exec, fd passing are not modelled (level_note: partial). *)
From Coq Require Import List NArith Arith Bool Lia.
From MV Require Import Lib.Bytes Lib.Seg Gen.TransferTokens Model.Shutdown Proofs.Shutdown.
Import ListNotations.
Open Scope nat_scope.

(* the translator recognised transferBuildHead / transferRecvHead, the drain loop condition and the two branches of
   listener.Shutdown; the constants the model hard-codes are the ones in the source *)
Theorem c11_translator_ok : TransferTokens_translator_ok = true.
Proof. exact (eq_refl true). Qed.
Theorem c11_head_layout :
  transfer_head_len = 8%N /\ transfer_recv_head_len = 8%N /\ transfer_put_offsets = [0%N; 4%N] /\
  transfer_get_offsets = [0%N; 4%N] /\ transfer_big_endian = true.
Proof. exact (conj eq_refl (conj eq_refl (conj eq_refl (conj eq_refl eq_refl)))). Qed.
Theorem c11_drain_condition : drain_cond_gauge_gt0 = true /\ drain_cond_waited_le_max = true.
Proof. exact (conj eq_refl eq_refl). Qed.
Theorem c11_shutdown_branches :
  shutdown_upgrade_only_stops_accept = true /\ shutdown_otherwise_closes_then_drains = true.
Proof. exact (conj eq_refl eq_refl). Qed.

(* the read buffer of a connection rebuilt from a transfer leaves room for the next read (connection.go NewServerConnection);
   with this flag false a hand-over with exactly 64, 128, 256, ... buffered bytes is closed by the new process *)
Theorem c11_transfer_buffer_has_room : transfer_buffer_has_room = true.
Proof. exact (eq_refl true). Qed.
Theorem c11_handed_over_conn_survives : forall buffered, handed_over_conn_survives transfer_buffer_has_room buffered = true.
Proof. exact survives_with_room. Qed.
(* the code before the fix: exactly the pool sizes are fatal *)
Example c11_full_buffer_was_fatal :
  handed_over_conn_survives false 64 = false /\ handed_over_conn_survives false 4096 = false /\
  handed_over_conn_survives false 63 = true /\ handed_over_conn_survives false 65 = true.
Proof. exact without_room_64_fatal. Qed.

(* OnAccept publishes the accept buffer of a handed-over connection whatever its length (read from handler.go on this run),
   so every handed-over connection - with ANY number of buffered bytes, zero included - gets its read buffer, is started by
   the new process and survives; published only when non-empty, the IDLE connection is never started *)
Theorem c11_transfer_buffer_always_published : transfer_buffer_always_published = true.
Proof. exact (eq_refl true). Qed.
Theorem c11_handed_over_conn_served : forall buffered,
  handed_over_conn_served transfer_buffer_has_room transfer_buffer_always_published buffered = true.
Proof. exact served_when_published. Qed.
Example c11_unpublished_idle_never_served :
  handed_over_conn_served true false 0 = false /\ handed_over_conn_served true false 1 = true.
Proof. exact unpublished_idle_never_served. Qed.

(* ---- listener ---- *)
(* every state reachable from a fresh listener is well-formed (an accept loop runs only in state Running) *)
Theorem c11_listener_wf : forall bind inherited ops, l_wf (l_run (l_init bind inherited) ops).
Proof. intros bind inherited ops. exact (l_wf_run ops _ (l_wf_init bind inherited)). Qed.

(* graceful stop: after Shutdown (not upgrading) no accept succeeds, for every later history without Start(restart) *)
Theorem c11_no_new_after_stop : forall l ops,
  l_wf l -> l_bind l = true ->
  forallb (fun o => negb (is_restart o)) ops = true ->
  l_accepts (l_run (l_shutdown false l) ops) = false.
Proof. exact no_new_after_shutdown. Qed.
Print Assumptions c11_no_new_after_stop.

(* "stops accepting new connections" at full strength: from the moment the drain starts (cb.OnShutdown is invoked with the
   listener already closed) and ever after, a TCP connect is REFUSED - it is not established into the backlog of a socket
   that nobody accepts from, where its request would never be read *)
Theorem c11_refused_during_and_after_drain : forall l ops,
  l_wf l -> l_bind l = true ->
  forallb (fun o => negb (is_restart o)) ops = true ->
  (exists l', l_at_drain false l = Some l' /\ l_connect l' = CRefused) /\
  l_connect (l_run (l_shutdown false l) ops) = CRefused.
Proof. exact refused_during_and_after_drain. Qed.
Print Assumptions c11_refused_during_and_after_drain.

(* ---- a server is a LIST of listeners (ingress, egress, ...) ---- *)
(* each shutdown goroutine of GracefulStopListeners works on its OWN listener (read from the source on this run) *)
Theorem c11_shutdown_goroutine_has_own_listener : shutdown_goroutine_has_own_listener = true.
Proof. exact (eq_refl true). Qed.

(* no listener is skipped, for every list: listener i ends up as l_shutdown of itself - it refuses connects and its
   connections have got the shutdown event (OnShutdown count + 1) *)
Theorem c11_no_listener_skipped : forall ls i l,
  nth_error ls i = Some l -> l_wf l -> l_bind l = true ->
  exists l', nth_error (srv_shutdown shutdown_goroutine_has_own_listener ls) i = Some l' /\ l' = l_shutdown false l /\
             l_connect l' = CRefused /\ l_drains l' = S (l_drains l).
Proof. exact no_listener_skipped. Qed.
Print Assumptions c11_no_listener_skipped.

(* and GracefulStopListeners returns only after the in-flight requests of EVERY listener of the list *)
Theorem c11_inflight_complete_all_listeners : forall rss pt max i rs r t,
  increasing pt -> nth_error rss i = Some rs -> In r rs ->
  r_active r (pt 0) = true -> r_done r - pt 0 <= max ->
  srv_return shutdown_goroutine_has_own_listener rss pt max = Some t ->
  r_done r <= t.
Proof. exact inflight_complete_all_listeners. Qed.
Print Assumptions c11_inflight_complete_all_listeners.

(* with the range variable shared by the goroutines (go < 1.22) only the last listener is shut down and waited for *)
Example c11_shared_loop_variable_refuted :
  let l := l_run (l_init true false) [OpStart false] in
  map l_connect (srv_shutdown false [l; l; l]) = [CAccepted; CAccepted; CRefused] /\
  srv_return false [[mkR 0 10 200 30]; []] (fun i => 100 + 10 * i) 1000 = Some 100 /\
  srv_return true [[mkR 0 10 200 30]; []] (fun i => 100 + 10 * i) 1000 = Some 240.
Proof. vm_compute. repeat split; reflexivity. Qed.

(* hot upgrade: after Shutdown while Upgrading the old process accepts nothing (until a Start resumes it), the listening
   socket keeps its identity and is not closed by it *)
Theorem c11_no_new_after_stop_upgrade : forall l ops,
  l_wf l -> l_bind l = true ->
  forallb (fun o => negb (is_start o)) ops = true ->
  l_accepts (l_run (l_shutdown true l) ops) = false /\
  l_fd (l_run (l_shutdown true l) ops) = l_fd l /\
  (l_sock l <> SClosed -> l_sock (l_shutdown true l) <> SClosed).
Proof. exact no_new_after_stop_accept. Qed.
Print Assumptions c11_no_new_after_stop_upgrade.

Example c11_listener_example :
  let l := l_run (l_init true false) [OpStart false] in
  l_wf l /\ l_bind l = true /\ l_accepts l = true /\
  l_accepts (l_run (l_shutdown false l) [OpStart false; OpShutdown true; OpClose]) = false /\
  l_sock (l_shutdown true l) = SDeadline /\ l_accepts (l_run (l_shutdown true l) [OpStart false]) = true /\
  l_connect l = CAccepted /\ l_connect (l_shutdown true l) = CBacklog /\ l_connect (l_shutdown false l) = CRefused.
Proof.
  cbn zeta. split; [apply (l_wf_run [OpStart false]); apply l_wf_init|]. vm_compute. repeat split; reflexivity.
Qed.

(* ---- drain loop ---- *)
(* the loop always ends (fuel exhaustion unreachable) *)
Theorem c11_drain_terminates : forall rs pt max, increasing pt -> drain_exit rs pt max <> None.
Proof. exact drain_exit_total. Qed.

(* For every set of concurrent requests, every poll schedule and every arrival time pt 0 of the signal at which request r
   has a stream (waiting for the upstream / reply half written): if what remains of r fits into the drain time, Shutdown
   returns only after r's reply was written. *)
Theorem c11_inflight_complete : forall rs pt max r e,
  increasing pt -> In r rs ->
  r_active r (pt 0) = true ->
  r_done r - pt 0 <= max ->
  drain_exit rs pt max = Some e ->
  r_done r <= pt e.
Proof. exact inflight_complete. Qed.
Print Assumptions c11_inflight_complete.

(* Per protocol.  An exchange with client-side times first byte <= HEADERS/part 1 sent <= request sent <= reply complete is
   waited for from the moment it is a stream: request sent for bolt and HTTP/1.1, HEADERS sent for HTTP/2. *)
Theorem c11_inflight_complete_per_protocol : forall xs pt max x e,
  increasing pt -> In x xs -> x_wf x ->
  stream_at x <= pt 0 -> pt 0 < x_done x ->
  x_done x - pt 0 <= max ->
  drain_exit (map req_of xs) pt max = Some e ->
  x_done x <= pt e.
Proof. exact inflight_complete_proto. Qed.
Print Assumptions c11_inflight_complete_per_protocol.

(* HTTP/2: "headers sent" and "body half sent" are already covered (stream_at = HEADERS sent) *)
Theorem c11_http2_headers_sent_suffices : forall xs pt max x e,
  x_proto x = PHttp2 ->
  increasing pt -> In x xs -> x_wf x ->
  x_hdr x <= pt 0 -> pt 0 < x_done x -> x_done x - pt 0 <= max ->
  drain_exit (map req_of xs) pt max = Some e -> x_done x <= pt e.
Proof.
  intros xs pt max x e Hp Hi Hin Hw Hh. apply (inflight_complete_proto xs pt max x e Hi Hin Hw).
  unfold stream_at. rewrite Hp. exact Hh.
Qed.

(* bolt and HTTP/1.1: the same statement with "first byte sent" in place of "is a stream" is FALSE (the listed finding) *)
Definition c11_waited_from_first_byte (p : proto) : Prop := forall xs pt max x e,
  x_proto x = p -> increasing pt -> In x xs -> x_wf x ->
  x_first x <= pt 0 -> pt 0 < x_done x -> x_done x - pt 0 <= max ->
  drain_exit (map req_of xs) pt max = Some e -> x_done x <= pt e.
Lemma c11_first_byte_witness p : p <> PHttp2 -> ~ c11_waited_from_first_byte p.
Proof.
  intros Hp H.
  specialize (H [mkX p 0 10 60 200] (fun i => 30 + 10 * i) 1000 (mkX p 0 10 60 200) 0 eq_refl).
  assert (Hinc : increasing (fun i => 30 + 10 * i)) by (intros i; lia).
  specialize (H Hinc (or_introl eq_refl)).
  assert (Hw : x_wf (mkX p 0 10 60 200)) by (unfold x_wf; cbn; lia).
  specialize (H Hw).
  assert (H1 : x_first (mkX p 0 10 60 200) <= 30 + 10 * 0) by (cbn; lia).
  assert (H2 : 30 + 10 * 0 < x_done (mkX p 0 10 60 200)) by (cbn; lia).
  assert (H3 : x_done (mkX p 0 10 60 200) - (30 + 10 * 0) <= 1000) by (cbn; lia).
  specialize (H H1 H2 H3).
  destruct p; [| |congruence]; specialize (H eq_refl); vm_compute in H; lia.
Qed.
Theorem c11_bolt_receiving_refuted : ~ c11_waited_from_first_byte PBolt.
Proof. apply c11_first_byte_witness. discriminate. Qed.
Theorem c11_http1_receiving_refuted : ~ c11_waited_from_first_byte PHttp1.
Proof. apply c11_first_byte_witness. discriminate. Qed.

Theorem c11_drain_no_overstay : forall rs pt max e,
  drain_exit rs pt max = Some e -> forall j, j < e -> pt j - pt 0 <= max /\ 0 < gauge rs (pt j).
Proof. exact drain_no_overstay. Qed.

Example c11_inflight_example :
  let rs := [mkR 0 10 200 30; mkR 50 5 20 5] in
  let pt := fun i => 100 + 10 * i in
  increasing pt /\ r_active (mkR 0 10 200 30) (pt 0) = true /\ r_done (mkR 0 10 200 30) - pt 0 <= 1500 /\
  drain_exit rs pt 1500 = Some 14 /\ r_done (mkR 0 10 200 30) = 240.
Proof.
  cbn zeta. split; [intros i; lia|]. split; [reflexivity|]. split; [vm_compute; lia|]. split; vm_compute; reflexivity.
Qed.

(* The same statement for a request that is still being RECEIVED when the signal arrives (headers sent / body half sent:
   no stream yet, not counted by request_active) is FALSE of the code: the loop sees gauge 0 and returns at once. *)
Definition c11_inflight_complete_receiving : Prop := forall rs pt max r e,
  increasing pt -> In r rs ->
  r_receiving r (pt 0) = true ->
  r_done r - pt 0 <= max ->
  drain_exit rs pt max = Some e ->
  r_done r <= pt e.
Theorem c11_inflight_receiving_refuted : ~ c11_inflight_complete_receiving.
Proof.
  intros H.
  specialize (H [mkR 0 10 10 10] (fun i => 5 + 10 * i) 1000 (mkR 0 10 10 10) 0).
  assert (Hinc : increasing (fun i => 5 + 10 * i)) by (intros i; lia).
  specialize (H Hinc (or_introl eq_refl) eq_refl).
  assert (Hrem : r_done (mkR 0 10 10 10) - (5 + 10 * 0) <= 1000) by (vm_compute; lia).
  specialize (H Hrem eq_refl). vm_compute in H. lia.
Qed.

(* ---- transfer codec ---- *)
(* parse (build m) = m for every message whose lengths fit the uint32 fields (0 and 2^32-1 included), whatever follows on
   the socket *)
Theorem c11_transfer_roundtrip : forall data tls rest,
  (blen data < 4294967296)%N -> (blen tls < 4294967296)%N ->
  parse_read_msg (build_read_msg data tls ++ rest) = RecvOk (data, tls) rest.
Proof. exact read_msg_roundtrip. Qed.
Print Assumptions c11_transfer_roundtrip.

Theorem c11_transfer_write_roundtrip : forall id data rest,
  (blen data < 4294967296)%N ->
  parse_write_msg (build_write_msg id data ++ rest) = RecvOk (u32 id, data) rest.
Proof. exact write_msg_roundtrip. Qed.

Theorem c11_transfer_id_roundtrip : forall id rest, parse_id (build_id id ++ rest) = RecvOk (u32 id) rest.
Proof. exact id_roundtrip. Qed.

(* a message that has not fully arrived blocks the receiver; it is never mis-parsed *)
Theorem c11_transfer_prefix_blocks : forall data tls n,
  (blen data < 4294967296)%N -> (blen tls < 4294967296)%N ->
  (n < blen (build_read_msg data tls))%N ->
  parse_read_msg (takeN n (build_read_msg data tls)) = RecvBlock.
Proof. exact read_msg_prefix_blocks. Qed.

(* the uint32 width IS a bound: a length of 2^32 is written as 0; connection ids are truncated the same way *)
Example c11_head_truncates :
  parse_head (build_head 4294967296 4294967297) = Some (0%N, 1%N) /\ parse_id (build_id 4294967296) = RecvOk 0%N [].
Proof. vm_compute. split; reflexivity. Qed.

Example c11_transfer_example :
  parse_read_msg (build_read_msg [1%N; 2%N; 3%N] [9%N] ++ [7%N]) = RecvOk ([1%N; 2%N; 3%N], [9%N]) [7%N] /\
  build_read_msg [] [] = [0;0;0;0;0;0;0;0]%N.
Proof. vm_compute. split; reflexivity. Qed.

(* ---- handover ---- *)
(* For every prefix-stable framer and every cut of the byte stream a ++ b: frames of the old process on a, then frames of the
   new process on (transferred buffer, b) = frames of one process on a ++ b; residual buffer and closed flag agree; the new
   process never spins. *)
Theorem c11_handover_stream : forall (F : Type) (parse : bytes -> presult F), stable parse ->
  forall a b tls,
  let old := feed parse (@init F) a in
  dead old = false ->
  (blen (buf old) < 4294967296)%N -> (blen tls < 4294967296)%N ->
  exists nw, handover old tls = Some (nw, tls) /\
    let fin := feed parse nw b in
    out (feed parse (@init F) (a ++ b)) = out old ++ out fin /\
    buf (feed parse (@init F) (a ++ b)) = buf fin /\
    dead (feed parse (@init F) (a ++ b)) = dead fin /\
    stuck fin = false.
Proof. intros F parse St. exact (handover_stream parse St). Qed.
Print Assumptions c11_handover_stream.

(* the instance "nothing buffered": a connection that is IDLE at hand-over is started from the empty buffer by the new
   process, which then extracts exactly the frames one process would have *)
Theorem c11_handover_idle : forall (F : Type) (parse : bytes -> presult F), stable parse ->
  forall b tls, (blen tls < 4294967296)%N ->
  exists nw, handover (feed parse (@init F) []) tls = Some (nw, tls) /\ buf nw = [] /\
    out (feed parse (@init F) b) = out (feed parse nw b) /\
    buf (feed parse (@init F) b) = buf (feed parse nw b) /\
    dead (feed parse (@init F) b) = dead (feed parse nw b) /\
    stuck (feed parse nw b) = false.
Proof. intros F parse St. exact (handover_idle parse St). Qed.

(* the framing of bolt requests (22-byte header carrying the three lengths) is prefix-stable, so the theorem applies to the
   connections the harness hands over at every byte offset *)
Theorem c11_bolt_request_framing_stable : stable bolt_req_parse.
Proof. exact bolt_req_stable. Qed.

(* ---- hand-over and the connection's write lock ---- *)
(* transfer() takes the write lock (notifyTransfer) BEFORE it sends the socket to the new process (transferRead) *)
Theorem c11_transfer_takes_write_lock_first : transfer_takes_write_lock_first = true.
Proof. exact (eq_refl true). Qed.

(* For EVERY schedule of the old writer, transfer() and the new process, and wherever the old side's write had got (k) when
   transfer() was called: the wire holds a prefix of the old write w followed by a prefix of the new side's bytes n, and no
   byte of the new side is written before the last byte of w. *)
Theorem c11_new_side_waits_for_old_write : forall w k n sched,
  let st := h_run transfer_takes_write_lock_first w k n sched in
  exists wd nd, h_wire st = wd ++ nd /\ wd ++ h_old st = w /\ nd ++ h_new st = n /\ (nd <> [] -> wd = w).
Proof. exact new_side_waits_for_old_write. Qed.
Print Assumptions c11_new_side_waits_for_old_write.

Theorem c11_handed_over_stream_intact : forall w k n sched,
  h_old (h_run transfer_takes_write_lock_first w k n sched) = [] ->
  h_new (h_run transfer_takes_write_lock_first w k n sched) = [] ->
  h_wire (h_run transfer_takes_write_lock_first w k n sched) = w ++ n.
Proof. exact wire_complete. Qed.

(* socket sent first, lock taken afterwards: a schedule puts the new side's bytes inside the old response *)
Example c11_socket_before_lock_refuted :
  h_wire (h_run false [1;2;3;4]%N 1 [9]%N [ATransfer; ANew; AOld; AOld; AOld; ATransfer]) = [1;9;2;3;4]%N /\
  h_wire (h_run true [1;2;3;4]%N 1 [9]%N [ATransfer; ANew; AOld; AOld; AOld; ATransfer; ATransfer; ANew]) = [1;2;3;4;9]%N.
Proof. vm_compute. split; reflexivity. Qed.

(* the idle connection: hand-over with nothing buffered, then two frames arrive at the new process *)
Example c11_handover_idle_example :
  match handover (feed lp_parse init []) [] with
  | Some (nw, _) => buf nw = [] /\ out (feed lp_parse nw [2; 7; 8; 1; 9]%N) = [EFrame [7; 8]%N; EFrame [9]%N]
  | None => False
  end.
Proof. vm_compute. split; reflexivity. Qed.

(* non-vacuity: length-prefixed frames, handover in the middle of the first frame *)
Example c11_handover_example :
  stable lp_parse /\
  let a := [2; 7]%N in let b := [8; 1; 9; 3]%N in
  let old := feed lp_parse init a in
  dead old = false /\ buf old = a /\ out old = [] /\
  out (feed lp_parse init (a ++ b)) = [EFrame [7; 8]%N; EFrame [9]%N] /\
  buf (feed lp_parse init (a ++ b)) = [3]%N.
Proof.
  split; [exact lp_stable|]. cbn zeta. vm_compute. repeat split; reflexivity.
Qed.
