(* C16 - Host health state is never lost, and thresholds are exact.  Only statements here; proofs by `exact`. *)
From Coq Require Import List NArith Bool.
From MV Require Import Lib.Interleave Gen.HealthOps Model.Health Model.HealthCheck Proofs.Health Proofs.HealthCheck.
Import ListNotations.
Open Scope N_scope.

(* the translator recognised the control shape of SetHealthFlag / ClearHealthFlag in health.go *)
Theorem c16_translator_ok : HealthOps_translator_ok = true.
Proof. exact (eq_refl true). Qed.

(* First half.  `health_set_shape` / `health_clear_shape` are the control shapes READ FROM health.go on this run
   (load/store, CAS loop, or atomic Or/And).  Threads are lists of Set/Clear operations; different threads own
   pairwise disjoint condition masks (cross_disjoint).  For EVERY schedule of atomic micro-steps under which all
   threads finish, and every initial word, the final word is the initial word with every operation applied
   (per thread in program order): no condition is lost and none is invented.
   Provable exactly when both shapes are atomic read-modify-write programs; for the load/store program the
   statement is false (c16_loadstore_refuted below) and this proof does not type-check. *)
Theorem c16_no_lost_update : forall progs, cross_disjoint progs -> forall sched w0,
  all_done (fst (hrun health_set_shape health_clear_shape sched progs w0)) = true ->
  snd (hrun health_set_shape health_clear_shape sched progs w0) = apply_all (concat progs) w0.
Proof. exact (no_lost_update health_set_shape health_clear_shape (eq_refl true) (eq_refl true)). Qed.
Print Assumptions c16_no_lost_update.

(* read per condition: a bit that no operation mentions keeps its initial value under every schedule *)
Theorem c16_no_invented_condition : forall progs, cross_disjoint progs -> forall sched w0 n,
  all_done (fst (hrun health_set_shape health_clear_shape sched progs w0)) = true ->
  (forall o, In o (concat progs) -> N.testbit (hmask o) n = false) ->
  N.testbit (snd (hrun health_set_shape health_clear_shape sched progs w0)) n = N.testbit w0 n.
Proof. exact (no_invented_condition health_set_shape health_clear_shape (eq_refl true) (eq_refl true)). Qed.
Print Assumptions c16_no_invented_condition.

(* every thread set can finish, whatever the shapes: the two theorems above are not vacuous for any program list *)
Theorem c16_complete_schedule_exists : forall progs w0, exists sched,
  all_done (fst (hrun health_set_shape health_clear_shape sched progs w0)) = true.
Proof. exact (complete_schedule_exists health_set_shape health_clear_shape). Qed.
Print Assumptions c16_complete_schedule_exists.

(* non-vacuity: three threads (active health check toggling, outlier ejection, a third condition) on a word that
   already carries a foreign condition; an interleaved schedule in which every thread finishes *)
Example c16_flags_example :
  let progs := [[HSet 1; HClear 1]; [HSet 2]; [HClear 9223372036854775808]] in
  let sched := [0; 1; 2; 0; 1; 2; 0; 1; 2; 0; 1; 2; 0; 1; 2; 0; 1; 2; 0; 0; 0; 0; 1; 1; 2; 2; 0; 0; 1; 1; 2; 2]%nat in
  cross_disjoint progs /\
  all_done (fst (hrun health_set_shape health_clear_shape sched progs (9223372036854775808 + 256))) = true /\
  snd (hrun health_set_shape health_clear_shape sched progs (9223372036854775808 + 256)) = 258.
Proof.
  cbn zeta. split; [|split]; [|vm_compute; reflexivity|vm_compute; reflexivity].
  repeat constructor; intros a b Ha Hb; cbn in Ha, Hb; intuition (subst; reflexivity).
Qed.

(* the load/store program (the code before the repair) loses an update: schedule L0 L1 S0 S1 *)
Theorem c16_loadstore_refuted : ~ no_lost_update_statement ShLoadStore ShLoadStore.
Proof. exact loadstore_mixed_refuted. Qed.
Print Assumptions c16_loadstore_refuted.

(* host.go: Health() is true exactly when no condition is set *)
Theorem c16_health_iff_no_flag : forall w, health w = true <-> (forall m, contain_flag w m = false).
Proof. exact health_iff_no_contained. Qed.
Print Assumptions c16_health_iff_no_flag.

(* Second half.  For every pair of thresholds 1 <= u, h < 2^32, every initial flag f, every history rs and next
   result r (s = state after rs, s' and the callback arguments after r):
     a healthy host becomes unhealthy exactly when the last u results (including r) are all failures/timeouts,
     an unhealthy host becomes healthy exactly when the last h results are all successes,
     `changed` is reported exactly on those transitions, and isHealthy is this check's result. *)
Theorem c16_threshold_exact : forall u h, thr_ok u -> thr_ok h -> forall f rs r,
  let s := hc_state u h f rs in
  let s' := fst (hc_step u h s r) in
  let cb := snd (hc_step u h s r) in
  (hflag s = false -> (hflag s' = true <-> last_n_all is_fail (N.to_nat u) (rs ++ [r]))) /\
  (hflag s = true -> (hflag s' = false <-> last_n_all is_succ (N.to_nat h) (rs ++ [r]))) /\
  (fst cb = true <-> hflag s' <> hflag s) /\
  snd cb = is_succ r.
Proof. exact threshold_exact. Qed.
Print Assumptions c16_threshold_exact.

Theorem c16_transition_direction : forall u h s r,
  (is_succ r = true -> hflag s = false -> hflag (fst (hc_step u h s r)) = false) /\
  (is_succ r = false -> hflag s = true -> hflag (fst (hc_step u h s r)) = true).
Proof. exact transition_direction. Qed.
Print Assumptions c16_transition_direction.

Example c16_threshold_example :
  thr_ok 2 /\ thr_ok 3 /\
  hflag (hc_state 2 3 false [RFailure; RSuccess; RTimeout; RFailure]) = true /\
  hflag (hc_state 2 3 false [RFailure; RTimeout; RSuccess; RSuccess]) = true /\
  hflag (hc_state 2 3 false [RFailure; RTimeout; RSuccess; RSuccess; RSuccess]) = false.
Proof. unfold thr_ok. repeat split; try (vm_compute; congruence); vm_compute; reflexivity. Qed.
