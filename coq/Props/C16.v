(* C16 - Host health state is never lost, and thresholds are exact.  Only statements here; proofs by `exact`. *)
From Coq Require Import List NArith Bool.
From MV Require Import Lib.Interleave Gen.HealthOps Gen.HealthLoop Gen.HealthStoreOps Model.Health Model.HealthCheck
  Model.HealthLoop Model.HealthStore Gen.HealthXferTokens Model.HealthTransfer Gen.HealthLifecycleTokens Model.HealthLifecycle
  Proofs.Health Proofs.HealthCheck Proofs.HealthLoop Proofs.HealthStore Proofs.HealthTransfer Proofs.HealthLifecycle.
Import ListNotations.
Open Scope N_scope.

(* the translator recognised the control shape of SetHealthFlag / ClearHealthFlag in health.go *)
Theorem c16_translator_ok : HealthOps_translator_ok = true.
Proof. exact (eq_refl true). Qed.

(* First half.  `health_set_shape` / `health_clear_shape` are the control shapes READ FROM health.go on this run
   (load/store, CAS loop, or atomic Or/And).  Threads are lists of Set/Clear operations; different threads own
   pairwise disjoint condition masks (cross_disjoint).  For EVERY schedule of atomic micro-steps under which all
   threads finish, and every initial word, the final word is the initial word with every operation applied
   (per thread in program order): no condition is lost and none is invented.
   Provable exactly when both shapes are atomic read-modify-write programs; for the load/store program the
   statement is false (c16_loadstore_refuted below) and this proof does not type-check. *)
Theorem c16_no_lost_update : forall progs, cross_disjoint progs -> forall sched w0,
  all_done (fst (hrun health_set_shape health_clear_shape sched progs w0)) = true ->
  snd (hrun health_set_shape health_clear_shape sched progs w0) = apply_all (concat progs) w0.
Proof. exact (no_lost_update health_set_shape health_clear_shape (eq_refl true) (eq_refl true)). Qed.
Print Assumptions c16_no_lost_update.

(* read per condition: a bit that no operation mentions keeps its initial value under every schedule *)
Theorem c16_no_invented_condition : forall progs, cross_disjoint progs -> forall sched w0 n,
  all_done (fst (hrun health_set_shape health_clear_shape sched progs w0)) = true ->
  (forall o, In o (concat progs) -> N.testbit (hmask o) n = false) ->
  N.testbit (snd (hrun health_set_shape health_clear_shape sched progs w0)) n = N.testbit w0 n.
Proof. exact (no_invented_condition health_set_shape health_clear_shape (eq_refl true) (eq_refl true)). Qed.
Print Assumptions c16_no_invented_condition.

(* every thread set can finish, whatever the shapes: the two theorems above are not vacuous for any program list *)
Theorem c16_complete_schedule_exists : forall progs w0, exists sched,
  all_done (fst (hrun health_set_shape health_clear_shape sched progs w0)) = true.
Proof. exact (complete_schedule_exists health_set_shape health_clear_shape). Qed.
Print Assumptions c16_complete_schedule_exists.

(* non-vacuity: three threads (active health check toggling, outlier ejection, a third condition) on a word that
   already carries a foreign condition; an interleaved schedule in which every thread finishes *)
Example c16_flags_example :
  let progs := [[HSet 1; HClear 1]; [HSet 2]; [HClear 9223372036854775808]] in
  let sched := [0; 1; 2; 0; 1; 2; 0; 1; 2; 0; 1; 2; 0; 1; 2; 0; 1; 2; 0; 0; 0; 0; 1; 1; 2; 2; 0; 0; 1; 1; 2; 2]%nat in
  cross_disjoint progs /\
  all_done (fst (hrun health_set_shape health_clear_shape sched progs (9223372036854775808 + 256))) = true /\
  snd (hrun health_set_shape health_clear_shape sched progs (9223372036854775808 + 256)) = 258.
Proof.
  cbn zeta. split; [|split]; [|vm_compute; reflexivity|vm_compute; reflexivity].
  repeat constructor; intros a b Ha Hb; cbn in Ha, Hb; intuition (subst; reflexivity).
Qed.

(* the load/store program (the code before the repair) loses an update: schedule L0 L1 S0 S1 *)
Theorem c16_loadstore_refuted : ~ no_lost_update_statement ShLoadStore ShLoadStore.
Proof. exact loadstore_mixed_refuted. Qed.
Print Assumptions c16_loadstore_refuted.

(* host.go: Health() is true exactly when no condition is set *)
Theorem c16_health_iff_no_flag : forall w, health w = true <-> (forall m, contain_flag w m = false).
Proof. exact health_iff_no_contained. Qed.
Print Assumptions c16_health_iff_no_flag.

(* Second half.  For every pair of thresholds 1 <= u, h < 2^32, every initial flag f, every history rs and next
   result r (s = state after rs, s' and the callback arguments after r):
     a healthy host becomes unhealthy exactly when the last u results (including r) are all failures/timeouts,
     an unhealthy host becomes healthy exactly when the last h results are all successes,
     `changed` is reported exactly on those transitions, and isHealthy is this check's result. *)
Theorem c16_threshold_exact : forall u h, thr_ok u -> thr_ok h -> forall f rs r,
  let s := hc_state u h f rs in
  let s' := fst (hc_step u h s r) in
  let cb := snd (hc_step u h s r) in
  (hflag s = false -> (hflag s' = true <-> last_n_all is_fail (N.to_nat u) (rs ++ [r]))) /\
  (hflag s = true -> (hflag s' = false <-> last_n_all is_succ (N.to_nat h) (rs ++ [r]))) /\
  (fst cb = true <-> hflag s' <> hflag s) /\
  snd cb = is_succ r.
Proof. exact threshold_exact. Qed.
Print Assumptions c16_threshold_exact.

Theorem c16_transition_direction : forall u h s r,
  (is_succ r = true -> hflag s = false -> hflag (fst (hc_step u h s r)) = false) /\
  (is_succ r = false -> hflag s = true -> hflag (fst (hc_step u h s r)) = true).
Proof. exact transition_direction. Qed.
Print Assumptions c16_transition_direction.

Example c16_threshold_example :
  thr_ok 2 /\ thr_ok 3 /\
  hflag (hc_state 2 3 false [RFailure; RSuccess; RTimeout; RFailure]) = true /\
  hflag (hc_state 2 3 false [RFailure; RTimeout; RSuccess; RSuccess]) = true /\
  hflag (hc_state 2 3 false [RFailure; RTimeout; RSuccess; RSuccess; RSuccess]) = false.
Proof. unfold thr_ok. repeat split; try (vm_compute; congruence); vm_compute; reflexivity. Qed.

(* Third part: the sessionChecker.Start loop (timers, channels, check ids), Model/HealthLoop.v.
   `hl_idmode` says where the awaited check id advances, READ FROM session_checker.go on this run.
   Events: the interval timer fires (a check is sent), a response carrying an id reaches the loop, the timeout timer
   fires, stop.  Well-formed histories (loop_wf): a response can only come from a check that has been sent - any
   number of times, at any time (late, duplicate). *)
Theorem c16_loop_translator_ok : HealthLoop_translator_ok = true.
Proof. exact (eq_refl true). Qed.

(* for EVERY event history each sent check contributes AT MOST ONE result to the threshold automaton, and every
   result belongs to a check that was sent *)
Theorem c16_loop_at_most_one_result : forall u h f evs, loop_wf hl_idmode u h (l_init f) evs = true ->
  NoDup (map res_id (snd (loop_run hl_idmode u h (l_init f) evs))) /\
  (forall r, In r (snd (loop_run hl_idmode u h (l_init f) evs)) ->
             In (res_id r) (l_sent (fst (loop_run hl_idmode u h (l_init f) evs)))).
Proof. exact (at_most_one_result hl_idmode). Qed.
Print Assumptions c16_loop_at_most_one_result.

(* a response for a check that already has its result (it timed out, or this is a duplicate) is ignored *)
Theorem c16_loop_settled_response_ignored : forall u h f evs id ok, loop_wf hl_idmode u h (l_init f) evs = true ->
  In id (map res_id (snd (loop_run hl_idmode u h (l_init f) evs))) ->
  snd (hc_loop_step hl_idmode u h (fst (loop_run hl_idmode u h (l_init f) evs)) (EResp id ok)) = None.
Proof. exact (settled_response_ignored hl_idmode). Qed.
Print Assumptions c16_loop_settled_response_ignored.

(* exactly one of the interval / timeout timers is armed at any time before Stop *)
Theorem c16_loop_one_timer_armed : forall u h f evs, loop_wf hl_idmode u h (l_init f) evs = true ->
  let s := fst (loop_run hl_idmode u h (l_init f) evs) in
  l_stopped s = false -> (l_it s + l_tt s = 1)%nat.
Proof. exact (one_timer_armed hl_idmode). Qed.
Print Assumptions c16_loop_one_timer_armed.

(* the response of the check in flight, arriving while its timeout timer is still armed, is taken as its result.
   Type-checks only when the id advances on handled results (IdOnResult); with the id advancing at the loop top an
   expired response made the loop drop it (c16_loop_looptop_refuted). *)
Theorem c16_loop_awaited_response_accepted : forall u h f evs ok, loop_wf hl_idmode u h (l_init f) evs = true ->
  let s := fst (loop_run hl_idmode u h (l_init f) evs) in
  l_stopped s = false -> (0 < l_tt s)%nat ->
  snd (hc_loop_step hl_idmode u h s (EResp (hd 0 (l_sent s)) ok)) <> None.
Proof. exact (awaited_accepted_of_mode hl_idmode (eq_refl IdOnResult)). Qed.
Print Assumptions c16_loop_awaited_response_accepted.

Theorem c16_loop_looptop_refuted : ~ awaited_accepted_statement IdLoopTop.
Proof. exact looptop_drops_awaited_response. Qed.
Print Assumptions c16_loop_looptop_refuted.

(* composition with c16_threshold_exact: the automaton is driven by exactly the list of results (one per check, in
   order), so "exactly when unhealthy_threshold consecutive CHECKS fail": rs = the results of the checks so far *)
Theorem c16_loop_threshold_exact : forall u h, thr_ok u -> thr_ok h -> forall f evs e r,
  let s := fst (loop_run hl_idmode u h (l_init f) evs) in
  let rs := map res_result (snd (loop_run hl_idmode u h (l_init f) evs)) in
  let s' := fst (hc_loop_step hl_idmode u h s e) in
  snd (hc_loop_step hl_idmode u h s e) = Some r ->
  (hflag (l_auto s) = false ->
     (hflag (l_auto s') = true <-> last_n_all is_fail (N.to_nat u) (rs ++ [res_result r]))) /\
  (hflag (l_auto s) = true ->
     (hflag (l_auto s') = false <-> last_n_all is_succ (N.to_nat h) (rs ++ [res_result r]))) /\
  (fst (res_cb r) = true <-> hflag (l_auto s') <> hflag (l_auto s)) /\
  snd (res_cb r) = is_succ (res_result r).
Proof. exact (loop_threshold_exact hl_idmode). Qed.
Print Assumptions c16_loop_threshold_exact.

(* non-vacuity: check 1 times out, its late answer arrives while check 2 is in flight, check 2 answers in time:
   results = timeout for check 1, success for check 2; the late answer and a duplicate are ignored *)
Example c16_loop_example :
  let evs := [ETick; ETimeout; ETick; EResp 1 true; EResp 2 true; EResp 2 true; ETick; EResp 3 false] in
  loop_wf hl_idmode 2 1 (l_init false) evs = true /\
  map (fun r => (res_id r, res_result r)) (snd (loop_run hl_idmode 2 1 (l_init false) evs))
  = [(1, RTimeout); (2, RSuccess); (3, RFailure)].
Proof. cbn zeta. split; vm_compute; reflexivity. Qed.

(* Fourth part: the per-address store of flag words (health.go healthStore) and the host objects holding pointers
   into it (Model/HealthStore.v).  The first sentence of C16 is about the conditions of an ADDRESS; the word-level
   theorems above hold for one word, so every live host object of an address must denote the SAME word.
   `hs_mode` says which operations package cluster performs on the store, READ FROM THE SOURCE on this run. *)
Theorem c16_store_translator_ok : HealthStoreOps_translator_ok = true.
Proof. exact (eq_refl true). Qed.

(* for EVERY history of host-object creation, set / clear through any object, objects becoming garbage and hosts
   being removed from clusters: two live host objects of one address hold the same cell.
   Type-checks only while nothing deletes or replaces store entries (StoreAppendOnly). *)
Theorem c16_one_word_per_address : forall ops i j a ci cj,
  handle (hs_run hs_mode ops) i = Some (a, ci) -> handle (hs_run hs_mode ops) j = Some (a, cj) -> ci = cj.
Proof. exact (one_word_of_mode hs_mode (eq_refl StoreAppendOnly)). Qed.
Print Assumptions c16_one_word_per_address.

(* hence a condition set or cleared through one host object is what every other object of the address reports *)
Theorem c16_same_word_seen : forall ops i j a ci cj,
  let s := hs_run StoreAppendOnly ops in
  handle s i = Some (a, ci) -> handle s j = Some (a, cj) -> handle_word s i = handle_word s j.
Proof. exact same_word_seen. Qed.
Print Assumptions c16_same_word_seen.

(* a store that releases clean entries on host removal breaks it: address in two clusters, removed from one while
   healthy, then a new host object *)
Theorem c16_release_zero_refuted : ~ one_word_statement StoreReleaseZero.
Proof. exact release_zero_refuted. Qed.
Print Assumptions c16_release_zero_refuted.

Example c16_store_example :
  let ops := [ONew 7; ONew 7; ONew 3; OSet 0 1; ODrop 1; ORelease 7; ONew 7; OClear 3 1; OSet 2 2] in
  map (handle_word (hs_run hs_mode ops)) [0; 1; 2; 3]%nat = [Some 0%N; None; Some 2%N; Some 0%N].
Proof. vm_compute. reflexivity. Qed.

(* Fifth part: host replacement at the same address as an actor on the shared word (Model/HealthTransfer.v).
   `xfer_mode` = what transferHostSetStates does with health flags, READ FROM cluster_manager.go.  Writers own
   disjoint conditions (checker, outlier regulator, ...), each Set/Clear is atomic (c16_no_lost_update), any number of
   host replacements run concurrently.  For EVERY interleaving in which all actors finish, every flag ends as its last
   writer left it: the final word is the initial word with the writers' operations applied - no lost clear, no
   resurrected flag.  Type-checks only while the replacement does not write health flags; a read-then-OR of the whole
   word (or flag by flag) is refuted: the checker clears its flag between the read and the OR. *)
Theorem c16_transfer_translator_ok : HealthXferTokens_translator_ok = true.
Proof. exact (eq_refl true). Qed.

Theorem c16_flags_survive_host_replacement : forall ts, forallb xinitial ts = true -> cross_disjoint (map xtodo ts) ->
  forall sched w0, forallb xdone (fst (xrun xfer_mode sched ts w0)) = true ->
  snd (xrun xfer_mode sched ts w0) = apply_all (concat (map xtodo ts)) w0.
Proof. exact (xfer_ok_of_mode xfer_mode (eq_refl XferNone)). Qed.
Print Assumptions c16_flags_survive_host_replacement.

Theorem c16_transfer_read_then_set_refuted : ~ xfer_statement XferReadThenSet.
Proof. exact xfer_read_then_set_refuted. Qed.
Print Assumptions c16_transfer_read_then_set_refuted.

Theorem c16_transfer_per_flag_refuted : ~ xfer_statement (XferPerFlag [1; 2]).
Proof. exact xfer_per_flag_refuted. Qed.
Print Assumptions c16_transfer_per_flag_refuted.

Example c16_transfer_example :
  let ts := [XWriter [HClear 1; HSet 1]; XWriter [HSet 2]; XTransfer XStart; XTransfer XStart] in
  forallb xinitial ts = true /\ cross_disjoint (map xtodo ts) /\
  xrun xfer_mode [2; 0; 1; 3; 0; 2; 3]%nat ts 1 = ([XWriter []; XWriter []; XTransfer XDone; XTransfer XDone], 3).
Proof.
  cbn zeta. split; [reflexivity|split; [|vm_compute; reflexivity]].
  repeat constructor; intros a b Ha Hb; cbn in Ha, Hb; intuition (subst; reflexivity).
Qed.

(* Sixth part: the checker LIFECYCLE (Model/HealthLifecycle.v).  `stop_mode` = what healthChecker.stopCheck does with the
   flag of the host whose session is stopped, READ FROM healthchecker.go.  The FAILED_ACTIVE_HC condition of an address
   lives in the shared word and outlives sessions, host objects and checkers.  For every state and every lifecycle
   operation (SetHealthCheckerHostSet dropping / adding / keeping addresses, Stop; a cluster update is Stop + a new
   checker) the condition of EVERY address is unchanged: it changes only at check results (c16_lifecycle_result_step:
   only the result's own address, exactly as the threshold automaton says, `changed` iff it changed), so
   c16_threshold_exact governs every change.  Type-checks only while stopCheck touches no health flag. *)
Theorem c16_lifecycle_translator_ok : HealthLifecycleTokens_translator_ok = true.
Proof. exact (eq_refl true). Qed.

Theorem c16_lifecycle_keeps_flags : forall u h st o, is_result o = false ->
  flags (fst (lc_step stop_mode u h st o)) = flags st.
Proof. exact (lifecycle_of_mode stop_mode (eq_refl StopKeeps)). Qed.
Print Assumptions c16_lifecycle_keeps_flags.

Theorem c16_lifecycle_result_step : forall u h, thr_ok u -> thr_ok h -> forall st a r st' cb,
  lc_step stop_mode u h st (LResult a r) = (st', cb) ->
  (forall j, j <> a -> nth_error st' j = nth_error st j) /\
  match nth_error st a with
  | Some (mkA fl (Some (unc, hcc))) =>
      exists c, cb = Some c /\
        option_map a_flag (nth_error st' a) = Some (hflag (fst (hc_step u h (mkHC fl unc hcc) r))) /\
        c = snd (hc_step u h (mkHC fl unc hcc) r) /\
        (fst c = true <-> hflag (fst (hc_step u h (mkHC fl unc hcc) r)) <> fl)
  | _ => st' = st /\ cb = None
  end.
Proof. exact (result_step stop_mode). Qed.
Print Assumptions c16_lifecycle_result_step.

Theorem c16_lifecycle_stop_clears_refuted : ~ lifecycle_statement StopClears.
Proof. exact stop_clears_refuted. Qed.
Print Assumptions c16_lifecycle_stop_clears_refuted.

Example c16_lifecycle_example :
  flags (lc_run stop_mode 2 2 [mkA false None; mkA false None]
           [LSetHosts [0; 1]%nat; LResult 0 RFailure; LResult 0 RFailure; LStopAll; LSetHosts [0; 1]%nat; LResult 0 RSuccess;
            LSetHosts [1%nat]; LSetHosts [0; 1]%nat; LResult 0 RSuccess])
  = [true; false].
Proof. vm_compute. reflexivity. Qed.
