(* C14 - Stream filters run in order, and a denied request is never forwarded.  Only statements here.
   Model of streamfilter/chain.go inside Model/Proxy.v: run_recv / run_send (cursor, phase test, status switch) and the handlers
   of proxy/streamfilters.go.  Verdict = handler call + returned status: VContinue, VStop, VTerm (termination), VHijack
   (SendHijackReply + Stop), VHijackCont (SendHijackReply + Continue), VDirect (SendDirectResponse + Stop), VReMatch, VReChoose. *)
From Coq Require Import List ZArith Bool Sorted.
From RecordUpdate Require Import RecordSet.
(* Model.ProxyCheck (the correspondence checker used by the case shards) is imported so that it is built with this file *)
From MV Require Import Model.ProxyCheck.
From MV Require Import Model.Proxy Model.ProxySpec Proofs.ProxyReach Proofs.ProxyFamily Proofs.ProxyFam Proofs.ProxyRefute
  Proofs.ProxyThm Proofs.ProxySndErr Proofs.ProxyFilters Proofs.ProxyGen Proofs.ProxySrc Gen.ProxyTokens.
From MV Require Import Model.ProxyBuiltin Proofs.ProxyBuiltinSrc Proofs.ProxyBuiltinInd Proofs.ProxyBuiltinFam Gen.ProxyBuiltinTokens.
Import ListNotations RecordSetNotations.
Open Scope Z_scope.

Theorem c14_translator_ok : ProxyTokens_translator_ok = true.
Proof. exact (eq_refl true). Qed.
(* the switches read from the source on this run are the ones the family theorems were proved for *)
Theorem c14_source_is_verified_source : proxy_src = src_tree.
Proof. exact (eq_refl src_tree). Qed.

(* ---- order, once per pass: EVERY chain, verdict script, phase and state ----
   the calls of one pass of phase p have strictly increasing configured indices (so each filter at most once), all at or after
   the cursor, all belonging to phase p *)
Theorem c14_order_once : forall src c p s,
  let calls := recv_calls (snd (run_recv src c p s)) in
  StronglySorted lt (map (fun x => fst (fst x)) calls) /\
  Forall (fun x => (rcursor s <= fst (fst x))%nat /\ snd (fst x) = p /\
                   exists f, nth_error (c_recv c) (fst (fst x)) = Some f /\ f_phase f = p) calls.
Proof. exact recv_pass_order. Qed.
Print Assumptions c14_order_once.

(* ---- resume: after a pass the cursor is 0, except when its last call returned ReMatchRoute / ReChooseHost: then it is AT the
   requesting filter, and by c14_order_once the next pass calls nothing before it ---- *)
Theorem c14_resume : forall src c p s,
  let s' := fst (run_recv src c p s) in
  match last (recv_calls (snd (run_recv src c p s))) (0%nat, 0%nat, VContinue) with
  | (j, _, v) => if keeps_cursor v then rcursor s' = j else rcursor s' = 0%nat
  end.
Proof. exact recv_pass_cursor. Qed.
Print Assumptions c14_resume.

(* ---- every stream starts at the head of its chain ----
   the chain object of a finished stream is pooled (streamfilter.PutStreamFilterChain) and handed to a later stream; the code
   in the tree zeroes both cursors at Put (switch read from the source on this run), so whatever the previous stream left,
   the next request starts with cursor 0 - and by c14_order_once its first pass then reaches every BeforeRoute filter in
   order.  With a Put that keeps the cursor the statement is false: the next stream skips its leading deny filter and the
   request is forwarded (witness replayed by the harness on pairs of requests through the real pool). *)
Definition c14_fresh_cursor_statement (src : srcp) : Prop :=
  forall prev rc0, rcursor (next_request src prev rc0) = 0%nat /\ scursor (next_request src prev rc0) = 0%nat.
Theorem c14_request_starts_at_chain_head : c14_fresh_cursor_statement proxy_src.
Proof. exact (next_request_fresh proxy_src eq_refl). Qed.
Print Assumptions c14_request_starts_at_chain_head.
Theorem c14_stale_cursor_refuted : ~ c14_fresh_cursor_statement src_no_put_reset.   (* src_tree with put_resets_cursor := false *)
Proof. exact refuted_stale_cursor. Qed.
Example c14_stale_cursor_witness :
  let s0 := next_request src_no_put_reset (final src_no_put_reset cfg_park drive) 0 in
  let r := run src_no_put_reset cfg_deny_head s0 sched_plain in
  rcursor s0 = 1%nat /\ g_new (gs_outs gs0 (snd r)) = 1%nat /\
  filter (fun o => match o with OFilterRecv _ _ _ => true | _ => false end) (snd r) = [] /\
  g_reply_kind (gs_outs gs0 (snd r)) = Some (KUp, 200).
Proof. exact (proj2 witness_stale_cursor). Qed.

(* ---- a denied request is never forwarded ---- *)
Definition c14_denied_never_forwarded_statement (src : srcp) : Prop :=
  forall c sched, g_denied (summ src c sched) = true -> g_new_after_deny (summ src c sched) = false.

(* refuted by the code before repair 5233ec229 (hijack-and-continue followed by re-match: forwarded, client gets the upstream's
   200) and before 86aa437ce (TerminateStream during a failing connection attempt: the retry still runs) *)
Theorem c14_denied_refuted_pending_rematch : ~ c14_denied_never_forwarded_statement src_keep_again.   (* proxy_src with direct_clears_again := false *)
Proof. exact refuted_keep_again. Qed.
Print Assumptions c14_denied_refuted_pending_rematch.

(* the code in the tree: every chain of the family (all 1- and 2-filter chains over the verdicts incl. hijack-and-continue, with
   send filters), every schedule of upstream events: once a receive filter has answered or terminated, NO NewStream call at all;
   a reply that starts is the local one *)
Theorem c14_denied_never_forwarded_family : forall c, In c family -> forall sched, Forall allowed sched ->
  let g := summ proxy_src c sched in
  g_denied g = true -> g_new g = 0%nat /\ g_new_after_deny g = false /\
  (g_started g = true -> exists k code, g_reply_kind g = Some (k, code) /\ k <> KUp).
Proof. exact c14_denied_family. Qed.
Print Assumptions c14_denied_never_forwarded_family.

(* ---- single local reply through the send filters ----
   when a receive filter answered (no termination, client still there, no TerminateStream race) the exchange ends with exactly
   one complete reply, the local one, and no send filter ran twice *)
Theorem c14_single_local_reply_family : forall c, In c family -> forall sched, Forall allowed sched ->
  let s := final proxy_src c sched in let g := summ proxy_src c sched in
  g_denied g = true -> g_term g = false -> existsb is_down_reset sched = false -> existsb is_terminate sched = false ->
  quiescent s = true -> no_defect s = true ->
  g_ended g = true /\ g_hdr g = 1%nat /\ Forall (fun n => (n <= 1)%nat) (scalls s) /\
  exists k code, g_reply_kind g = Some (k, code) /\ k <> KUp.
Proof. exact c14_reply_family. Qed.
Print Assumptions c14_single_local_reply_family.

(* content of the reply: the body the client is sent belongs to the response whose headers it was sent (nothing from an upstream
   response may follow a local reply's headers).  Family x every schedule - it is the last conjunct of c03_safe (Props/C03.v);
   restated here for the chains with send filters that answer from the send phase and for retried 5xx responses with a body.
   With a sendHijackReply that leaves a stored body in place (switch set back) it fails: *)
Theorem c14_reply_body_belongs_to_headers_family : forall c, In c family -> forall sched, Forall allowed sched ->
  g_mixed (summ proxy_src c sched) = false.
Proof. exact (fun c Hc sched Hs => proj2 (proj2 (proj2 (proj2 (proj2 (c03_safe_family c Hc sched Hs)))))). Qed.
Print Assumptions c14_reply_body_belongs_to_headers_family.
Example c14_stale_body_after_hijack :
  g_mixed (summ src_keep_body cfg_stale sched_stale) = true /\ g_reply_kind (summ src_keep_body cfg_stale sched_stale) = Some (KHijack, 503) /\
  g_mixed (summ src_tree cfg_stale sched_stale) = false /\ g_reply_kind (summ src_tree cfg_stale sched_stale) = Some (KHijack, 503) /\
  g_ended (summ src_tree cfg_stale sched_stale) = true.
Proof. exact witness_stale_body. Qed.

(* every filter is destroyed exactly once (streamFilterChain.destroy() runs inside cleanStream): at most once for EVERY
   configuration and schedule (c03_clean_once: the destroy round is emitted together with the gauge decrement), and once at
   quiescence over the family - also when the downstream sender refuses the reply (h / d / t: errors from AppendHeaders /
   AppendData / AppendTrailers) *)
Theorem c14_filters_destroyed_once_with_sender_errors_family : forall c, In c family -> forall h d t sched, Forall allowed sched ->
  let g := summ proxy_src (with_snd_err c h d t) sched in
  (g_destroy g <= 1)%nat /\
  (quiescent (final proxy_src (with_snd_err c h d t) sched) = true -> no_defect (final proxy_src (with_snd_err c h d t) sched) = true ->
   cleaned (final proxy_src (with_snd_err c h d t) sched) = true /\ g_clean g = 1%nat).
Proof. exact c14_destroy_snd_err. Qed.
Print Assumptions c14_filters_destroyed_once_with_sender_errors_family.
(* with resetStream()-and-return on a refused header (switch set back) the filters of a header-only reply are never destroyed *)
Example c14_sender_error_filters_never_destroyed :
  quiescent (final src_append_error_resets cfg_hdr_refused (sched_answered false)) = true /\
  g_destroy (summ src_append_error_resets cfg_hdr_refused (sched_answered false)) = 0%nat /\
  g_destroy (summ src_tree cfg_hdr_refused (sched_answered false)) = 1%nat.
Proof. exact witness_sender_error_no_destroy. Qed.

(* ---- the send chain on every reply that reaches the client ----
   the UpFilter phase runs the send filters on every entry (read from the source on this run), and over the family x every schedule
   - including the configurations in which the re-attempt of a retry finds no healthy host, so that the local 502 is produced in the
   retry phase after the retried 5xx had already gone through the filters - every reply whose headers are written downstream has
   passed the chain since it was last replaced ([x_unfilt]: raised by appendHeaders otherwise) *)
Theorem c14_send_chain_runs_on_every_entry : send_once_per_upreq proxy_src = false.
Proof. exact (eq_refl false). Qed.
Theorem c14_every_reply_passed_send_chain_family : forall c, In c family -> forall sched, Forall allowed sched ->
  x_unfilt (final proxy_src c sched) = false.
Proof. exact c14_reply_filtered_family. Qed.
Print Assumptions c14_every_reply_passed_send_chain_family.
(* with the chain run once per upstreamRequest object (switch set): doRetry keeps the OLD, already marked object when it finds no
   host; the local 502 - the only response the client gets - bypasses every send filter (each ran once, on the discarded 503) *)
Example c14_reply_skips_send_filters_witness :
  x_unfilt (final src_send_once cfg_nohost sched_503_then_nohost) = true /\
  scalls (final src_send_once cfg_nohost sched_503_then_nohost) = [1%nat; 1%nat] /\
  g_reply_kind (summ src_send_once cfg_nohost sched_503_then_nohost) = Some (KHijack, 502) /\
  g_ended (summ src_send_once cfg_nohost sched_503_then_nohost) = true /\
  x_unfilt (final src_tree cfg_nohost sched_503_then_nohost) = false /\
  scalls (final src_tree cfg_nohost sched_503_then_nohost) = [2%nat; 2%nat] /\
  g_reply_kind (summ src_tree cfg_nohost sched_503_then_nohost) = Some (KHijack, 502) /\
  nnew (final src_tree cfg_nohost sched_503_then_nohost) = 1%nat.
Proof. exact witness_reply_skips_send_filters. Qed.

(* ---- the built-in filters that deny: ip_access, payload_limit, fault_inject (abort) - Model/ProxyBuiltin.v ----
   [decide_spec l r q]: the decisions as a pure function of the listener-level configuration l, the per-route configuration of THIS
   request's route r and the request q (effective configuration = the route's override if present, else the listener's; payload_limit
   denies with the configured status iff the limit is enabled and the body is longer; fault_inject aborts iff cluster and header
   matchers fit and the abort percentage is 100; ip_access walks its lists).  [serve_all src l (binit l) h]: the filters as the code
   builds them - one factory per listener configuration, one filter object per stream - over a history h of requests.
   How the filters get their configuration is read from the source on this run: *)
Theorem c14_builtin_translator_ok : ProxyBuiltinTokens_translator_ok = true.
Proof. exact (eq_refl true). Qed.
Theorem c14_builtin_source_is_verified_source : proxy_bsrc = bsrc_tree.
Proof. exact (eq_refl bsrc_tree). Qed.
(* the decision for a request never depends on earlier requests: EVERY listener configuration, EVERY history of requests on any
   routes; needs, per filter, a fresh configuration object per stream OR a ReadPerRouteConfig that replaces the pointer *)
Theorem c14_builtin_decision_independent_of_history : forall src l,
  pl_fresh src || pl_replaces src = true -> fi_fresh src || fi_replaces src = true ->
  forall h, serve_all src l (binit l) h = map (fun rq => decide src l (fst rq) (snd rq)) h.
Proof. exact builtin_independent. Qed.
Print Assumptions c14_builtin_decision_independent_of_history.
(* for the code in the tree: request k of any history is answered as specified for request k alone *)
Theorem c14_builtin_history_meets_spec : forall l h,
  map first_deny (serve_all proxy_bsrc l (binit l) h) = map (fun rq => first_deny (decide_spec l (fst rq) (snd rq))) h.
Proof. exact builtin_history_spec. Qed.
Print Assumptions c14_builtin_history_meets_spec.
(* a factory that hands its own configuration object to every stream, with a ReadPerRouteConfig that writes into it (switches set
   back): after one request on a route that raises the limit, an oversized request on a route without override is let through *)
Theorem c14_builtin_shared_config_refuted : ~ builtin_independence_statement bsrc_shared_mutated.
Proof. exact refuted_shared_mutated. Qed.
Print Assumptions c14_builtin_shared_config_refuted.
Example c14_builtin_shared_config_witness :
  first_deny (decide bsrc_shared_mutated l_pl_only route_b req_100) = Deny 413 /\
  map first_deny (serve_all bsrc_shared_mutated l_pl_only (binit l_pl_only) [(route_a, req_100); (route_b, req_100)]) = [Allow; Allow] /\
  map first_deny (serve_all (Build_bsrc true false true true) l_pl_only (binit l_pl_only) [(route_a, req_100); (route_b, req_100)]) = [Allow; Deny 413] /\
  map first_deny (serve_all (Build_bsrc false true true true) l_pl_only (binit l_pl_only) [(route_a, req_100); (route_b, req_100)]) = [Allow; Deny 413] /\
  map first_deny (serve_all bsrc_tree l_pl_only (binit l_pl_only) [(route_a, req_100); (route_b, req_100)]) = [Allow; Deny 413].
Proof. exact witness_shared_mutated. Qed.
(* denied by a built-in filter => never forwarded: the chain of a request ([builtin_cfg]: every configured built-in filter with the
   verdict it returns for this request) is a member of the family for the enumerated listener (ip_access deny-list, payload_limit
   10/413, fault_inject 503 on x-fault), routes (without / with a limit override) and requests (no body / under / over the limit x
   fault header x listed address); every schedule over the alphabet *)
Theorem c14_builtin_denied_never_forwarded_family : forall r q, In r b_routes -> In q b_reqs -> forall sched, Forall allowed sched ->
  let g := summ proxy_src (builtin_cfg bl_all r q) sched in
  g_denied g = true -> g_new g = 0%nat /\ g_new_after_deny g = false /\
  (g_started g = true -> exists k code, g_reply_kind g = Some (k, code) /\ k <> KUp).
Proof. exact builtin_denied_family. Qed.
Print Assumptions c14_builtin_denied_never_forwarded_family.
(* and the decision reaches the proxy: run to the end, a request the chain denies is answered with the denying filter's status and
   no upstream stream is created; one it allows is forwarded once *)
Theorem c14_builtin_decision_reaches_proxy : forall r q, In r b_routes -> In q b_reqs -> builtin_run_ok bl_all r q = true.
Proof. exact builtin_run. Qed.
Print Assumptions c14_builtin_decision_reaches_proxy.
Example c14_builtin_example :
  let r := {| r_cluster := 0; r_pl := None; r_fi := None |} in
  let q := {| q_body := Some 20; q_fault_hdr := false; q_member := [Some false] |} in
  In r b_routes /\ In q b_reqs /\ first_deny (decide_spec bl_all r q) = Deny 413 /\
  g_new (summ proxy_src (builtin_cfg bl_all r q) drive) = 0%nat /\
  g_reply_kind (summ proxy_src (builtin_cfg bl_all r q) drive) = Some (KHijack, 413).
Proof. exact builtin_example_holds. Qed.

Example c14_example :
  let c := mk false false false RouteForward 2 true 0 [] false 0
              [{| f_phase := 1; f_code := 403; f_verdicts := [VHijackCont] |}; {| f_phase := 1; f_code := 429; f_verdicts := [VReMatch] |}]
              [{| sf_code := 400; sf_verdicts := [] |}] [] in
  In c family /\ Forall allowed drive /\ g_denied (summ proxy_src c drive) = true /\
  g_reply_kind (summ proxy_src c drive) = Some (KHijack, 403) /\ scalls (final proxy_src c drive) = [1%nat].
Proof. exact c14_example_holds. Qed.
