(* C02 (proxy half) - nobody receives someone else's answer: the generation guard and the buffer-recycling condition of
   pkg/proxy (downStream.reuseBuffer / giveStream / the proxyBuffers pool holding the downStream and the pooled upstreamRequest
   of the first attempt).  Only statements here.  (Stream-layer tables: group pool, Props/C02.v.)

   Model (Model/Proxy.v): [reuse] = reuseBuffer, cleared exactly where the code clears it (filter termination, request not
   completely received, timer callbacks, doRetry, sendHijackReply*, SendDirectResponse, TerminateStream - the two sites on the
   retry path are switches READ FROM THE SOURCE: retry_clears_reuse, setupretry_clears_reuse); [gave] = giveStream recycled the
   objects (reuse && no reset flag at clean time); [abandoned] = some attempt's stream was reset - by the peer, the connection
   or the proxy itself - without ever having been answered, so that a reply which the IO goroutine had already picked up can
   still reach that attempt's listener.  The upstreamRequest carries NO generation tag: a reply reaching a recycled object is
   taken for the current user's upstream response. *)
From Coq Require Import List ZArith Bool.
From RecordUpdate Require Import RecordSet.
Import RecordSetNotations.
From MV Require Import Model.ProxyCheck.
From MV Require Import Proofs.ProxyGen.
From MV Require Import Model.Proxy Model.ProxySpec Proofs.ProxyReach Proofs.ProxyFamily Proofs.ProxyFam Proofs.ProxyRefute
  Proofs.ProxyThm Proofs.ProxySrc Gen.ProxyTokens.
Import ListNotations.
Open Scope Z_scope.

Theorem c02_proxy_translator_ok : ProxyTokens_translator_ok = true.
Proof. exact (eq_refl true). Qed.
Theorem c02_proxy_source_is_verified_source : proxy_src = src_tree.
Proof. exact (eq_refl src_tree). Qed.

(* (i) the recycle condition: family x EVERY schedule.  The objects are given back only in a state in which nothing of this
   request can still reach them: no timer armed, the stream cleaned (giveStream itself tests the reset flags), a single attempt,
   answered, and in
   particular no attempt abandoned unanswered *)
Theorem c02_generation_guard : forall c, In c family -> forall sched, Forall allowed sched ->
  let s := final proxy_src c sched in
  gave s = true ->
  abandoned s = false /\ (nnew s <= 1)%nat /\ global_armed s = false /\ try_armed s = None /\ up_alive s = false /\
  cleaned s = true.
Proof. exact c02_recycle_family. Qed.
Print Assumptions c02_generation_guard.

(* (ii) hence, in every history of requests served one after the other on recycled objects (each a family member under any
   schedule), no object is ever handed on while a reply for an earlier user can still arrive: [foreign_possible] = some request
   of the sequence gave its objects back with an abandoned, unanswered attempt *)
Theorem c02_no_foreign_reply_after_recycle : forall reqs : list (cfg * list step),
  Forall (fun r => In (fst r) family /\ Forall allowed (snd r)) reqs ->
  foreign_possible (map (fun r => final proxy_src (fst r) (snd r)) reqs) = false.
Proof. exact c02_no_foreign_family. Qed.
Print Assumptions c02_no_foreign_reply_after_recycle.

(* the full statement for a source variant, and its refutation for the discipline "a retried request can give its pooled
   buffers back" (doRetry no longer clears reuseBuffer, setupRetry clears it only when the failed attempt is still open):
   first attempt reset by the connection, retry answered, request ends normally -> objects given back with the abandoned first
   attempt still able to deliver a reply *)
Definition c02_recycle_statement (src : srcp) : Prop :=
  forall c sched, gave (final src c sched) = true -> abandoned (final src c sched) = false.
Theorem c02_recycle_refuted_for_retried_requests : ~ c02_recycle_statement src_seed_recycle.
Proof. exact refuted_seed_recycle. Qed.
Print Assumptions c02_recycle_refuted_for_retried_requests.

(* the switches as read from the source on this run *)
Theorem c02_retry_path_clears_reuse : retry_clears_reuse proxy_src = true.
Proof. exact (eq_refl true). Qed.

(* non-vacuity: a plain answered request of the family does give its objects back; a retried one does not *)
(* ---- timer functions of an EARLIER owner of the pooled downStream object ----
   Timer.Stop may come after the runtime has started the timer function; the stream is then finished, its object given back to the
   pool and taken by another request before the function runs ([EvStaleTry same] / [EvStaleGlobal same]: same = the proxy ID the
   function captured when its timer was ARMED equals the object's current ID - false for an earlier owner's timer, newActiveStream
   gives every owner a fresh ID).  Both timer functions compare against the captured ID (read from the source on this run: the
   closure uses a variable assigned from atomic.LoadUint32(&s.ID) OUTSIDE the closure): *)
Theorem c02_timer_functions_capture_the_id : try_captures_id proxy_src = true /\ global_captures_id proxy_src = true.
Proof. exact (conj (eq_refl true) (eq_refl true)). Qed.
(* such a function does nothing to the request that holds the object now - every configuration, EVERY state (it clears reuseBuffer
   before any check: the current owner then simply does not give its objects back) *)
Theorem c02_stale_timer_is_a_noop : forall c s,
  env_step proxy_src c (EvStaleTry false) s = (s <| reuse := false |>, []) /\
  env_step proxy_src c (EvStaleGlobal false) s = (s <| reuse := false |>, []).
Proof. exact (fun c s => conj (proj1 (stale_timer_noop src_tree c s) eq_refl) (proj2 (stale_timer_noop src_tree c s) eq_refl)). Qed.
Print Assumptions c02_stale_timer_is_a_noop.
(* with the per-try function loading the ID inside the closure, i.e. comparing it with itself (switch set back): the time-out of
   the earlier owner is executed on the current one - its attempt is reset and it is answered with the 504 produced for the other
   request *)
Theorem c02_stale_timer_self_compare_refuted : ~ stale_timer_statement src_try_self_compare.
Proof. exact refuted_try_self_compare. Qed.
Print Assumptions c02_stale_timer_self_compare_refuted.
Example c02_stale_timer_witness :
  g_reply_kind (summ src_try_self_compare plain_cfg sched_stale_try) = Some (KHijack, 504) /\
  g_ended (summ src_try_self_compare plain_cfg sched_stale_try) = true /\
  existsb (fun o => match o with OUpReset _ => true | _ => false end) (trace src_try_self_compare plain_cfg sched_stale_try) = true /\
  g_started (summ src_tree plain_cfg sched_stale_try) = false /\
  ph (final src_tree plain_cfg sched_stale_try) = PWaitNotify /\
  received (final src_tree plain_cfg sched_stale_try) = false /\
  up_alive (final src_tree plain_cfg sched_stale_try) = true /\
  reuse (final src_tree plain_cfg sched_stale_try) = false.
Proof. exact witness_stale_timer. Qed.

Example c02_example :
  let c := mk false false false RouteForward 2 true 0 [] false 0 [] [] [] in
  In c family /\ Forall allowed sched_plain /\ gave (final proxy_src c sched_plain) = true /\
  gave (final proxy_src cfg_recycle sched_recycle) = false /\ g_ended (summ proxy_src cfg_recycle sched_recycle) = true.
Proof. exact c02_example_holds. Qed.
