(* C04 - Route selection follows the documented precedence, deterministically.  Only statements; proofs by `exact`.
   Model: Model/Router.v (NewRouters = build, findVirtualHost = find_vhost_with, MatchRoute = match_route_with).
   Strings are ASCII; regular / DSL expressions are black boxes whose truth value comes with the request. *)
From Coq Require Import List String Permutation.
From MV Require Import Gen.RouterSrc Model.Router Proofs.Router.
Import ListNotations.
Local Open Scope string_scope.

(* For every accepted configuration c (build c = Ok t), every order wl that Go's unstable sort may give the per-port
   wildcard lists (any permutation sorted by decreasing suffix length), and every Host value h that is non-empty and of
   the form host[:port]: the virtual host used is spec_vhost c h, the candidate with the greatest (class, suffix length)
   where class 4 = exact host + exact port, 3 = exact host + port "*", 2 = wildcard suffix + exact port,
   1 = wildcard suffix + port "*", 0 = default.  Domains and Host are compared after lower-casing. *)
Theorem c04_vhost_precedence : forall c t wl h host port,
  build c = Ok t -> wl_ok t wl -> host_parts h = Some (host, port) ->
  find_vhost_with wl t (Some h) = spec_vhost c h.
Proof. exact vhost_precedence. Qed.
Print Assumptions c04_vhost_precedence.

(* the executable model's own sort is one of those orders *)
Theorem c04_model_sort_is_allowed : forall t, wl_ok t (wild_for t).
Proof. exact wild_for_ok. Qed.
Print Assumptions c04_model_sort_is_allowed.

(* what spec_vhost is: a candidate of maximal score; None iff no domain applies *)
Theorem c04_vhost_is_max : forall c h host port, host_parts h = Some (host, port) ->
  match spec_vhost c h with
  | Some i => exists k s, In (i, k) (entries c) /\ score host port k = Some s /\
        forall j k' s', In (j, k') (entries c) -> score host port k' = Some s' -> score_le s' s
  | None => forall j k, In (j, k) (entries c) -> score host port k = None
  end.
Proof. exact spec_vhost_is_max. Qed.
Print Assumptions c04_vhost_is_max.

(* in an accepted configuration the maximum is unique (equal-length wildcard suffixes cannot both match, duplicates are
   rejected), so the unstable sort is unobservable and a maximal candidate IS the answer *)
Theorem c04_vhost_unique_best : forall c t host port i j k k' s, build c = Ok t ->
  In (i, k) (entries c) -> In (j, k') (entries c) ->
  score host port k = Some s -> score host port k' = Some s -> i = j /\ k = k'.
Proof. exact score_unique. Qed.
Print Assumptions c04_vhost_unique_best.

Theorem c04_vhost_max_is_selected : forall c t h host port i k s,
  build c = Ok t -> host_parts h = Some (host, port) ->
  In (i, k) (entries c) -> score host port k = Some s ->
  (forall j k' s', In (j, k') (entries c) -> score host port k' = Some s' -> score_le s' s) ->
  spec_vhost c h = Some i.
Proof. exact spec_vhost_beats. Qed.
Print Assumptions c04_vhost_max_is_selected.

Theorem c04_exact_host_port_wins : forall c t h host port i,
  build c = Ok t -> host_parts h = Some (host, port) ->
  In (i, KExact host port) (entries c) -> spec_vhost c h = Some i.
Proof. exact exact_port_wins. Qed.
Print Assumptions c04_exact_host_port_wins.

Theorem c04_default_is_last : forall c h host port i,
  host_parts h = Some (host, port) -> spec_vhost c h = Some i ->
  (forall k s, In (i, k) (entries c) -> score host port k = Some s -> k = KDefault) ->
  forall j k, In (j, k) (entries c) -> k <> KDefault -> score host port k = None.
Proof. exact default_is_last. Qed.
Print Assumptions c04_default_is_last.

(* acceptance: NewRouters accepts exactly the non-empty, well-formed configurations in which no two domains are the same
   after normalisation (lower case, host / port split, "*" = "*:*") - for all lists, wherever the two occurrences are and
   whatever lies between them *)
Theorem c04_accepts_iff_no_repeated_domain : forall c,
  (exists t, build c = Ok t) <-> c <> [] /\ Forall vhost_wf c /\ NoDup (map snd (entries c)).
Proof. exact build_accepts_iff. Qed.
Print Assumptions c04_accepts_iff_no_repeated_domain.

(* no shadowing: in an accepted configuration the domain that is the best candidate for a Host decides the lookup *)
Theorem c04_no_shadowing : forall c t wl h host port i k s,
  build c = Ok t -> wl_ok t wl -> host_parts h = Some (host, port) ->
  In (i, k) (entries c) -> score host port k = Some s ->
  (forall j k' s', In (j, k') (entries c) -> score host port k' = Some s' -> score_le s' s) ->
  find_vhost_with wl t (Some h) = Some i.
Proof. exact no_shadowing. Qed.
Print Assumptions c04_no_shadowing.

Theorem c04_repeated_wildcard_rejected :
  build [Build_vhost ["*.aaa.com"] []; Build_vhost ["*.bbb.com"] []; Build_vhost ["*.AAA.com"] []] = Err EDupVirtualHost.
Proof. exact repeated_wildcard_rejected. Qed.
Print Assumptions c04_repeated_wildcard_rejected.

(* case-insensitive in the request host and in the configured domains *)
Theorem c04_host_case_insensitive : forall t wl h h', lower h = lower h' ->
  find_vhost_with wl t (Some h) = find_vhost_with wl t (Some h').
Proof. exact vhost_host_case_insensitive. Qed.
Print Assumptions c04_host_case_insensitive.

Theorem c04_domain_case_insensitive : forall c c', Forall2 same_modulo_case c c' -> build c = build c'.
Proof. exact build_domain_case_insensitive. Qed.
Print Assumptions c04_domain_case_insensitive.

(* what the translator read from routers_impl.go findVirtualHost: the Host is lower-cased once, and a lookup that gave no
   index falls back to the default virtual host before giving up; and from virtualhost.go GetRouteFromEntries: one
   loop over vh.routes returning the first Match (no index consulted); and from generateHostWithPortConfig / NewRouters:
   a repeated default, exact host:port or wildcard suffix is refused when it is inserted, the wildcard one by a scan of
   ALL entries of its port *)
Theorem c04_router_source_shape :
  RouterSrc_translator_ok = true /\ host_fallback_default = true /\ route_scan_is_linear = true /\
  duplicate_checks_on_insert = true.
Proof. repeat split; exact (eq_refl _). Qed.
Print Assumptions c04_router_source_shape.

(* an unset, empty or malformed Host: no exact or wildcard domain can apply, the default virtual host is used *)
Theorem c04_vhost_unusable_host : forall t wl h, host_parts_opt h = None -> find_vhost_with wl t h = t_default t.
Proof. exact vhost_unusable_host. Qed.
Print Assumptions c04_vhost_unusable_host.

(* the precedence for EVERY Host value (unset, empty and malformed ones included): spec_vhost_opt is the maximal
   candidate for a usable Host and the configuration's default entry otherwise *)
Theorem c04_vhost_precedence_any_host : forall c t wl h,
  build c = Ok t -> wl_ok t wl -> find_vhost_with wl t h = spec_vhost_opt c h.
Proof. exact vhost_precedence_any. Qed.
Print Assumptions c04_vhost_precedence_any_host.

(* within the virtual host: the first route in configuration order all of whose matchers hold; None iff none does *)
Theorem c04_first_match : forall rs rq,
  match first_route rs rq with
  | Some r => exists pre post, rs = (pre ++ r :: post)%list /\ route_holds rq r = true /\
                               Forall (fun x => route_holds rq x = false) pre
  | None => Forall (fun x => route_holds rq x = false) rs
  end.
Proof. exact first_route_spec. Qed.
Print Assumptions c04_first_match.

Theorem c04_all_matches : forall rs rq r, In r (all_routes rs rq) <-> In r rs /\ route_holds rq r = true.
Proof. exact all_routes_spec. Qed.
Print Assumptions c04_all_matches.

Theorem c04_first_is_head_of_all : forall rs rq, first_route rs rq = hd_error (all_routes rs rq).
Proof. exact all_routes_head. Qed.
Print Assumptions c04_first_is_head_of_all.

(* the fast index (fastIndex / MatchRouteFromHeaderKV): under key/value it holds the LAST route whose only header
   criterion is key = value.  MatchRoute does not use it; the two theorems after the first say exactly when an indexed
   lookup coincides with the first-match scan (unique key/value, or a single matching route), the last one shows that
   it does not in general - a lookup that consults the index first is not first-match. *)
Theorem c04_fast_index_content : forall rs k v,
  match fast_lookup rs k v with
  | Some r => exists pre post, rs = (pre ++ r :: post)%list /\ index_key_is k v r = true /\
                               Forall (fun x => index_key_is k v x = false) post
  | None => Forall (fun x => index_key_is k v x = false) rs
  end.
Proof. exact fast_lookup_spec. Qed.
Print Assumptions c04_fast_index_content.

Theorem c04_fast_index_finds_first_match : forall rs rq r k v,
  first_route rs rq = Some r -> index_key_is k v r = true ->
  (forall r', In r' rs -> index_key_is k v r' = true -> r' = r) ->
  fast_lookup rs k v = Some r.
Proof. exact fast_lookup_finds_first_match. Qed.
Print Assumptions c04_fast_index_finds_first_match.

Theorem c04_fast_candidate_is_first_match : forall rs rq r k v,
  fast_lookup rs k v = Some r -> route_holds rq r = true ->
  (forall r', In r' rs -> route_holds rq r' = true -> r' = r) ->
  first_route rs rq = Some r.
Proof. exact fast_candidate_is_first_match. Qed.
Print Assumptions c04_fast_candidate_is_first_match.

Theorem c04_fast_index_is_not_first_match :
  let r1 := Build_route (Build_rmatch "/api/v1" "" None [Build_hmatch "x-env" "gray" None] [] []) "first" false in
  let r2 := Build_route (Build_rmatch "/api" "" None [Build_hmatch "x-env" "gray" None] [] []) "second" false in
  let rq := Build_request [("x-mosn-path", "/api/v1/x")] [("x-env", "gray")] [] [] in
  option_map r_cluster (first_route [r1; r2] rq) = Some "first" /\
  option_map r_cluster (fast_lookup [r1; r2] "x-env" "gray") = Some "second".
Proof. exact fast_index_is_not_first_match. Qed.
Print Assumptions c04_fast_index_is_not_first_match.

(* pure: the answer depends on configuration and request only - not on the order the unstable sort produced, and not
   on the other lookups made on the same table (lookups do not change it) *)
Theorem c04_pure : forall c t wl wl' rq,
  build c = Ok t -> wl_ok t wl -> wl_ok t wl' -> match_route_with wl c t rq = match_route_with wl' c t rq.
Proof. exact match_route_order_irrelevant. Qed.
Print Assumptions c04_pure.

Theorem c04_pure_history : forall c t pre rq post,
  nth_error (lookups c t (pre ++ rq :: post)%list) (List.length pre) = Some (match_route c t rq).
Proof. exact lookups_independent. Qed.
Print Assumptions c04_pure_history.

(* non-vacuity: an accepted configuration with every class of domain, and the answers the precedence gives *)
Definition c04_ex_route (cl : string) : route :=
  Build_route (Build_rmatch "/" "" None [] [] []) cl false.
Definition c04_ex_config : config :=
  [ Build_vhost ["A.com:80"] [c04_ex_route "exact-port"];
    Build_vhost ["a.com:*"] [c04_ex_route "exact-any"];
    Build_vhost ["*.com:80"; "*.A.com:80"] [c04_ex_route "wild-port"];
    Build_vhost ["*.com:*"] [c04_ex_route "wild-any"];
    Build_vhost ["*"] [c04_ex_route "default"] ].
Example c04_example :
  exists t, build c04_ex_config = Ok t /\ wl_ok t (wild_for t) /\
    host_parts "a.COM:80" = Some ("a.com", "80") /\
    spec_vhost c04_ex_config "a.COM:80" = Some 0 /\
    spec_vhost c04_ex_config "a.com:81" = Some 1 /\
    spec_vhost c04_ex_config "x.a.com:80" = Some 2 /\
    spec_vhost c04_ex_config "x.b.com:81" = Some 3 /\
    spec_vhost c04_ex_config "z.org" = Some 4 /\
    find_vhost t (Some "X.a.com:80") = Some 2 /\
    host_parts_opt (Some "a:b:c") = None /\ find_vhost t (Some "a:b:c") = Some 4 /\ find_vhost t None = Some 4.
Proof.
  eexists. split; [vm_compute; reflexivity|]. split; [apply wild_for_ok|].
  repeat split; vm_compute; reflexivity.
Qed.
